---------------------------- MODULE Trace_Ceremony ----------------------------
(* Trace validation for C17 part (a).  Every line of the trace is one call of the REAL            *)
(* determineNewIdentityState with its concrete arguments (scores as float32 bit patterns) and the  *)
(* status it returned.  Each line is one Evaluate step of Ceremony.tla: the concrete arguments are *)
(* abstracted by the specification (`Abstract`), and                                               *)
(*   - the property clauses (AbsentNotPromoted, AbsentNotLeftValidated, InviteTerminated,          *)
(*     DeadStaysDead, DeadFixedPoint, IsStatus) evaluated on the OBSERVED new status -> verdict    *)
(*   - the observed new status is compared with Decide (clause "DecisionTable")   -> verdict:      *)
(*     the table is the published rule; reported under its own name so that the integrator can     *)
(*     tell a broken rule of the property statement from a changed table entry                     *)
(*   - a line generated for abstract case `id` whose arguments do not abstract to that case, or    *)
(*     whose arguments lie outside the domain of the table (InDomain), is a fault of the driver's  *)
(*     concretisation ("Concretisation": never a verdict).                                         *)
(* The verdict is delivered by the postcondition: each broken clause once with its first line,     *)
(* followed by annotations in the same format: "expect=<status>" (what Decide says for that line)  *)
(* and, with line 0, "count:<clause>=<number of lines breaking it>".                               *)
EXTENDS Ceremony, Json, IOUtils

Trace == ndJsonDeserialize(IOEnv.TRACE_FILE)
\* 2: number of lines whose result differs from Decide; 3: <<first line, clause>> per broken clause;
\* 4: <<clause, number of lines>> counts
ASSUME TLCSet(2, 0) /\ TLCSet(3, <<>>) /\ TLCSet(4, [c \in {} |-> 0])

VARIABLES l, bad
tvars == <<vars, l, bad>>

Conc(e) == [prev |-> e.prev, req |-> e.req, made |-> e.made, missed |-> e.missed, nqs |-> e.nqs, nql |-> e.nql,
            sb |-> e.sb, sc |-> e.sc, lb |-> e.lb, tb |-> e.tb, tf |-> e.tf, fix |-> e.fix, u10 |-> e.u10, u12 |-> e.u12]

\* clauses a recorded call breaks
BrokenBy(e) ==
    LET i == Abstract(Conc(e))
        p == BrokenClause(i, e.out)
    IN IF ~InDomain(Conc(e)) THEN {"Concretisation"}
       ELSE (IF p # "" THEN {p} ELSE {})
            \cup (IF e.out # Decide(i) THEN {"DecisionTable"} ELSE {})
            \cup (IF e.id >= 0 /\ CaseId(i) # e.id THEN {"Concretisation"} ELSE {})

Expected(e) == IF InDomain(Conc(e)) THEN Decide(Abstract(Conc(e))) ELSE "?"

Bump(f, c) == IF c \in DOMAIN f THEN [f EXCEPT ![c] = @ + 1] ELSE [x \in DOMAIN f \cup {c} |-> IF x = c THEN 1 ELSE f[x]]
RECURSIVE BumpAll(_, _)
BumpAll(f, cs) == IF cs = {} THEN f ELSE LET c == CHOOSE x \in cs : TRUE IN BumpAll(Bump(f, c), cs \ {c})
RECURSIVE AppendAll(_, _, _)
AppendAll(s, n, cs) == IF cs = {} THEN s ELSE LET c == CHOOSE x \in cs : TRUE IN AppendAll(Append(s, <<n, c>>), n, cs \ {c})

TraceInit == l = 1 /\ bad = {} /\ inp = <<>> /\ out = "none"

TDecide == /\ l <= Len(Trace) /\ Trace[l].ev = "Decide" /\ l' = l + 1
           /\ LET e == Trace[l]
                  b == BrokenBy(e)
              IN /\ inp' = Abstract(Conc(e)) /\ out' = e.out
                 /\ bad' = bad \cup b
                 /\ IF b # {} THEN /\ TLCSet(4, BumpAll(TLCGet(4), b))
                                   /\ (IF b \ bad # {}
                                       THEN TLCSet(3, Append(AppendAll(TLCGet(3), l, b \ bad), <<l, "expect=" \o Expected(e)>>))
                                       ELSE TRUE)
                                   /\ (IF "DecisionTable" \in b THEN TLCSet(2, TLCGet(2) + 1) ELSE TRUE)
                    ELSE TRUE

TraceNext == TDecide
TraceSpec == TraceInit /\ [][TraceNext]_tvars

TraceAccepted ==
    LET d == TLCGet("stats").diameter IN
    /\ PrintT(<<"DRIFT", TLCGet(2)>>)
    /\ IF d - 1 = Len(Trace) THEN TRUE ELSE Print(<<"TRACE_REJECTED_AT", d, Len(Trace)>>, FALSE)
    /\ \A i \in 1..Len(TLCGet(3)) : PrintT(<<"CLAUSE_BROKEN", TLCGet(3)[i][1], TLCGet(3)[i][2]>>)
    /\ \A c \in DOMAIN TLCGet(4) : PrintT(<<"CLAUSE_BROKEN", 0, "count:" \o c \o "=" \o ToString(TLCGet(4)[c])>>)
    /\ TLCGet(3) = <<>>
=============================================================================
