CONSTANTS
  Ids = {1, 2, 3}
  SilChoices = {{}, {1}}
  MaxBlocks = 5
  MaxWaits = 2
  MaxCraft = 0
  MaxForce = 0
  MaxByz = 0
  MaxDeaf = 0
  MaxSil = 1
  MaxVal = 1
  MaxTxs = 1
  ExportOn = TRUE
  SampleMod = 1
INIT Init
NEXT Next
VIEW view
INVARIANTS TypeOK OnlineValid ActiveNeverPenalised ClockSane
ACTION_CONSTRAINT ExportVal
CHECK_DEADLOCK FALSE
