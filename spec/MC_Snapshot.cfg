CONSTANTS
  MaxBlocks = 3
  BlockLen = 2
  RootChecked = TRUE
INIT Init
NEXT Next
INVARIANTS ImportAllOrNothing CleanRoundTrip
ACTION_CONSTRAINT Export
CHECK_DEADLOCK FALSE
