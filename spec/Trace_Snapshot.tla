--------------------------- MODULE Trace_Snapshot ---------------------------
(* Trace validation for C11b: every recorded import of a (possibly altered) real snapshot archive   *)
(* into a fresh real state database must be all-or-nothing.                                        *)
EXTENDS Integers, Sequences, FiniteSets, TLC, Json, IOUtils

Trace == ndJsonDeserialize(IOEnv.TRACE_FILE)
ASSUME TLCSet(3, <<>>)
VARIABLES l, bad
vars == <<l, bad>>

Clauses(e) ==
    (IF e.panic THEN {"ImportPanicked"} ELSE {}) \cup
    (IF e.accepted /\ ~(e.rootOk /\ e.contentsEqual) THEN {"AcceptedButDifferent"} ELSE {}) \cup
    (IF ~e.accepted /\ ~e.panic /\ ~e.targetEmpty THEN {"RefusedButLeftState"} ELSE {}) \cup
    (IF e.class = "none" /\ ~e.accepted THEN {"CleanArchiveRefused"} ELSE {})

RECURSIVE Report(_, _)
Report(S, line) == IF S = {} THEN TRUE
                   ELSE LET c == CHOOSE x \in S : TRUE IN TLCSet(3, Append(TLCGet(3), <<line, c>>)) /\ Report(S \ {c}, line)

TraceInit == l = 1 /\ bad = {}
TImport == /\ l <= Len(Trace) /\ Trace[l].ev = "Import" /\ l' = l + 1
           /\ LET b == Clauses(Trace[l]) IN bad' = bad \cup b /\ Report(b, l)
TOther == l <= Len(Trace) /\ Trace[l].ev # "Import" /\ l' = l + 1 /\ UNCHANGED bad
TraceNext == TImport \/ TOther
TraceAccepted ==
    LET d == TLCGet("stats").diameter IN
    /\ IF d - 1 = Len(Trace) THEN TRUE ELSE Print(<<"TRACE_REJECTED_AT", d, Len(Trace)>>, FALSE)
    /\ \A i \in 1..Len(TLCGet(3)) : PrintT(<<"CLAUSE_BROKEN", TLCGet(3)[i][1], TLCGet(3)[i][2]>>)
    /\ TLCGet(3) = <<>>
=============================================================================
