CONSTANTS
  NS = 2
  MaxNonce = 2
  MaxEpoch = 1
  NK = 2
  EL = 1
  PL = 2
  QS = 2
  ES = 2
  CB = 1
  RIC = TRUE
  GasCap = 2
  InitEpochs = {0}
  InitPers = {2, 3}
  ForeignMax = 2
  ExportOn = TRUE
  MaxOps = 4
  SampleMod = 40
  ImportantMod = 4
INIT MInit
NEXT MNext
VIEW view
INVARIANTS TypeOK
PROPERTIES Refines
ACTION_CONSTRAINT Export
CHECK_DEADLOCK FALSE
