----------------------------- MODULE MC_Offline -----------------------------
(* Bounded model of offline detection / penalties / status switching + export of scenarios for replay on     *)
(* real multi-node worlds (harness/cmd/d_offline).                                                           *)
(*                                                                                                          *)
(* Identities Ids own a node each; 0 is the god identity (mines while nobody is online, never goes online    *)
(* here).  Time is counted in units of 900 s and passes in Wait steps only (stretches of uneventful blocks   *)
(* at whose end every awake online identity is heard); rounds take no model time.  One Round = one block:    *)
(* the environment chooses the proposer, the OnlineStatusTx in its mempool, a Byzantine TurnOffline voter,   *)
(* the nodes that miss this round's votes; the honest proposer's Offline flag / address, the validators'     *)
(* verdict, the honest votes and the state change are FUNCTIONS of the state (module Offline).  A Crafted    *)
(* round is a block of a malicious proposer with flags / address of its choosing; Force = a Byzantine        *)
(* committee certifies it although validators refuse it (only block validation stands in the way then).      *)
EXTENDS Offline, Json

CONSTANTS Ids, SilChoices, MaxBlocks, MaxWaits, MaxCraft, MaxForce, MaxByz, MaxDeaf, MaxSil, MaxVal, MaxTxs, ExportOn, SampleMod

\* one unit = 900 s = 20 ticks; a round takes one tick (block times strictly increase)
U == 20
MCfg == [R |-> 3, PD |-> 6 * U, PI |-> 6 * U, VI |-> 3 * U, RI |-> 0, MaxC3 |-> 300]
Cap == 6 * U
God == 0
Nodes == Ids \cup {God}
AllIds == Ids \cup {God}

VARIABLES c,       \* chain state (Offline.tla), functions over AllIds
          h,       \* height
          now,     \* model time (units); block time of the head = now
          prev,    \* Offline flag / address of the head block
          tov,     \* [Nodes -> SUBSET Ids]: TurnOffline voters for the head block heard by each node
          sil,     \* identities whose nodes are silent (no votes, no proposals, no judgement)
          idle,    \* [Ids -> 0..Cap]: units since the identity was last heard (same on every node)
          upAge,   \* 0..Cap: units since the detectors started (all nodes; epoch end restarts them)
          cnt,     \* counters bounding the exploration
          clean,   \* no forced block so far
          everSil, \* identities that were silent at some point
          lab,     \* what the last step was (for the export)
          hist     \* the scenario so far (not in the view)

vars == <<c, h, now, prev, tov, sil, idle, upAge, cnt, clean, everSil, lab, hist>>
view == <<c, h % MCfg.R, prev, tov, sil, idle, upAge, cnt, clean, everSil>>

Zero == [a \in AllIds |-> 0]
Init == /\ c = [online |-> Ids, valid |-> AllIds, pend |-> {}, delayed |-> {}, dc |-> Zero, ps |-> Zero, pts |-> Zero, period |-> 0, net |-> Cardinality(AllIds)]
        /\ h = 1 /\ now = 1 /\ prev = NoOff /\ tov = [n \in Nodes |-> {}] /\ sil = {} /\ idle = [a \in Ids |-> 0] /\ upAge = 0
        /\ cnt = [blk |-> 0, wait |-> 0, craft |-> 0, force |-> 0, byz |-> 0, deaf |-> 0, sil |-> 0, val |-> 0, tx |-> 0]
        /\ clean = TRUE /\ everSil = {} /\ lab = [kind |-> "init"] /\ hist = <<>>

Step(k, d, p, txs, craft, force, byz, deaf, s, fail) ==
    [k |-> k, d |-> d, p |-> p, txs |-> txs, craft |-> craft, force |-> force, byz |-> byz, deaf |-> deaf, s |-> s, fail |-> fail, n |-> 0, x |-> <<>>]

Awake == c.online \ sil                       \* voters / heartbeat senders
Judges == (Ids \ sil) \cup {God}              \* nodes that judge a proposal
Eligible == IF c.online = {} THEN {God} ELSE Awake
Inc(f) == [cnt EXCEPT ![f] = @ + 1]
Bump(x, d) == Min(x + d, Cap)

---------------------------------------------------------------------------
Wait(d) ==
    /\ cnt.wait < MaxWaits
    /\ now' = now + d * U /\ upAge' = Bump(upAge, d * U)
    /\ idle' = [a \in Ids |-> IF a \in Awake THEN 0 ELSE Bump(idle[a], d * U)]
    /\ cnt' = Inc("wait")
    /\ lab' = [kind |-> "wait"]
    /\ hist' = Append(hist, Step("wait", d, 0, <<>>, <<>>, 0, {}, {}, {}, {}))
    /\ UNCHANGED <<c, h, prev, tov, sil, clean, everSil>>

Silence(S) ==
    /\ cnt.sil < MaxSil /\ S # sil
    /\ sil' = S /\ everSil' = everSil \cup S
    /\ cnt' = Inc("sil")
    /\ lab' = [kind |-> "silent"]
    /\ hist' = Append(hist, Step("silent", 0, 0, <<>>, <<>>, 0, {}, {}, S, {}))
    /\ UNCHANGED <<c, h, now, prev, tov, idle, upAge, clean>>

\* the block, the votes and the next state of a round in which `off` is offered by proposer p
Outcome(p, off, txs, byz, deaf, adopted) ==
    LET hh   == h + 1
        com  == IF c.online = {} THEN {God} ELSE c.online
        pd   == ApplyTxs([pend |-> c.pend, dc |-> c.dc], IF adopted THEN txs ELSE <<>>)
        b0   == [h |-> hh, t |-> now + 1, empty |-> ~adopted, snap |-> FALSE, valfin |-> FALSE, idupd |-> FALSE,
                 off |-> IF adopted THEN off ELSE NoOff, txs |-> IF adopted THEN txs ELSE <<>>, com |-> com, prop |-> p]
        b    == [b0 EXCEPT !.idupd = SwitchDue(MCfg, b0, pd)]
        post == ApplyBlock(MCfg, AllIds, c, b, c.valid)
        flag == [v \in Awake |-> v \in byz \/ (adopted /\ HonestVote(MCfg, c, off, v, upAge, IF off.a \in Ids THEN idle[off.a] ELSE -1))]
        heard == {v \in Awake : flag[v]}
    IN [b |-> b, post |-> post, heard |-> heard, pd |-> pd]

Install(o, p, deaf, senders) ==
    /\ c' = [online |-> o.post.online, valid |-> o.post.valid, pend |-> o.post.pend, delayed |-> o.post.delayed, dc |-> o.post.dc,
             ps |-> o.post.ps, pts |-> o.post.pts, period |-> 0, net |-> c.net]
    /\ h' = h + 1 /\ prev' = o.b.off
    /\ tov' = [n \in Nodes |-> IF n \in deaf THEN {} ELSE o.heard]
    /\ idle' = [a \in Ids |-> IF a \in Awake \/ (~o.b.empty /\ (a = p \/ a \in senders)) THEN 0 ELSE idle[a]]
    /\ now' = now + 1
    /\ UNCHANGED <<upAge, sil, everSil>>

Senders(txs) == {txs[i].from : i \in 1..Len(txs)}
OkTxs == {<<>>} \cup {<<[from |-> a, on |-> on]>> : a \in Ids, on \in {0, 1}}
TxsJson(txs) == [i \in 1..Len(txs) |-> <<txs[i].from, txs[i].on>>]

Kind(o, honest, adopted, forced, off) ==
    IF ~honest THEN "craft:" \o (IF Inconsistency(c, prev, off) = "" THEN "consistent" ELSE Inconsistency(c, prev, off)) \o
                    (IF forced THEN ":forced" ELSE IF adopted THEN ":adopted" ELSE ":refused") \o
                    \* a consistent proposal of a malicious proposer: how long the target has not been heard decides the honest votes
                    (IF off.f = 1 /\ adopted /\ ~forced /\ off.a \in Ids
                     THEN (IF idle[off.a] >= MCfg.PI THEN ":idle-long" ELSE IF idle[off.a] > MCfg.VI THEN ":idle-mid" ELSE ":heard") ELSE "")
    ELSE IF off.f = 2 /\ ~adopted THEN "commit-refused"
    ELSE IF off.f = 1 /\ ~adopted THEN "propose-refused"
    ELSE IF off.f = 2 THEN "commit"
    ELSE IF off.f = 1 THEN "propose"
    ELSE IF o.b.idupd /\ DSet(o.pd.dc) # {} THEN "penalty"
    ELSE IF c.dc # o.pd.dc THEN "cancel"
    ELSE IF o.b.idupd /\ o.post.online \ c.online # {} THEN "switch-on"
    ELSE IF o.b.idupd /\ c.online \ o.post.online # {} THEN "switch-off"
    ELSE IF o.post.ps # c.ps THEN "serve"
    ELSE IF o.heard # {} THEN "byz-vote"
    ELSE "plain"

Round(p, txs, byz, deaf) ==
    /\ cnt.blk < MaxBlocks /\ p \in Eligible
    /\ (txs # <<>> => cnt.tx < MaxTxs) /\ \A i \in 1..Len(txs) : TxClass(c, txs[i].from, txs[i].on = 1) = "ok"
    /\ (byz # {} => cnt.byz < MaxByz) /\ byz \subseteq Awake
    /\ (deaf # {} => cnt.deaf < MaxDeaf)
    /\ \E off \in HonestOff(MCfg, c, prev, p, upAge, [a \in AllIds |-> IF a \in Ids THEN idle[a] ELSE 0], [a \in AllIds |-> -1], tov[p]) :
         LET adopted == \A v \in Judges : DetAccepts(MCfg, c, prev, off, tov[v])
             o == Outcome(p, off, txs, byz, deaf, adopted)
         IN /\ Install(o, p, deaf, Senders(txs))
            /\ lab' = [kind |-> Kind(o, TRUE, adopted, FALSE, off)]
    /\ cnt' = [cnt EXCEPT !.blk = @ + 1, !.tx = @ + (IF txs # <<>> THEN 1 ELSE 0), !.byz = @ + (IF byz # {} THEN 1 ELSE 0),
                          !.deaf = @ + (IF deaf # {} THEN 1 ELSE 0)]
    /\ clean' = clean
    /\ hist' = Append(hist, Step("round", 0, p, TxsJson(txs), <<>>, 0, byz, deaf, {}, {}))

Crafted(p, off, force) ==
    /\ cnt.blk < MaxBlocks /\ cnt.craft < MaxCraft /\ p \in Eligible /\ p # God
    /\ (force = 1 => cnt.force < MaxForce)
    /\ LET accept == \A v \in Judges : DetAccepts(MCfg, c, prev, off, tov[v])
           forced == ~accept /\ force = 1 /\ ~ChainMustRefuse(off)
           adopted == accept \/ forced
           o == Outcome(p, off, <<>>, {}, {}, adopted)
       IN /\ (force = 1 => ~accept)
          /\ Install(o, p, {}, {})
          /\ lab' = [kind |-> Kind(o, FALSE, adopted, forced, off)]
          /\ clean' = (clean /\ ~forced)
    /\ cnt' = [cnt EXCEPT !.blk = @ + 1, !.craft = @ + 1, !.force = @ + force]
    /\ hist' = Append(hist, Step("round", 0, p, <<>>, <<off.f, off.a>>, force, {}, {}, {}, {}))

\* a whole validation ceremony: pending switches and delayed penalties are applied on the way, every penalty is cleared,
\* the identities in F lose their validation, the detectors restart
Val(F) ==
    /\ cnt.val < MaxVal /\ c.online # {} /\ Awake # {}
    /\ LET goOff == c.pend \cap c.online
           goOn == {a \in c.pend \ c.online : a \in c.valid}
           on == (((c.online \ goOff) \cup goOn) \ c.delayed) \ F
       IN c' = [c EXCEPT !.online = on, !.valid = @ \ F, !.pend = {}, !.delayed = {}, !.dc = Zero, !.ps = Zero, !.pts = Zero, !.net = Cardinality(c.valid \ F)]
    /\ h' = h + 20 /\ now' = now + 2 * U /\ prev' = NoOff /\ tov' = [n \in Nodes |-> {}]
    /\ idle' = [a \in Ids |-> 0] /\ upAge' = 0
    /\ cnt' = Inc("val") /\ lab' = [kind |-> "val"]
    /\ hist' = Append(hist, Step("val", 0, 0, <<>>, <<>>, 0, {}, {}, {}, F))
    /\ UNCHANGED <<sil, clean, everSil>>

Offs == {[f |-> f, a |-> a] : f \in 0..3, a \in Ids \cup {NoAddr}} \ {[f |-> 0, a |-> a] : a \in Ids}

One(S) == {{}} \cup {{x} : x \in S}
Next == \/ \E d \in {2, 6} : Wait(d)
        \/ \E S \in SilChoices : Silence(S)
        \/ \E p \in Nodes : Round(p, <<>>, {}, {})
        \/ \E p \in Nodes, txs \in OkTxs \ {<<>>} : Round(p, txs, {}, {})
        \/ \E p \in Nodes, byz \in One(Ids) \ {{}} : Round(p, <<>>, byz, {})
        \/ \E p \in Nodes, deaf \in One(Ids) \ {{}} : Round(p, <<>>, {}, deaf)
        \/ \E p \in Ids, off \in Offs, force \in {0, 1} : Crafted(p, off, force)
        \/ \E F \in One(Ids) : Val(F)

Spec == Init /\ [][Next]_vars

---------------------------------------------------------------------------
(* design-level invariants *)

TypeOK == /\ c.online \subseteq Ids /\ c.pend \subseteq Ids /\ c.delayed \subseteq Ids
          /\ \A a \in AllIds : c.ps[a] \in 0..MCfg.PD /\ c.pts[a] >= 0
          /\ \A n \in Nodes : tov[n] \subseteq Ids

\* only validated identities are online (no pools in the model)
OnlineValid == c.online \subseteq c.valid

\* with fewer Byzantine voters than the TurnOffline threshold and no Byzantine committee, an identity whose node was
\* never silent is never penalised and never awaits a penalty
ActiveNeverPenalised == clean => (c.delayed \cup {a \in Ids : c.ps[a] > 0}) \subseteq everSil

\* a penalty clock only runs for online identities that still owe penalty time
ClockSane == \A a \in Ids : c.pts[a] > 0 => (c.ps[a] > 0 /\ a \in c.online)

---------------------------------------------------------------------------
(* export: one scenario per interesting transition (sampled), the kind names the transition class *)
Boring == {"wait", "silent", "plain", "init"}
Rare == {"craft:consistent:adopted:idle-mid", "craft:commit-for-other-address:refused", "craft:consistent:refused"}
Export == IF ExportOn /\ lab'.kind \notin Boring /\ (lab'.kind \in Rare \/ RandomElement(1..SampleMod) = 1)
          THEN PrintT(ToJson([kind |-> lab'.kind, nval |-> Cardinality(AllIds), steps |-> hist']))
          ELSE TRUE
\* ceremony family (MC_Offline_val.cfg): every transition of a behaviour that went through a validation ceremony
HasVal == \E i \in 1..Len(hist') : hist'[i].k = "val"
ExportVal == IF ExportOn /\ HasVal /\ lab'.kind \notin {"wait", "silent", "init"} /\ RandomElement(1..SampleMod) = 1
             THEN PrintT(ToJson([kind |-> "val:" \o lab'.kind, nval |-> Cardinality(AllIds), steps |-> hist']))
             ELSE TRUE
\* simulation export: every step (the runner keeps the maximal walks)
ExportAll == IF ExportOn THEN PrintT(ToJson([kind |-> "walk", nval |-> Cardinality(AllIds), steps |-> hist'])) ELSE TRUE
=============================================================================
