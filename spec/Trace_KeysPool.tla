---------------------------- MODULE Trace_KeysPool ----------------------------
(* Trace validation for the growth module "KEYS" of C16 (publication and delivery of flip keys through the    *)
(* key pools).  Each line is one step of a real multi-node world driven by harness/cmd/d_keys:               *)
(*   World    a new scenario (identities, the pre-built messages it may use)                                 *)
(*   Boot     a node of the scenario was booted at "Ready"                                                  *)
(*   Rel      the network produced the next chain segment (virtual time passed)                             *)
(*   Adv      a node added its next segment (its ceremony reacted: publications are listed)                 *)
(*   Timer    the node's short-session timer fired        Delayed  its delayed package broadcast ran        *)
(*   Dlv      messages were handed to the node's pool (one by one / as the asynchronous pool's batches /     *)
(*            through the real asynchronous pool), with the pool's answers                                  *)
(*   Restart  the node's process restarted over its database                                                *)
(*   Sync     a peer asked what the pool offers (priority keys, keys, priority packages, packages)           *)
(* Every line but Rel / World carries what the node's pool holds AFTER the step (memory, disk, what it        *)
(* serves by hash), the node's view of the chain, and - except Sync - what the node's identity can decrypt    *)
(* per author (sol).  The specification carries the pools it has seen and evaluates the property clauses on   *)
(* every step; `bad` collects the clauses some observed step breaks (first line each), the postcondition      *)
(* reports them.  Where the model additionally predicts exact behaviour (answers, publication moments, flags, *)
(* offer counters) a disagreement that breaks no clause is counted as drift.                                 *)
EXTENDS KeysPool, Json, IOUtils

Trace == ndJsonDeserialize(IOEnv.TRACE_FILE)
ASSUME TLCSet(3, <<>>)
ASSUME TLCSet(4, <<>>)    \* drift: <<line, what>>
ASSUME TLCSet(5, 0)       \* pairs of nodes compared by OrderIndependent with equal inputs
ASSUME TLCSet(6, 0)       \* (solver, author) pairs on which KeyReach had to hold
ASSUME TLCSet(7, 0)       \* (solver, author) pairs on which NoForeignReach had to hold

U == 0..31

VARIABLES l, pl, pp, fl, clk, tab, got, ownpub, maxs, bad
tvars == <<l, pl, pp, fl, clk, tab, got, ownpub, maxs, bad>>

SetOf(s) == {s[i] : i \in 1..Len(s)}
Rec(r) == [id |-> r[1], kd |-> r[2], snd |-> r[3], ep |-> r[4], c |-> r[5]]
Recs(rs) == [i \in 1..Len(rs) |-> Rec(rs[i])]
ExtTab(t, rs) == LET new == {rs[i][1] : i \in 1..Len(rs)}
                 IN [i \in DOMAIN t \cup new |-> IF i \in DOMAIN t THEN t[i] ELSE Rec(rs[CHOOSE j \in 1..Len(rs) : rs[j][1] = i])]

\* bookkeeping of broken clauses: each clause name is reported once, with the first line that breaks it
Note(S) == /\ bad' = bad \cup S
           /\ \A x \in S \ bad : TLCSet(3, Append(TLCGet(3), <<l, x>>))
If(cond, name) == IF cond THEN {} ELSE {name}
Drift(what, cond) == IF cond THEN TRUE ELSE TLCSet(4, Append(TLCGet(4), <<l, what>>))
Count(i, n) == IF n = 0 THEN TRUE ELSE TLCSet(i, TLCGet(i) + n)

---------------------------------------------------------------------------
(* the observed pool *)
Idx(s, a) == CHOOSE i \in 1..Len(s) : s[i][1] = a
Has1(s, a) == \E i \in 1..Len(s) : s[i][1] = a
KeysOf(p) == [a \in U |-> IF Has1(p.keys, a) THEN p.keys[Idx(p.keys, a)][2] ELSE None]
PkgsOf(p) == [a \in U |-> IF Has1(p.pkgs, a) THEN p.pkgs[Idx(p.pkgs, a)][2] ELSE None]
OwnOf(p) == {p.keys[i][2] : i \in {j \in 1..Len(p.keys) : p.keys[j][4] = 1}} \cup {p.pkgs[i][2] : i \in {j \in 1..Len(p.pkgs) : p.pkgs[j][6] = 1}}
KShard(p) == [a \in U |-> IF Has1(p.keys, a) THEN p.keys[Idx(p.keys, a)][5] ELSE 0]
PShard(p) == [a \in U |-> IF Has1(p.pkgs, a) THEN p.pkgs[Idx(p.pkgs, a)][7] ELSE 0]
KCntObs(p) == [a \in U |-> IF Has1(p.keys, a) THEN p.keys[Idx(p.keys, a)][6] ELSE 0]
\* entries the books of the specification have no place for: held under the name of nobody / of a stranger, content that no
\* message of the scenario has, a sender holding two entries, a package known by sender but not by hash or the reverse
Odd(p) == \/ \E i \in 1..Len(p.keys) : p.keys[i][1] \notin U \/ p.keys[i][2] < 1
          \/ \E i \in 1..Len(p.pkgs) : p.pkgs[i][1] \notin U \/ p.pkgs[i][2] < 1 \/ p.pkgs[i][4] # 1 \/ p.pkgs[i][5] # 1
          \/ \E i \in 1..Len(p.keys), j \in 1..Len(p.keys) : i # j /\ p.keys[i][1] = p.keys[j][1]
          \/ \E i \in 1..Len(p.pkgs), j \in 1..Len(p.pkgs) : i # j /\ p.pkgs[i][1] = p.pkgs[j][1]
ObsPool(p, cnts) == [keys |-> KeysOf(p), pkgs |-> PkgsOf(p), own |-> OwnOf(p), stop |-> p.stop = 1, kcnt |-> cnts.kcnt, pcnt |-> cnts.pcnt]
PkgIds(p) == {p.pkgs[i][2] : i \in 1..Len(p.pkgs)}
KeyIds(p) == {p.keys[i][2] : i \in 1..Len(p.keys)}
ViewOf(v) == [ep |-> v.ep, au |-> SetOf(v.au)]

\* the pool serves by hash exactly the packages it holds, with the bytes it was given; what it holds is on disk and nothing else is
Served(p) == SetOf(p.has) = PkgIds(p)
Persisted(p) == SetOf(p.dk) = KeyIds(p) /\ SetOf(p.dp) = PkgIds(p)

---------------------------------------------------------------------------
(* admission clauses for a step in which the messages ms (records, in order) reached the pool `before` under `view`   *)
(* (own = published by the node's own ceremony) and the pool `obs` was observed afterwards                            *)
RECURSIVE AdmitSeq(_, _, _, _, _)
AdmitSeq(t, pool, view, ms, own) ==
    IF ms = <<>> THEN pool ELSE AdmitSeq(t, Admit(t, U, pool, view, Head(ms), own), view, Tail(ms), own)
RECURSIVE CodesSeq(_, _, _, _)
CodesSeq(t, pool, view, ms) ==
    IF ms = <<>> THEN <<>> ELSE <<CodeOf(t, U, pool, view, Head(ms))>> \o CodesSeq(t, Admit(t, U, pool, view, Head(ms), FALSE), view, Tail(ms))

NewlyOk(t, view, before, obs, kd) ==
    \A a \in U : LET h == IF kd = 0 THEN obs.keys[a] ELSE obs.pkgs[a]
                     b == IF kd = 0 THEN before.keys[a] ELSE before.pkgs[a]
                 IN (h # None /\ h # b) => (h \in DOMAIN t /\ t[h].kd = kd /\ t[h].snd = a /\ Reason(view, t[h]) = "ok")
Kept(before, obs) == \A a \in U : /\ (before.keys[a] # None => obs.keys[a] = before.keys[a])
                                  /\ (before.pkgs[a] # None => obs.pkgs[a] = before.pkgs[a])
Accepted(exp, obs) == \A a \in U : /\ (exp.keys[a] # None => obs.keys[a] # None)
                                   /\ (exp.pkgs[a] # None => obs.pkgs[a] # None)
AdmissionClauses(t, view, before, exp, obs, rawp) ==
    If(~Odd(rawp) /\ NewlyOk(t, view, before, obs, 0) /\ NewlyOk(t, view, before, obs, 1), "Admission")
    \cup If(Kept(before, obs), "OnePerAuthorEpoch")
    \cup If(Accepted(exp, obs), "AdmitValid")
    \cup If(obs.keys = exp.keys /\ obs.pkgs = exp.pkgs, "FirstWins")
    \cup If(Served(rawp), "ServedIsHeld")

\* OrderIndependent on the observed pools: node n (inputs g, pool obs) against every other node with the same inputs
NoCompetition(t, S) == \A x \in S, y \in S : (x[2] = "ok" /\ y[2] = "ok" /\ t[x[1]].kd = t[y[1]].kd /\ t[x[1]].snd = t[y[1]].snd) => x[1] = y[1]
Peers(t, n, g) == {m \in U \ {n} : g # {} /\ got[m] = g /\ NoCompetition(t, g)}
OrderClause(t, n, g, obs) == If(\A m \in Peers(t, n, g) : pl[m].keys = obs.keys /\ pl[m].pkgs = obs.pkgs, "OrderIndependent")

Inputs(view, ms) == {<<ms[i].id, Reason(view, ms[i])>> : i \in 1..Len(ms)}

---------------------------------------------------------------------------
(* what the node's identity can decrypt: sol row = <<author, recipient?, assigned flips, decrypted, other flips tried,  *)
(* other flips decrypted, leak, first error>>                                                                          *)
Cls(t, id) == IF id \in DOMAIN t THEN t[id].c ELSE "?"
Reachable(t, v, obs, a) == /\ v.lot = 1 /\ a \in U /\ obs.keys[a] # None /\ obs.pkgs[a] # None
                           /\ Cls(t, obs.keys[a]) = "g" /\ Cls(t, obs.pkgs[a]) \in {"g", "e"}
Unkeyed(v, obs, a) == v.lot = 0 \/ a \notin U \/ obs.keys[a] = None \/ obs.pkgs[a] = None
SolClauses(t, v, obs, sol) ==
    If(\A i \in 1..Len(sol) : Reachable(t, v, obs, sol[i][1]) => sol[i][4] = sol[i][3], "KeyReach")
    \cup If(\A i \in 1..Len(sol) : sol[i][3] > 0 => sol[i][2] = 1, "AssignedIsRecipient")
    \cup If(\A i \in 1..Len(sol) : sol[i][2] = 0 => (sol[i][4] = 0 /\ sol[i][6] = 0 /\ sol[i][7] = 0), "NoForeignReach")
    \cup If(\A i \in 1..Len(sol) : Unkeyed(v, obs, sol[i][1]) => (sol[i][4] = 0 /\ sol[i][6] = 0 /\ sol[i][7] = 0), "NoKeyNoReach")
SolCount(t, v, obs, sol) ==
    /\ Count(6, Cardinality({i \in 1..Len(sol) : Reachable(t, v, obs, sol[i][1]) /\ sol[i][3] > 0}))
    /\ Count(7, Cardinality({i \in 1..Len(sol) : sol[i][2] = 0 /\ v.lot = 1 /\ ~Unkeyed(v, obs, sol[i][1])}))

\* publication clauses: what the node's own ceremony announced in this step
PubClauses(n, v, pubs) ==
    If(\A i \in 1..Len(pubs) : pubs[i].snd = n /\ pubs[i].ep = v.ep /\ n \in SetOf(v.au), "GenuineOwn")
    \cup If(\A i \in 1..Len(pubs) : pubs[i].kd = 0 => v.t >= v.v, "NoEarlyReveal")
    \cup If(\A i \in 1..Len(pubs) : pubs[i].kd = 1 => v.lot = 1, "PkgAfterLottery")
SessionClause(n, v, obs) ==
    If((v.per \in 2..4 /\ n \in SetOf(v.au)) => (obs.keys[n] # None /\ obs.pkgs[n] # None), "PublishedBySession")
\* only what the node's own ceremony published in this process incarnation is flagged high priority
PrioClause(obs, mine) == If(obs.own \subseteq mine, "PriorityOnlyOwn")

Flags(v) == [ks |-> v.ks = 1, ps |-> v.ps = 1, armed |-> v.timer = 1, delayed |-> v.delayed = 1]
NoFlags == [ks |-> FALSE, ps |-> FALSE, armed |-> FALSE, delayed |-> FALSE]
Zero == [a \in U |-> 0]
Cnts(p) == [kcnt |-> p.kcnt, pcnt |-> p.pcnt]
ZeroC == [kcnt |-> Zero, pcnt |-> Zero]

\* the model's prediction of a ceremony reaction (kinds published, in order), for drift
RECURSIVE PredDid(_, _, _, _, _, _)
PredDid(t, n, p, v, st, kds) ==
    IF kds = <<>> THEN st
    ELSE LET kd == Head(kds)
             sent == IF kd = 0 THEN st.ks ELSE st.ps
             skip == sent \/ n \notin v.au \/ (kd = 1 /\ ~LotteryAt(p))
             held == IF kd = 0 THEN st.pool.keys[n] ELSE st.pool.pkgs[n]
         IN PredDid(t, n, p, v,
                    IF skip THEN st
                    ELSE [pool |-> IF held # None THEN st.pool
                                   ELSE IF kd = 0 THEN [st.pool EXCEPT !.keys[n] = -1] ELSE [st.pool EXCEPT !.pkgs[n] = -1],
                          ks |-> IF kd = 0 THEN TRUE ELSE st.ks, ps |-> IF kd = 1 THEN TRUE ELSE st.ps,
                          did |-> IF held = None THEN Append(st.did, kd) ELSE st.did],
                    Tail(kds))
Kinds(pubs) == [i \in 1..Len(pubs) |-> pubs[i].kd]

---------------------------------------------------------------------------
TraceInit == /\ l = 1 /\ bad = {} /\ clk = 0 /\ maxs = 20
             /\ pl = [n \in U |-> EmptyPool(U)] /\ pp = [n \in U |-> 0] /\ fl = [n \in U |-> NoFlags]
             /\ tab = [i \in {} |-> 0] /\ got = [n \in U |-> {}] /\ ownpub = [n \in U |-> {}]

TWorld ==
    /\ l <= Len(Trace) /\ Trace[l].ev = "World" /\ l' = l + 1
    /\ LET e == Trace[l] IN
       /\ tab' = ExtTab([i \in {} |-> 0], e.tab) /\ maxs' = e.maxsync
       /\ pl' = [n \in U |-> EmptyPool(U)] /\ pp' = [n \in U |-> 0] /\ fl' = [n \in U |-> NoFlags]
       /\ got' = [n \in U |-> {}] /\ ownpub' = [n \in U |-> {}] /\ clk' = 0
    /\ UNCHANGED bad

TRel ==
    /\ l <= Len(Trace) /\ Trace[l].ev = "Rel" /\ l' = l + 1
    /\ clk' = Trace[l].clk
    /\ UNCHANGED <<pl, pp, fl, tab, got, ownpub, maxs, bad>>

TBoot ==
    /\ l <= Len(Trace) /\ Trace[l].ev = "Boot" /\ l' = l + 1
    /\ LET e == Trace[l]
           n == e.n
           obs == ObsPool(e.pool, ZeroC)
       IN /\ Note(If(~Odd(e.pool) /\ HeldIds(U, obs) = {} /\ e.pool.has = <<>>, "Admission")
                  \cup SolClauses(tab, e.view, obs, e.sol))
          /\ pl' = [pl EXCEPT ![n] = obs] /\ pp' = [pp EXCEPT ![n] = e.view.pos] /\ fl' = [fl EXCEPT ![n] = Flags(e.view)]
    /\ UNCHANGED <<clk, tab, got, ownpub, maxs>>

\* Adv, Timer, Delayed, Restart: the node's ceremony may publish; base = the pool the publications meet
Ceremony(e, base, baseFlags, kds, clears, restart) ==
    LET n == e.n
        v == e.view
        vw == ViewOf(v)
        pubs == Recs(e.pubs)
        t2 == ExtTab(tab, e.pubs)
        exp == AdmitSeq(t2, base, vw, pubs, TRUE)
        obs == ObsPool(e.pool, Cnts(exp))
        mine == (IF clears \/ restart THEN {} ELSE ownpub[n]) \cup {pubs[i].id : i \in 1..Len(pubs)}
        g == (IF clears THEN {} ELSE got[n]) \cup Inputs(vw, pubs)
        pred == PredDid(t2, n, v.pos, vw, [pool |-> base, ks |-> baseFlags.ks, ps |-> baseFlags.ps, did |-> <<>>], kds)
    IN /\ Note(AdmissionClauses(t2, vw, base, exp, obs, e.pool)
               \cup PubClauses(n, v, pubs) \cup SessionClause(n, v, obs) \cup PrioClause(obs, mine)
               \cup SolClauses(t2, v, obs, e.sol) \cup OrderClause(t2, n, g, obs)
               \cup If(clears => (HeldIds(U, obs) = {} /\ e.pool.has = <<>> /\ e.pool.cache = <<>> /\ ~obs.stop /\ obs.own = {}), "ClearedAtEpoch")
               \cup If(restart => Kept(base, obs), "RestartKeepsAdmitted"))
       /\ SolCount(t2, v, obs, e.sol)
       /\ Count(5, Cardinality(Peers(t2, n, g)))
       /\ Drift("publication-moment", Kinds(pubs) = pred.did) /\ Drift("persisted", Persisted(e.pool)) /\ Drift("own-flags", obs.own = mine \cap HeldIds(U, obs))
       /\ Drift("sent-flags", (v.ks = 1 <=> pred.ks) /\ (v.ps = 1 <=> pred.ps))
       /\ tab' = t2
       /\ pl' = [pl EXCEPT ![n] = obs] /\ pp' = [pp EXCEPT ![n] = v.pos] /\ fl' = [fl EXCEPT ![n] = Flags(v)]
       /\ got' = [got EXCEPT ![n] = g] /\ ownpub' = [ownpub EXCEPT ![n] = mine]

TAdv ==
    /\ l <= Len(Trace) /\ Trace[l].ev = "Adv" /\ l' = l + 1
    /\ LET e == Trace[l]
           n == e.n
           p == e.view.pos
           clears == p = 7
           base == IF clears THEN EmptyPool(U) ELSE pl[n]
           bf == IF clears THEN NoFlags ELSE fl[n]
           \* the delayed package broadcast draws its delay from 0..119 s: a zero draw publishes at once (no goroutine is left parked)
           now == IF RelPos(p) = 1 /\ e.view.delayed = 0 THEN <<1>> ELSE <<>>
       IN /\ Ceremony(e, base, bf, Attempts(p, clk) \o now, clears, FALSE)
          /\ Drift("position", p = pp[n] + 1)
          /\ Drift("stop-flag", (e.pool.stop = 1) = StopAfter(p, clk, base.stop))
          /\ Drift("delayed-flag", (e.view.delayed = 1) = (IF RelPos(p) = 1 THEN e.view.delayed = 1 ELSE IF clears THEN FALSE ELSE fl[n].delayed))
    /\ UNCHANGED <<clk, maxs>>

TTimer ==
    /\ l <= Len(Trace) /\ Trace[l].ev = "Timer" /\ l' = l + 1
    /\ LET e == Trace[l]
           n == e.n
       IN /\ Ceremony(e, pl[n], fl[n], IF RelPos(pp[n]) \in 1..6 THEN <<0>> ELSE <<>>, FALSE, FALSE)
          /\ Drift("timer-armed", fl[n].armed /\ AfterV(pp[n], clk))
    /\ UNCHANGED <<clk, maxs>>

TDelayed ==
    /\ l <= Len(Trace) /\ Trace[l].ev = "Delayed" /\ l' = l + 1
    /\ LET e == Trace[l]
           n == e.n
       IN /\ Ceremony(e, pl[n], fl[n], <<1>>, FALSE, FALSE)
          /\ Drift("delayed-armed", fl[n].delayed)
    /\ UNCHANGED <<clk, maxs>>

TRestart ==
    /\ l <= Len(Trace) /\ Trace[l].ev = "Restart" /\ l' = l + 1
    /\ LET e == Trace[l]
           n == e.n
           p == pp[n]
           base == RestartPool(U, IF p = 7 THEN EmptyPool(U) ELSE pl[n], StopAfterRestart(p, clk))
           now == IF RelPos(p) = 1 /\ e.view.delayed = 0 THEN <<1>> ELSE <<>>
       IN /\ Ceremony(e, base, NoFlags, Attempts(p, clk) \o now, FALSE, TRUE)
          /\ Drift("stop-flag", (e.pool.stop = 1) = StopAfter(p, clk, base.stop))
          /\ Drift("timer-flag", (e.view.timer = 1) = ArmedAfterRestart(p, clk))
    /\ UNCHANGED <<clk, maxs>>

TDlv ==
    /\ l <= Len(Trace) /\ Trace[l].ev = "Dlv" /\ l' = l + 1
    /\ LET e == Trace[l]
           n == e.n
           v == e.view
           vw == ViewOf(v)
           ms == Recs(e.ms)
           t2 == ExtTab(tab, e.ms)
           exp == AdmitSeq(t2, pl[n], vw, ms, FALSE)
           obs == ObsPool(e.pool, Cnts(exp))
           g == got[n] \cup Inputs(vw, ms)
           codes == CodesSeq(t2, pl[n], vw, ms)
       IN /\ Note(AdmissionClauses(t2, vw, pl[n], exp, obs, e.pool)
                  \cup SessionClause(n, v, obs) \cup PrioClause(obs, ownpub[n])
                  \cup If(e.pubs = <<>>, "GenuineOwn")
                  \cup SolClauses(t2, v, obs, e.sol) \cup OrderClause(t2, n, g, obs))
          /\ SolCount(t2, v, obs, e.sol)
          /\ Count(5, Cardinality(Peers(t2, n, g)))
          /\ Drift("answer", \A i \in 1..Len(ms) : e.codes[i] = "?" \/ e.codes[i] = codes[i])
          /\ Drift("persisted", Persisted(e.pool)) /\ Drift("own-flags", obs.own = pl[n].own) /\ Drift("stop-flag", obs.stop = pl[n].stop)
          /\ tab' = t2 /\ pl' = [pl EXCEPT ![n] = obs] /\ got' = [got EXCEPT ![n] = g]
          /\ fl' = [fl EXCEPT ![n] = Flags(v)]
    /\ UNCHANGED <<pp, clk, ownpub, maxs>>

Ids(t, S, kd, pool) == {IF kd = 0 THEN pool.keys[a] ELSE pool.pkgs[a] : a \in S}
TSync ==
    /\ l <= Len(Trace) /\ Trace[l].ev = "Sync" /\ l' = l + 1
    /\ LET e == Trace[l]
           n == e.n
           p == pl[n]
           nf == e.nf = 1
           ks == KShard(e.pool)
           ps == PShard(e.pool)
           mustK == Ids(tab, OfferK(U, p, ks, e.sh, nf, maxs), 0, p)
           mustP == Ids(tab, OfferP(U, p, ps, e.sh, nf, maxs), 1, p)
           prioK == Ids(tab, PrioK(U, p), 0, p)
           prioP == Ids(tab, PrioP(U, p), 1, p)
           all == SetOf(e.pk) \cup SetOf(e.k) \cup SetOf(e.pp) \cup SetOf(e.p)
           obs == ObsPool(e.pool, Cnts(p))
           \* an admitted public key is withheld although this pool has not offered it more than maxFlipKeySyncCounts times in
           \* the running epoch: the pool's own counter of the SENDER says otherwise - it was carried over from an earlier epoch
           stale == {a \in U : p.keys[a] \in mustK \ SetOf(e.k) /\ p.keys[a] # None /\ pp[n] >= 7 /\ KCntObs(e.pool)[a] > maxs}
           missK == (mustK \ SetOf(e.k)) \ {p.keys[a] : a \in stale}
       IN /\ Note(If(all \subseteq HeldIds(U, p), "ServeOnlyAdmitted")
                  \cup If(p.stop => all = {}, "StoppedServesNothing")
                  \cup If((SetOf(e.pk) \cup SetOf(e.pp)) \subseteq p.own /\ (SetOf(e.k) \cup SetOf(e.p)) \cap p.own = {}, "PriorityOnlyOwn")
                  \cup If(missK = {} /\ mustP \subseteq SetOf(e.p) /\ prioK \subseteq SetOf(e.pk) /\ prioP \subseteq SetOf(e.pp), "OfferAdmitted")
                  \cup If(stale = {}, "OfferAdmitted:key-counter-survived-epoch")
                  \cup If(obs.keys = p.keys /\ obs.pkgs = p.pkgs, "OnePerAuthorEpoch")
                  \cup If(Served(e.pool), "ServedIsHeld"))
          /\ Drift("offer-exact", SetOf(e.k) = mustK /\ SetOf(e.p) = mustP /\ SetOf(e.pk) = prioK /\ SetOf(e.pp) = prioP)
          /\ pl' = [pl EXCEPT ![n] = AfterSync(U, p, ks, ps, e.sh, nf, maxs)]
    /\ UNCHANGED <<pp, fl, clk, tab, got, ownpub, maxs>>

TraceNext == TWorld \/ TRel \/ TBoot \/ TAdv \/ TTimer \/ TDelayed \/ TRestart \/ TDlv \/ TSync
TraceSpec == TraceInit /\ [][TraceNext]_tvars

TraceAccepted ==
    LET d == TLCGet("stats").diameter IN
    /\ IF d - 1 = Len(Trace) THEN TRUE ELSE Print(<<"TRACE_REJECTED_AT", d, Len(Trace)>>, FALSE)
    /\ PrintT(<<"DRIFT", Len(TLCGet(4))>>)
    /\ \A i \in 1..(IF Len(TLCGet(4)) < 400 THEN Len(TLCGet(4)) ELSE 400) : PrintT(<<"DRIFT_AT", TLCGet(4)[i][1], TLCGet(4)[i][2]>>)
    /\ PrintT(<<"ORDER_PAIRS", TLCGet(5)>>) /\ PrintT(<<"REACH_PAIRS", TLCGet(6)>>) /\ PrintT(<<"FOREIGN_PAIRS", TLCGet(7)>>)
    /\ \A i \in 1..Len(TLCGet(3)) : PrintT(<<"CLAUSE_BROKEN", TLCGet(3)[i][1], TLCGet(3)[i][2]>>)
    /\ TLCGet(3) = <<>>
=============================================================================
