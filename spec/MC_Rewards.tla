----------------------------- MODULE MC_Rewards -----------------------------
(* Bounded model of the epoch reward distribution + export of population shapes for replay on real chains          *)
(* (harness/cmd/d_rewards).                                                                                        *)
(*                                                                                                                *)
(* A population is built identity by identity (Join: a profile = previous status x outcome x age class x stake     *)
(* class x delegation x flips by class), then related (Relate: whose reported flip an identity reported, who       *)
(* invited it), then the six real steps of rewardValidIdentities distribute (module Rewards).  The environment     *)
(* choices are exactly the population; everything the distribution does is a FUNCTION of it.  TLC enumerates the   *)
(* populations of the configured family exhaustively (single: one identity with the full profile domain under      *)
(* every consensus version; pair: two identities with every relation between them; trio) and walks larger ones    *)
(* at random (-simulate, up to 5 identities); the design invariants of Rewards are checked on every state, and      *)
(* every finished distribution is exported as a case (the glue picks cases per distinct entitlement pattern).      *)
EXTENDS Rewards, Json

CONSTANTS N,            \* identities 1..N (0 is the god address)
          Upgs,         \* consensus versions explored (9 .. 12)
          Gods,         \* "V": the god address is a validated identity, "U": it has no identity
          Pools,        \* 0 = the pool is an address without identity, 1 = identity 1 is the pool
          PrevSet,      \* previous statuses explored
          OutSet,       \* new statuses explored
          GoodSet, RepSet, NqSet,   \* flip counts explored
          StakeSet,     \* stake classes explored: 0 zero, 1 small, 2 large
          DelegSet,     \* {FALSE} or BOOLEAN
          RelOn,        \* explore reports / inviters (FALSE: nobody reports, nobody was invited)
          PerPat,       \* export at most this many cases per entitlement pattern (and worker); 0 = export every case
          SampleMod     \* ... the first of a pattern always, later ones with probability 1 / SampleMod

Ids == 1..N
VARIABLES prof,     \* [Ids -> profile record or <<>>]
          rel,      \* [Ids -> [reports, inviter] or <<>>]
          env       \* [god, pool, nj = identities joined so far, nr = identities related so far]
mvars == <<prof, rel, env, pop, upg, pc, paid>>
Blank == [prev |-> None, new |-> None, missed |-> FALSE, age |-> 0, stake |-> 0, deleg |-> FALSE, good |-> 0, rep |-> 0, nq |-> 0]
NoRel == [reports |-> {}, inviter |-> None]

\* (previous status, new status, missed) the ceremony can produce (core/ceremony determineNewIdentityState)
AllOutcomes(p) ==
    CASE p = Candidate -> {<<Killed, TRUE>>, <<Newbie, FALSE>>, <<Killed, FALSE>>}
      [] p = Newbie    -> {<<Killed, TRUE>>, <<Newbie, FALSE>>, <<Verified, FALSE>>, <<Killed, FALSE>>}
      [] p = Verified  -> {<<Suspended, TRUE>>, <<Verified, FALSE>>, <<Human, FALSE>>, <<Killed, FALSE>>}
      [] p = Human     -> {<<Suspended, TRUE>>, <<Human, FALSE>>, <<Verified, FALSE>>, <<Suspended, FALSE>>}
      [] p = Suspended -> {<<Zombie, TRUE>>, <<Human, FALSE>>, <<Verified, FALSE>>, <<Killed, FALSE>>}
      [] p = Zombie    -> {<<Killed, TRUE>>, <<Human, FALSE>>, <<Verified, FALSE>>, <<Killed, FALSE>>}
Outcomes(p) == {o \in AllOutcomes(p) : o[1] \in OutSet}
\* age class: 0 = candidate now, 1 / 2 = first validated one / two epochs ago, 3 = older
Ages(p) == CASE p = Candidate -> {0} [] p = Newbie -> {1, 2, 3} [] p = Verified -> {2, 3} [] OTHER -> {3}
\* only identities that had to make flips have flips
Flips(p) == IF p \in {Newbie, Verified, Human} THEN {<<g, r, q>> : g \in GoodSet, r \in RepSet, q \in NqSet} ELSE {<<0, 0, 0>>}
\* an identity that was validated before has earned stake; zero stake is for candidates, for suspended / zombie ones and for
\* an old identity that came back from suspension at the last validation (it was rewarded in no epoch of the history)
Stakes(p, a) == IF a = 0 \/ p \in {Suspended, Zombie} \/ (p = Verified /\ a = 3) THEN StakeSet ELSE StakeSet \ {0}

ProfilesOf(p, a) == {[prev |-> p, new |-> o[1], missed |-> o[2], age |-> a, stake |-> s, deleg |-> d, good |-> f[1], rep |-> f[2], nq |-> f[3]] :
                        o \in Outcomes(p), s \in Stakes(p, a), d \in DelegSet, f \in Flips(p)}
Profiles == UNION {UNION {ProfilesOf(p, a) : a \in Ages(p)} : p \in PrevSet}

\* who can have invited j: the god address, or an old identity that was Verified / Human in the epoch of the invitation
\* (it is at most Suspended one epoch later and Zombie two epochs later); an inviter has one invitation per epoch
CanInvite(i, j) == /\ i # j /\ prof[i].age = 3 /\ prof[i].stake > 0       \* it was validated (and rewarded) when it invited
                   /\ prof[i].prev \in (CASE prof[j].age = 0 -> {Verified, Human}
                                          [] prof[j].age = 1 -> {Verified, Human, Suspended}
                                          [] OTHER           -> {Verified, Human, Suspended, Zombie})
                   /\ \A k \in Ids : (k < j /\ rel[k].inviter = i) => prof[k].age # prof[j].age
\* the inviter link lasts while the invitee is Candidate / Newbie (it is cut when the invitee becomes Verified); a god address
\* without identity loses its invitees at every epoch end, so it only counts for candidates it invited in this epoch
Inviters(j) == IF ~RelOn \/ prof[j].age = 3 \/ prof[j].prev \notin {Candidate, Newbie} THEN {None}
               ELSE {None} \cup (IF env.god = "V" \/ prof[j].age = 0 THEN {God} ELSE {}) \cup {i \in Ids : CanInvite(i, j)}
Reportable(i) == IF RelOn THEN {j \in Ids \ {i} : prof[j].rep > 0} ELSE {}

MCInit == /\ prof = [i \in Ids |-> Blank] /\ rel = [i \in Ids |-> NoRel]
          /\ env \in [god : Gods, pool : Pools, nj : {0}, nr : {0}]
          /\ upg \in Upgs
          /\ pop = <<>> /\ pc = 0 /\ paid = {}

Join(i) == /\ pc = 0 /\ i = env.nj + 1
           /\ \E p \in Profiles :
                 /\ (env.pool = i) => ~p.deleg          \* a pool does not delegate
                 /\ prof' = [prof EXCEPT ![i] = p]
           /\ env' = [env EXCEPT !.nj = i]
           /\ UNCHANGED <<rel, pop, upg, pc, paid>>

\* the population in the vocabulary of module Rewards
PoolKey == IF env.pool = 0 THEN N + 1 ELSE env.pool
RecOf(i, r) == [cand |-> TRUE, prev |-> prof[i].prev, new |-> prof[i].new, missed |-> prof[i].missed,
                first |-> prof[i].age = 0 /\ prof[i].new = Newbie, stk |-> prof[i].stake > 0,
                del |-> IF prof[i].deleg THEN PoolKey ELSE None, inviter |-> r[i].inviter, nage |-> prof[i].age + 1,
                good |-> prof[i].good, rep |-> prof[i].rep, nq |-> prof[i].nq, reports |-> r[i].reports]
GodRec == [cand |-> FALSE, prev |-> IF env.god = "V" THEN Verified ELSE Undefined, new |-> IF env.god = "V" THEN Verified ELSE Undefined,
           missed |-> FALSE, first |-> FALSE, stk |-> TRUE, del |-> None, inviter |-> None, nage |-> 0, good |-> 0, rep |-> 0, nq |-> 0, reports |-> {}]
PopOf(r) == [k \in 0..N |-> IF k = God THEN GodRec ELSE RecOf(k, r)]

Relate(i) == /\ pc = 0 /\ env.nj = N /\ i = env.nr + 1
             /\ \E rp \in SUBSET Reportable(i), inv \in Inviters(i) :
                   LET r == [rel EXCEPT ![i] = [reports |-> rp, inviter |-> inv]] IN
                   /\ rel' = r
                   /\ IF i = N THEN pop' = PopOf(r) /\ pc' = 1 ELSE UNCHANGED <<pop, pc>>
             /\ env' = [env EXCEPT !.nr = i]
             /\ UNCHANGED <<prof, upg, paid>>

MCNext == (\E i \in Ids : Join(i) \/ Relate(i)) \/ (DistributeNext /\ UNCHANGED <<prof, rel, env>>)

---------------------------------------------------------------------------
St(s) == CASE s = Candidate -> "C" [] s = Newbie -> "N" [] s = Verified -> "V" [] s = Human -> "H"
           [] s = Suspended -> "S" [] s = Zombie -> "Z" [] s = Killed -> "K" [] OTHER -> "U"
RECURSIVE SetSeq(_)
SetSeq(S) == IF S = {} THEN <<>> ELSE LET x == CHOOSE y \in S : \A z \in S : y <= z IN <<x>> \o SetSeq(S \ {x})
RECURSIVE PaidSeq(_)
PaidSeq(S) == IF S = {} THEN <<>> ELSE LET x == CHOOSE y \in S : TRUE IN <<<<x[1], x[2], x[3]>>>> \o PaidSeq(S \ {x})
CaseOf == [upg |-> upg, god |-> env.god, pool |-> env.pool,
           ids |-> [i \in Ids |-> [prev |-> St(prof[i].prev), new |-> St(prof[i].new), missed |-> prof[i].missed, age |-> prof[i].age,
                                   stake |-> prof[i].stake, deleg |-> prof[i].deleg, good |-> prof[i].good, rep |-> prof[i].rep, nq |-> prof[i].nq,
                                   reports |-> SetSeq(rel[i].reports), inviter |-> rel[i].inviter]],
           paid |-> PaidSeq(paid)]
\* entitlement pattern of a finished distribution: per identity the categories it earns, whether a pool takes its balance
\* parts, the split class (Newbie or not), validated or not, missed or not; what the god address earns; the rule set
CatsOf(k) == {cr[1] : cr \in {x \in paid : x[2] = k}}
PatKey == <<upg >= 10, CatsOf(God),
            [i \in Ids |-> <<CatsOf(i), \E x \in paid : x[2] = i /\ x[3] # i, prof[i].new = Newbie, Validated(prof[i].new), prof[i].missed,
                             prof[i].new = Killed>>]>>
ASSUME TLCSet(7, <<>>)
Export == Done =>
    IF PerPat = 0 THEN PrintT(ToJson(CaseOf))
    ELSE LET seen == TLCGet(7)
             k    == PatKey
             n    == IF k \in DOMAIN seen THEN seen[k] ELSE 0
         IN IF n = 0 \/ (n < PerPat /\ RandomElement(1..SampleMod) = 1)
            THEN /\ TLCSet(7, [x \in DOMAIN seen \cup {k} |-> IF x = k THEN n + 1 ELSE seen[x]])
                 /\ PrintT(ToJson(CaseOf))
            ELSE TRUE

\* the design invariants only speak about finished or running distributions
Inv == pc >= 1 => (/\ PenalisedGetNothing /\ MissedGetNothing /\ OnlyValidated /\ DestSelfOrPool /\ FoundationAndZeroAlways
                   /\ InviteeWithInviter /\ SharesWithinPool)
=============================================================================
