CONSTANTS
  States = {"empty", "populated"}
  TxTos = {"absent", "zero", "self", "known", "stranger", "contract"}
  TxPayloads = {"empty", "garbage", "valid"}
  TxAmounts = {"nil", "pos"}
  TxSenders = {"verified", "invite", "unfunded"}
  MaxDev = 1
  Enumerate = TRUE
  Cmul = 64
  Cadd = 16777216
  BoundedDecode = TRUE
  ExportOn = TRUE
INIT Init
NEXT Next
INVARIANTS TypeOK Total Proportionate Export
CHECK_DEADLOCK FALSE
