CONSTANTS
  MaxAnswers = 12
  MaxCommittee = 7
  BigSizes = {50}
  ExportOn = TRUE
INIT Init
NEXT Next
INVARIANTS InvGradeConsistent InvReportHonoured InvAnswerBacked InvConsensusHonoured InvSymmetric InvMonotone
ACTION_CONSTRAINT Export
CHECK_DEADLOCK FALSE
