CONSTANTS
  Nodes = {0, 1, 2}
  Bases = {11}
  Gens = {TRUE}
  VNs = {9}
  MaxT = 5
  VoteSets = {{0, 1, 2}, {0}}
  Proposers = {0}
  Crafters = {1}
  Laggers = {2}
  MaxVotes = 3
  MaxOdd = 0
  MaxBlocks = 3
  MaxRestarts = 2
  MaxPersists = 1
  MaxTicks = 1
  MaxCraft = 0
  MaxForce = 0
  MaxLag = 0
  MaxProbes = 0
  MaxReorg = 0
  MaxCrash = 0
  ExportOn = TRUE
  SampleMod = 20
INIT Init
NEXT Next
VIEW view
INVARIANTS TypeOK SameChainSameVersion SameGenesisInfo VersionByChain GenesisByChain NewGenesisExactlyAfterUpgrade
PROPERTIES VersionMonotone RestartNeutral
ACTION_CONSTRAINT Export
CHECK_DEADLOCK FALSE
