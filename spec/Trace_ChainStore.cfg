CONSTANTS
  Retain = 100
  HeadBeforeCanon = TRUE
  KeepOrphanVersions = TRUE
  PruneHidesCommitError = TRUE
INIT TraceInit
NEXT TraceNext
POSTCONDITION TraceAccepted
CHECK_DEADLOCK FALSE
