CONSTANTS
  Retain = 100
  HeadBeforeCanon = FALSE
  KeepOrphanVersions = FALSE
  PruneHidesCommitError = FALSE
INIT TraceInit
NEXT TraceNext
POSTCONDITION TraceAccepted
CHECK_DEADLOCK FALSE
