CONSTANTS
  Peers = {1, 2, 3}
  Hashes = {1, 11}
  D = 2
  MaxPar = 3
  MaxPend = 3
  Horizon = 2
  HeadCheck = TRUE
  PlainBase = 10
  MaxHold = 0
  CritOn = FALSE
  ExportOn = TRUE
  SampleMod = 6
  MaxAnn = 6
INIT MInit
NEXT MNext
VIEW view
INVARIANTS TypeOK
PROPERTIES StepProps
ACTION_CONSTRAINT ExportTypes
CHECK_DEADLOCK FALSE
