---------------------------- MODULE Trace_Ledger ----------------------------
(* Trace validation for C04, C05, C06 on the histories recorded by harness/cmd/d_chain: the      *)
(* ledger observed (full iteration of a fresh read-only view of the committed state) before and  *)
(* after every block is bound into `led`, the applied-transaction set is carried by the          *)
(* specification, and the clauses of Ledger.tla are evaluated with exact arithmetic.             *)
EXTENDS Ledger, Json, IOUtils

Trace == ndJsonDeserialize(IOEnv.TRACE_FILE)
ASSUME TLCSet(3, <<>>)

VARIABLES l, led, applied, reward, bad
vars == <<l, led, applied, reward, bad>>

Clauses(pre, e) ==
    LET post == e.post
        txs == e.txs IN
    (IF ~NonNeg(post) THEN {"NonNeg"} ELSE {}) \cup
    (IF ~BlockIssuance(pre, post, e.kind, e.flags, e.epochLen, reward) THEN {"BlockIssuance"} ELSE {}) \cup
    (IF Len(txs) = 1 /\ ~HasFlag(e.flags, ValidationFinishedFlag) /\ ~OnlySigner(pre, post, txs[1]) THEN {"OnlySigner"} ELSE {}) \cup
    (IF ~NoDouble(applied, txs) THEN {"NoDouble"} ELSE {}) \cup
    (IF ~Consecutive(pre, txs) THEN {"Consecutive"} ELSE {}) \cup
    (IF ~EpochMatch(pre, txs) THEN {"EpochMatch"} ELSE {}) \cup
    (IF ~HasFlag(e.flags, ValidationFinishedFlag) /\ ~NonceRecorded(pre, post, txs) THEN {"NonceRecorded"} ELSE {})

RECURSIVE Report(_, _)
Report(S, line) == IF S = {} THEN TRUE
                   ELSE LET c == CHOOSE x \in S : TRUE IN
                        TLCSet(3, Append(TLCGet(3), <<line, c>>)) /\ Report(S \ {c}, line)

TraceInit == l = 1 /\ led = [accts |-> <<>>, epoch |-> 0] /\ applied = {} /\ reward = <<>> /\ bad = {}

TGenesis == /\ l <= Len(Trace) /\ Trace[l].ev = "Genesis" /\ l' = l + 1
            /\ led' = Trace[l].ledger /\ applied' = {} /\ reward' = Trace[l].blockReward
            /\ bad' = bad \cup (IF NonNeg(Trace[l].ledger) THEN {} ELSE {"NonNeg"})

TBlock == /\ l <= Len(Trace) /\ Trace[l].ev = "Block" /\ ~Trace[l].refused /\ l' = l + 1
          /\ LET e == Trace[l]
                 b == Clauses(led, e) IN
             /\ led' = e.post
             /\ applied' = applied \cup {e.txs[i].id : i \in 1..Len(e.txs)}
             /\ bad' = bad \cup b
             /\ Report(b, l)
          /\ UNCHANGED reward

\* a crafted block / direct submission that re-offers an already applied transaction, or one signed for another
\* epoch or with a non-consecutive nonce, must be refused by every replica
TCrafted == /\ l <= Len(Trace) /\ Trace[l].ev = "Crafted" /\ l' = l + 1
            /\ LET e == Trace[l]
                   b == IF \E r \in DOMAIN e.verdicts : e.verdicts[r] = "ok" THEN {"Replay-" \o e.what} ELSE {} IN
               /\ bad' = bad \cup b /\ Report(b, l)
            /\ UNCHANGED <<led, applied, reward>>

\* a fork switch: the ledger is the one committed at the ancestor; the transactions of the abandoned blocks are
\* not applied any more (they may be included again, once)
TReset == /\ l <= Len(Trace) /\ Trace[l].ev = "Reset" /\ l' = l + 1
          /\ led' = Trace[l].ledger
          /\ applied' = applied \ {Trace[l].reverted[i] : i \in 1..Len(Trace[l].reverted)}
          /\ UNCHANGED <<reward, bad>>

TOther == /\ l <= Len(Trace) /\ (Trace[l].ev \notin {"Genesis", "Block", "Crafted", "Reset"} \/ (Trace[l].ev = "Block" /\ Trace[l].refused))
          /\ l' = l + 1 /\ UNCHANGED <<led, applied, reward, bad>>

TraceNext == TGenesis \/ TBlock \/ TCrafted \/ TReset \/ TOther
TraceSpec == TraceInit /\ [][TraceNext]_vars

TraceAccepted ==
    LET d == TLCGet("stats").diameter IN
    /\ IF d - 1 = Len(Trace) THEN TRUE ELSE Print(<<"TRACE_REJECTED_AT", d, Len(Trace)>>, FALSE)
    /\ \A i \in 1..Len(TLCGet(3)) : PrintT(<<"CLAUSE_BROKEN", TLCGet(3)[i][1], TLCGet(3)[i][2]>>)
    /\ TLCGet(3) = <<>>
=============================================================================
