---------------------------- MODULE Trace_Rewards ----------------------------
(* Trace validation for the growth module "REW" of C04 (epoch reward distribution).  Each line is one step of a    *)
(* real chain driven by harness/cmd/d_rewards:                                                                     *)
(*   World   a new chain (a case of MC_Rewards made real history)                                                  *)
(*   Epoch   a block that finishes a validation is about to be explained: the population as it REALLY is (statuses, *)
(*           birthdays, delegatees, inviter links, stakes read from the committed state before and after the block; *)
(*           outcomes, flips, reports as handed to the ceremony's result assembly), the epoch length, the           *)
(*           configuration in force                                                                                *)
(*   Pay     one real step of rewardValidIdentities (validation, flips, reports, invitations, foundation, zero, in  *)
(*           the code's order): the credits the step reported to the stats collector                               *)
(*           <<category, stake owner, balance destination, balance part, stake part, staked amount>>               *)
(*   Block   the epoch block itself: ledger before / after (every account), the block-reward credits, what every    *)
(*           replica did with the block (verdict, state root, digest of the credits ITS collector saw), the root of *)
(*           a second proposal on the same head                                                                    *)
(*   Dead    the driver could not go on with this world (not a verdict)                                            *)
(* The steps are the actions of module Rewards (Distribute); a trace is accepted iff its lines follow them.  `bad`  *)
(* collects the broken PROPERTY clauses (verdict: NonNeg, Conservation, CategoryWithinShare, OnlyEntitled,          *)
(* PoolGetsDelegatorRewards [destination, split, ledger], LockedStakeParts, NoUnexplainedIncrease, ReplicasAgree),  *)
(* `odd` the broken clauses of the module's own exact predictions [EntitledPaid, ExactLedger, MintedMatchesCredits,  *)
(* AnnouncedPool, PenalisedByRule]                                                                                 *)
(* (drift: counted and reported, never a verdict); the postcondition prints each with its first trace line.        *)
(* Amounts are exact: base-10^4 limb sequences, arithmetic by BigNat.                                              *)
EXTENDS Rewards, Json, IOUtils

BN == INSTANCE BigNat

Trace == ndJsonDeserialize(IOEnv.TRACE_FILE)
ASSUME TLCSet(3, <<>>)
ASSUME TLCSet(4, <<>>)

VARIABLES l,      \* next trace line
          ep,     \* the Epoch line being explained (<<>> outside an epoch block)
          sums,   \* [share -> amount credited so far]
          crs,    \* credits of the epoch block so far
          bad, odd
tvars == <<l, pop, upg, pc, paid, ep, sums, crs, bad, odd>>

SetOf(s) == {s[i] : i \in 1..Len(s)}
If(cond, name) == IF cond THEN {} ELSE {name}
Note(S, O) == /\ bad' = bad \cup S /\ odd' = odd \cup O
              /\ \A x \in S \ bad : TLCSet(3, Append(TLCGet(3), <<l, x>>))
              /\ \A x \in O \ odd : TLCSet(4, Append(TLCGet(4), <<l, x>>))

ShareNames == {"staking", "candidate", "flips", "flipsBasic", "flipsExtra", "invitations", "reports", "foundation", "zero"}
NoSums == [s \in ShareNames |-> <<>>]
Amount(c) == BN!Add(c[4], c[5])
Positive(c) == Amount(c) # <<>>
RECURSIVE Total(_), SumBal(_), SumStake(_)
Total(cs) == IF cs = <<>> THEN <<>> ELSE BN!Add(Amount(Head(cs)), Total(Tail(cs)))
SumBal(cs) == IF cs = <<>> THEN <<>> ELSE BN!Add(Head(cs)[4], SumBal(Tail(cs)))
SumStake(cs) == IF cs = <<>> THEN <<>> ELSE BN!Add(Head(cs)[5], SumStake(Tail(cs)))
Sel(cs, T(_)) == SelectSeq(cs, T)

\* the population of an Epoch line in the vocabulary of module Rewards
RecOfLine(e, p) == [cand |-> p.cand, prev |-> p.prev, new |-> p.new, missed |-> p.missed, first |-> p.bdayPost = e.e, stk |-> p.stk,
                    del |-> p.del, inviter |-> p.inviter, nage |-> e.e - p.bdayPost + 1, good |-> p.good, rep |-> p.rep, nq |-> p.nq,
                    reports |-> SetOf(p.reports)]
PopOfLine(e) == [k \in {e.pop[i].k : i \in 1..Len(e.pop)} |-> RecOfLine(e, e.pop[CHOOSE i \in 1..Len(e.pop) : e.pop[i].k = k])]
Raw(k) == ep.pop[CHOOSE i \in 1..Len(ep.pop) : ep.pop[i].k = k]

TraceInit == /\ l = 1 /\ pop = <<>> /\ upg = 12 /\ pc = 0 /\ paid = {} /\ ep = <<>> /\ sums = NoSums /\ crs = <<>> /\ bad = {} /\ odd = {}

TWorld == /\ l <= Len(Trace) /\ Trace[l].ev \in {"World", "Dead"} /\ l' = l + 1
          /\ pc = 0
          /\ UNCHANGED <<pop, upg, pc, paid, ep, sums, crs, bad, odd>>

\* the ceremony's result assembly marks the bad authors the published rule names (drift: that code is C17's)
PenByRule(e) == \A i \in 1..Len(e.pop) : e.pop[i].bad = Pen(PopOfLine(e), e.pop[i].k)

TEpoch == /\ l <= Len(Trace) /\ Trace[l].ev = "Epoch" /\ l' = l + 1
          /\ pc = 0
          /\ LET e == Trace[l] IN
             /\ pop' = PopOfLine(e) /\ upg' = e.upg /\ ep' = e
             /\ Note({}, If(PenByRule(e), "PenalisedByRule"))
          /\ pc' = 1 /\ paid' = {} /\ sums' = NoSums /\ crs' = <<>>

\* share of a reward that goes to the stake: floor(total * rate / 1000)
SplitOk(c) == LET r   == ep.rate[RateIdx(pop, c[2])]
                  tot == Amount(c)
              IN /\ BN!Leq(BN!MulSmall(c[5], 1000), BN!MulSmall(tot, r))
                 /\ BN!Lt(BN!MulSmall(tot, r), BN!MulSmall(BN!Add(c[5], <<1>>), 1000))

TPay == /\ l <= Len(Trace) /\ Trace[l].ev = "Pay" /\ l' = l + 1
        /\ pc \in 1..Len(Steps) /\ Trace[l].step = Steps[pc]
        /\ LET e     == Trace[l]
               step  == e.step
               cs    == e.credits
               X     == PX(pop)
               pos   == {i \in 1..Len(cs) : Positive(cs[i])}
               may(c) == ~ep.failed /\ c[1] \in StepCats(step) /\ c[2] \in Keys(pop) /\ May(X, upg, c[1], c[2])
               must  == IF ep.failed THEN {} ELSE UNION {{<<c, i>> : i \in {k \in Keys(pop) : Must(X, upg, c, k)}} : c \in StepCats(step)}
               split == {i \in pos : cs[i][1] \notin InviteeCats \cup {"foundation", "zero"}}
           IN /\ Distribute(step)
              /\ Note(If(\A i \in 1..Len(cs) : ~BN!IsNeg(cs[i][4]) /\ ~BN!IsNeg(cs[i][5]), "NonNeg")
                      \cup UNION {If(may(cs[i]), "OnlyEntitled:" \o cs[i][1] \o ":" \o ToString(cs[i][2])) : i \in pos}
                      \cup UNION {If(cs[i][4] = <<>> \/ (cs[i][2] \in Keys(pop) /\ cs[i][3] = Dest(X, cs[i][1], cs[i][2])), "PoolGetsDelegatorRewards:destination") : i \in pos}
                      \* how much of a reward is the balance part (the part a pool takes) and how much the stake part: by the status
                      \cup UNION {If(SplitOk(cs[i]), "PoolGetsDelegatorRewards:split") : i \in split}
                      \cup UNION {If(cs[i][4] = <<>>, "LockedStakeParts:invitee-reward-is-stake") : i \in {j \in pos : cs[j][1] \in InviteeCats}},
                      UNION {If(\E i \in pos : cs[i][1] = m[1] /\ cs[i][2] = m[2], "EntitledPaid:" \o m[1]) : m \in must})
              /\ sums' = [s \in ShareNames |-> BN!Add(sums[s], Total(Sel(cs, LAMBDA c : c[1] \in StepCats(step) /\ ShareOf(upg, c[1]) = s)))]
              /\ crs' = crs \o cs
        /\ UNCHANGED ep

---------------------------------------------------------------------------
\* ledger helpers
Has(L, k) == \E i \in 1..Len(L) : L[i].k = k
Acc(L, k) == L[CHOOSE i \in 1..Len(L) : L[i].k = k]
BalOf(L, k) == IF Has(L, k) THEN Acc(L, k).bal ELSE <<>>
StakeOf(L, k) == IF Has(L, k) THEN Acc(L, k).stake ELSE <<>>
LockedOf(L, k) == IF Has(L, k) THEN Acc(L, k).locked ELSE <<>>
AllKeys == 0..9
NV(k) == k \in DOMAIN pop /\ pop[k].prev = Newbie /\ pop[k].new = Verified     \* moves earned stake to the balance (its pool's balance)

\* rounding: a category whose weights are summed in float32 (stake weights) can exceed its share by the accumulated
\* rounding error of the sum; 2^-16 relative is orders of magnitude above anything <= 64 float32 additions can do
Within(paid_, pm, pool) == BN!Leq(BN!MulSmall(paid_, 1000), BN!MulSmall(pool, pm))
WithinGross(paid_, pm, pool) == BN!Leq(BN!MulSmall(BN!MulSmall(paid_, 1000), 65536), BN!MulSmall(BN!MulSmall(pool, pm), 65537))

TBlock ==
    /\ l <= Len(Trace) /\ Trace[l].ev = "Block" /\ l' = l + 1
    /\ Done
    /\ LET e      == Trace[l]
           pool   == BN!MulSmall(ep.reward, ep.len)
           all    == crs \o e.blockCredits
           pre    == e.pre
           post   == e.post
           balTo(k)   == SumBal(Sel(all, LAMBDA c : c[3] = k))
           stakeTo(k) == SumStake(Sel(all, LAMBDA c : c[2] = k))
           fromOthers(k) == SumBal(Sel(all, LAMBDA c : c[3] = k /\ c[2] # k))
           delegs(k) == {j \in DOMAIN pop : pop[j].del = k}
           slack(k)  == BN!Add(StakeOf(pre, k), BN!SumSeq([j \in 1..9 |-> IF j \in delegs(k) THEN StakeOf(pre, j) ELSE <<>>]))
           pools  == {pop[j].del : j \in DOMAIN pop} \ {None}
           used   == {s \in ShareNames : sums[s] # <<>>}
           paidAll == BN!SumSeq(<<sums["staking"], sums["candidate"], sums["flips"], sums["flipsBasic"], sums["flipsExtra"], sums["invitations"],
                                  sums["reports"], sums["foundation"], sums["zero"]>>)
           gone(k) == Raw(k).now \in {Killed, Undefined} \/ Raw(k).new = Killed
           quiet(k) == /\ ~NV(k) /\ \A j \in delegs(k) : ~NV(j)
                       /\ (k \in DOMAIN pop /\ Raw(k).cand) => ~gone(k)
           inviteeStake(k) == SumStake(Sel(crs, LAMBDA c : c[2] = k /\ c[1] \in InviteeCats))
           unlockDue(k) == LockedOf(pre, k) # <<>> /\ ep.e + 1 - Raw(k).bdayPost >= ep.unlockAge
           lockedWant(k) == BN!Add(IF unlockDue(k) THEN <<>> ELSE LockedOf(pre, k), IF upg >= 12 THEN inviteeStake(k) ELSE <<>>)
           reps   == e.reps
       IN Note(
            \* ------- property clauses (verdict)
            If(\A i \in 1..Len(post) : /\ ~BN!IsNeg(post[i].bal) /\ ~BN!IsNeg(post[i].stake) /\ ~BN!IsNeg(post[i].locked)
                                        /\ BN!Leq(post[i].locked, post[i].stake), "NonNeg")
            \cup UNION {If(Within(sums[s], ep.pm[s], pool), "CategoryWithinShare:" \o s) : s \in used}
            \cup UNION {If(WithinGross(sums[s], ep.pm[s], pool), "CategoryShareGross:" \o s) : s \in used}
            \cup If(BN!Leq(paidAll, pool), "Conservation")
            \cup If(BN!Leq(BN!MulSmall(paidAll, 65536), BN!MulSmall(pool, 65537)), "ConservationGross")
            \cup If(crs = <<>> \/ ~ep.failed, "OnlyEntitled:failed-validation")
            \cup UNION {If(/\ BN!Leq(BalOf(post, k), BN!Add(BN!Add(BalOf(pre, k), balTo(k)), slack(k)))
                           /\ BN!Leq(StakeOf(post, k), BN!Add(StakeOf(pre, k), stakeTo(k))), "NoUnexplainedIncrease") : k \in AllKeys}
            \cup UNION {If(BalOf(post, p) = <<>> \/ BN!Leq(BN!Add(BalOf(pre, p), fromOthers(p)), BalOf(post, p)), "PoolGetsDelegatorRewards:ledger") : p \in pools}
            \* the locked part of a stake: unlocked at the configured age, grown by exactly the invitee rewards (upgrade 12)
            \cup UNION {If(gone(k) \/ LockedOf(post, k) = lockedWant(k), "LockedStakeParts:ledger") : k \in DOMAIN pop}
            \cup If(/\ \A i \in 1..Len(reps) : reps[i].ok /\ reps[i].root = e.root /\ reps[i].digest = reps[1].digest
                    /\ e.root2 = e.root, "ReplicasAgree"),
            \* ------- exact predictions (drift)
            UNION {If(~quiet(k) \/ (/\ (BalOf(post, k) = BN!Add(BalOf(pre, k), balTo(k)) \/ BalOf(post, k) = <<>>)
                                    /\ StakeOf(post, k) = BN!Add(StakeOf(pre, k), stakeTo(k))), "ExactLedger") : k \in AllKeys}
            \cup If(e.minted = Total(all), "MintedMatchesCredits")
            \cup If(ep.failed \/ e.total = pool, "AnnouncedPool"))
    /\ pc' = 0 /\ ep' = <<>> /\ UNCHANGED <<pop, upg, paid, sums, crs>>

TraceNext == TWorld \/ TEpoch \/ TPay \/ TBlock
TraceSpec == TraceInit /\ [][TraceNext]_tvars

TraceAccepted ==
    LET d == TLCGet("stats").diameter IN
    /\ IF d - 1 = Len(Trace) THEN TRUE ELSE Print(<<"TRACE_REJECTED_AT", d, Len(Trace)>>, FALSE)
    /\ \A i \in 1..Len(TLCGet(4)) : PrintT(<<"DRIFT_CLAUSE", TLCGet(4)[i][1], TLCGet(4)[i][2]>>)
    /\ PrintT(<<"DRIFT", Len(TLCGet(4))>>)
    /\ \A i \in 1..Len(TLCGet(3)) : PrintT(<<"CLAUSE_BROKEN", TLCGet(3)[i][1], TLCGet(3)[i][2]>>)
    /\ TLCGet(3) = <<>>
=============================================================================
