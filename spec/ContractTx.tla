----------------------------- MODULE ContractTx -----------------------------
(* C15 - contract execution is atomic, pays for itself and cannot overspend.                      *)
(*                                                                                                *)
(* A property-shaped ENVELOPE around an opaque contract run, with one operator / action per step  *)
(* of the code that applies a contract transaction (blockchain.go applyTxOnState, vm/vm.go,       *)
(* vm/env/env.go, vm/wasm/wasm_env.go):                                                           *)
(*                                                                                                *)
(*   Escrow    the pay amount of a call / wasm deployment moves from the sender to the contract   *)
(*   Run       the contract code runs against BUFFERS: it may request balance writes (guarded by  *)
(*             a balance check), burns, store writes, stake moves, deployments, sub-calls (own    *)
(*             buffer, merged into the caller's on success, dropped and refunded on failure);     *)
(*             it stops with success, with failure, or because the bought gas is used up          *)
(*   Commit    (success) all buffered requests reach the state        } never a part of them,     *)
(*   Rollback  (failure) the buffers are dropped, the escrow refunded } never both                *)
(*   Charge    the sender pays the fee (size fee + gas cost) and the tips, its nonce advances      *)
(*                                                                                                *)
(* What the run asks for is NOT specified (contract business rules are opaque); in the model it is*)
(* any sequence of run steps, in trace validation it is what the probes recorded on the real run  *)
(* (requested balances, burns and deployments from the node's own accounting callbacks; requested *)
(* store writes / stake moves from the contract code run against a recording environment -        *)
(* embedded contracts - or through a recording host environment - wasm).  The PROPERTY CLAUSES are written over explicit (pre, post, tx, receipt, effects)*)
(* values so that the same text is an invariant of the bounded model and the verdict on observed  *)
(* executions of the real code.  Amounts are exact (BigNat limb sequences) everywhere.            *)
EXTENDS Integers, Sequences, FiniteSets, TLC, BigNatC

---------------------------------------------------------------------------
(* Ledgers: function  account name -> record.  An absent name is the zero account.                *)

ZeroAcct == [bal |-> Zero, stake |-> Zero, cstake |-> Zero, nonce |-> 0, code |-> FALSE, store |-> {}]
Get(L, a) == IF a \in DOMAIN L THEN L[a] ELSE ZeroAcct
Put(L, a, r) == [x \in DOMAIN L \cup {a} |-> IF x = a THEN r ELSE L[x]]
Move(L, a, b, amt) == LET L1 == Put(L, a, [Get(L, a) EXCEPT !.bal = Monus(@, amt)])
                      IN Put(L1, b, [Get(L1, b) EXCEPT !.bal = Plus(@, amt)])

NoShadow == [ran |-> FALSE, ok |-> FALSE, writes |-> {}, keep |-> {}, moved |-> Zero, req |-> <<>>, base |-> <<>>, dest |-> "", deployed |-> {}]

(* tx  = [kind: "deploy"|"call"|"terminate", wasm: BOOLEAN, from, to: names (to = contract address), *)
(*        amount, maxFee, tips, sizeFee, fpg: amounts]                                            *)
(* rc  = [success: BOOLEAN, gasUsed: Int, gasCost: amount, oog: BOOLEAN (failed for lack of gas)]  *)
(* eff = [req: name -> requested balance (root buffer), burnt, term: amounts, deployed: names,    *)
(*        sh: shadow record (NoShadow when the probe could not run): what the contract code asks  *)
(*        for when run on the pre-state (embedded: to completion, against a recording environment;*)
(*        wasm: with the bought gas, through a recording host environment): ok, store writes      *)
(*        <<contract, key, value>>, kept keys and stake destination of a termination, amount moved*)
(*        to the stake, requested balances (embedded only)]                                       *)

Escrowed(t) == t.amount # Zero /\ (t.kind = "call" \/ t.wasm)             \* shouldAddPayAmount
StakeDeploy(t) == t.amount # Zero /\ t.kind = "deploy" /\ ~t.wasm          \* pay amount becomes the stake

EscrowOp(L, t) == IF Escrowed(t) THEN Move(L, t.from, t.to, t.amount) ELSE L
RefundOp(L, t) == IF Escrowed(t) THEN Move(L, t.to, t.from, t.amount) ELSE L

(* a contract store after the requested writes <<key, value>> (removal = value "");                *)
(* eff.sh.writes is a set of <<contract, key, value>>                                             *)
Written(S, w) == {p \in S : ~\E q \in w : q[1] = p[1]} \cup {q \in w : q[2] # ""}

CommitOp(L, t, e) ==
    LET created == e.deployed \cup e.sh.deployed      \* what the node says it stored and what the code asked to be deployed
        names == DOMAIN L \cup DOMAIN e.req \cup created \cup {t.to} IN
    [a \in names |->
        LET o == Get(L, a)
            dropped == t.kind = "terminate" /\ a = t.to /\ o.cstake # Zero
            b1 == IF a \in DOMAIN e.req THEN e.req[a] ELSE o.bal
            b2 == IF a = t.from /\ StakeDeploy(t) THEN Monus(b1, t.amount) ELSE b1
            s1 == IF e.sh.ran THEN Written(o.store, {<<w[2], w[3]>> : w \in {x \in e.sh.writes : x[1] = a}}) ELSE o.store
        IN [o EXCEPT
              !.bal = b2,
              !.code = IF dropped THEN FALSE ELSE IF a \in created \/ (t.kind = "deploy" /\ a = t.to) THEN TRUE ELSE @,
              !.cstake = IF dropped THEN Zero
                         ELSE LET base == IF a = t.to /\ StakeDeploy(t) THEN t.amount ELSE @
                              IN IF a = t.to /\ e.sh.ran THEN Plus(base, e.sh.moved) ELSE base,
              !.store = IF dropped THEN {p \in s1 : p[1] \in e.sh.keep} ELSE s1]]

ChargeOp(L, t, charged) ==
    Put(L, t.from, [Get(L, t.from) EXCEPT !.bal = Monus(@, Plus(charged, t.tips)), !.nonce = @ + 1])

(* ledger just before the charge *)
Settled(pre, t, r, e) == IF r.success THEN CommitOp(EscrowOp(pre, t), t, e) ELSE pre

GasCostOf(t, r) == Mul(FromInt(r.gasUsed), t.fpg)

---------------------------------------------------------------------------
(* Property clauses over observed values; p = the proposer (the only account block rewards touch) *)

(* what left the sender beyond amount and tips - bound from the observation, never recomputed *)
Charged(pre, post, t, r, e) == Monus(Monus(Get(Settled(pre, t, r, e), t.from).bal, t.tips), Get(post, t.from).bal)

(* are the stores determined by the envelope? (opaque for a successful run the probe could not follow) *)
StoreDetermined(t, r, e) == ~r.success \/ e.sh.ran

SameAcct(x, y, withStore) ==
    /\ x.bal = y.bal /\ x.stake = y.stake /\ x.cstake = y.cstake /\ x.nonce = y.nonce /\ x.code = y.code
    /\ (withStore => x.store = y.store)

Explained(pre, post, t, r, e, p) ==
    LET pred == ChargeOp(Settled(pre, t, r, e), t, Charged(pre, post, t, r, e)) IN
    \A a \in (DOMAIN pred \cup DOMAIN post) \ {p} : SameAcct(Get(post, a), Get(pred, a), StoreDetermined(t, r, e))

(* the balance buffer the node applied is the one the contract code asked for.  Both are absolute *)
(* values; the probe's are relative to the balances IT started from (e.sh.base: committed pre-    *)
(* state + escrow), which differ from the node's by the charge of an earlier failed transaction   *)
(* of the same block: the CHANGES must agree.  The stake refund of a termination is the node's own*)
ReqAgree(pre, t, r, e) ==
    (r.success /\ e.sh.ran /\ e.sh.ok /\ ~t.wasm) =>
        LET base == EscrowOp(pre, t) IN
        \A a \in (DOMAIN e.req \cup DOMAIN e.sh.req) \ (IF t.kind = "terminate" THEN {e.sh.dest} ELSE {}) :
            LET nb == Get(base, a).bal                                       \* node: before / after
                na == IF a \in DOMAIN e.req THEN e.req[a] ELSE nb
                pb == IF a \in DOMAIN e.sh.req THEN e.sh.base[a] ELSE Zero    \* probe: before / after
                pa == IF a \in DOMAIN e.sh.req THEN e.sh.req[a] ELSE Zero
            IN Plus(na, pb) = Plus(pa, nb)

(* a failed run leaves no trace except the sender's nonce, the fee and the tips *)
FailLeavesNoTrace(pre, post, t, r, e, p) == ~r.success => Explained(pre, post, t, r, e, p)
(* a successful run applies everything it asked for, and nothing else *)
SuccessAppliesAll(pre, post, t, r, e, p) == r.success => (Explained(pre, post, t, r, e, p) /\ ReqAgree(pre, t, r, e))
(* the node records success only if the contract code finished without error *)
ReceiptTruthful(t, r, e) == (e.sh.ran /\ r.success) => e.sh.ok
(* ... and fails a run that the contract code completes on the pre-state only for lack of gas:    *)
(* anything else means that the run did not see the pre-state (an earlier failed transaction of   *)
(* the block left something behind) or that the environment made the contract fail                *)
OutcomeAgrees(t, r, e) == (e.sh.ran /\ e.sh.ok /\ ~r.success) => r.oog

FeeWithinMax(pre, post, t, r, e) == LET c == Charged(pre, post, t, r, e) IN IsNat(c) /\ Leq(c, t.maxFee)
GasWithinBought(t, r) == Leq(Add(t.sizeFee, GasCostOf(t, r)), t.maxFee)
(* the charge covers the size fee and the gas the run used *)
PaysForItself(pre, post, t, r, e) == LET c == Charged(pre, post, t, r, e) IN IsNat(c) /\ Leq(Add(t.sizeFee, GasCostOf(t, r)), c)

NoOverspend(post, e) ==
    /\ \A a \in DOMAIN post : IsNat(post[a].bal) /\ IsNat(post[a].cstake) /\ IsNat(post[a].stake)
    /\ \A a \in DOMAIN e.req : IsNat(e.req[a])

RECURSIVE TotalOf(_, _)
TotalOf(L, S) == IF S = {} THEN Zero
                 ELSE LET a == CHOOSE x \in S : TRUE
                      IN Add(Add(Add(L[a].bal, L[a].stake), L[a].cstake), TotalOf(L, S \ {a}))
Total(L, p) == TotalOf(L, DOMAIN L \ {p})

Burns(r, e) == IF r.success THEN Add(e.burnt, e.term) ELSE Zero
Conserved(pre, post, t, r, e, p) ==
    LET c == Charged(pre, post, t, r, e) IN
    /\ \A a \in DOMAIN post : IsNat(post[a].bal) /\ IsNat(post[a].cstake) /\ IsNat(post[a].stake)
    /\ IsNat(c)
    /\ Total(pre, p) = Add(Total(post, p), Add(Add(c, t.tips), Burns(r, e)))

---------------------------------------------------------------------------
(* Blocks.  Several transactions are applied one after the other to ONE block state (and, in the   *)
(* code, with one VM and one contract environment per block).  Only the state after the block is  *)
(* observable; the state between two transactions is the SPECIFIED outcome of the earlier ones,   *)
(* carried on by these operators, so that at the end of the block every account's change must be  *)
(* the sum of what the individual transactions asked for, the fees and the tips - whatever the    *)
(* earlier transactions left behind in the execution context.                                     *)

(* a transaction that is not a contract transaction: p = [from, to, amount, fee, tips] (fee as charged by the node) *)
PlainOp(L, p) == LET L1 == Move(L, p.from, p.to, p.amount)
                 IN Put(L1, p.from, [Get(L1, p.from) EXCEPT !.bal = Monus(@, Plus(p.fee, p.tips)), !.nonce = @ + 1])

(* a contract transaction whose post-state is not observed: charged what the receipt says *)
MidCharge(t, r) == Add(t.sizeFee, r.gasCost)
MidOp(L, t, r, e) == ChargeOp(Settled(L, t, r, e), t, MidCharge(t, r))

(* what leaves the ledger (proposer excluded) with a transaction *)
Spent(t, r, e, charged) == Add(Add(charged, t.tips), Burns(r, e))

LedgerNat(L) == \A a \in DOMAIN L : IsNat(L[a].bal) /\ IsNat(L[a].cstake) /\ IsNat(L[a].stake)

(* clauses that can be decided without observing the post-state *)
MidBroken(L, t, r, e, p) ==
    LET L2 == MidOp(L, t, r, e) IN
    IF ~(\A a \in DOMAIN e.req : IsNat(e.req[a])) \/ ~LedgerNat(L2) THEN "NoOverspend"
    ELSE IF ~ReceiptTruthful(t, r, e) THEN "ReceiptTruthful"
    ELSE IF ~OutcomeAgrees(t, r, e) THEN "OutcomeAgrees"
    ELSE IF ~StoreDetermined(t, r, e) THEN "MidNotDetermined"
    ELSE IF ~ReqAgree(L, t, r, e) THEN "SuccessAppliesAll"
    ELSE IF ~GasWithinBought(t, r) THEN "GasWithinBought"
    ELSE IF Total(L, p) # Add(Total(L2, p), Spent(t, r, e, MidCharge(t, r))) THEN "Conserved"
    ELSE ""

(* over the whole block: the ledger (proposer excluded) shrinks exactly by what the transactions   *)
(* paid and burnt - in particular it never grows                                                  *)
BlockConserved(bpre, post, spent, p) ==
    /\ LedgerNat(post) /\ IsNat(spent)
    /\ Total(bpre, p) = Add(Total(post, p), spent)

(* name of the first clause an observed step breaks ("" = none) *)
Broken(pre, post, t, r, e, p) ==
    IF ~NoOverspend(post, e) THEN "NoOverspend"
    ELSE IF ~ReceiptTruthful(t, r, e) THEN "ReceiptTruthful"
    ELSE IF ~OutcomeAgrees(t, r, e) THEN "OutcomeAgrees"
    ELSE IF ~FailLeavesNoTrace(pre, post, t, r, e, p) THEN "FailLeavesNoTrace"
    ELSE IF ~SuccessAppliesAll(pre, post, t, r, e, p) THEN "SuccessAppliesAll"
    ELSE IF ~GasWithinBought(t, r) THEN "GasWithinBought"
    ELSE IF ~FeeWithinMax(pre, post, t, r, e) THEN "FeeWithinMax"
    ELSE IF ~PaysForItself(pre, post, t, r, e) THEN "PaysForItself"
    ELSE IF ~Conserved(pre, post, t, r, e, p) THEN "Conserved"
    ELSE ""

(* not a verdict: the fee formula (size fee + gas cost) and the receipt's gas cost *)
Drift(pre, post, t, r, e) == \/ Charged(pre, post, t, r, e) # Add(t.sizeFee, r.gasCost)
                             \/ r.gasCost # GasCostOf(t, r)

---------------------------------------------------------------------------
(* The bounded model: the same operators, applied step by step, with a nondeterministic run.      *)

CONSTANTS Names,          \* account names of the model
          Proposer,       \* proposer (never a party)
          Sender, Target, Other, Rcpt,   \* sender, called/deployed contract, second contract, recipient
          AmtVals,        \* small integers used as amounts
          GasVals,        \* gas limits the sender may buy
          MaxSteps,       \* bound on the run steps of one transaction
          MaxDepth,       \* bound on nested sub-calls
          MaxTx,          \* transactions per block (behaviour)
          Bug             \* "none", or the name of a deliberately broken step (specification self-test)

VARIABLES led,     \* the ledger
          pre0,    \* ledger before the transaction
          pc,      \* "idle" | "escrow" | "run" | "settle" | "charge" | "reward" | "done"
          tx, rc,
          frames,  \* stack of buffers; frames[1] is the root buffer
          gas, steps,
          eff,     \* effects as the probes would report them (filled at the end of the run)
          shok,    \* the contract code's own outcome (what the recording environment would see)
          acts,    \* kinds of run steps taken (for the exported coverage class)
          blk      \* the execution context of the block, shared by its transactions:
                   \*   cache: the balances the embedded contract environment still holds from the last committed run
                   \*          (EnvImp.Commit flushes its buffers but does not clear them),
                   \*   ntx: number of the current transaction, out: a balance was changed outside the environment
vars == <<led, pre0, pc, tx, rc, frames, gas, steps, eff, shok, acts, blk>>

N(i) == FromInt(i)
One == N(1)

InitLedgers ==
    {[a \in Names |->
        IF a = Sender THEN [ZeroAcct EXCEPT !.bal = N(9), !.nonce = 1]
        ELSE IF a = Proposer THEN [ZeroAcct EXCEPT !.bal = N(5), !.stake = N(3)]
        ELSE IF a = Target THEN [ZeroAcct EXCEPT !.bal = N(tb), !.code = tc, !.cstake = IF tc /\ ts THEN N(2) ELSE Zero,
                                                !.store = IF tc THEN {<<"k", "1">>, <<"o", "1">>} ELSE {}]
        \* (an address without code may hold coins already when a contract is deployed at it: Target, Other)
        ELSE IF a = Other THEN [ZeroAcct EXCEPT !.code = (oc = 2), !.bal = IF oc >= 1 THEN N(1) ELSE Zero]
        ELSE [ZeroAcct EXCEPT !.stake = N(1)]]
     : tb \in {0, 2}, tc \in BOOLEAN, ts \in BOOLEAN, oc \in {0, 1, 2}}

Init == /\ led \in InitLedgers /\ pre0 = led /\ pc = "idle"
        /\ tx = [kind |-> "none"] /\ rc = [success |-> FALSE, gasUsed |-> 0, gasCost |-> Zero, oog |-> FALSE]
        /\ frames = <<>> /\ gas = 0 /\ steps = 0 /\ shok = TRUE /\ acts = {}
        /\ eff = [req |-> <<>>, burnt |-> Zero, term |-> Zero, deployed |-> {}, sh |-> NoShadow]
        /\ blk = [cache |-> <<>>, ntx |-> 1, out |-> FALSE]

SizeFee == One
Fpg == One

(* validation: the sender can afford amount + max fee + tips; the target exists iff it is called *)
Submit(kind, wasm, amt, gl, tips) ==
    /\ pc = "idle"
    /\ (kind = "terminate" => ~wasm /\ amt = 0)
    /\ (kind = "deploy") = ~led[Target].code
    /\ (kind # "deploy" => (wasm = (led[Target].cstake = Zero)))      \* embedded contracts carry a stake
    /\ LET t == [kind |-> kind, wasm |-> wasm, from |-> Sender, to |-> Target, amount |-> N(amt),
                 maxFee |-> Add(SizeFee, N(gl)), tips |-> N(tips), sizeFee |-> SizeFee, fpg |-> Fpg, gl |-> gl]
       IN /\ Leq(Add(Add(t.amount, t.maxFee), t.tips), led[Sender].bal)
          /\ tx' = t
    /\ pre0' = led /\ pc' = "escrow"
    /\ UNCHANGED <<led, rc, frames, gas, steps, eff, shok, acts, blk>>

RootFrame == [ctx |-> Target, par |-> Sender, pay |-> Zero, req |-> <<>>, wr |-> <<>>, dep |-> {}, burnt |-> Zero, moved |-> Zero]

(* vm.env.Reset() before every embedded run (wasm runs get an environment of their own) *)
Escrow == /\ pc = "escrow"
          /\ led' = EscrowOp(led, tx)
          /\ frames' = <<RootFrame>> /\ gas' = 0 /\ steps' = 0 /\ pc' = "run"
          /\ blk' = IF tx.wasm \/ Bug = "stale_env" THEN blk ELSE [blk EXCEPT !.cache = <<>>]
          /\ UNCHANGED <<pre0, tx, rc, eff, shok, acts>>

D == Len(frames)
Ctx == frames[D].ctx

RECURSIVE BalAt(_, _)
BalAt(i, a) == IF i = 0 THEN (IF ~tx.wasm /\ a \in DOMAIN blk.cache THEN blk.cache[a] ELSE Get(led, a).bal)   \* EnvImp.getBalance
               ELSE IF a \in DOMAIN frames[i].req THEN frames[i].req[a] ELSE BalAt(i - 1, a)
CurBal(a) == BalAt(D, a)
HasCode(a) == Get(led, a).code \/ \E i \in 1..D : a \in frames[i].dep

SetReq(f, a, v) == [f EXCEPT !.req = [x \in DOMAIN f.req \cup {a} |-> IF x = a THEN v ELSE f.req[x]]]

(* every run step costs one unit of gas; a step that does not fit into the bought gas ends the run *)
Fits == gas + 1 <= tx.gl
Spend(k) == /\ gas' = gas + 1 /\ steps' = steps + 1 /\ acts' = acts \cup {k}
            /\ UNCHANGED <<led, pre0, pc, tx, rc, eff, shok, blk>>

OutOfGas == /\ pc = "run" /\ steps < MaxSteps /\ ~Fits
            /\ rc' = [success |-> FALSE, gasUsed |-> tx.gl, gasCost |-> Mul(N(tx.gl), Fpg), oog |-> TRUE]
            /\ pc' = "settle" /\ acts' = acts \cup {"outofgas"}
            /\ UNCHANGED <<led, pre0, tx, frames, gas, steps, eff, shok, blk>>

(* Send: guarded by the balance check of env.Send / WasmEnv.SubBalance *)
RunSend(a, amt) ==
    /\ pc = "run" /\ steps < MaxSteps /\ Fits /\ a # Ctx
    /\ (Bug # "no_balance_check" => Leq(N(amt), CurBal(Ctx)))
    /\ frames' = [frames EXCEPT ![D] = SetReq(SetReq(@, Ctx, Monus(CurBal(Ctx), N(amt))), a, Plus(CurBal(a), N(amt)))]
    /\ Spend("send")

RunBurn == /\ pc = "run" /\ steps < MaxSteps /\ Fits /\ CurBal(Ctx) # Zero
           /\ frames' = [frames EXCEPT ![D] = [SetReq(@, Ctx, Zero) EXCEPT !.burnt = Add(@, CurBal(Ctx))]]
           /\ Spend("burn")

RunWrite(v) == /\ pc = "run" /\ steps < MaxSteps /\ Fits
               /\ frames' = [frames EXCEPT ![D].wr = [x \in DOMAIN @ \cup {<<Ctx, "k">>} |-> IF x = <<Ctx, "k">> THEN v ELSE @[x]]]
               /\ Spend("write")

(* (stake moves while terminating are not defined by the envelope: no embedded contract does it) *)
RunStake(amt) == /\ pc = "run" /\ steps < MaxSteps /\ Fits /\ ~tx.wasm /\ D = 1 /\ tx.kind # "terminate"
                 /\ Leq(N(amt), CurBal(Ctx))
                 /\ frames' = [frames EXCEPT ![D] = [SetReq(@, Ctx, Monus(CurBal(Ctx), N(amt))) EXCEPT !.moved = Add(@, N(amt))]]
                 /\ Spend("stake")

(* sub-call / sub-deployment (wasm): the pay amount is deducted from the caller's buffer, the *)
(* callee runs in its own buffer that starts with the amount credited                        *)
RunSub(k, amt, deploy) ==
    /\ pc = "run" /\ steps < MaxSteps /\ Fits /\ tx.wasm /\ D <= MaxDepth /\ k # Ctx
    /\ Leq(N(amt), CurBal(Ctx))
    /\ deploy = ~HasCode(k)
    /\ LET caller == SetReq(frames[D], Ctx, Monus(CurBal(Ctx), N(amt)))
           callee == [ctx |-> k, par |-> Ctx, pay |-> N(amt), req |-> <<>>, wr |-> <<>>,
                      dep |-> IF deploy THEN {k} ELSE {}, burnt |-> Zero, moved |-> Zero]
           \* WasmEnv.CreateSubEnv: the callee's buffer starts from what the address holds already - also when it is being created
           start == IF Bug = "subdeploy_forgets_balance" /\ deploy THEN N(amt) ELSE Plus(CurBal(k), N(amt))
       IN frames' = Append([frames EXCEPT ![D] = caller], SetReq(callee, k, start))
    /\ Spend(IF deploy THEN "subdeploy" ELSE "subcall")

Merge(par, ch) == [par EXCEPT !.req = [x \in DOMAIN par.req \cup DOMAIN ch.req |-> IF x \in DOMAIN ch.req THEN ch.req[x] ELSE par.req[x]],
                              !.wr = [x \in DOMAIN par.wr \cup DOMAIN ch.wr |-> IF x \in DOMAIN ch.wr THEN ch.wr[x] ELSE par.wr[x]],
                              !.dep = @ \cup ch.dep, !.burnt = Add(@, ch.burnt)]

RunRet(ok) ==
    /\ pc = "run" /\ D > 1
    /\ LET ch == frames[D]
           par == frames[D - 1]
           back == IF ok THEN Merge(par, ch)
                   ELSE IF Bug = "no_sub_refund" THEN par
                   ELSE SetReq(par, ch.par, Plus(BalAt(D - 1, ch.par), ch.pay))       \* failed callee: drop its buffer, refund
       IN frames' = [i \in 1..(D - 1) |-> IF i = D - 1 THEN back ELSE frames[i]]
    /\ acts' = acts \cup {IF ok THEN "subok" ELSE "subfail", IF D = 3 THEN "depth2" ELSE "depth1"}
    /\ UNCHANGED <<led, pre0, pc, tx, rc, gas, steps, eff, shok, blk>>

Half(x) == IF x = Zero THEN Zero ELSE N(x[1] \div 2)

(* the run ends (root level): the contract code's own outcome is ok; a successful termination of *)
(* a staked contract releases half of the stake to a destination and burns the rest           *)
Finish(ok, dest) ==
    /\ pc = "run" /\ D = 1
    /\ LET f0 == frames[1]
           st == Get(led, Target).cstake
           term == tx.kind = "terminate" /\ ok /\ st # Zero
           f == IF term THEN SetReq(f0, dest, Plus(BalAt(1, dest), Half(st))) ELSE f0
       IN /\ (~term => dest = Rcpt)
          /\ eff' = [req |-> f.req, burnt |-> f.burnt, term |-> IF term THEN Sub(st, Half(st)) ELSE Zero, deployed |-> f.dep,
                     sh |-> [ran |-> TRUE, ok |-> ok, moved |-> f.moved, keep |-> {}, dest |-> dest, deployed |-> f.dep,
                             req |-> IF tx.wasm THEN <<>> ELSE f0.req,
                             base |-> IF tx.wasm THEN <<>> ELSE [a \in DOMAIN f0.req |-> Get(led, a).bal],
                             writes |-> {<<x[1], x[2], f.wr[x]>> : x \in DOMAIN f.wr}]]
          /\ frames' = <<f>>
    /\ shok' = ok
    /\ rc' = [success |-> ok, gasUsed |-> gas, gasCost |-> Mul(N(gas), Fpg), oog |-> FALSE]
    /\ pc' = "settle"
    /\ UNCHANGED <<led, pre0, tx, gas, steps, acts, blk>>

(* Commit writes the whole balance buffer of the environment: what this run requested and - if the *)
(* environment was not reset - what earlier runs of the block left in it                          *)
Flushed(L) == IF tx.wasm THEN L
              ELSE [a \in DOMAIN L \cup DOMAIN blk.cache |->
                       IF a \in DOMAIN blk.cache /\ a \notin DOMAIN eff.req THEN [Get(L, a) EXCEPT !.bal = blk.cache[a]] ELSE Get(L, a)]
Cached == IF tx.wasm THEN blk
          ELSE [blk EXCEPT !.cache = [a \in DOMAIN blk.cache \cup DOMAIN eff.req |-> IF a \in DOMAIN eff.req THEN eff.req[a] ELSE blk.cache[a]]]

Commit == /\ pc = "settle" /\ (rc.success \/ Bug = "commit_on_fail")
          /\ led' = Flushed(CommitOp(led, tx, eff))
          /\ pc' = "charge" /\ blk' = Cached
          /\ UNCHANGED <<pre0, tx, rc, frames, gas, steps, eff, shok, acts>>

Rollback == /\ pc = "settle" /\ ~rc.success /\ Bug # "commit_on_fail"
            /\ led' = IF Bug = "no_refund" THEN led ELSE RefundOp(led, tx)
            /\ pc' = "charge" /\ blk' = IF tx.wasm THEN blk ELSE [blk EXCEPT !.cache = <<>>]
            /\ UNCHANGED <<pre0, tx, rc, frames, gas, steps, eff, shok, acts>>

Charge == /\ pc = "charge"
          /\ led' = ChargeOp(led, tx, IF Bug = "no_gas_fee" THEN tx.sizeFee ELSE Add(tx.sizeFee, rc.gasCost))
          /\ pc' = "reward"
          /\ UNCHANGED <<pre0, tx, rc, frames, gas, steps, eff, shok, acts, blk>>

(* block reward and the proposer's share of fee and tips go to the proposer only *)
Reward == /\ pc = "reward"
          /\ led' = Put(led, Proposer, [led[Proposer] EXCEPT !.bal = Add(@, N(2)), !.stake = Add(@, One)])
          /\ pc' = "done"
          /\ UNCHANGED <<pre0, tx, rc, frames, gas, steps, eff, shok, acts, blk>>

(* between two transactions of a block a balance may change outside any contract environment   *)
(* (plain transfer, payment into a contract, somebody's fee) ...                                *)
(* (only changes of accounts the environment still holds something about matter here)          *)
Outside(a, b) == /\ pc = "done" /\ blk.ntx < MaxTx /\ ~blk.out /\ a # b /\ Leq(One, led[a].bal)
                 /\ (a \in DOMAIN blk.cache \/ b \in DOMAIN blk.cache)
                 /\ led' = Move(led, a, b, One) /\ pc' = "between" /\ blk' = [blk EXCEPT !.out = TRUE]
                 /\ UNCHANGED <<pre0, tx, rc, frames, gas, steps, eff, shok, acts>>
(* ... and the next transaction of the block runs in the same execution context *)
NextTx == /\ pc \in {"done", "between"} /\ blk.ntx < MaxTx
          /\ pc' = "idle" /\ blk' = [blk EXCEPT !.ntx = @ + 1]
          /\ eff' = [req |-> <<>>, burnt |-> Zero, term |-> Zero, deployed |-> {}, sh |-> NoShadow]
          /\ UNCHANGED <<led, pre0, tx, rc, frames, gas, steps, shok, acts>>

Next == \/ \E k \in {"deploy", "call", "terminate"}, w \in BOOLEAN, a \in AmtVals, g \in GasVals, t \in {0, 1} : Submit(k, w, a, g, t)
        \/ Escrow
        \/ OutOfGas
        \/ \E a \in Names \ {Proposer}, amt \in AmtVals \ {0} : RunSend(a, amt)
        \/ RunBurn
        \/ \E v \in {"1", "2", ""} : RunWrite(v)
        \/ \E amt \in AmtVals \ {0} : RunStake(amt)
        \/ \E amt \in AmtVals, d \in BOOLEAN : RunSub(Other, amt, d) \/ RunSub(Target, amt, d)
        \/ \E ok \in BOOLEAN : RunRet(ok)
        \/ \E ok \in BOOLEAN, dest \in {Sender, Rcpt} : Finish(ok, dest)
        \/ Commit \/ Rollback \/ Charge \/ Reward
        \/ NextTx \/ \E a, b \in Names \ {Proposer} : Outside(a, b)

Spec == Init /\ [][Next]_vars

(* the envelope, as specified, satisfies every clause on every completed transaction *)
ClausesHold == pc = "done" => Broken(pre0, led, tx, rc, eff, Proposer) = ""
NoDrift == pc = "done" => ~Drift(pre0, led, tx, rc, eff)

TypeOK == /\ pc \in {"idle", "escrow", "run", "settle", "charge", "reward", "done", "between"}
          /\ \A a \in DOMAIN led : IsNat(led[a].bal) /\ IsNat(led[a].cstake)
=============================================================================
