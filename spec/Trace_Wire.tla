----------------------------- MODULE Trace_Wire -----------------------------
(* Trace validation for C12.  Each line of the trace is one shape of the Wire table, instantiated *)
(* by the Go driver and pushed through the REAL entry points of the node, with what really         *)
(* happened: the verdict class (or PANIC / TIMEOUT / CRASH), the bytes allocated while handling it *)
(* (runtime.MemStats.TotalAlloc delta) and the size of the object on the wire.                     *)
(*                                                                                                *)
(*   - a line whose shape is not a member of the specification's table is not a step of the       *)
(*     specification: the trace is rejected there (the driver cannot invent or mangle shapes);    *)
(*   - the OBSERVED outcome is installed into the specification's variables and the property      *)
(*     clauses of Wire.tla are evaluated on it: Total (a verdict was returned) and Proportionate  *)
(*     (allocation within Cmul * frame + Cadd).  Every broken clause is reported with its trace   *)
(*     line by the postcondition: that is the verdict of the check;                               *)
(*   - `drift` counts the lines whose verdict class is outside the set the design-level model     *)
(*     admits for the shape (reported, not a verdict: the property does not fix the class).       *)
EXTENDS Wire, Json, IOUtils

Trace == ndJsonDeserialize(IOEnv.TRACE_FILE)
ASSUME TLCSet(2, 0) /\ TLCSet(3, <<>>) /\ TLCSet(4, <<>>)

VARIABLE l
tvars == <<vars, l>>

Outcomes == Verdicts \cup {"PANIC", "TIMEOUT", "CRASH"}

TraceInit == /\ l = 1 /\ case = [layer |-> "none"] /\ pc = "recv" /\ verdict = {} /\ alloc = 0 /\ frame = 0

TCase ==
    /\ l <= Len(Trace) /\ Trace[l].ev = "Case" /\ l' = l + 1
    /\ LET e == Trace[l] IN
       /\ IsCase(e.c)
       /\ e.verdict \in Outcomes /\ e.alloc >= 0 /\ e.frame >= 0
       /\ case' = e.c /\ pc' = "done" /\ verdict' = {e.verdict} /\ alloc' = e.alloc /\ frame' = e.frame
       /\ IF ~TotalOn({e.verdict}) THEN TLCSet(3, Append(TLCGet(3), <<l, "Total:" \o e.verdict>>)) ELSE TRUE
       /\ IF ~Bound(e.alloc, e.frame) THEN TLCSet(3, Append(TLCGet(3), <<l, "Proportionate">>)) ELSE TRUE
       /\ IF e.verdict \in Verdicts /\ e.verdict \notin Expect(e.c)
          THEN TLCSet(2, TLCGet(2) + 1) /\ (IF Len(TLCGet(4)) < 40 THEN TLCSet(4, Append(TLCGet(4), l)) ELSE TRUE)
          ELSE TRUE

TraceNext == TCase
TraceSpec == TraceInit /\ [][TraceNext]_tvars

TraceAccepted ==
    LET d == TLCGet("stats").diameter IN
    /\ PrintT(<<"DRIFT", TLCGet(2)>>)
    /\ PrintT(<<"DRIFT_LINES", TLCGet(4)>>)
    /\ IF d - 1 = Len(Trace) THEN TRUE ELSE Print(<<"TRACE_REJECTED_AT", d, Len(Trace)>>, FALSE)
    /\ \A i \in 1..Len(TLCGet(3)) : PrintT(<<"CLAUSE_BROKEN", TLCGet(3)[i][1], TLCGet(3)[i][2]>>)
    /\ TLCGet(3) = <<>>
=============================================================================
