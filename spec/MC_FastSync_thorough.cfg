CONSTANTS
  MaxAttempts = 10
  NN = 4
  Peers = {"A", "B", "C"}
  Liars = {"A"}
  MaxFaults = 1
  MaxNew = 3
  MaxRestarts = 1
  ExportOn = TRUE
  SampleMod = 400
  RareMod = 10
  BlockFaults = {"diff-wrong", "diff-missing", "hdr-parent", "hdr-seed", "hdr-forged", "hdr-time", "hdr-gap", "trunc", "cert-missing", "cert-outsider"}
INIT MInit
NEXT MNext
VIEW view
INVARIANTS TypeOK NoFaultAccepted CulpritSetAside ArrivedEqualsApplied Recoverable
PROPERTIES NoPartialSwitch
ACTION_CONSTRAINT Export
CHECK_DEADLOCK FALSE
