CONSTANTS
  Nodes = {0, 1, 2}
  Bases = {10, 11}
  Gens = {TRUE, FALSE}
  VNs = {1, 3, 9}
  MaxT = 5
  VoteSets = {{0, 1, 2}, {0}, {1}, {0, 1}, {1, 2}}
  Proposers = {0, 1, 2}
  Crafters = {0, 1, 2}
  Laggers = {0, 1, 2}
  MaxVotes = 14
  MaxOdd = 4
  MaxBlocks = 12
  MaxRestarts = 5
  MaxPersists = 4
  MaxTicks = 5
  MaxCraft = 3
  MaxForce = 2
  MaxLag = 4
  MaxProbes = 3
  MaxReorg = 2
  MaxCrash = 3
  ExportOn = TRUE
  SampleMod = 1
INIT Init
NEXT Next

INVARIANTS TypeOK SameChainSameVersion SameGenesisInfo VersionByChain GenesisByChain NewGenesisExactlyAfterUpgrade
PROPERTIES VersionMonotone RestartNeutral
ACTION_CONSTRAINT ExportAll
CHECK_DEADLOCK FALSE
