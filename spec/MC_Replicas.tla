---------------------------- MODULE MC_Replicas ----------------------------
EXTENDS Replicas, Json
CONSTANT ExportOn
view == <<net, chain, obs, hist>>
RSeq == CHOOSE s \in [1..Cardinality(Replica) -> Replica] : \A i, j \in 1..Cardinality(Replica) : i # j => s[i] # s[j]
\* every complete schedule of history shapes is exported
Export == IF ExportOn /\ Len(hist') = MaxHeight
          THEN PrintT(ToJson([sched |-> [i \in 1..Len(hist') |-> [j \in 1..Len(RSeq) |-> <<RSeq[j], hist'[i][RSeq[j]]>>]]]))
          ELSE TRUE
=============================================================================
