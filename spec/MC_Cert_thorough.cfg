CONSTANTS
  Params <- DefaultParams
  NIds = 4
  OddKinds = TRUE
  FullBase = TRUE
  WideStale = TRUE
  TwoDev = FALSE
  ExportOn = TRUE
  SampleMod = 3
  HH = 10
INIT Init
NEXT Next
INVARIANTS TypeOK Sound Complete CounterSound CounterLive Export
CHECK_DEADLOCK FALSE
