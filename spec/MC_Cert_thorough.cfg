CONSTANTS
  Params <- DefaultParams
  NIds = 4
  OddKinds = TRUE
  FullBase = TRUE
  WideStale = FALSE
  TwoDev = FALSE
  ExportOn = TRUE
  SampleMod = 4
  HH = 10
INIT Init
NEXT Next
INVARIANTS TypeOK Sound Complete Counter Export
CHECK_DEADLOCK FALSE
