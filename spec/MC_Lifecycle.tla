---------------------------- MODULE MC_Lifecycle ----------------------------
(* Bounded exploration of the lifecycle graph of Lifecycle.tla + export of an EDGE COVER.                       *)
(*                                                                                                            *)
(* Initial states: one per situation the driver's prelude prepares on a real chain (a key in every status,    *)
(* validated ones with and without their required flips).  Every attempt of TxOps is explored in EVERY        *)
(* reachable state (admissible or refused), every block-level step where it is enabled, the epoch end with    *)
(* every outcome the decision table allows.  `hist` (not part of the VIEW) is the path; the action constraint *)
(* prints, for every stratum of transitions (several key families, below) that it has not printed Per times   *)
(* yet, the path reaching the transition: TLC's breadth-first search makes these paths shortest.              *)
EXTENDS Lifecycle, Json

CONSTANTS MaxDepth,     \* attempts + block-level steps per path
          MaxEpochs,    \* epoch ends per path
          Inits,        \* initial situations
          Per,          \* exported paths per stratum
          Families      \* stratum key families that are exported

VARIABLES s, tag, hist, eps,
          aft      \* blocks of the after-long period that carried no ceremony transaction (the chain ends the epoch with the fifth)
vars == <<s, tag, hist, eps, aft>>
view == <<s, tag, eps, aft>>

Base == [st |-> "U", per |-> 0, rv |-> FALSE, on |-> FALSE, psw |-> FALSE, dg |-> FALSE, sw |-> "no", dnew |-> FALSE, und |-> FALSE,
         pen |-> "none", lnk |-> FALSE, stk |-> "none", lck |-> FALSE, rep |-> FALSE, nfl |-> 0, req |-> 0, vtx |-> {},
         xinv |-> 0, xfz |-> FALSE, iinv |-> 0, ifz |-> FALSE, fst |-> "U", flnk |-> FALSE, dd |-> "none", dst |-> "val", dq |-> FALSE]
Val(st, nfl) == [Base EXCEPT !.st = st, !.rv = TRUE, !.stk = "some", !.req = 3, !.nfl = nfl, !.iinv = 1,
                             !.xinv = IF st \in {"V", "H"} THEN 1 ELSE 0, !.xfz = st \in {"V", "H"}]
InitOf(t) ==
    CASE t = "U"  -> [Base EXCEPT !.iinv = 1]
      [] t = "I"  -> [Base EXCEPT !.st = "I", !.lnk = TRUE]
      [] t = "C"  -> [Base EXCEPT !.st = "C", !.lnk = TRUE, !.stk = "some", !.rep = TRUE]
      [] t = "S"  -> [Base EXCEPT !.st = "S", !.stk = "some", !.iinv = 1]
      [] t = "Z"  -> [Base EXCEPT !.st = "Z", !.stk = "some", !.iinv = 1]
      [] t = "N0" -> Val("N", 0) [] t = "N3" -> Val("N", 3)
      [] t = "V0" -> Val("V", 0) [] t = "V3" -> Val("V", 3)
      [] t = "H0" -> Val("H", 0) [] t = "H3" -> Val("H", 3)

Init == /\ tag \in Inits /\ s = InitOf(tag) /\ hist = <<>> /\ eps = 0 /\ aft = 0

\* exploration bounds (not rules): invitations whose exact number the model does not know are used once
Explored(o) ==
    CASE o.n = "InviteX"    -> ~s.ifz \/ s.iinv > 0
      [] o.n = "InviteF"    -> ~s.xfz \/ s.xinv > 0
      [] o.n = "DelegateDX" -> s.dst = "val"
      [] o.n = "EpochEnd"   -> eps < MaxEpochs
      [] OTHER -> TRUE
\* (a bound of the chain, not a rule of the lifecycle: applyGlobalParams counts the blocks of the after-long period without
\* ceremony transactions and the block after the fourth one finishes the validation, whatever it carries)
RoomInAfterLong(o) == (s.per = 4 /\ o.n \in TxOps \cup {"Penalty"}) => aft < 4

EpochOps == {EpochOp(out, inv, rw) : out \in Statuses, inv \in {0, 1}, rw \in BOOLEAN}
AllOps == {Op(n) : n \in TxOps \cup (BlockOps \ {"EpochEnd"})} \cup EpochOps

Step(o) ==
    /\ Explored(o) /\ RoomInAfterLong(o) /\ Enabled(s, o)
    /\ LET a == IF o.n \in BlockOps THEN [pool |-> TRUE, block |-> TRUE] ELSE Adm(s, o)
           t == Post(s, o) IN
       /\ s' = t
       /\ hist' = Append(hist, [n |-> o.n, out |-> o.out, inv |-> o.inv, rw |-> o.rw, by |-> Signer(o.n), pool |-> a.pool, block |-> a.block,
                                post |-> t])
       /\ eps' = IF o.n = "EpochEnd" THEN eps + 1 ELSE eps
       /\ aft' = IF t.per # 4 \/ s.per # 4 THEN 0
                 ELSE IF o.n \in Ceremonial /\ a.block THEN 0 ELSE aft + 1
    /\ UNCHANGED tag

Next == Len(hist) < MaxDepth /\ \E o \in AllOps : Step(o)
Spec == Init /\ [][Next]_vars

(* ---------------------------------------------------------------------------------------------------------- *)
(* design-level properties (checked by TLC on every reachable state / transition)                              *)
TypeOK == s \in StateType
InvValidatedIffStatus == ValidatedIffStatus(s)
InvOnlineOnlyValidatedOrPool == OnlineOnlyValidatedOrPool(s)
InvDeadOwnsNothing == DeadOwnsNothing(s)
InvStakeParts == StakeParts(s)
InvDelegatorQuiet == DelegatorQuiet(s)
LastOp == LET e == hist'[Len(hist')] IN [n |-> e.n, out |-> e.out, inv |-> e.inv, rw |-> e.rw]
PropOnlyNamedRelationships == [][OnlyNamedRelationships(s, LastOp, s')]_vars
PropNoResurrection == [][NoResurrection(s, LastOp, s')]_vars
PropStatusOnlyByEpoch == [][StatusOnlyByEpoch(s, LastOp, s')]_vars
\* a refused attempt has no effect
PropRefusedNoEffect == [][(hist'[Len(hist')].n \in TxOps /\ ~hist'[Len(hist')].block) => s' = s]_vars

(* ---------------------------------------------------------------------------------------------------------- *)
(* export                                                                                                      *)
B(b) == IF b THEN "1" ELSE "0"
N(n) == ToString(n)
\* stratum keys of the transition (s, e): one per family
KeyOf(fam, e) ==
    LET o == e.n \o (IF e.n = "EpochEnd" THEN ":" \o e.out ELSE "") \o "|" \o B(e.pool) \o B(e.block) IN
    CASE fam = "A" -> "A|" \o o \o "|" \o s.st \o "|" \o N(s.per)
      [] fam = "D" -> IF e.n \in {"Delegate", "Undelegate", "KillDelegatorX", "KillDelegatorXByG", "GoOnline", "GoOffline", "Evidence", "Flush", "Kill", "EpochEnd", "DelegateDX", "KillInviteeX"}
                      THEN "D|" \o o \o "|" \o B(s.dg) \o s.sw \o B(s.dnew) \o B(s.und) ELSE ""
      [] fam = "O" -> IF e.n \in {"GoOnline", "GoOffline", "Flush", "Penalty", "Delegate", "Kill", "EpochEnd", "KillDelegatorX", "KillDelegatorD"}
                      THEN "O|" \o o \o "|" \o B(s.on) \o B(s.psw) \o s.pen \o B(s.rv) \o B(IsPool(s)) ELSE ""
      [] fam = "P" -> IF e.n \in {"Delegate", "DelegateDX", "KillDelegatorD", "GoOnline", "Flush", "Kill", "EpochEnd", "Undelegate"}
                      THEN "P|" \o o \o "|" \o s.dd \o s.dst \o s.sw \o B(s.dq) ELSE ""
      [] fam = "S" -> IF e.n \in {"Kill", "KillDelegatorX", "KillInviteeX", "EpochEnd", "ReplenishX", "ReplenishSelf", "ActivateOther", "ActivateSelf"}
                      THEN "S|" \o o \o "|" \o s.st \o s.stk \o B(s.lck) \o B(s.rep) \o B(e.rw) ELSE ""
      [] fam = "F" -> IF e.n \in {"SubmitFlip", "DeleteFlip", "AnswersHash", "ShortAnswers", "LongAnswers", "Evidence", "EpochEnd"}
                      THEN "F|" \o o \o "|" \o s.st \o N(s.nfl) \o N(s.req) \o N(s.per) \o N(Cardinality(s.vtx)) ELSE ""
      [] fam = "I" -> IF e.n \in {"InviteF", "KillInviteeF", "ActivateF", "ActivateOther", "Kill", "EpochEnd", "InviteX", "InviteXByS", "KillInviteeX", "KillInviteeXByG"}
                      THEN "I|" \o o \o "|" \o s.st \o N(s.xinv) \o s.fst \o B(s.flnk) \o B(s.lnk) \o N(s.iinv) \o N(e.inv) ELSE ""

      \* the steps that run the identity-update block: every combination of what can be pending
      [] fam = "X" -> IF e.n \in {"Flush", "Kill", "KillInviteeX", "KillDelegatorX", "KillInviteeF", "KillDelegatorD", "EpochEnd"}
                      THEN "X|" \o o \o "|" \o B(s.on) \o B(s.psw) \o s.pen \o s.sw \o B(s.dg) \o s.dd \o B(s.dq) \o B(s.rv) ELSE ""

ASSUME TLCSet(7, <<>>)
\* register 7 of the worker: [key -> number of paths printed]
Count(k) == IF k \in DOMAIN TLCGet(7) THEN TLCGet(7)[k] ELSE 0
Export ==
    LET e == hist'[Len(hist')]
        ks == {KeyOf(fam, e) : fam \in Families} \ {""}
        new == {k \in ks : Count(k) < Per} IN
    IF new = {} THEN TRUE
    ELSE /\ TLCSet(7, [k \in DOMAIN TLCGet(7) \cup new |-> IF k \in new THEN Count(k) + 1 ELSE TLCGet(7)[k]])
         /\ PrintT(ToJson([init |-> tag, pre |-> s, keys |-> ks, path |-> hist']))
=============================================================================
