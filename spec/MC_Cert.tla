------------------------------ MODULE MC_Cert ------------------------------
(* Bounded model run of Cert (C07): enumerates validator-set shapes x vote lists, checks the       *)
(* property invariants on every case and exports the cases (with the model's verdicts) for replay  *)
(* on the real code.  The case is built in two steps (shape, then votes) so that TLC's workers     *)
(* share the enumeration; every "case" state is visited exactly once.                             *)
EXTENDS Cert, Json

CONSTANTS NIds,        \* identities per shape (2..5); identities 1 and 2 are the possible pool owners
          OddKinds,    \* TRUE: also identities the chain never produces but the registry must handle (online delegator)
          FullBase,    \* TRUE: every subset of the approved members as the honest part; FALSE: boundary sizes only
          WideStale,   \* TRUE: stale-header votes by every key; FALSE: by one approved member and the stranger
          TwoDev,      \* TRUE: additionally lists with two deviating votes (first + last)
          ExportOn,
          SampleMod,   \* export every case without a deviating vote and 1/SampleMod of the others
          HH           \* height of the block being certified

DefaultParams == [pctN |-> 3000, pctF |-> 7000, agree |-> 6500, maxc |-> 100]   \* config/consensus.go

VARIABLES stage, S, votes
vars == <<stage, S, votes>>

K(v, o, d, del) == [v |-> v, o |-> o, d |-> d, del |-> del]
Plain == << K(FALSE, FALSE, FALSE, 0),     \* 1 no entry in the identity state (the key exists)
            K(TRUE,  FALSE, FALSE, 0),     \* 2 validated, offline
            K(TRUE,  FALSE, TRUE,  0),     \* 3 validated, offline, discriminated
            K(TRUE,  TRUE,  FALSE, 0),     \* 4 validated, online
            K(TRUE,  TRUE,  TRUE,  0),     \* 5 validated, online, discriminated
            K(FALSE, TRUE,  FALSE, 0) >>   \* 6 online, not validated (pool owner that lost its status)
Deleg(p) == << K(TRUE, FALSE, FALSE, p), K(TRUE, FALSE, TRUE, p) >>
Odd      == << K(TRUE, TRUE, FALSE, 1) >>  \* a delegator that is online itself
AllKinds == Plain \o Deleg(1) \o Deleg(2) \o (IF OddKinds THEN Odd ELSE <<>>)

ShapeFns == {f \in [1..NIds -> 1..Len(AllKinds)] :
                /\ \A i \in 1..NIds : (i <= 2 => f[i] <= Len(Plain))
                /\ \A i \in 3..(NIds - 1) : f[i] <= f[i + 1]}
ShapeOf(f, g) == [ids |-> [i \in 1..NIds |-> AllKinds[f[i]]], god |-> g]
\* god is a key of its own (0), or - where it matters - identity 1
Shapes == UNION {{ShapeOf(f, g) : g \in (IF GodMode(ShapeOf(f, 0)) THEN {0, 1} ELSE {0})} : f \in ShapeFns}

-----------------------------------------------------------------------------
RECURSIVE SortAsc(_)
SortAsc(X) == IF X = {} THEN <<>> ELSE LET m == CHOOSE x \in X : \A y \in X : x <= y IN <<m>> \o SortAsc(X \ {m})
Prefix(X, k) == LET s == SortAsc(X) IN {s[i] : i \in 1..k}
OtherStep(s) == IF s = Final THEN 1 ELSE 2

Mk(voter, hdr, step, flag, sig, h) ==
    [voter |-> voter, round |-> IF hdr = "round" THEN 1 ELSE 0,
     step |-> IF hdr = "step" THEN OtherStep(step) ELSE step,
     hash |-> IF hdr = "hash" THEN 1 - h ELSE h, parent |-> IF hdr = "parent" THEN 1 ELSE 0,
     flag |-> flag, sig |-> sig]

Steps == {1, Final}
Universe == 0..(NIds + 1)                   \* 0 = god key, NIds+1 = a stranger's key

VoteLists(Sh) ==
    LET comm == Sorted(Sh)
        A    == ApprovedOf(Sh, comm)
        R    == Required(Sh, comm, FALSE)
        nA   == Cardinality(A)
        Base == IF FullBase THEN SUBSET A
                ELSE {Prefix(A, k) : k \in ({0, R - 1, R, nA} \cap 0..nA)}
        BaseSeq(G, st, h) == LET s == SortAsc(G) IN [i \in 1..Len(s) |-> Mk(s[i], "ok", st, 0, "good", h)]
        \* a certificate that is consistent in itself but belongs to the other block / another round / another parent
        Moved(G, st, hv)  == LET s == SortAsc(G) IN [i \in 1..Len(s) |-> [Mk(s[i], "ok", st, 0, "good", hv[1]) EXCEPT !.round = hv[2], !.parent = hv[3]]]
        StaleBy == IF WideStale THEN Universe ELSE ({NIds + 1} \cup (IF A = {} THEN {} ELSE {CHOOSE a \in A : TRUE}))
        Dev(st) == {Mk(u, "ok", st, fs[1], fs[2], 0) : u \in Universe, fs \in {<<0, "good">>, <<1, "good">>, <<0, "mall">>}}
                   \cup {Mk(u, hd, st, 0, "good", 0) : u \in StaleBy, hd \in {"round", "step", "hash", "parent"}}
                   \cup {Mk(0, "ok", st, 0, "forged", 0)}
    IN UNION {
         {Moved(G, st, hv) : hv \in {<<0, 0, 0>>, <<1, 0, 0>>, <<0, 1, 0>>, <<0, 0, 1>>}}
         \cup {<<d>> \o BaseSeq(G, st, 0) : d \in Dev(st)}
         \cup {BaseSeq(G, st, 0) \o <<d>> : d \in Dev(st)}
         \cup (IF TwoDev THEN {<<d1>> \o BaseSeq(G, st, 0) \o <<d2>> : d1 \in Dev(st), d2 \in Dev(st)} ELSE {})
       : G \in Base, st \in Steps}

-----------------------------------------------------------------------------
Init == stage = "start" /\ S = ShapeOf([i \in 1..NIds |-> 1], 0) /\ votes = <<>>
PickShape == stage = "start" /\ stage' = "shape" /\ S' \in Shapes /\ votes' = <<>>
PickVotes == stage = "shape" /\ stage' = "case" /\ votes' \in VoteLists(S) /\ S' = S
Next == PickShape \/ PickVotes
Spec == Init /\ [][Next]_vars

-----------------------------------------------------------------------------
Comm == Sorted(S)          \* registries of at most 8 validators: the committee is the whole registry
Req  == Required(S, Comm, FALSE)   \* the table: the same for every step, no rounding tie below 10 non-approved members
IsCase == stage = "case"

Sound    == IsCase => \A cached \in BOOLEAN : Accept(S, Comm, votes, cached, 0, Req) => Quorum(S, Comm, votes, 0, Req)
Complete == IsCase => (Quorum(S, Comm, votes, 0, Req) /\ NoForeign(S, Comm, votes, 0)
                         => \A cached \in BOOLEAN : Accept(S, Comm, votes, cached, 0, Req))

\* the vote list taken as a pool: every certificate the counter can emit (any EmitSize distinct eligible admitted
\* voters of one hash) is accepted under both call shapes and is a quorum without foreign signatures, and the
\* counter emits exactly when such a certificate exists
AsVotes(I) == LET s == SortAsc(I) IN [i \in 1..Len(s) |-> votes[s[i]]]
Counter == IsCase =>
    LET adm == [k \in 1..Len(votes) |-> Admit(S, votes, k, HH)]
        A   == ApprovedOf(S, Comm)
        req == Req
    IN \A st \in Steps, h \in {0, 1} :
         LET idx   == {j \in 1..Len(votes) : /\ adm[j] /\ votes[j].sig # "forged" /\ votes[j].round = 0 /\ votes[j].step = st
                                             /\ votes[j].parent = 0 /\ votes[j].hash = h /\ votes[j].voter \in A}
             certs == {I \in SUBSET idx : /\ Cardinality(I) = EmitSize(req)
                                          /\ \A i, j \in I : i # j => votes[i].voter # votes[j].voter}
         IN /\ CountEmitsA(A, votes, adm, st, h, req) <=> certs # {}
            /\ \A I \in certs : LET cv == AsVotes(I) IN
                   /\ AcceptA(A, cv, FALSE, h, req) /\ AcceptA(A, cv, TRUE, h, req)
                   /\ QuorumA(A, cv, h, req) /\ NoForeignA(A, cv, h)

TypeOK == /\ stage \in {"start", "shape", "case"}
          /\ WellFormedCommittee(S, Comm, FALSE) /\ Cnt(S) <= 8
          /\ \A f \in BOOLEAN : Requireds(S, Comm, f) = {Req}

HasDev == \E i \in 1..Len(votes) : votes[i].sig # "good" \/ votes[i].flag # 0 \/ votes[i].voter \notin ApprovedOf(S, Comm)
                                   \/ <<votes[i].round, votes[i].parent>> # <<votes[1].round, votes[1].parent>> \/ votes[i].step # votes[1].step
                                   \/ votes[i].hash # votes[1].hash
                                   \/ \E j \in 1..Len(votes) : j # i /\ votes[j] = votes[i]
\* every case without a deviating vote; 1/SampleMod of the others (1/(4*SampleMod) in god-only mode, where all shapes behave alike)
Export == IF ExportOn /\ IsCase /\ (~HasDev \/ RandomElement(1..(IF GodMode(S) THEN 4 * SampleMod ELSE SampleMod)) = 1)
          THEN PrintT(ToJson([ids |-> S.ids, god |-> S.god, votes |-> votes,
                              expect |-> [acc |-> Accept(S, Comm, votes, FALSE, 0, Req), accC |-> Accept(S, Comm, votes, TRUE, 0, Req),
                                          quorum |-> Quorum(S, Comm, votes, 0, Req), clean |-> NoForeign(S, Comm, votes, 0),
                                          req |-> Req, appr |-> SortAsc(ApprovedOf(S, Comm))]]))
          ELSE TRUE
=============================================================================
