CONSTANTS
  MaxAttempts = 10
  NN = 3
  Peers = {"A", "B"}
  Liars = {"A"}
  MaxFaults = 1
  MaxNew = 2
  MaxRestarts = 1
  ExportOn = TRUE
  SampleMod = 100
  RareMod = 1
  BlockFaults = {"diff-wrong", "diff-missing", "hdr-parent", "hdr-seed", "hdr-forged", "hdr-time", "hdr-gap", "trunc", "cert-missing", "cert-outsider"}
INIT MInit
NEXT MNext
VIEW view
INVARIANTS TypeOK NoFaultAccepted CulpritSetAside ArrivedEqualsApplied Recoverable
PROPERTIES NoPartialSwitch
ACTION_CONSTRAINT Export
CHECK_DEADLOCK FALSE
