------------------------------- MODULE MC_Rpc -------------------------------
(* Bounded model run of Rpc: the whole case table is the set of initial states; the reference   *)
(* server is stepped through Read / Gate / Dispatch / Reply with the C19 clauses as invariants, *)
(* and every finished case is exported (one JSON line) with the reference outcome for replay on *)
(* the real rpc.Server.                                                                         *)
(*                                                                                              *)
(* Table (key configured):                                                                      *)
(*   singles and batches of one : KeyClasses x Kinds                                            *)
(*   batches of two   : every key pair x (kind pairs over Kinds2)  +  (key pairs over Keys2) x every kind pair *)
(*   batches of three : every key triple x (kind triples over Kinds3; the same kind at all three *)
(*                      positions if Same3)  +  (key triples over Keys3) x every kind triple     *)
(* so every permutation of key classes over the positions, and every permutation of kinds over  *)
(* the positions, is present.  Without a configured key: singles + every key pair x same kind.  *)
EXTENDS Rpc, Json
CONSTANTS ExportOn,
          Kinds2, Keys2,          \* batches of two
          Kinds3, Keys3, Same3    \* batches of three

Elems == KeyClasses \X Kinds
SameKind(n, KS) == UNION {[1..n -> KeyClasses \X {kd}] : kd \in KS}
Batch2 == [1..2 -> KeyClasses \X Kinds2] \cup [1..2 -> Keys2 \X Kinds]
Batch3 == (IF Same3 THEN SameKind(3, Kinds3) ELSE [1..3 -> KeyClasses \X Kinds3]) \cup [1..3 -> Keys3 \X Kinds]

Cases ==      [el : [1..1 -> Elems], batch : BOOLEAN, ks : BOOLEAN, ps : BOOLEAN]
         \cup [el : Batch2 \cup Batch3, batch : {TRUE}, ks : {TRUE}, ps : BOOLEAN]
         \cup [el : SameKind(2, Kinds2), batch : {TRUE}, ks : {FALSE}, ps : BOOLEAN]

MInit == /\ msg \in Cases
         /\ pc = "read" /\ idx = 0 /\ gate = <<>> /\ out = <<>> /\ whole = 0

B(b) == IF b THEN 1 ELSE 0
Export == IF ExportOn /\ pc = "done"
          THEN PrintT(ToJson([el |-> msg.el, batch |-> B(msg.batch), ks |-> B(msg.ks), ps |-> B(msg.ps),
                              whole |-> whole, exp |-> out]))
          ELSE TRUE
=============================================================================
