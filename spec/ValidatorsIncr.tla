--------------------------- MODULE ValidatorsIncr ---------------------------
(* core/validators/validators.go: the in-memory validator view, maintained incrementally from     *)
(* identity-state diffs (UpdateFromIdentityStateDiff, transcribed entry by entry, in diff order)  *)
(* versus rebuilt from the stored identity state (loadValidNodes, transcribed in key order).      *)
(* Design-level question (C10): for every stored registry R that satisfies the coupling           *)
(* invariants the chain maintains, and every diff D, is  Update(Load(R), D) = Load(R (+) D) ?     *)
(*                                                                                              *)
(* A registry entry is [v : validated, o : online, x : discriminated, d : delegatee or None];    *)
(* an absent entry is Absent.  A view is [val, onl, dis : sets; deleg : address -> pool or None; *)
(* papp : pool -> approved flag of the pool itself; dapp : delegator -> approved flag].          *)
EXTENDS Integers, Sequences, FiniteSets, TLC

CONSTANTS Addr,        \* set of integers (addresses, ordered as the tree iterates them)
          WithDiscr    \* enumerate the discriminated flag too

None == 0
Absent == [v |-> FALSE, o |-> FALSE, x |-> FALSE, d |-> None, absent |-> TRUE]
Entry(v, o, x, d) == [v |-> v, o |-> o, x |-> x, d |-> d, absent |-> FALSE]

Entries(a) == ({Absent} \cup {Entry(v, o, x, d) : v \in BOOLEAN, o \in BOOLEAN, x \in (IF WithDiscr THEN BOOLEAN ELSE {FALSE}),
                                                  d \in ({None} \cup (Addr \ {a}))})
                \ {Entry(FALSE, FALSE, FALSE, None)}     \* an entry without any flag is deleted, never stored

Registries == {R \in [Addr -> UNION {Entries(a) : a \in Addr}] : \A a \in Addr : R[a] \in Entries(a)}

\* coupling invariants maintained by block application (checked on the real registry by Trace_Registry)
IsPoolIn(R, p) == \E a \in Addr : ~R[a].absent /\ R[a].d = p
Coupled(R) == \A a \in Addr :
                 ~R[a].absent =>
                     /\ (R[a].d # None => R[a].v)                      \* only validated identities keep a delegation
                     /\ (R[a].d # None => R[R[a].d].absent \/ R[R[a].d].d = None)   \* a pool does not delegate
                     /\ (R[a].o => (R[a].v \/ IsPoolIn(R, a)))          \* only validated identities or pools are online
                     /\ (R[a].d # None => ~R[a].o)                      \* a delegator is not online itself

---------------------------------------------------------------------------
EmptyView == [val |-> {}, onl |-> {}, dis |-> {}, deleg |-> [a \in Addr |-> None],
              papp |-> [a \in Addr |-> FALSE], dapp |-> [a \in Addr |-> FALSE]]

PoolsOf(V) == {V.deleg[a] : a \in Addr} \ {None}

RECURSIVE SortAsc(_)
SortAsc(S) == IF S = {} THEN <<>> ELSE LET m == CHOOSE x \in S : \A y \in S : x <= y IN <<m>> \o SortAsc(S \ {m})

(* loadValidNodes: one pass over the stored entries in key order *)
LoadStep(V, a, e) ==
    LET newPool == e.d # None /\ e.d \notin PoolsOf(V)
        V1 == IF e.o THEN [V EXCEPT !.onl = @ \cup {a}] ELSE V
        V2 == IF e.d # None
              THEN [V1 EXCEPT !.deleg[a] = e.d,
                              !.dapp[a] = e.v /\ ~e.x,
                              !.papp[e.d] = IF newPool THEN (e.d \in V1.val /\ e.d \notin V1.dis) ELSE @]
              ELSE V1
        V3 == IF e.v THEN [V2 EXCEPT !.val = @ \cup {a}] ELSE V2
        V4 == IF e.x THEN [V3 EXCEPT !.dis = @ \cup {a}] ELSE V3
    IN IF a \in PoolsOf(V4) THEN [V4 EXCEPT !.papp[a] = e.v /\ ~e.x] ELSE V4

RECURSIVE LoadSeq(_, _, _)
LoadSeq(V, R, as) == IF as = <<>> THEN V
                     ELSE LoadSeq(IF R[Head(as)].absent THEN V ELSE LoadStep(V, Head(as), R[Head(as)]), R, Tail(as))
Load(R) == LoadSeq(EmptyView, R, SortAsc(Addr))

(* UpdateFromIdentityStateDiff: entries in diff order; newApprovals remembered for the final pass *)
RemoveDelegation(V, a) == [V EXCEPT !.deleg[a] = None, !.dapp[a] = FALSE]

UpdStep(S, a, e) ==
    LET V == S.V  na == S.na IN
    IF e.absent THEN
        [V |-> [RemoveDelegation(V, a) EXCEPT !.onl = @ \ {a}, !.val = @ \ {a}, !.dis = @ \ {a}],
         na |-> [na EXCEPT ![a] = "no"]]
    ELSE
        LET approved == e.v /\ ~e.x
            V1 == IF e.d = None THEN RemoveDelegation(V, a)
                  ELSE IF V.deleg[a] # e.d THEN
                       LET V0 == RemoveDelegation(V, a)
                           newPool == e.d \notin PoolsOf(V0)
                           poolApproved == IF na[e.d] # "unset" THEN na[e.d] = "yes" ELSE (e.d \in V0.val /\ e.d \notin V0.dis)
                       IN [V0 EXCEPT !.deleg[a] = e.d, !.dapp[a] = approved,
                                     !.papp[e.d] = IF newPool THEN poolApproved ELSE @]
                  ELSE [V EXCEPT !.dapp[a] = approved]
            V2 == IF e.o THEN [V1 EXCEPT !.onl = @ \cup {a}] ELSE [V1 EXCEPT !.onl = @ \ {a}]
            V3 == IF e.v THEN [V2 EXCEPT !.val = @ \cup {a}]
                  ELSE LET W == [V2 EXCEPT !.val = @ \ {a}] IN IF e.d # None THEN RemoveDelegation(W, a) ELSE W
            V4 == IF e.x THEN [V3 EXCEPT !.dis = @ \cup {a}] ELSE [V3 EXCEPT !.dis = @ \ {a}]
        IN [V |-> V4, na |-> [na EXCEPT ![a] = IF approved THEN "yes" ELSE "no"]]

RECURSIVE UpdSeq(_, _, _)
UpdSeq(S, D, as) == IF as = <<>> THEN S ELSE UpdSeq(UpdStep(S, Head(as), D[Head(as)]), D, Tail(as))

\* final pass: pools whose owner appeared in the diff get the owner's new approval
Finish(S) == [S.V EXCEPT !.papp = [p \in Addr |-> IF p \in PoolsOf(S.V) /\ S.na[p] # "unset" THEN S.na[p] = "yes" ELSE S.V.papp[p]]]

\* D: [changed addresses -> new entry]; applied in address order (the diff is produced in key order)
Update(V, D) == Finish(UpdSeq([V |-> V, na |-> [a \in Addr |-> "unset"]], D, SortAsc(DOMAIN D)))

\* what the getters can see: flags of pools without delegators are not observable
Norm(V) == [V EXCEPT !.papp = [p \in Addr |-> IF p \in PoolsOf(V) THEN V.papp[p] ELSE FALSE],
                     !.dapp = [a \in Addr |-> IF V.deleg[a] # None THEN V.dapp[a] ELSE FALSE]]

Patch(R, D) == [a \in Addr |-> IF a \in DOMAIN D THEN D[a] ELSE R[a]]

---------------------------------------------------------------------------
VARIABLES R, D
Diffs == UNION {[S -> UNION {Entries(a) : a \in Addr}] : S \in (SUBSET Addr) \ {{}}}

Init == /\ R \in Registries /\ Coupled(R)
        /\ D \in {d \in Diffs : (\A a \in DOMAIN d : d[a] \in Entries(a) /\ d[a] # R[a]) /\ Cardinality(DOMAIN d) <= 2}
        /\ Coupled(Patch(R, D))
Next == UNCHANGED <<R, D>>

IncrEqLoad == Norm(Update(Load(R), D)) = Norm(Load(Patch(R, D)))
=============================================================================
