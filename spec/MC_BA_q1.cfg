CONSTANTS
  MN = 3
  MT = 2
  MTF = 2
  MMaxSteps = 5
  ExportOn = TRUE
  SampleMod = 8
  TimeoutOdds = 1
  MByz = {}
  Ks = {0, 1}
INIT MInit
NEXT MNext
VIEW view
INVARIANTS TypeOK Agreement CertifiedCommitV Validity
PROPERTIES StepProps
ACTION_CONSTRAINT Export
CHECK_DEADLOCK FALSE
