CONSTANTS
  NS = 2
  MaxNonce = 2
  MaxEpoch = 1
  NK = 2
  EL = 2
  PL = 1
  QS = 1
  ES = 1
  CB = 1
  RIC = FALSE
  GasCap = 2
  InitEpochs = {0}
  InitPers = {0, 3}
  ForeignMax = 1
  ExportOn = TRUE
  MaxOps = 5
  SampleMod = 60
  ImportantMod = 8
INIT MInit
NEXT MNext
VIEW view
INVARIANTS TypeOK
PROPERTIES Refines
ACTION_CONSTRAINT Export
CHECK_DEADLOCK FALSE
