----------------------------- MODULE MC_UpgradeQ -----------------------------
(* Case table for the upgrader's own rules (IsValidTargetVersion / UpgradeBits / CanUpgrade / ValidateBlock): every  *)
(* combination of                                                                                                *)
(*   ver    consensus version of the node (10, 11: a target exists; 12: the top, none)                           *)
(*   tp     the instant relative to the target's activation window: 0 the second before, 1 its first second,       *)
(*          2 inside, 3 its last second, 4 the second after                                                      *)
(*   vp     distance to the next validation: 0 one second more than the interval, 1 exactly the interval,           *)
(*          2 one second less                                                                                    *)
(*   on     online, non-discriminated identities (the fork committee);  kt of them voted for the target, kx of them  *)
(*          for other bits                                                                                       *)
(*   noise  an online discriminated identity, a validated offline identity and a stranger voted for the target     *)
(* with the model's answers; d_upgrade -table replays each on a real Upgrader over a real (synthetic) identity      *)
(* state, with real signed votes through ProcessVote.                                                            *)
EXTENDS Upgrade, Json
CONSTANTS MaxOn
VARIABLE cs
Cases == {q \in [ver : 10..12, tp : 0..4, vp : 0..2, on : 0..MaxOn, kt : 0..MaxOn, kx : 0..1, noise : 0..1] : q.kt + q.kx <= q.on}
Init == cs \in Cases
Next == UNCHANGED cs

QCfg == [Top |-> 12, Gen |-> FALSE, I |-> 5, W |-> [v \in 10..13 |-> IF v \in {11, 12} THEN [s |-> 10, e |-> 20] ELSE [s |-> 99, e |-> 0]]]
Now == CASE cs.tp = 0 -> 9 [] cs.tp = 1 -> 10 [] cs.tp = 2 -> 15 [] cs.tp = 3 -> 20 [] OTHER -> 21
Vt == Now + (CASE cs.vp = 0 -> 6 [] cs.vp = 1 -> 5 [] OTHER -> 4)
Elig == 1..cs.on
T == Target(QCfg, cs.ver)
Book == [i \in 1..9 |-> IF i <= cs.kt THEN T ELSE IF i <= cs.kt + cs.kx THEN 13 ELSE IF i >= 7 /\ cs.noise = 1 THEN T ELSE 0]
Can == CanUpgrade(QCfg, cs.ver, Now, Vt, Book, Elig)
Acc(u) == UpgraderAccepts(QCfg, cs.ver, Now, Vt, Book, Elig, u)
B2(x) == IF x THEN 1 ELSE 0
Export == PrintT(ToJson([cs |-> cs, expect |-> [can |-> B2(Can), valid |-> B2(ValidTarget(QCfg, cs.ver, Now)), bits |-> Bits(QCfg, cs.ver, Now),
                                               acc |-> <<B2(Acc(0)), B2(Acc(11)), B2(Acc(12)), B2(Acc(13))>>]]))
\* sanity of the rule itself
Sane == /\ Can => (ValidTarget(QCfg, cs.ver, Now) /\ cs.ver < 12 /\ 10 * cs.kt >= 8 * cs.on - 9)
        /\ (cs.ver < 12 /\ cs.tp \in 1..3 /\ cs.vp \in 0..1 /\ cs.kt = cs.on) => Can
        /\ (cs.on >= 3 /\ 2 * cs.kt <= cs.on) => ~Can            \* (with two members one vote is the quorum: SmallQuorum)
        /\ Acc(0) /\ Acc(11) /\ ~Acc(13)
=============================================================================
