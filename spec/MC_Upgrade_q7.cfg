CONSTANTS
  Nodes = {0, 1, 2}
  Bases = {11}
  Gens = {TRUE, FALSE}
  VNs = {9}
  MaxT = 5
  VoteSets = {{0, 1, 2}}
  Proposers = {0}
  Crafters = {1}
  Laggers = {2}
  MaxVotes = 2
  MaxOdd = 0
  MaxBlocks = 4
  MaxRestarts = 0
  MaxPersists = 1
  MaxTicks = 1
  MaxCraft = 0
  MaxForce = 0
  MaxLag = 3
  MaxProbes = 0
  MaxReorg = 0
  MaxCrash = 2
  ExportOn = TRUE
  SampleMod = 10
INIT Init
NEXT Next
VIEW view
INVARIANTS TypeOK SameChainSameVersion SameGenesisInfo VersionByChain GenesisByChain NewGenesisExactlyAfterUpgrade
PROPERTIES VersionMonotone RestartNeutral
ACTION_CONSTRAINT Export
CHECK_DEADLOCK FALSE
