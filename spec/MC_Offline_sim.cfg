CONSTANTS
  Ids = {1, 2, 3}
  SilChoices = {{}, {1}, {2}, {3}}
  MaxBlocks = 26
  MaxWaits = 8
  MaxCraft = 4
  MaxForce = 2
  MaxByz = 3
  MaxDeaf = 3
  MaxSil = 4
  MaxVal = 1
  MaxTxs = 6
  ExportOn = TRUE
  SampleMod = 1
INIT Init
NEXT Next
INVARIANTS TypeOK OnlineValid ActiveNeverPenalised ClockSane
ACTION_CONSTRAINT ExportAll
CHECK_DEADLOCK FALSE
