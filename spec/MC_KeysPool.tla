----------------------------- MODULE MC_KeysPool -----------------------------
(* Bounded model of flip key publication / delivery + export of schedules for replay on real multi-node      *)
(* worlds (harness/cmd/d_keys).                                                                              *)
(*                                                                                                          *)
(* Identities = nodes 1..NN (every identity runs its own node); Authors have flips, the others are           *)
(* candidates without flips.  One fixed chain; every node is at a position of it (KeysPool.tla) and adds the  *)
(* next segment when the network has produced it (Release moves the clock).  The ceremony of a node publishes *)
(* the identity's public flip key and its key package when the real ceremony does (block handlers, the        *)
(* short-session timer, the delayed package broadcast); the network delivers published messages - and         *)
(* messages made by others: a second machine of an author, an equivocating author, replayed / corrupted /     *)
(* over-size ones, ones signed by a non-author or a stranger - to any node in any order, any number of times; *)
(* nodes restart; peers ask for sync offers.                                                                *)
EXTENDS KeysPool, Json

CONSTANTS NN,          \* number of nodes = identities
          Authors,     \* identities with flips
          ForgeFor,    \* identities for which forged message classes exist (an equivocating author, a non-author)
          FClasses,    \* forged classes in use (indices into the class table below)
          MaxPos,      \* last chain position explored
          MaxLag,      \* a node is at most this many segments behind the clock
          MaxDlv, MaxRst, MaxSyn, MaxBatch,
          Acts,        \* action families in use: "timer", "delayed" (restarts, deliveries, sync offers are bounded by their budgets)
          SyncCap,     \* model value of maxFlipKeySyncCounts
          ExportOn, SampleMod, WalkEvery

Nodes == 1..NN
U == Nodes
NC == 8
\* class table: index -> (name for keys, name for packages, signer, epoch offset)
KName == <<"g", "x", "x2", "next", "old", "len", "nosig", "stranger">>
PName == <<"g", "e", "s", "next", "old", "big", "nosig", "stranger">>
Off(ci) == IF ci = 3 THEN 1 ELSE IF ci = 4 THEN -1 ELSE 0
Snd(a, ci) == IF ci = 6 THEN NoSender ELSE IF ci = 7 THEN Stranger ELSE a

Id(kd, a, ci, r) == 1 + kd + 2 * ((a - 1) + NN * (ci + NC * (r - 1)))
MaxId == Id(1, NN, NC - 1, 2)
Decode(i) == LET j == i - 1
                 kd == j % 2
                 j2 == j \div 2
                 a == (j2 % NN) + 1
                 j3 == j2 \div NN
                 ci == j3 % NC
                 r == (j3 \div NC) + 1
             IN [id |-> i, kd |-> kd, snd |-> Snd(a, ci), ep |-> r + Off(ci), c |-> IF kd = 0 THEN KName[ci + 1] ELSE PName[ci + 1],
                 a |-> a, ci |-> ci, r |-> r]
Tab == [i \in 1..MaxId |-> Decode(i)]

Rounds == IF MaxPos >= 7 THEN {1, 2} ELSE {1}
Genuine == {Id(kd, a, 0, r) : kd \in 0..1, a \in Authors, r \in Rounds}
Forged == {Id(kd, a, ci, r) : kd \in 0..1, a \in ForgeFor, ci \in FClasses, r \in Rounds} \ {Id(0, a, 2, r) : a \in Nodes, r \in Rounds}

VARIABLES pos, clk, pool, ksent, psent, armed, delayed, pub, got, cnt, lab, hist
vars == <<pos, clk, pool, ksent, psent, armed, delayed, pub, got, cnt, lab, hist>>
view == <<pos, clk, pool, ksent, psent, armed, delayed, pub, got, cnt>>

ViewOf(p) == [ep |-> RoundOf(p), au |-> IF p = 7 THEN {} ELSE Authors]
One == [a \in U |-> 1]      \* every identity lives in shard 1

Init == /\ pos = [n \in Nodes |-> 0] /\ clk = 0
        /\ pool = [n \in Nodes |-> EmptyPool(U)]
        /\ ksent = [n \in Nodes |-> FALSE] /\ psent = [n \in Nodes |-> FALSE]
        /\ armed = [n \in Nodes |-> TRUE] /\ delayed = [n \in Nodes |-> FALSE]
        /\ pub = {} /\ got = [n \in Nodes |-> {}]
        /\ cnt = [dlv |-> 0, rst |-> 0, syn |-> 0]
        /\ lab = [kind |-> "init", rare |-> FALSE] /\ hist = <<>>

---------------------------------------------------------------------------
(* the ceremony's publication attempts of node n (identity n) at position p: broadcastPublicFipKey /        *)
(* broadcastPrivateFlipKeysPackage.  st = [pool, ks, ps, pub, got, did]                                      *)

Try(n, p, st, kd) ==
    LET sent == IF kd = 0 THEN st.ks ELSE st.ps
        m == Tab[Id(kd, n, 0, RoundOf(p))]
        v == ViewOf(p)
        code == CodeOf(Tab, U, st.pool, v, m)
    IN IF sent \/ n \notin v.au \/ (kd = 1 /\ ~LotteryAt(p)) THEN st
       ELSE [pool |-> Admit(Tab, U, st.pool, v, m, TRUE),
             ks |-> IF kd = 0 THEN code \in {"ok", "already"} ELSE st.ks,
             ps |-> IF kd = 1 THEN code \in {"ok", "already"} ELSE st.ps,
             pub |-> IF code = "ok" THEN st.pub \cup {m.id} ELSE st.pub,
             got |-> st.got \cup {<<m.id, Reason(v, m)>>},
             did |-> IF code = "ok" THEN Append(st.did, kd) ELSE st.did]

RECURSIVE TryAll(_, _, _, _)
TryAll(n, p, st, kds) == IF kds = <<>> THEN st ELSE TryAll(n, p, Try(n, p, st, Head(kds)), Tail(kds))

St(n) == [pool |-> pool[n], ks |-> ksent[n], ps |-> psent[n], pub |-> pub, got |-> got[n], did |-> <<>>]

Install(n, st) == /\ pool' = [pool EXCEPT ![n] = st.pool]
                  /\ ksent' = [ksent EXCEPT ![n] = st.ks] /\ psent' = [psent EXCEPT ![n] = st.ps]
                  /\ pub' = st.pub /\ got' = [got EXCEPT ![n] = st.got]

DidName(d) == IF d = <<>> THEN "none" ELSE IF d = <<0>> THEN "key" ELSE IF d = <<1>> THEN "pkg" ELSE "both"
PosName(p) == <<"Ready", "Lot", "LotLate", "Short", "Long", "LongLate", "After", "Epoch", "Ready2", "Lot2", "LotLate2", "Short2">>[p + 1]
Holding(n) == IF HeldIds(U, pool[n]) = {} THEN "empty" ELSE "holding"
Lagging(n, p) == IF clk > p THEN ":lag" ELSE ""

Step(k, n) == [k |-> k, n |-> n, ms |-> <<>>, via |-> "one", sh |-> 0, nf |-> 0]

---------------------------------------------------------------------------
Release ==
    /\ clk < MaxPos /\ \A n \in Nodes : clk - pos[n] < MaxLag
    /\ clk' = clk + 1
    /\ lab' = [kind |-> "rel", rare |-> FALSE] /\ hist' = Append(hist, Step("rel", 0))
    /\ UNCHANGED <<pos, pool, ksent, psent, armed, delayed, pub, got, cnt>>

Adv(n) ==
    /\ pos[n] < clk
    /\ LET p == pos[n] + 1
           base == IF p = 7 THEN [St(n) EXCEPT !.pool = EmptyPool(U), !.ks = FALSE, !.ps = FALSE, !.got = {}] ELSE St(n)
           st == TryAll(n, p, base, Attempts(p, clk))
           st2 == [st EXCEPT !.pool.stop = StopAfter(p, clk, st.pool.stop)]
       IN /\ Install(n, st2)
          /\ pos' = [pos EXCEPT ![n] = p]
          /\ delayed' = [delayed EXCEPT ![n] = IF RelPos(p) = 1 THEN TRUE ELSE IF p = 7 THEN FALSE ELSE @]
          /\ armed' = [armed EXCEPT ![n] = IF p = 7 THEN ~AfterV(p, clk) ELSE @]
          /\ lab' = [kind |-> "adv:" \o PosName(p) \o ":" \o DidName(st.did) \o Lagging(n, p) \o
                              (IF p = 7 THEN ":" \o Holding(n) ELSE "") \o (IF st2.pool.stop /\ ~pool[n].stop THEN ":stop" ELSE ""),
                     rare |-> clk > p /\ st.did # <<>>]
    /\ hist' = Append(hist, Step("adv", n))
    /\ UNCHANGED <<clk, cnt>>

\* the short-session timer goroutine: fires once the validation time has passed; without a running ceremony it dies unheard
Timer(n) ==
    /\ "timer" \in Acts /\ armed[n] /\ AfterV(pos[n], clk)
    /\ LET p == pos[n]
           st == IF RelPos(p) \in 1..6 THEN Try(n, p, St(n), 0) ELSE St(n)
       IN /\ Install(n, st)
          /\ lab' = [kind |-> "timer:" \o DidName(st.did) \o ":" \o PosName(p), rare |-> st.did # <<>> /\ RelPos(p) = 1]
    /\ armed' = [armed EXCEPT ![n] = FALSE]
    /\ hist' = Append(hist, Step("timer", n))
    /\ UNCHANGED <<pos, clk, delayed, cnt>>

\* delayedFlipPackageBroadcast after its random sleep (0..120 s: any time after the lottery)
Delayed(n) ==
    /\ "delayed" \in Acts /\ delayed[n]
    /\ LET st == Try(n, pos[n], St(n), 1)
       IN /\ Install(n, st)
          /\ lab' = [kind |-> "delayed:" \o DidName(st.did) \o ":" \o PosName(pos[n]), rare |-> st.did # <<>> /\ RelPos(pos[n]) = 1]
    /\ delayed' = [delayed EXCEPT ![n] = FALSE]
    /\ hist' = Append(hist, Step("delayed", n))
    /\ UNCHANGED <<pos, clk, armed, cnt>>

\* a process restart: the pool is read back from the epoch database, the ceremony's flags are gone, the period's block
\* handler runs on the head block again
Restart(n) ==
    /\ cnt.rst < MaxRst
    /\ LET p == pos[n]
           base == [St(n) EXCEPT !.pool = RestartPool(U, IF p = 7 THEN EmptyPool(U) ELSE pool[n], StopAfterRestart(p, clk)), !.ks = FALSE, !.ps = FALSE]
           st == TryAll(n, p, base, Attempts(p, clk))
           st2 == [st EXCEPT !.pool.stop = StopAfter(p, clk, st.pool.stop)]
       IN /\ Install(n, st2)
          /\ delayed' = [delayed EXCEPT ![n] = RelPos(p) = 1]
          /\ armed' = [armed EXCEPT ![n] = ArmedAfterRestart(p, clk)]
          /\ lab' = [kind |-> "restart:" \o PosName(p) \o ":" \o Holding(n) \o ":" \o DidName(st.did) \o (IF pool[n].own # {} THEN ":own" ELSE ""),
                     rare |-> p = 7 \/ st.did # <<>>]
    /\ cnt' = [cnt EXCEPT !.rst = @ + 1]
    /\ hist' = Append(hist, Step("restart", n))
    /\ UNCHANGED <<pos, clk>>

\* what may travel: forged messages at any time, genuine ones once their author's node has published them
Deliverable == Forged \cup pub
PhaseName(p) == IF p = 7 THEN "noflips" ELSE IF LotteryAt(p) THEN "lottery" ELSE "nolottery"

Deliver(n, ms, via) ==
    /\ cnt.dlv + Len(ms) <= MaxDlv
    /\ LET v == ViewOf(pos[n])
           recs == [i \in 1..Len(ms) |-> Tab[ms[i]]]
           m1 == recs[1]
           c1 == CodeOf(Tab, U, pool[n], v, m1)
       IN /\ pool' = [pool EXCEPT ![n] = AdmitAll(Tab, U, pool[n], v, recs)]
          /\ got' = [got EXCEPT ![n] = @ \cup {<<recs[i].id, Reason(v, recs[i])>> : i \in 1..Len(ms)}]
          /\ lab' = [kind |-> IF Len(ms) = 1
                              THEN "dlv:" \o ToString(m1.kd) \o ":" \o m1.c \o ":" \o c1 \o ":" \o PhaseName(pos[n]) \o
                                   (IF m1.snd = n THEN ":self" ELSE "") \o (IF m1.r # RoundOf(pos[n]) THEN ":otherround" ELSE "")
                              ELSE "dlv:batch:" \o via,
                     rare |-> pos[n] = 7]
          /\ hist' = Append(hist, [Step("dlv", n) EXCEPT !.ms = [i \in 1..Len(ms) |-> [kd |-> recs[i].kd, a |-> recs[i].a, c |-> recs[i].c, r |-> recs[i].r]],
                                                         !.via = via])
    /\ cnt' = [cnt EXCEPT !.dlv = @ + Len(ms)]
    /\ UNCHANGED <<pos, clk, ksent, psent, armed, delayed, pub>>

Sync(n, sh, nf) ==
    /\ cnt.syn < MaxSyn
    /\ LET ok == OfferK(U, pool[n], One, sh, nf = 1, SyncCap)
           op == OfferP(U, pool[n], One, sh, nf = 1, SyncCap)
           held == HeldIds(U, pool[n])
       IN /\ pool' = [pool EXCEPT ![n] = AfterSync(U, pool[n], One, One, sh, nf = 1, SyncCap)]
          /\ lab' = [kind |-> "sync:" \o (IF held = {} THEN "empty" ELSE IF pool[n].stop THEN "stopped"
                                           ELSE IF sh = 2 THEN "othershard"
                                           ELSE IF ok = {} /\ op = {} /\ PrioK(U, pool[n]) = {} /\ PrioP(U, pool[n]) = {} THEN "capped"
                                           ELSE IF PrioK(U, pool[n]) # {} \/ PrioP(U, pool[n]) # {} THEN "priority" ELSE "offer") \o
                              (IF nf = 1 THEN ":nofilter" ELSE "") \o (IF pos[n] >= 7 THEN ":round2" ELSE ""),
                     rare |-> held # {} /\ ~pool[n].stop /\ sh # 2 /\ ok = {} /\ op = {} /\ PrioK(U, pool[n]) = {} /\ PrioP(U, pool[n]) = {}]
    /\ cnt' = [cnt EXCEPT !.syn = @ + 1]
    /\ hist' = Append(hist, [Step("sync", n) EXCEPT !.sh = sh, !.nf = nf])
    /\ UNCHANGED <<pos, clk, ksent, psent, armed, delayed, pub, got>>

Batches == {<<a, b>> : a \in Deliverable, b \in Deliverable}

Next == \/ Release
        \/ \E n \in Nodes : Adv(n) \/ Timer(n) \/ Delayed(n) \/ Restart(n)
        \/ \E n \in Nodes, m \in Deliverable : Deliver(n, <<m>>, "one")
        \/ MaxBatch > 0 /\ \E n \in Nodes, b \in Batches : b[1] # b[2] /\ Deliver(n, b, "batch")
        \/ \E n \in Nodes, sh \in {0, 1, 2}, nf \in {0, 1} : Sync(n, sh, nf)

Spec == Init /\ [][Next]_vars

---------------------------------------------------------------------------
(* design-level invariants *)

TypeOK == /\ \A n \in Nodes : pos[n] \in 0..MaxPos /\ pos[n] <= clk
          /\ pub \subseteq Genuine

\* Admission: whatever a pool holds under a sender's name was signed by that sender, has an admissible size, is of the epoch
\* of the node's head state, and the sender is an author there
Admission == \A n \in Nodes, a \in U :
                 /\ pool[n].keys[a] # None => LET m == Tab[pool[n].keys[a]] IN
                                                  m.kd = 0 /\ m.snd = a /\ SizeOk(m) /\ m.ep = RoundOf(pos[n]) /\ a \in Authors /\ pos[n] # 7
                 /\ pool[n].pkgs[a] # None => LET m == Tab[pool[n].pkgs[a]] IN
                                                  m.kd = 1 /\ m.snd = a /\ SizeOk(m) /\ m.ep = RoundOf(pos[n]) /\ a \in Authors /\ pos[n] # 7

\* OnePerAuthorEpoch: what a pool holds for a sender is never replaced while the epoch lasts (first write wins)
OnePerAuthorEpoch ==
    [][\A n \in Nodes, a \in U : pos'[n] # 7 =>
           /\ (pool[n].keys[a] # None => pool'[n].keys[a] = pool[n].keys[a])
           /\ (pool[n].pkgs[a] # None => pool'[n].pkgs[a] = pool[n].pkgs[a])]_vars

\* an author nobody else signs for: all nodes that hold something of it for the same round hold the same
HonestAgreement == \A a \in Authors \ ForgeFor, n1 \in Nodes, n2 \in Nodes :
                       RoundOf(pos[n1]) = RoundOf(pos[n2]) =>
                           /\ (pool[n1].keys[a] # None /\ pool[n2].keys[a] # None => pool[n1].keys[a] = pool[n2].keys[a])
                           /\ (pool[n1].pkgs[a] # None /\ pool[n2].pkgs[a] # None => pool[n1].pkgs[a] = pool[n2].pkgs[a])

\* OrderIndependent: two nodes that were handed the same messages (each as admissible or not on either) in whatever
\* order, duplication and batching hold the same, provided no two admissible messages compete for one sender's slot
NoCompetition(S) == \A x \in S, y \in S : (x[2] = "ok" /\ y[2] = "ok" /\ Tab[x[1]].kd = Tab[y[1]].kd /\ Tab[x[1]].snd = Tab[y[1]].snd) => x[1] = y[1]
OrderIndependent == \A n1 \in Nodes, n2 \in Nodes :
                        (got[n1] = got[n2] /\ NoCompetition(got[n1])) => (pool[n1].keys = pool[n2].keys /\ pool[n1].pkgs = pool[n2].pkgs)
\* ... and with competition the first admissible one stays: the pool is a function of what was handed over first
FirstWins == \A n \in Nodes, a \in U :
                 /\ pool[n].keys[a] # None => <<pool[n].keys[a], "ok">> \in got[n]
                 /\ pool[n].pkgs[a] # None => <<pool[n].pkgs[a], "ok">> \in got[n]
                 /\ (\E x \in got[n] : x[2] = "ok" /\ Tab[x[1]].kd = 0 /\ Tab[x[1]].snd = a) => pool[n].keys[a] # None
                 /\ (\E x \in got[n] : x[2] = "ok" /\ Tab[x[1]].kd = 1 /\ Tab[x[1]].snd = a) => pool[n].pkgs[a] # None

ClearedAtEpoch == \A n \in Nodes : pos[n] = 7 => HeldIds(U, pool[n]) = {} /\ pool[n].own = {} /\ ~pool[n].stop

OwnIsOwn == \A n \in Nodes : \A i \in pool[n].own : Tab[i].snd = n /\ Tab[i].c = "g" /\ i \in HeldIds(U, pool[n])

\* an author's node holds its own key and package from the short session on (it published them, or found them published)
PublishedBySession == \A n \in Authors : RelPos(pos[n]) \in 3..6 => pool[n].keys[n] # None /\ pool[n].pkgs[n] # None

\* the public flip key (it opens the public part of the author's flips) is not revealed before the validation time
NoEarlyReveal == \A i \in pub : Tab[i].kd = 0 => clk >= (IF Tab[i].r = 2 THEN 11 ELSE 3)
\* a package exists only once its author's node has computed the lottery
PkgAfterLottery == \A i \in pub : Tab[i].kd = 1 => pos[Tab[i].snd] >= (IF Tab[i].r = 2 THEN 9 ELSE 1)

\* NOT an invariant (checked with MC_KeysPool_split.cfg to show the counterexample): an equivocating author splits the
\* pools for good - first write wins on every node and nothing reconciles them
NoSplit == \A a \in Authors, n1 \in Nodes, n2 \in Nodes :
               (RoundOf(pos[n1]) = RoundOf(pos[n2]) /\ pool[n1].keys[a] # None /\ pool[n2].keys[a] # None) => pool[n1].keys[a] = pool[n2].keys[a]

---------------------------------------------------------------------------
(* export: one schedule per transition class (sampled); the kind names the class *)
Boring == {"init", "rel"}
Export == IF ExportOn /\ lab'.kind \notin Boring /\ (lab'.rare \/ RandomElement(1..SampleMod) = 1)
          THEN PrintT(ToJson([kind |-> lab'.kind, nodes |-> NN, steps |-> hist']))
          ELSE TRUE
\* simulation export (an INVARIANT; in simulation mode TLC evaluates it on every candidate successor of the state a walk has
\* reached - each of them is a behaviour of the model): the walk so far, every WalkEvery steps, sampled
ExportWalk == IF ExportOn /\ Len(hist) > 0 /\ Len(hist) % WalkEvery = 0 /\ RandomElement(1..SampleMod) = 1 THEN PrintT(ToJson([kind |-> "walk", nodes |-> NN, steps |-> hist])) ELSE TRUE
NoExport == TRUE
=============================================================================
