CONSTANTS
  Ids = {1, 2, 3}
  SilChoices = {{}, {1}}
  MaxBlocks = 6
  MaxWaits = 2
  MaxCraft = 1
  MaxForce = 1
  MaxByz = 1
  MaxDeaf = 1
  MaxSil = 1
  MaxVal = 0
  MaxTxs = 1
  ExportOn = TRUE
  SampleMod = 40
INIT Init
NEXT Next
VIEW view
INVARIANTS TypeOK OnlineValid ActiveNeverPenalised ClockSane
ACTION_CONSTRAINT Export
CHECK_DEADLOCK FALSE
