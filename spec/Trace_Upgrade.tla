---------------------------- MODULE Trace_Upgrade ----------------------------
(* Trace validation for the growth module "UPG" of C01 (consensus upgrade voting, activation, intermediate      *)
(* genesis).  Each line is one step of a real multi-node world driven by harness/cmd/d_upgrade:                 *)
(*   Genesis  a new world (configuration, activation windows, observed state of every node after the prefix)    *)
(*   Query    every node was asked Target / UpgradeBits / IsValidTargetVersion / CanUpgrade at an instant        *)
(*   Vote     a real signed vote with Upgrade bits was handed to the vote pools of some nodes (admission logged)  *)
(*   Persist  a node's listener persisted its book                                                              *)
(*   Restart  a node restarted over its database (start-up sequence of main.go / node.go)                        *)
(*   Offer    a proposal (real ProposeBlock, or crafted) and the judgement of every synced node: Upgrader.         *)
(*            ValidateBlock, ValidateHeader, ValidateBlock (block path), Proposals.AddProposedBlock                *)
(*   Block    the block the round ended with was inserted by the nodes that are not left behind                   *)
(*   Deliver  a node that was behind inserted its next block                                                    *)
(*   Probe    a block valid under one set of consensus rules only was validated by every synced node              *)
(*   Crash    a node that was behind died inside the insertion of its next block and started again over what        *)
(*            survived (whether the block survived as its head is read from the trace)                           *)
(*   Reorg    the last block was orphaned: the nodes behind inserted another block at its height, its holders        *)
(*            switched to that block (ResetTo + AddBlock, as the fork resolver does)                              *)
(* Every line but Offer carries the OBSERVED state of every node (`sts`).  The specification carries what each    *)
(* node must know and be by the published rules (module Upgrade): its book from the logged deliveries, its         *)
(* version / stored version / genesis info from the blocks it inserted and its restarts.  `bad` collects the       *)
(* property clauses some observed step breaks; the postcondition reports each with its first trace line (the        *)
(* verdict).  Where the specification predicts exact behaviour beyond the clauses, a disagreement is drift.        *)
(*                                                                                                              *)
(* Clauses:                                                                                                     *)
(*   NoPanic                      no entry point of the node panicked                                            *)
(*   SameChainSameVersion         nodes with the same head run the same version, flags and stored version         *)
(*   SameGenesisInfo              ... and report the same genesis info (old genesis: see OldGenesisAfterRestart)  *)
(*   VersionByChain               a node's version, EnableUpgradeNN flags and stored version are the function of   *)
(*                                the chain it holds that the rules define (the upgrade block takes effect on      *)
(*                                every node, nothing else changes the version)                                   *)
(*   GenesisByChain               the reported genesis is the last NewGenesis block of the node's chain            *)
(*   VersionMonotone              no node's version or stored version ever goes back                              *)
(*   RestartNeutral               a restart changes neither version, flags, stored version, head nor genesis       *)
(*   ProposedOnlyWithQuorum       an honest proposal carries Upgrade bits only when the proposer's book holds the   *)
(*                                quorum, inside the window, far enough from the validation - and then the target  *)
(*   UpgradeWhenQuorum            ... and it does carry them when all that holds with a margin                    *)
(*   ValidatorRefusesWithoutQuorum  a validator admits a proposal with Upgrade bits (other than the V11Always        *)
(*                                quirk) only under the same conditions on ITS book                               *)
(*   ChainRefusesBadBits          the block path never accepts Upgrade bits that do not name the target             *)
(*   ChainRefusesBadGenesisFlag   the block path never accepts a wrong NewGenesis flag                             *)
(*   HonestBlockValid             an honest proposal passes header and block validation on every synced node        *)
(*   NewGenesisExactlyAfterUpgrade  a block of the chain carries NewGenesis iff it follows a block with Upgrade     *)
(*                                bits and the network generates geneses                                          *)
(*   ReplicasFollow               no node refuses a block of the chain that the synced nodes validated              *)
(*   RulesFollowVersion           a rules probe is accepted exactly by the nodes whose version has those rules      *)
(*   RecoveredVersionByChain      a node that starts again after dying inside an insertion runs (and has stored) the  *)
(*                                version of the chain it holds                                                  *)
(*   RecoveredGenesisByChain      ... and reports the genesis info of that chain                                  *)
(*   RollbackRevertsVersion       after switching away from an orphaned upgrade block a node runs (and has stored) the   *)
(*                                version of the chain it now holds                                              *)
(*   RollbackRevertsGenesis       ... and reports the genesis info of that chain                                  *)
(*   RestartRestoresBook          the book after a restart is the persisted book                                   *)
(*   CanOnlyByRule / CanWhenRule  CanUpgrade answers yes only under the published rule (window inclusive, distance   *)
(*                                to the validation, int(0.8 K) votes of the K online non-discriminated identities  *)
(*                                for the target, last vote of a voter counts) - and does answer yes under it, away  *)
(*                                from the exact boundary seconds (there a disagreement is drift)                  *)
(*   BitsOnlyInWindow / BitsWhenInWindow, AcceptOnlyByRule / AcceptWhenRule   the same for UpgradeBits and          *)
(*                                Upgrader.ValidateBlock (case table MC_UpgradeQ on a real Upgrader)                *)
(*   ListenerInOrder              the listening goroutine processes the votes it is handed in order                 *)
EXTENDS Upgrade, Json, IOUtils

Trace == ndJsonDeserialize(IOEnv.TRACE_FILE)
ASSUME TLCSet(2, 0) /\ TLCSet(3, <<>>) /\ TLCSet(4, <<>>)

NU == 0..7                      \* node keys
VU == 0..9 \cup {99}            \* voter keys (99 = an address outside the world's keys)
Margin == 120                   \* seconds of slack in the "must" clauses

VARIABLES l,      \* next trace line
          c,      \* the world: [cfg, base, nodes, h0]
          nd,     \* [NU -> node record]: what each node is by the rules
          hd,     \* [NU -> height]
          blks,   \* the blocks of the chain above h0
          ob,     \* [NU -> last observed record]
          bad,    \* clauses broken so far
          hot     \* an earlier line of the current world broke a clause: what follows in that world is a consequence, not reported
tvars == <<l, c, nd, hd, blks, ob, bad, hot>>

SetOf(s) == {s[i] : i \in 1..Len(s)}
BookOf(pairs) == [v \in VU |-> IF \E i \in 1..Len(pairs) : pairs[i][1] = v
                               THEN pairs[CHOOSE i \in 1..Len(pairs) : pairs[i][1] = v][2] ELSE 0]
Book0 == [v \in VU |-> 0]
Rec(sts, n) == sts[CHOOSE i \in 1..Len(sts) : sts[i].n = n]
BlkOf(b) == [upg |-> b.upg, ng |-> b.ng, empty |-> b.empty]
BlockAtH(h) == IF h <= c.h0 \/ h - c.h0 > Len(blks) THEN NoBlock ELSE blks[h - c.h0]
Alive(sts) == {sts[i].n : i \in {j \in 1..Len(sts) : ~sts[j].dead}}

\* bookkeeping: each clause name is reported once, with the first line that breaks it; drift is counted
Note(S) == IF hot THEN bad' = bad /\ hot' = hot
           ELSE /\ bad' = bad \cup S /\ hot' = (S # {})
                /\ \A x \in S \ bad : TLCSet(3, Append(TLCGet(3), <<l, x>>))
\* the first line of a world
NoteG(S) == /\ bad' = bad \cup S /\ hot' = (S # {})
            /\ \A x \in S \ bad : TLCSet(3, Append(TLCGet(3), <<l, x>>))
\* lines that belong to no world (case table, listener)
Note0(S) == /\ bad' = bad \cup S /\ hot' = hot
            /\ \A x \in S \ bad : TLCSet(3, Append(TLCGet(3), <<l, x>>))
If(cond, name) == IF cond THEN {} ELSE {name}
Drift0(cond, name) == IF cond THEN TRUE
                      ELSE /\ TLCSet(2, TLCGet(2) + 1)
                           /\ (IF Len(TLCGet(4)) < 40 THEN TLCSet(4, Append(TLCGet(4), <<l, name>>)) ELSE TRUE)
\* in a world that already broke a clause a disagreement is a consequence
Drift(cond, name) == IF hot THEN TRUE ELSE Drift0(cond, name)

---------------------------------------------------------------------------
(* clauses over the observed states of all nodes *)

\* bs = the blocks of the chain above h0 (the step's own block included)
NgUpTo(bs, h) == Cardinality({x \in 1..Len(bs) : c.h0 + x <= h /\ bs[x].ng})
NgIdx(bs, h) == {x \in 1..Len(bs) : c.h0 + x <= h /\ bs[x].ng}
LastNgUpTo(bs, h) == IF NgIdx(bs, h) = {} THEN PreGen ELSE c.h0 + (CHOOSE x \in NgIdx(bs, h) : \A y \in NgIdx(bs, h) : y <= x)
\* the NewGenesis blocks of the chain up to h, and the predefined genesis
GenHeights(bs, h) == {PreGen} \cup {c.h0 + x : x \in NgIdx(bs, h)}

\* the stored version matters through what a restart makes of it: the version of the configuration file unless a higher one is stored
Eff(x) == IF x > c.base THEN x ELSE c.base
SameVersion(sts) == \A i, j \in 1..Len(sts) :
    (sts[i].hash = sts[j].hash /\ ~sts[i].dead /\ ~sts[j].dead) =>
        /\ sts[i].ver = sts[j].ver /\ Eff(sts[i].stored) = Eff(sts[j].stored)
        /\ sts[i].e10 = sts[j].e10 /\ sts[i].e11 = sts[j].e11 /\ sts[i].e12 = sts[j].e12 /\ sts[i].gen = sts[j].gen
\* OldGenesisAfterRestart: once the chain holds two intermediate geneses, a restarted node reports the predefined genesis as
\* the old one, a running node the previous intermediate genesis
OldOk(bs, o) == NgUpTo(bs, o.h) >= 2 /\ o.old \in GenHeights(bs, o.h) /\ o.old < o.cur
SameGenesis(bs, sts) == \A i, j \in 1..Len(sts) :
    (sts[i].hash = sts[j].hash /\ ~sts[i].dead /\ ~sts[j].dead) =>
        /\ sts[i].cur = sts[j].cur /\ sts[i].curh = sts[j].curh /\ sts[i].inter = sts[j].inter
        /\ \/ (sts[i].old = sts[j].old /\ sts[i].oldh = sts[j].oldh)
           \/ (OldOk(bs, sts[i]) /\ OldOk(bs, sts[j]))
ByChain(sts, nd2) == \A i \in 1..Len(sts) : sts[i].dead \/
        LET o == sts[i] p == nd2[o.n] IN
        /\ o.ver = p.ver /\ Eff(o.stored) = Eff(p.stored) /\ o.target = Target(c.cfg, p.ver)
        /\ o.e10 /\ (o.e11 <=> E11(p.ver)) /\ (o.e12 <=> E12(p.ver)) /\ (o.gen <=> c.cfg.Gen)
GenByChain(bs, sts, hd2) == \A i \in 1..Len(sts) : sts[i].dead \/
        LET o == sts[i] g == LastNgUpTo(bs, hd2[o.n]) IN
        /\ o.cur = g /\ o.inter = (IF g = PreGen THEN NoGen ELSE g)
        /\ (g = PreGen => o.old = NoGen) /\ (g # PreGen => (o.old \in GenHeights(bs, o.h) /\ o.old < g))
Monotone(sts) == \A i \in 1..Len(sts) : sts[i].ver >= ob[sts[i].n].ver /\ sts[i].stored >= ob[sts[i].n].stored
BooksAgree(sts, nd2) == \A i \in 1..Len(sts) : sts[i].dead \/ (BookOf(sts[i].book) = nd2[sts[i].n].book /\ BookOf(sts[i].pbook) = nd2[sts[i].n].pbook)
HeadsAgree(sts, hd2) == \A i \in 1..Len(sts) : sts[i].dead \/ sts[i].h = hd2[sts[i].n]

\* evaluated after every step on the observed states, against the carried states AFTER the step
Common(bs, sts, nd2, hd2) ==
    If(SameVersion(sts), "SameChainSameVersion") \cup If(SameGenesis(bs, sts), "SameGenesisInfo")
    \cup If(ByChain(sts, nd2), "VersionByChain") \cup If(GenByChain(bs, sts, hd2), "GenesisByChain")
    \cup If(Monotone(sts), "VersionMonotone")
Install(sts, nd2, hd2) ==
    /\ nd' = nd2 /\ hd' = hd2
    /\ ob' = [n \in NU |-> IF \E i \in 1..Len(sts) : sts[i].n = n THEN Rec(sts, n) ELSE ob[n]]
    /\ Drift(BooksAgree(sts, nd2), "BookByRule")
    /\ Drift(HeadsAgree(sts, hd2), "HeadByRule")

---------------------------------------------------------------------------
TraceInit == /\ l = 1 /\ bad = {} /\ hot = FALSE
             /\ c = [cfg |-> [Top |-> 12, Gen |-> FALSE, I |-> 0, W |-> [v \in 10..13 |-> [s |-> 1, e |-> 0]]], base |-> 12, h0 |-> 0]
             /\ nd = [n \in NU |-> [ver |-> 12, stored |-> 0, book |-> Book0, pbook |-> Book0, cur |-> PreGen, old |-> NoGen, inter |-> NoGen]]
             /\ hd = [n \in NU |-> 0] /\ blks = <<>>
             /\ ob = [n \in NU |-> [ver |-> 0, stored |-> 0]]

TGenesis ==
    /\ l <= Len(Trace) /\ Trace[l].ev = "Genesis" /\ l' = l + 1
    /\ LET e == Trace[l]
           win == [v \in 10..13 |-> IF \E i \in 1..Len(e.win) : e.win[i][1] = v
                                    THEN [s |-> e.win[CHOOSE i \in 1..Len(e.win) : e.win[i][1] = v][2], e |-> e.win[CHOOSE i \in 1..Len(e.win) : e.win[i][1] = v][3]]
                                    ELSE [s |-> 1, e |-> 0]]
           c2 == [cfg |-> [Top |-> e.top, Gen |-> e.gen, I |-> e.ival, W |-> win], base |-> e.base, h0 |-> e.h0]
           nd2 == [n \in NU |-> [ver |-> e.base, stored |-> 0, book |-> Book0, pbook |-> Book0, cur |-> PreGen, old |-> NoGen, inter |-> NoGen]]
           hd2 == [n \in NU |-> e.h0]
       IN /\ c' = c2 /\ blks' = <<>>
          /\ nd' = nd2 /\ hd' = hd2
          /\ ob' = [n \in NU |-> IF \E i \in 1..Len(e.sts) : e.sts[i].n = n THEN Rec(e.sts, n) ELSE [ver |-> 0, stored |-> 0]]
          \* the world starts as the rules say: every node at the version of the configuration file, nothing stored
          /\ NoteG(If(\A i \in 1..Len(e.sts) : LET o == e.sts[i] IN
                          /\ o.ver = e.base /\ o.stored = 0 /\ o.h = e.h0 /\ o.cur = PreGen /\ o.old = NoGen /\ o.inter = NoGen
                          /\ o.e10 /\ (o.e11 <=> E11(e.base)) /\ (o.e12 <=> E12(e.base)) /\ (o.gen <=> e.gen) /\ o.book = <<>>, "VersionByChain")
                  \cup If(\A i, j \in 1..Len(e.sts) : e.sts[i].hash = e.sts[j].hash, "ReplicasFollow"))

\* q = <<node, result, target, bits, valid, can, elig, vt, committee size, message>>
TQuery ==
    /\ l <= Len(Trace) /\ Trace[l].ev = "Query" /\ l' = l + 1
    /\ LET e == Trace[l] IN
       /\ Note(If(\A i \in 1..Len(e.qs) : e.qs[i][2] # 2, "NoPanic") \cup Common(blks, e.sts, nd, hd)
               \cup If(\A i \in 1..Len(e.qs) : LET q == e.qs[i] p == nd[q[1]] IN
                           (q[2] = 1 /\ ~Rec(e.sts, q[1]).dead /\ q[6] = 1) => CanUpgrade(c.cfg, p.ver, e.now, q[8], p.book, SetOf(q[7])), "CanOnlyByRule")
               \cup If(\A i \in 1..Len(e.qs) : LET q == e.qs[i] p == nd[q[1]] IN
                           (q[2] = 1 /\ ~Rec(e.sts, q[1]).dead /\ q[4] # 0) => (ValidTarget(c.cfg, p.ver, e.now) /\ q[4] = Target(c.cfg, p.ver)), "BitsOnlyInWindow"))
       /\ \A i \in 1..Len(e.qs) :
             LET q == e.qs[i] p == nd[q[1]] el == SetOf(q[7]) IN
             q[2] = 2 \/ Rec(e.sts, q[1]).dead \/
             /\ Drift(q[3] = Target(c.cfg, p.ver), "Query:target")
             /\ Drift((q[5] = 1) <=> ValidTarget(c.cfg, p.ver, e.now), "Query:valid")
             /\ Drift(q[4] = Bits(c.cfg, p.ver, e.now), "Query:bits")
             /\ Drift((q[6] = 1) <=> CanUpgrade(c.cfg, p.ver, e.now, q[8], p.book, el), "Query:can")
             /\ Drift(q[9] = Cardinality(el), "Query:committee")
       /\ Install(e.sts, nd, hd)
    /\ UNCHANGED <<c, blks>>

\* to = <<node, admitted, result, message>>
TVote ==
    /\ l <= Len(Trace) /\ Trace[l].ev = "Vote" /\ l' = l + 1
    /\ LET e == Trace[l]
           voter == IF e.i \in VU THEN e.i ELSE 99
           got(n) == \E i \in 1..Len(e.to) : e.to[i][1] = n /\ e.to[i][2] = 1
           nd2 == [n \in NU |-> IF got(n) THEN [nd[n] EXCEPT !.book = ProcessVote(@, voter, e.bits)] ELSE nd[n]]
       IN /\ Note(If(\A i \in 1..Len(e.to) : e.to[i][3] # 2, "NoPanic") \cup Common(blks, e.sts, nd2, hd))
          \* an honest vote carries what the voter's own node computes
          /\ Drift(e.hon = 0 \/ e.i \notin NU \/ e.bits = Bits(c.cfg, nd[e.i].ver, e.now), "Vote:honest-bits")
          /\ Install(e.sts, nd2, hd)
    /\ UNCHANGED <<c, blks>>

TPersist ==
    /\ l <= Len(Trace) /\ Trace[l].ev = "Persist" /\ l' = l + 1
    /\ LET e == Trace[l]
           nd2 == [nd EXCEPT ![e.n].pbook = nd[e.n].book]
       IN /\ Note(Common(blks, e.sts, nd2, hd))
          /\ Install(e.sts, nd2, hd)
    /\ UNCHANGED <<c, blks>>

TRestart ==
    /\ l <= Len(Trace) /\ Trace[l].ev = "Restart" /\ l' = l + 1
    /\ LET e == Trace[l]
           nd2 == [nd EXCEPT ![e.n] = RestartNode(c.cfg, c.base, nd[e.n], BlockAtH(hd[e.n]))]
           o == Rec(e.sts, e.n)
           b == ob[e.n]
       IN IF e.res # 1
          THEN Note({"NoPanic"}) /\ UNCHANGED <<nd, hd, ob>>
          ELSE /\ Note(Common(blks, e.sts, nd2, hd)
                       \cup If(/\ o.ver = b.ver /\ o.stored = b.stored /\ o.e10 = b.e10 /\ o.e11 = b.e11 /\ o.e12 = b.e12 /\ o.gen = b.gen
                               /\ o.h = b.h /\ o.hash = b.hash /\ o.cur = b.cur /\ o.curh = b.curh /\ o.inter = b.inter
                               /\ (o.old = b.old \/ OldOk(blks, o)), "RestartNeutral")
                       \cup If(BookOf(o.book) = BookOf(b.pbook), "RestartRestoresBook"))
               /\ Install(e.sts, nd2, hd)
    /\ UNCHANGED <<c, blks>>

\* verd = <<node, upgrader, header, block path, whole proposal path (-1 = not applicable), elig, vt, CanUpgrade, UpgradeBits, committee>>
Tip == c.h0 + Len(blks)
TOffer ==
    /\ l <= Len(Trace) /\ Trace[l].ev = "Offer" /\ l' = l + 1
    /\ LET e    == Trace[l]
           b    == BlkOf(e.blk)
           prev == BlockAtH(Tip)
           vd   == e.verd
           P(i) == nd[vd[i][1]]
           El(i) == SetOf(vd[i][6])
           \* the validator's verdict: the whole proposal path where it ran, else its two parts
           admits(i) == IF vd[i][5] # -1 THEN vd[i][5] = 1 ELSE (vd[i][2] = 1 /\ vd[i][3] = 1)
           can(i)  == CanUpgrade(c.cfg, P(i).ver, e.now, vd[i][7], P(i).book, El(i))
           pidx == CHOOSE i \in 1..Len(vd) : vd[i][1] = e.p
           canM == LET p == P(pidx) t == Target(c.cfg, p.ver) IN
                   /\ p.ver < t /\ e.now >= c.cfg.W[t].s + Margin /\ e.now <= c.cfg.W[t].e - Margin
                   /\ vd[pidx][7] - e.now >= c.cfg.I + Margin
                   /\ HasQuorum(c.cfg, p.ver, p.book, El(pidx))
       IN /\ Note(If(\A i \in 1..Len(vd) : vd[i][2] # 2 /\ vd[i][3] # 2 /\ vd[i][4] # 2 /\ vd[i][5] # 2, "NoPanic")
                  \cup If(e.honest => (b.upg = 0 \/ (can(pidx) /\ b.upg = Target(c.cfg, P(pidx).ver) /\ ~NgExpected(c.cfg, prev))), "ProposedOnlyWithQuorum")
                  \cup If((e.honest /\ canM /\ ~NgExpected(c.cfg, prev)) => b.upg = Target(c.cfg, P(pidx).ver), "UpgradeWhenQuorum")
                  \cup If(\A i \in 1..Len(vd) : (admits(i) /\ b.upg # 0 /\ b.upg # 11) => (b.upg = Target(c.cfg, P(i).ver) /\ can(i)), "ValidatorRefusesWithoutQuorum")
                  \cup If(\A i \in 1..Len(vd) : (vd[i][4] = 1 /\ b.upg > 0) => (b.upg = Target(c.cfg, P(i).ver) \/ (b.upg = 11 /\ P(i).ver <= 11)), "ChainRefusesBadBits")
                  \cup If(\A i \in 1..Len(vd) : vd[i][4] = 1 => ((b.ng <=> NgExpected(c.cfg, prev)) /\ (b.ng => b.upg = 0)), "ChainRefusesBadGenesisFlag")
                  \cup If(e.honest => \A i \in 1..Len(vd) : vd[i][3] = 1 /\ vd[i][4] = 1, "HonestBlockValid"))
          \* exact predictions
          /\ \A i \in 1..Len(vd) : vd[i][2] = 2 \/ vd[i][3] = 2 \/ vd[i][4] = 2 \/
                /\ Drift((vd[i][2] = 1) <=> UpgraderAccepts(c.cfg, P(i).ver, e.now, vd[i][7], P(i).book, El(i), b.upg), "Offer:upgrader")
                /\ Drift((vd[i][3] = 1) <=> HeaderAccepts(c.cfg, P(i).ver, prev, b), "Offer:header")
                /\ Drift((vd[i][4] = 1) <=> ChainAccepts(c.cfg, P(i).ver, prev, b), "Offer:chain")
                /\ Drift(vd[i][5] \in {-1, 2} \/ ((vd[i][5] = 1) <=> (vd[i][2] = 1 /\ vd[i][3] = 1)), "Offer:proposal-path")
                /\ Drift((vd[i][8] = 1) <=> can(i), "Offer:can")
                /\ Drift(vd[i][10] = Cardinality(El(i)), "Offer:committee")
          /\ Drift(~e.honest \/ b = HonestBlock(c.cfg, P(pidx).ver, e.now, vd[pidx][7], P(pidx).book, El(pidx), prev), "Offer:honest-block")
          /\ Drift(BookOf(e.pbook) = P(pidx).book, "BookByRule")
    /\ UNCHANGED <<c, nd, hd, blks, ob>>

\* ins = <<node, result, message>>
TBlock ==
    /\ l <= Len(Trace) /\ Trace[l].ev = "Block" /\ l' = l + 1
    /\ LET e    == Trace[l]
           b    == BlkOf(e.blk)
           prev == BlockAtH(Tip)
           ok(n) == \E i \in 1..Len(e.ins) : e.ins[i][1] = n /\ e.ins[i][2] = 1
           nd2  == [n \in NU |-> IF ok(n) THEN InsertBlock(c.cfg, nd[n], b, e.h) ELSE nd[n]]
           hd2  == [n \in NU |-> IF ok(n) THEN e.h ELSE hd[n]]
       IN /\ e.h = Tip + 1
          /\ blks' = Append(blks, b)
          \* the clauses over the observed states are evaluated against the chain INCLUDING this block
          /\ Note(If(\A i \in 1..Len(e.ins) : e.ins[i][2] # 2, "NoPanic")
                  \cup If(\A i \in 1..Len(e.ins) : e.ins[i][2] # 0, "ReplicasFollow")
                  \cup If(b.ng <=> NgExpected(c.cfg, prev), "NewGenesisExactlyAfterUpgrade")
                  \cup If(b.empty => b.upg = 0, "ChainRefusesBadBits")
                  \cup Common(Append(blks, b), e.sts, nd2, hd2))
          /\ Install(e.sts, nd2, hd2)
    /\ UNCHANGED c

TDeliver ==
    /\ l <= Len(Trace) /\ Trace[l].ev = "Deliver" /\ l' = l + 1
    /\ LET e    == Trace[l]
           b    == BlockAtH(e.h)
           nd2  == IF e.res = 1 THEN [nd EXCEPT ![e.n] = InsertBlock(c.cfg, nd[e.n], b, e.h)] ELSE nd
           hd2  == IF e.res = 1 THEN [hd EXCEPT ![e.n] = e.h] ELSE hd
       IN /\ Note(If(e.res # 2, "NoPanic") \cup If(e.res # 0, "ReplicasFollow")
                  \cup Common(blks, e.sts, nd2, hd2))
          /\ Drift(e.h = hd[e.n] + 1 /\ b = BlkOf(e.blk), "Deliver:harness")
          /\ Install(e.sts, nd2, hd2)
    /\ UNCHANGED <<c, blks>>

\* verd = <<node, block path>>
TProbe ==
    /\ l <= Len(Trace) /\ Trace[l].ev = "Probe" /\ l' = l + 1
    /\ LET e == Trace[l] IN
       /\ Note(If(\A i \in 1..Len(e.verd) : e.verd[i][2] # 2, "NoPanic")
               \cup If(~e.built \/ \A i \in 1..Len(e.verd) : e.verd[i][2] = 2 \/ ((e.verd[i][2] = 1) <=> ProbeAccepts(e.k, e.r, nd[e.verd[i][1]].ver)), "RulesFollowVersion")
               \cup Common(blks, e.sts, nd, hd))
       \* the attacker's own node builds the block exactly when its rules admit the transaction
       /\ Drift(e.built <=> ProbeBuilt(e.k, e.r), "Probe:built")
       /\ Install(e.sts, nd, hd)
    /\ UNCHANGED <<c, blks>>

\* the last vote of every voter
Fold(votes) == [v \in VU |-> LET is == {i \in 1..Len(votes) : votes[i][1] = v} IN
                              IF is = {} THEN 0 ELSE votes[CHOOSE i \in is : \A j \in is : j <= i][2]]
Bitses == <<0, 11, 12, 13>>
TCase ==
    /\ l <= Len(Trace) /\ Trace[l].ev = "Case" /\ l' = l + 1
    /\ LET e == Trace[l]
           win == [v \in 10..13 |-> IF \E i \in 1..Len(e.win) : e.win[i][1] = v
                                    THEN [s |-> e.win[CHOOSE i \in 1..Len(e.win) : e.win[i][1] = v][2], e |-> e.win[CHOOSE i \in 1..Len(e.win) : e.win[i][1] = v][3]]
                                    ELSE [s |-> 1, e |-> 0]]
           q == [Top |-> 12, Gen |-> FALSE, I |-> e.ival, W |-> win]
           book == Fold(e.votes)
           el == SetOf(e.elig)
           canS == CanUpgrade(q, e.ver, e.now, e.vt, book, el)
           valS == ValidTarget(q, e.ver, e.now)
           accS(j) == UpgraderAccepts(q, e.ver, e.now, e.vt, book, el, Bitses[j])
           strict == e.strict = 1
       IN IF e.res # 1 THEN Note0({"NoPanic"})
          ELSE /\ Note0(If(e.can = 1 => canS, "CanOnlyByRule")
                       \cup If((canS /\ strict) => e.can = 1, "CanWhenRule")
                       \cup If(e.bits # 0 => (valS /\ e.bits = Target(q, e.ver)), "BitsOnlyInWindow")
                       \cup If((valS /\ strict) => e.bits = Target(q, e.ver), "BitsWhenInWindow")
                       \cup If(\A j \in 1..4 : e.acc[j] = 1 => accS(j), "AcceptOnlyByRule")
                       \cup If(\A j \in 1..4 : (accS(j) /\ (strict \/ j <= 2)) => e.acc[j] = 1, "AcceptWhenRule"))
               /\ Drift0((e.can = 1) <=> canS, "Case:can")
               /\ Drift0((e.valid = 1) <=> valS, "Case:valid")
               /\ Drift0(e.bits = Bits(q, e.ver, e.now), "Case:bits")
               /\ Drift0(\A j \in 1..4 : (e.acc[j] = 1) <=> accS(j), "Case:accept")
               /\ Drift0(e.target = Target(q, e.ver), "Case:target")
               /\ Drift0(e.k = Cardinality(el), "Case:committee")
    /\ UNCHANGED <<c, nd, hd, blks, ob>>

\* votes = every vote handed to the listener so far
TListener ==
    /\ l <= Len(Trace) /\ Trace[l].ev = "Listener" /\ l' = l + 1
    /\ LET e == Trace[l] IN
       Note0(If(e.last \/ \A v \in 1..9 : BookOf(e.book)[v] = Fold(e.votes)[v], "ListenerInOrder")
            \cup If(~e.last \/ e.restored, "RestartRestoresBook"))
    /\ UNCHANGED <<c, nd, hd, blks, ob>>

\* the node is bound to the head it is observed with after the restart (the recovery of the stores themselves is C09's)
TCrash ==
    /\ l <= Len(Trace) /\ Trace[l].ev = "Crash" /\ l' = l + 1
    /\ LET e == Trace[l] IN
       IF e.res # 1 THEN Note({"NoPanic"}) /\ UNCHANGED <<nd, hd, ob>>
       ELSE LET o   == Rec(e.sts, e.n)
                f   == ByChainNode(c.cfg, c.base, blks, c.h0, o.h - c.h0, Book0)
                nd2 == [nd EXCEPT ![e.n] = RestartNode(c.cfg, c.base, [f EXCEPT !.book = nd[e.n].book, !.pbook = nd[e.n].pbook], BlockAtH(o.h))]
                hd2 == [hd EXCEPT ![e.n] = o.h]
                p   == nd2[e.n]
                g   == LastNgUpTo(blks, o.h)
            IN /\ Note(If(o.h >= c.h0 /\ o.h <= Tip, "ReplicasFollow")
                       \cup If(/\ o.ver = p.ver /\ Eff(o.stored) = Eff(p.stored) /\ o.target = Target(c.cfg, p.ver)
                               /\ (o.e11 <=> E11(p.ver)) /\ (o.e12 <=> E12(p.ver)), "RecoveredVersionByChain")
                       \cup If(/\ o.cur = g /\ o.inter = (IF g = PreGen THEN NoGen ELSE g)
                               /\ (g = PreGen => o.old = NoGen) /\ (g # PreGen => (o.old \in GenHeights(blks, o.h) /\ o.old < g)), "RecoveredGenesisByChain")
                       \cup If(BookOf(o.book) = BookOf(ob[e.n].pbook), "RestartRestoresBook"))
               /\ Drift(e.kept <=> (o.h = e.h), "Crash:kept")
               /\ Install(e.sts, nd2, hd2)
    /\ UNCHANGED <<c, blks>>

\* ins = <<node, result, message, 1 = held the orphaned block and switched>>
TReorg ==
    /\ l <= Len(Trace) /\ Trace[l].ev = "Reorg" /\ l' = l + 1
    /\ LET e    == Trace[l]
           alt  == BlkOf(e.blk)
           j    == Len(blks)
           bs2  == [blks EXCEPT ![j] = alt]
           keep == SubSeq(blks, 1, j - 1)
           ok(n) == \E i \in 1..Len(e.ins) : e.ins[i][1] = n /\ e.ins[i][2] = 1
           sw(n) == \E i \in 1..Len(e.ins) : e.ins[i][1] = n /\ e.ins[i][4] = 1
           nd2  == [n \in NU |-> IF ~ok(n) THEN nd[n]
                                 ELSE IF sw(n) THEN InsertBlock(c.cfg, RollBack(c.cfg, c.base, nd[n], keep, c.h0, j - 1), alt, e.h)
                                 ELSE InsertBlock(c.cfg, nd[n], alt, e.h)]
           hd2  == [n \in NU |-> IF ok(n) THEN e.h ELSE hd[n]]
           S    == {i \in 1..Len(e.sts) : ~e.sts[i].dead /\ ok(e.sts[i].n)}
       IN /\ j >= 1 /\ e.h = Tip /\ BlkOf(e.orphan) = blks[j]
          /\ blks' = bs2
          /\ Note(If(\A i \in 1..Len(e.ins) : e.ins[i][2] # 2, "NoPanic")
                  \cup If(\A i \in 1..Len(e.ins) : e.ins[i][2] # 0, "ReplicasFollow")
                  \cup If(\A i \in S : LET o == e.sts[i] p == nd2[o.n] IN
                              /\ o.ver = p.ver /\ Eff(o.stored) = Eff(p.stored) /\ o.target = Target(c.cfg, p.ver)
                              /\ (o.e11 <=> E11(p.ver)) /\ (o.e12 <=> E12(p.ver)), "RollbackRevertsVersion")
                  \cup If(/\ \A i \in S : LET o == e.sts[i] g == LastNgUpTo(bs2, e.h) IN
                                  /\ o.cur = g /\ o.inter = (IF g = PreGen THEN NoGen ELSE g)
                                  /\ (g = PreGen => o.old = NoGen) /\ (g # PreGen => (o.old \in GenHeights(bs2, o.h) /\ o.old < g))
                          /\ \A i, k \in S : e.sts[i].curh = e.sts[k].curh /\ (e.sts[i].old = e.sts[k].old => e.sts[i].oldh = e.sts[k].oldh), "RollbackRevertsGenesis"))
          /\ Install(e.sts, nd2, hd2)
    /\ UNCHANGED c

TraceNext == TCrash \/ TReorg \/ TCase \/ TListener \/ TGenesis \/ TQuery \/ TVote \/ TPersist \/ TRestart \/ TOffer \/ TBlock \/ TDeliver \/ TProbe
TraceSpec == TraceInit /\ [][TraceNext]_tvars

TraceAccepted ==
    LET d == TLCGet("stats").diameter IN
    /\ IF d - 1 = Len(Trace) THEN TRUE ELSE Print(<<"TRACE_REJECTED_AT", d, Len(Trace)>>, FALSE)
    /\ PrintT(<<"DRIFT", TLCGet(2)>>)
    /\ \A i \in 1..Len(TLCGet(4)) : PrintT(<<"DRIFT_AT", TLCGet(4)[i][1], TLCGet(4)[i][2]>>)
    /\ \A i \in 1..Len(TLCGet(3)) : PrintT(<<"CLAUSE_BROKEN", TLCGet(3)[i][1], TLCGet(3)[i][2]>>)
    /\ TLCGet(3) = <<>>
=============================================================================
