CONSTANTS
  Layouts = {"l0", "l1", "l2", "l3", "l4", "l5"}
  MaxRestarts = 2
  MaxEvals = 2
  WithForks = TRUE
  CacheByHeight = FALSE
INIT TraceInit
NEXT TraceNext
POSTCONDITION TraceAccepted
CHECK_DEADLOCK FALSE
