--------------------------- MODULE Trace_BlockCheck ---------------------------
(* Trace validation for C03.  The trace is what the real validator did: for every honest          *)
(* original block produced on a real chain and every tamper case, a FRESH node (booted over a     *)
(* copy of the database the original was built on) is offered the re-encoded tampered block       *)
(* through ValidateBlock and through AddBlock, and is then asked to insert the honest original.   *)
(*                                                                                                *)
(*   Orig    - a new original; `ref` = complete observation of a clean node after inserting it    *)
(*   Begin   - a new case on a fresh node (or, `reuse`, on the node of the previous case when     *)
(*             every attempt on it was rejected): the case (vocabulary of BlockCheck.tla), the    *)
(*             set of header fields / inputs in which the tampered encoding really differs from   *)
(*             the honest block with the same inputs, and the node's observation                  *)
(*   Validate, Add - verdict of the real code, the stage it named, the observation afterwards;    *)
(*             Add also carries `twin` (see StoredClause)                                         *)
(*   Insert  - the honest original offered to the same node after the rejected attempt(s)         *)
(*   Skip    - case not offered (not applicable to this original / encoding unchanged)            *)
(*                                                                                                *)
(* The model (BlockCheck!Expect on the logged case) is the oracle for the verdicts; the property  *)
(* clauses are evaluated on the observed states.  Broken clauses are collected and delivered by   *)
(* the postcondition (CLAUSE_BROKEN <line> <clause>); clauses starting with "Harness" mean the    *)
(* driver and the table disagree about what a case is (not a verdict).                            *)
EXTENDS BlockCheck, Json, IOUtils

Trace == ndJsonDeserialize(IOEnv.TRACE_FILE)
ASSUME TLCSet(2, 0) /\ TLCSet(3, <<>>)
MaxReports == 400

(* The variables of BlockCheck carry the current case: kind, cs, blk = the abstract tampered    *)
(* block; verdict / first = the verdict and stage the real code reported last; pc is unused.    *)
VARIABLES l,        \* next trace line
          node,     \* observation of the node under test
          orig,     \* current original: [kind, ref]
          cur,      \* expectation for the current case: [expect, diff, fail]
          phase,    \* "idle" | "begun" | "validated" | "added" | "inserted"
          clean,    \* every attempt on this node so far was rejected
          nbad, drift
tvars == <<vars, l, node, orig, cur, phase, clean, nbad, drift>>

NoOrig == [kind |-> "", ref |-> <<>>]
NoCase == [expect |-> "", diff |-> {}, fail |-> {}]

TraceInit == /\ l = 1 /\ node = <<>> /\ orig = NoOrig /\ cur = NoCase /\ phase = "idle" /\ clean = TRUE
             /\ nbad = 0 /\ drift = 0
             /\ kind = "empty" /\ cs = [t |-> "none"] /\ blk = Honest("empty", In0) /\ pc = 1
             /\ verdict = "pending" /\ first = ""

RECURSIVE SetToSeq(_, _)
SetToSeq(S, n) == IF S = {} THEN <<>> ELSE LET x == CHOOSE y \in S : TRUE IN <<<<n, x>>>> \o SetToSeq(S \ {x}, n)

Report(S) == \* S: set of clause names broken by the step at line l
    /\ nbad' = nbad + Cardinality(S)
    /\ IF S # {} /\ Len(TLCGet(3)) < MaxReports
       THEN TLCSet(3, TLCGet(3) \o SetToSeq(S, l)) ELSE TRUE

Line == Trace[l]
Is(e) == l <= Len(Trace) /\ Line.ev = e /\ l' = l + 1

TOrig == /\ Is("Orig")
         /\ orig' = [kind |-> Line.kind, ref |-> Line.ref]
         /\ node' = <<>> /\ cur' = NoCase /\ phase' = "idle" /\ clean' = TRUE
         /\ Report({}) /\ UNCHANGED <<vars, drift>>

(* is the logged difference set what the case says it rewrote? (binding sanity, not a verdict) *)
DiffAsDeclared(c, d) ==
    CASE c.t = "none"  -> d = {}
      [] c.t = "field" -> d \subseteq {c.f}
      [] c.t = "mix"   -> d \subseteq {f \in BodyDep : c.src[f] # c.body}
      [] c.t = "replay" -> d \subseteq ReplayGroups[c.g]
      [] OTHER         -> TRUE

TBegin == /\ Is("Begin") /\ orig.kind # "" /\ Line.kind = orig.kind /\ phase \in {"idle", "added", "inserted"}
          /\ LET d == ToSet(Line.diff)
                 b == TamperedD(Line.kind, Line.c, d)      \* only the rewrites that really changed the encoding
                 h == {x \in {"HarnessUnsoundCase"} : Expect(b) = "unsound"}
                      \cup {x \in {"HarnessDiffNotAsDeclared"} : ~DiffAsDeclared(Line.c, d)}
                      \* a node is only used again while every attempt on it was rejected and nothing moved
                      \cup {x \in {"HarnessBadReuse"} : Line.reuse /\ ~(phase = "added" /\ clean /\ Line.pre = node)}
             IN /\ cur' = [expect |-> Expect(b), diff |-> d, fail |-> MayFail(b)]
                /\ kind' = Line.kind /\ cs' = Line.c /\ blk' = b /\ verdict' = "pending" /\ first' = "" /\ pc' = pc
                /\ Report(h)
          /\ node' = Line.pre /\ phase' = "begun" /\ clean' = (IF Line.reuse THEN clean ELSE TRUE)
          /\ UNCHANGED <<orig, drift>>

(* clauses of the property evaluated on one offer of the tampered block *)
OfferClauses(e, via) ==
    {x \in {"AcceptedInconsistent:" \o via} : e.r = "accept" /\ cur.expect = "reject"}
    \cup {x \in {"RejectedWithSideEffect:" \o via} : e.r = "reject" /\ (e.post # node \/ e.stored)}
    \cup {x \in {"ConsistentRejected:" \o via} : e.r = "reject" /\ cur.expect = "accept"}
    \cup {x \in {"Panic:" \o via} : e.r = "panic"}

DriftOf(e) == IF e.r = "reject" /\ e.stage # "" /\ e.stage \notin cur.fail THEN 1 ELSE 0

TValidate == /\ Is("Validate") /\ phase = "begun"
             /\ Report(OfferClauses(Line, "validate"))
             /\ drift' = drift + DriftOf(Line) /\ TLCSet(2, drift')
             /\ node' = Line.post          \* observed; a reject that changed it has been reported
             /\ clean' = (clean /\ Line.r = "reject")
             /\ phase' = "validated"
             /\ verdict' = Line.r /\ first' = Line.stage
             /\ UNCHANGED <<kind, cs, blk, pc, orig, cur>>

(* what an accepted block left behind: when the block the node now has as its head is, by hash, *)
(* one of the honest blocks of this height (`twin` = complete observation of a clean node after *)
(* inserting that honest block), the node must be in exactly that state: canonical header       *)
(* bytes, tx index, every database key                                                          *)
StoredClause(e) == {x \in {"StoredDiffersFromHonest"} : e.r = "accept" /\ e.twin # <<>> /\ e.post # e.twin}

TAdd == /\ Is("Add") /\ phase = "validated"
        /\ Report(OfferClauses(Line, "add") \cup StoredClause(Line))
        /\ drift' = drift + DriftOf(Line) /\ TLCSet(2, drift')
        /\ node' = Line.post
        /\ clean' = (clean /\ Line.r = "reject")
        /\ phase' = "added"
        /\ verdict' = Line.r /\ first' = Line.stage
        /\ UNCHANGED <<kind, cs, blk, pc, orig, cur>>

(* after rejected attempts only, the honest original must go in and leave exactly the state a   *)
(* clean node has after inserting it                                                            *)
TInsert == /\ Is("Insert") /\ phase = "added"
           /\ Report({x \in {"OriginalNotInsertable"} : clean /\ Line.r # "accept"}
                     \* a warmed-up node (replay cases) is compared with a node warmed up the same way (`ref` on the line)
                     \cup {x \in {"InsertionDiffersFromClean"} :
                              clean /\ Line.r = "accept" /\ Line.post # (IF "ref" \in DOMAIN Line THEN Line.ref ELSE orig.ref)}
                     \cup {x \in {"HarnessInsertAfterAccept"} : ~clean})
           /\ node' = Line.post /\ phase' = "inserted"
           /\ UNCHANGED <<vars, orig, cur, clean, drift>>

TSkip == /\ Is("Skip") /\ phase \in {"idle", "added", "inserted"}
         /\ LET b == TamperedD(Line.kind, Line.c, {})       \* nothing really changed: must be an honest block
            IN Report({x \in {"HarnessBadSkip"} : Line.why = "same" /\ Expect(b) \notin {"free", "accept"}})
         /\ UNCHANGED <<vars, node, orig, cur, phase, clean, drift>>

TraceNext == TOrig \/ TBegin \/ TValidate \/ TAdd \/ TInsert \/ TSkip
TraceSpec == TraceInit /\ [][TraceNext]_tvars

TraceAccepted ==
    LET d == TLCGet("stats").diameter IN
    /\ PrintT(<<"DRIFT", TLCGet(2)>>)
    /\ IF d - 1 = Len(Trace) THEN TRUE ELSE Print(<<"TRACE_REJECTED_AT", d, Len(Trace)>>, FALSE)
    /\ \A i \in 1..Len(TLCGet(3)) : PrintT(<<"CLAUSE_BROKEN", TLCGet(3)[i][1], TLCGet(3)[i][2]>>)
    /\ TLCGet(3) = <<>>
=============================================================================
