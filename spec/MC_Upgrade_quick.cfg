CONSTANTS
  Nodes = {0, 1, 2}
  Bases = {11}
  Gens = {TRUE, FALSE}
  VNs = {3, 9}
  MaxT = 5
  MaxVotes = 3
  MaxOdd = 1
  MaxBlocks = 3
  MaxRestarts = 1
  MaxPersists = 1
  MaxTicks = 2
  MaxCraft = 1
  MaxForce = 1
  MaxLag = 1
  MaxProbes = 1
  ExportOn = FALSE
  SampleMod = 40
INIT Init
NEXT Next
VIEW view
INVARIANTS TypeOK SameChainSameVersion SameGenesisInfo VersionByChain GenesisByChain NewGenesisExactlyAfterUpgrade
PROPERTIES VersionMonotone RestartNeutral
ACTION_CONSTRAINT Export
CHECK_DEADLOCK FALSE
