CONSTANTS
  AsRead = FALSE
  MaxOwn = 2
  MaxFork = 2
  OwnSpecial = 1
  Valids = {"valid", "badroot", "badtx", "badflags"}
  CertKinds = {"nil", "empty", "under", "forged", "valid"}
  ExportOn = TRUE
  SampleMod = 1
INIT MInit
NEXT MNext
INVARIANTS TypeOK AdoptOnlyCertified AdoptionCompletes AdoptionEqualsSync RevertedReturned RefusedUnchanged RefuseIffUnacceptable
ACTION_CONSTRAINT Export
CHECK_DEADLOCK FALSE
