---------------------------- MODULE MC_ChainStore ----------------------------
(* Bounded model run of ChainStore for C09: every scenario (block insertion of every kind, ResetTo  *)
(* by every depth, fork switch = ResetTo + insertion of other blocks, insertion followed by a       *)
(* sibling branch) x every crash point (in front of every durable step of the operation, of the     *)
(* recovery and of the continuation, up to MaxCrashes crashes, plus the clean stop at the block     *)
(* boundary) is explored; after every start-up the property clauses are evaluated, then the         *)
(* interrupted and the following blocks of the reference chain are applied.                         *)
(* Every finished behaviour is exported (scenario, crash schedule as (phase, index, kind of the     *)
(* lost write, occurrence), the clauses the MODEL sees broken) for replay on the real node.         *)
EXTENDS ChainStore, Json

CONSTANTS
    MaxCrashes,   \* crashes per behaviour
    Kinds,        \* block kinds explored for the blocks under test: subset of {"plain","tx","idupd"}
    ForkKinds,    \* kinds explored for the blocks of the other branch
    ResetDepths,  \* rollback depths
    ForkLens,     \* number of blocks of the other branch inserted by the fork switch
    FsKinds,      \* fast sync: kinds explored for the blocks between the node's head and the snapshot height
    FsLens,       \* fast sync: number of such blocks
    PreHeads,     \* head heights of the pre-state (<= Retain - 1: no pruning yet; > Retain: every commit prunes)
    ExportOn

VARIABLES
    n,        \* the node (ChainStore)
    sc,       \* the scenario
    stage,    \* "op" -> "cont" -> "end"
    phase,    \* what the numbered writes belong to: "op" | "rec" | "cont"
    opq,      \* macro steps still to be started (Add block / ResetTo)
    wl,       \* kinds of the durable writes performed in the current phase
    crashes,  \* the crash schedule so far
    rheads,   \* heads found after each start-up
    verdict,  \* property clauses broken so far
    win       \* [lo, hi] window for the head after the next start-up

vars == <<n, sc, stage, phase, opq, wl, crashes, rheads, verdict, win>>

(* ---------------------------------------------------------------------------------------------- *)
(* the block universe of a scenario                                                               *)

NIdx(kind) == CASE kind = "tx" -> 2 [] kind = "idupd" -> 1 [] OTHER -> 0

ForkAt(s) == CASE s.op = "Fork" -> s.h0 - s.k
               [] s.op = "Alt"  -> s.h0
               [] OTHER         -> 0            \* no other branch

AKind(s, h) == IF s.op \in {"Add", "Alt"} /\ h = s.h0 + 1 THEN s.kinds[1]
               ELSE IF s.op = "FastSync" /\ h > s.h0 /\ h <= s.h0 + Len(s.kinds) THEN s.kinds[h - s.h0]
               ELSE "plain"
BKind(s, h) == IF s.op = "Fork" /\ h - ForkAt(s) <= Len(s.kinds) THEN s.kinds[h - ForkAt(s)]
               ELSE IF s.op = "Alt" /\ h = ForkAt(s) + 1 THEN "tx"      \* the sibling differs in content, not only in its hash
               ELSE "plain"

Id(br, h) == IF h = 1 THEN "g1" ELSE br \o ToString(h)

RECURSIVE AIdr(_, _)
AIdr(s, h) == IF h <= 1 THEN "ig" ELSE IF AKind(s, h) = "idupd" THEN "i" \o Id("a", h) ELSE AIdr(s, h - 1)
RECURSIVE BIdr(_, _)
BIdr(s, h) == IF h <= ForkAt(s) THEN AIdr(s, h) ELSE IF BKind(s, h) = "idupd" THEN "i" \o Id("b", h) ELSE BIdr(s, h - 1)

ABlock(s, h) == [h |-> h, id |-> Id("a", h), root |-> "r" \o Id("a", h), idr |-> AIdr(s, h), par |-> Id("a", h - 1),
                 kind |-> AKind(s, h), nidx |-> NIdx(AKind(s, h))]
BBlock(s, h) == IF h <= ForkAt(s) THEN ABlock(s, h)
                ELSE [h |-> h, id |-> Id("b", h), root |-> "r" \o Id("b", h), idr |-> BIdr(s, h),
                      par |-> IF h = ForkAt(s) + 1 THEN Id("a", h - 1) ELSE Id("b", h - 1),
                      kind |-> BKind(s, h), nidx |-> NIdx(BKind(s, h))]

TargetIsB(s) == s.op \in {"Fork", "Alt"}
Target(s, h) == IF TargetIsB(s) THEN BBlock(s, h) ELSE ABlock(s, h)
End(s) == CASE s.op = "Add"   -> s.h0 + 2
            [] s.op = "Reset" -> s.h0 + 1
            [] s.op = "Fork"  -> ForkAt(s) + Len(s.kinds) + 1
            [] s.op = "Alt"   -> s.h0 + 2
            [] s.op = "FastSync" -> s.h0 + Len(s.kinds) + 2
SnapH(s) == s.h0 + Len(s.kinds)          \* fast sync: height of the snapshot
OldTip(s) == IF s.op \in {"Add", "Alt"} THEN s.h0 + 1 ELSE s.h0
KnownIds(s) == {ABlock(s, h).id : h \in 1..(s.h0 + 2)} \cup {Target(s, h).id : h \in 1..End(s)}

RECURSIVE SeqsOver(_, _)
SeqsOver(S, len) == IF len = 0 THEN {<<>>} ELSE {<<x>> \o t : x \in S, t \in SeqsOver(S, len - 1)}

DepthOk(h, k) == k < h /\ k < Retain
Scenarios ==
    {[op |-> "Add", h0 |-> h, k |-> 0, kinds |-> <<kd>>] : h \in PreHeads, kd \in Kinds}
    \cup {s \in {[op |-> "Reset", h0 |-> h, k |-> k, kinds |-> <<>>] : h \in PreHeads, k \in ResetDepths} : DepthOk(s.h0, s.k)}
    \cup UNION {{s \in {[op |-> "Fork", h0 |-> h, k |-> k, kinds |-> ks] : h \in PreHeads, k \in ResetDepths, ks \in SeqsOver(ForkKinds, m)} :
                     DepthOk(s.h0, s.k)} : m \in ForkLens}
    \cup {[op |-> "Alt", h0 |-> h, k |-> 0, kinds |-> <<kd>>] : h \in PreHeads, kd \in Kinds}
    \cup UNION {{[op |-> "FastSync", h0 |-> h, k |-> 0, kinds |-> ks] : h \in PreHeads, ks \in SeqsOver(FsKinds, m)} : m \in FsLens}

(* ---------------------------------------------------------------------------------------------- *)
(* pre-state: genesis, then the blocks a2..a(h0) inserted by the model itself without a crash      *)

Genesis == LET g == [h |-> 1, id |-> "g1", root |-> "rg1", idr |-> "ig", par |-> "", kind |-> "plain", nidx |-> 0] IN
           [sv |-> Put(Empty, 1, g.root), iv |-> Put(Empty, 1, g.idr), hdr |-> {g}, head |-> g, canon |-> Put(Empty, 1, g.id),
            diff |-> Empty, nidx |-> 0, pv |-> Empty, pp |-> FALSE, xsv |-> Empty, phead |-> NoBlock,
            up |-> TRUE, mhead |-> g, ms |-> g.root, mi |-> g.idr, mphead |-> NoBlock, mp |-> None,
            ph |-> "idle", todo |-> <<>>, why |-> ""]

RECURSIVE Grow(_, _, _)
Grow(nd, s, h) == IF h > s.h0 THEN nd ELSE Grow(Run(Begin(nd, AddSteps(nd, ABlock(s, h))), <<>>, -1).n, s, h + 1)

PreState(s) == Grow(Genesis, s, 2)

(* macro steps *)
Macro(what, b, to) == [what |-> what, b |-> b, to |-> to]
RECURSIVE AddMacros(_, _, _)
AddMacros(s, from, to) == IF from > to THEN <<>> ELSE <<Macro("Add", Target(s, from), 0)>> \o AddMacros(s, from + 1, to)

OpMacros(s) == CASE s.op = "Add"   -> <<Macro("Add", ABlock(s, s.h0 + 1), 0)>>
                 [] s.op = "Alt"   -> <<Macro("Add", ABlock(s, s.h0 + 1), 0)>>
                 [] s.op = "Reset" -> <<Macro("ResetTo", NoBlock, s.h0 - s.k)>>
                 [] s.op = "FastSync" -> <<Macro("FastSync", ABlock(s, SnapH(s)), SnapH(s))>>
                 [] s.op = "Fork"  -> <<Macro("ResetTo", NoBlock, ForkAt(s))>> \o AddMacros(s, ForkAt(s) + 1, ForkAt(s) + Len(s.kinds))

(* what a syncing node does from its head to reach the tip of the target chain; afterwards the   *)
(* rollback probe: the node is asked to go back to the height it restarted at and to re-insert the *)
(* same blocks (what a fork switch with that common ancestor does).                                *)
Sync(nd, s) ==
    LET hh == nd.mhead.h IN
    IF s.op = "FastSync" /\ nd.mhead.id = Target(s, hh).id /\ hh < SnapH(s)      \* fast sync not finished: resume it
    THEN <<Macro("FastSync", ABlock(s, SnapH(s)), SnapH(s))>> \o AddMacros(s, SnapH(s) + 1, End(s))
    ELSE IF nd.mhead.id = Target(s, hh).id THEN AddMacros(s, hh + 1, End(s))
    ELSE IF nd.mhead.id = ABlock(s, hh).id /\ ForkAt(s) > 0 /\ hh > ForkAt(s)
         THEN <<Macro("ResetTo", NoBlock, ForkAt(s))>> \o AddMacros(s, ForkAt(s) + 1, End(s))
         ELSE <<>>
Probe(nd, s) ==
    LET hh == IF nd.mhead.id = Target(s, nd.mhead.h).id THEN nd.mhead.h ELSE ForkAt(s) IN
    IF hh < End(s) /\ hh >= 1 /\ End(s) - hh <= Retain - 1      \* only to a height whose tree versions are still retained
       /\ ~(s.op = "FastSync" /\ hh < SnapH(s))                 \* (after a fast sync: not below the snapshot)
    THEN <<Macro("ResetTo", NoBlock, hh)>> \o AddMacros(s, hh + 1, End(s)) ELSE <<>>
Continuation(nd, s, probe) == Sync(nd, s) \o (IF probe THEN Probe(nd, s) ELSE <<>>)

Expand(nd, m) == CASE m.what = "Add" -> AddSteps(nd, m.b)
                   [] m.what = "ResetTo" -> ResetSteps(nd, m.to)
                   [] m.what = "FastSync" -> FastSyncSteps(nd, [h \in 1..End(sc) |-> ABlock(sc, h)], m.to)

LowestRetained(nd) == IF (DOMAIN nd.sv) \cap (DOMAIN nd.iv) = {} THEN 1 ELSE MinOf((DOMAIN nd.sv) \cap (DOMAIN nd.iv))

(* ---------------------------------------------------------------------------------------------- *)

MInit == /\ sc \in Scenarios
         /\ n = PreState(sc)
         /\ stage = "op" /\ phase = "op" /\ opq = OpMacros(sc) /\ wl = <<>> /\ crashes = <<>> /\ rheads = <<>> /\ verdict = {}
         /\ win = [lo |-> LowestRetained(PreState(sc)), hi |-> sc.h0]

(* start the next macro step (AddBlock / ResetTo call) *)
BeginMacro == /\ stage \in {"op", "cont"} /\ phase # "rec" /\ n.ph = "idle" /\ n.todo = <<>> /\ opq # <<>>
              /\ n' = Begin(n, Expand(n, Head(opq))) /\ opq' = Tail(opq)
              /\ win' = [lo |-> win.lo, hi |-> IF Head(opq).what \in {"Add", "FastSync"} /\ Head(opq).b.h > win.hi THEN Head(opq).b.h ELSE win.hi]
              /\ UNCHANGED <<sc, stage, phase, wl, crashes, rheads, verdict>>

(* one action per kind of step *)
StepKind(K) == /\ n.ph = "busy" /\ n.todo # <<>> /\ Head(n.todo).k \in K
               /\ n' = Do(n)
               /\ wl' = IF Head(n.todo).dur THEN Append(wl, Head(n.todo).k) ELSE wl
               /\ UNCHANGED <<sc, stage, phase, opq, crashes, rheads, verdict, win>>

ValidateBlock       == StepKind({"Reject"})
CommitStateTree     == StepKind({"SCommit", "SCommitNoop", "SCommitLost"})
PruneState          == StepKind({"SPrune"})
CommitIdentityTree  == StepKind({"ICommit", "ICommitNoop", "ICommitLost"})
PruneIdentity       == StepKind({"IPrune"})
WriteHeader         == StepKind({"Header"})
WriteHead           == StepKind({"Head", "HeadSkipped"})
WriteCanonical      == StepKind({"Canon"})
WriteDiff           == StepKind({"Diff"})
WriteIndexes        == StepKind({"Index"})
SetCurrentHead      == StepKind({"SetHead"})
RollbackState       == StepKind({"SRollback", "SRollbackNoop"})
RollbackIdentity    == StepKind({"IRollback", "IRollbackNoop"})
RemoveHeader        == StepKind({"DelHeader"})
RemoveCanonical     == StepKind({"DelCanon"})
RemoveDiff          == StepKind({"DelDiff"})
PreliminaryCopy     == StepKind({"InitPrelim", "LoadPrelim", "PCopy"})
RegisterPreliminary == StepKind({"PfxP"})
CommitPreliminary   == StepKind({"PCommit", "PCommitNoop", "PCommitLost", "PPrune"})
WritePreliminaryHead == StepKind({"PHead"})
ImportSnapshot      == StepKind({"SnapImport"})
AtomicSwitch        == StepKind({"Switch"})
DropReplaced        == StepKind({"DropOld", "Settled"})
RemovePreliminaryHead == StepKind({"DelPHead"})
InitChain           == StepKind({"InitChain"})
InitState           == StepKind({"InitState"})
EnsureIntegrityStep == StepKind({"Integrity", "Fail"})

Occ(k) == Cardinality({j \in 1..Len(wl) : wl[j] = k}) + 1

(* the process dies inside the next durable write *)
Crash == /\ n.ph = "busy" /\ n.todo # <<>> /\ Head(n.todo).dur /\ Len(crashes) < MaxCrashes
         /\ crashes' = Append(crashes, [ph |-> phase, i |-> Len(wl), k |-> Head(n.todo).k, occ |-> Occ(Head(n.todo).k)])
         /\ n' = Down(n) /\ opq' = <<>>
         /\ UNCHANGED <<sc, stage, phase, wl, rheads, verdict, win>>

(* clean stop at the block boundary right after the operation under test *)
CleanStop == /\ stage = "op" /\ phase = "op" /\ n.ph = "idle" /\ n.todo = <<>> /\ opq = <<>> /\ crashes = <<>> /\ MaxCrashes > 0
             /\ crashes' = Append(crashes, [ph |-> "op", i |-> Len(wl), k |-> "clean", occ |-> 0])
             /\ n' = Down(n)
             /\ win' = [lo |-> n.mhead.h, hi |-> n.mhead.h]      \* a clean restart changes nothing: same head
             /\ UNCHANGED <<sc, stage, phase, opq, wl, rheads, verdict>>

Restart == /\ n.ph = "down"
           /\ n' = BootOf(n) /\ phase' = "rec" /\ wl' = <<>>
           /\ UNCHANGED <<sc, stage, opq, crashes, rheads, verdict, win>>

BootDone == /\ stage # "end" /\ phase = "rec" /\ n.ph \in {"idle", "failed", "hang"} /\ n.todo = <<>>
            /\ verdict' = verdict \cup RestartClauses(n, win.lo, win.hi, KnownIds(sc))
            /\ rheads' = Append(rheads, n.mhead.h)
            /\ IF n.ph = "idle"
               THEN /\ stage' = "cont" /\ phase' = "cont" /\ wl' = <<>> /\ opq' = Continuation(n, sc, TRUE)
                    /\ win' = [lo |-> LowestRetained(n), hi |-> n.mhead.h]
               ELSE /\ stage' = "end" /\ UNCHANGED <<phase, wl, opq, win>>
            /\ UNCHANGED <<n, sc, crashes>>

(* operation finished without a crash: go on with the following blocks *)
OpDone == /\ stage = "op" /\ phase = "op" /\ n.ph = "idle" /\ n.todo = <<>> /\ opq = <<>>
          /\ stage' = "cont" /\ phase' = "cont" /\ wl' = <<>> /\ opq' = Continuation(n, sc, FALSE)
          /\ UNCHANGED <<n, sc, crashes, rheads, verdict, win>>

Reached == /\ n.mhead # NoBlock /\ n.mhead.id = Target(sc, End(sc)).id /\ HeadMatchesState(n) /\ HeadSaved(n)
IndexComplete == \A h \in 1..End(sc) : Has(n.canon, h) /\ n.canon[h] = Target(sc, h).id /\ HeaderOf(n, n.canon[h]) # NoBlock

Finish == /\ stage = "cont" /\ phase = "cont" /\ n.ph = "idle" /\ n.todo = <<>> /\ opq = <<>>
          /\ stage' = "end"
          /\ verdict' = verdict \cup (IF Reached THEN {} ELSE {"ReachesReference"})
                                \cup (IF Reached /\ ~IndexComplete THEN {"IndexMatchesReference"} ELSE {})
          /\ UNCHANGED <<n, sc, phase, opq, wl, crashes, rheads, win>>

(* a block of the reference chain is not accepted / an operation fails outside start-up *)
Stuck == /\ stage \in {"op", "cont"} /\ phase # "rec" /\ n.ph \in {"rejected", "failed", "hang"}
         /\ stage' = "end" /\ verdict' = verdict \cup {"ContinuationAccepted"}
         /\ UNCHANGED <<n, sc, phase, opq, wl, crashes, rheads, win>>

Done == stage = "end" /\ UNCHANGED vars

MNext == \/ BeginMacro
         \/ ValidateBlock \/ CommitStateTree \/ PruneState \/ CommitIdentityTree \/ PruneIdentity
         \/ WriteHeader \/ WriteHead \/ WriteCanonical \/ WriteDiff \/ WriteIndexes \/ SetCurrentHead
         \/ RollbackState \/ RollbackIdentity \/ RemoveHeader \/ RemoveCanonical \/ RemoveDiff
         \/ PreliminaryCopy \/ RegisterPreliminary \/ CommitPreliminary \/ WritePreliminaryHead \/ ImportSnapshot
         \/ AtomicSwitch \/ DropReplaced \/ RemovePreliminaryHead
         \/ InitChain \/ InitState \/ EnsureIntegrityStep
         \/ Crash \/ CleanStop \/ Restart \/ BootDone \/ OpDone \/ Finish \/ Stuck \/ Done

(* ---------------------------------------------------------------------------------------------- *)
(* invariants                                                                                      *)

TypeOK == /\ stage \in {"op", "cont", "end"} /\ phase \in {"op", "rec", "cont"}
          /\ n.ph \in {"idle", "busy", "down", "failed", "rejected", "hang"}
          /\ Len(crashes) <= MaxCrashes
          /\ (n.ph = "down" => ~n.up /\ n.mhead = NoBlock)
          /\ Cardinality(DOMAIN n.sv) <= Retain + 2 /\ Cardinality(DOMAIN n.iv) <= Retain + 2

(* a node that never crashed is always consistent and reaches the reference *)
NoCrashNoProblem == (crashes = <<>> /\ stage = "end") => verdict = {}

(* whenever the node is idle its head matches the loaded state *)
IdleConsistent == (n.ph = "idle" /\ n.up /\ ~(\E j \in 1..Len(crashes) : crashes[j].k = "Canon")) => RootsMatch(n)

(* the repaired design satisfies every clause *)
NoBrokenClause == verdict = {}

(* the code as it is: the only broken clauses are the ones explained by the two orderings named in *)
(* the constants (head written before the canonical hash; tree versions above the head kept)       *)
LostCanon == \E j \in 1..Len(crashes) : crashes[j].k = "Canon"
OrphanVersion == \E j \in 1..Len(crashes) : crashes[j].k \in {"ICommit", "IPrune", "SPrune", "Header", "Head"}
ExplainedAsIs ==
    /\ "HeadInWindow" \notin verdict
    /\ ("BootOk" \in verdict \/ "HeadMatchesState" \in verdict) => (HeadBeforeCanon /\ LostCanon)
    /\ ("HeadIndexed" \in verdict \/ "IndexMatchesReference" \in verdict) => (HeadBeforeCanon /\ LostCanon)
    /\ ("ContinuationAccepted" \in verdict \/ "ReachesReference" \in verdict) =>
           \/ (KeepOrphanVersions /\ sc.op = "Alt" /\ OrphanVersion)
           \/ (HeadBeforeCanon /\ LostCanon)

(* ---------------------------------------------------------------------------------------------- *)
(* export: one line per finished behaviour                                                         *)
Export == IF ExportOn /\ stage # "end" /\ stage' = "end"
          THEN PrintT(ToJson([sc |-> sc, crashes |-> crashes', broken |-> verdict', rheads |-> rheads', retain |-> Retain]))
          ELSE TRUE
=============================================================================
