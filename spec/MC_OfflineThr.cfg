CONSTANTS
  MaxN = 8
INIT Init
NEXT Next
INVARIANTS Export Sane
CHECK_DEADLOCK FALSE
