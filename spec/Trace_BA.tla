------------------------------ MODULE Trace_BA ------------------------------
(* Trace validation for the agreement protocol (growth module of C07).                              *)
(*                                                                                                  *)
(* Each line of the trace is something N REAL engines did in one round (harness/cmd/d_ba), in the    *)
(* order it happened: a node was started, the network handed a proposal or a vote to a node, a node  *)
(* cast a vote, its vote counter returned, it added a block with a certificate, or it left the round *)
(* without one.  The specification BA is the oracle: every line must be the step BA allows from the  *)
(* state the earlier lines led to - the votes a node casts and what it commits are a function of     *)
(* what its counter returned, and what the counter may return is fixed by the genuine votes that      *)
(* were handed to the node - and the property clauses are evaluated on the observed commits:          *)
(*   Agreement        no two nodes added different blocks in the round                               *)
(*   CertifiedCommit  the stored certificate is of the step the protocol decided in, is accepted by    *)
(*                    Cert!AcceptA for the validator view (approved committee members and required    *)
(*                    number of votes as a node on the previous head derives them - read from the      *)
(*                    trace), by the real ValidateBlockCert of a witness node and of another          *)
(*                    participant, and is a Final one iff the block is marked final                   *)
(*   Validity         a non-empty block comes from a node whose sortition passed                      *)
(*   EmptyOnTimeout   after a count timed out (or no block arrived) the node votes the empty hash     *)
(*   CountSound       the counter returned a hash only with >= Thr genuine votes of this round, step   *)
(*                    and hash in the node's pool, and its certificate consists of such votes         *)
(*   CountComplete    the counter timed out only without such a quorum                               *)
(*   VoteValue / Step / FinalFlag / CommitValue / Termination   the step machine itself               *)
(* What the proposal pool keeps (best proof, stored blocks) and whether the vote pool admitted a vote *)
(* are READ from the trace (bound, not recomputed); a difference to BA's prediction is drift.         *)
(* After the first broken clause of a case the rest of the case is only checked for Agreement,        *)
(* Validity and the certificate.  The verdict is delivered by the postcondition.                      *)
EXTENDS BA, Json, IOUtils

Trace == ndJsonDeserialize(IOEnv.TRACE_FILE)
ASSUME TLCSet(2, 0) /\ TLCSet(3, <<>>)

VARIABLES l, skip, lastres
tvars == <<vars, l, skip, lastres>>

ToSet(s) == {s[i] : i \in 1..Len(s)}
Rep(cl) == IF Len(TLCGet(3)) < 400 THEN TLCSet(3, Append(TLCGet(3), <<l, cl>>)) ELSE TRUE
Drift(b) == IF b THEN TLCSet(2, TLCGet(2) + 1) ELSE TRUE
Fail(cl) == UNCHANGED <<vars, lastres>> /\ skip' = TRUE /\ Rep(cl)
Ok == skip' = skip /\ lastres' = lastres
StepName(s) == IF s = R1 THEN "R1" ELSE IF s = R2 THEN "R2" ELSE IF s = Final THEN "Final"
               ELSE IF s % 2 = 1 THEN "odd" \o (IF s = 1 THEN "1" ELSE "") ELSE "even"
ValName(v) == IF v = Empty THEN "empty" ELSE IF v = NoVal THEN "none" ELSE IF v = 99 THEN "unknown" ELSE "block"

TraceInit == /\ InitWith([N |-> 1, T |-> 1, TF |-> 1, MaxSteps |-> 2, Byz |-> {}], {})
             /\ l = 1 /\ skip = TRUE /\ lastres = [n \in {1} |-> NoVal]

e == Trace[l]

TReset ==
    /\ e.ev = "Reset"
    /\ cf' = [N |-> e.N, T |-> e.T, TF |-> e.TF, MaxSteps |-> e.maxsteps, Byz |-> ToSet(e.byz)] /\ props' = ToSet(e.props)
    /\ pc' = [n \in 1..e.N |-> IF n \in ToSet(e.byz) THEN "done" ELSE "idle"] /\ step' = [n \in 1..e.N |-> 0]
    /\ best' = [n \in 1..e.N |-> 0] /\ blocks' = [n \in 1..e.N |-> {}] /\ sel' = [n \in 1..e.N |-> 0]
    /\ bh' = [n \in 1..e.N |-> NoVal] /\ ih' = [n \in 1..e.N |-> NoVal]
    /\ ba' = [n \in 1..e.N |-> NoCommit] /\ pend' = [n \in 1..e.N |-> NoCommit]
    /\ pool' = [n \in 1..e.N |-> {}] /\ due' = [n \in 1..e.N |-> <<>>] /\ sent' = {}
    /\ fetched' = [n \in 1..e.N |-> {}] /\ commit' = [n \in 1..e.N |-> NoCommit]
    /\ endk' = [n \in 1..e.N |-> IF n \in ToSet(e.byz) THEN "byzantine" ELSE ""]
    /\ lastres' = [n \in 1..e.N |-> NoVal]
    /\ skip' = FALSE
    /\ IF e.committee = e.N THEN TRUE ELSE Rep("Setup:committee-size")

\* ---------------------------------------------------------------------------------------------
TStart == e.ev = "Start" /\ IF pc[e.n] = "idle" THEN Start(e.n) /\ Ok ELSE Fail("Step:Start")

\* the proposer's own pool: whether its block was kept is read from the trace
TProposed ==
    /\ e.ev = "Proposed"
    /\ IF e.n \notin props THEN Fail("Validity:proposal-without-sortition")
       ELSE /\ Drift((e.stored = 1) # (e.n \in blocks[e.n]))
            /\ blocks' = [blocks EXCEPT ![e.n] = IF e.stored = 1 THEN @ \cup {e.n} ELSE @ \ {e.n}]
            /\ UNCHANGED <<cf, props, pc, step, best, sel, bh, ih, ba, pend, pool, due, sent, fetched, commit, endk>> /\ Ok

TDeliverProposal ==
    /\ e.ev = "Deliver" /\ e.t \in {"proof", "block"}
    /\ IF e.forged # ""        \* the proposal of a node whose sortition did not pass: nothing of it may be kept
       THEN IF e.stored = 1 \/ e.best = e.p THEN Fail("Validity:ineligible-proposal-kept") ELSE UNCHANGED vars /\ Ok
       ELSE IF (IF e.t = "proof" THEN ProofMsg(e.p) ELSE BlockMsg(e.p)) \notin sent THEN Fail("Step:Deliver:proposal-never-sent")
       ELSE IF pc[e.n] = "done" THEN UNCHANGED vars /\ Ok
       ELSE /\ Drift(\/ e.best # (IF e.p >= best[e.n] THEN e.p ELSE best[e.n])
                     \/ (e.stored = 1) # (e.p \in blocks[e.n] \/ (e.t = "block" /\ e.p >= best[e.n])))
            /\ best' = [best EXCEPT ![e.n] = e.best]
            /\ blocks' = [blocks EXCEPT ![e.n] = IF e.stored = 1 THEN @ \cup {e.p} ELSE @ \ {e.p}]
            /\ UNCHANGED <<cf, props, pc, step, sel, bh, ih, ba, pend, pool, due, sent, fetched, commit, endk>> /\ Ok

\* a forged vote (another round, another parent, a stranger's key, a re-signed copy of a vote the node holds) must never count: it does not enter the pool of BA
TDeliverVote ==
    /\ e.ev = "Deliver" /\ e.t = "vote"
    /\ IF e.forged # "" THEN UNCHANGED vars /\ Ok
       ELSE IF e.w \in cf.Byz       \* an equivocator's vote is a member's vote: it exists as soon as it is shown to somebody
            THEN /\ sent' = sent \cup {VoteMsg(e.w, e.s, e.v)}
                 /\ pool' = [pool EXCEPT ![e.n] = IF e.acc = 1 THEN @ \cup {VoteMsg(e.w, e.s, e.v)} ELSE @]
                 /\ UNCHANGED <<cf, props, pc, step, best, blocks, sel, bh, ih, ba, pend, due, fetched, commit, endk>> /\ Ok
       ELSE IF VoteMsg(e.w, e.s, e.v) \notin sent THEN Fail("Step:Deliver:vote-never-cast")
       ELSE /\ Drift(e.acc = 0 /\ VoteMsg(e.w, e.s, e.v) \notin pool[e.n] /\ pc[e.n] # "done")
            /\ IF e.acc = 1 THEN DeliverVote(VoteMsg(e.w, e.s, e.v), e.n) ELSE UNCHANGED vars
            /\ Ok

TSkip == e.ev = "Skip" /\ UNCHANGED vars /\ Ok

\* getHighestProposerPubKey returned: the proposer it returned is read from the trace
TSortDone ==
    /\ e.ev = "SortDone"
    /\ IF pc[e.n] # "sortwait" THEN Fail("Step:SortDone")
       ELSE /\ Drift(e.sel # best[e.n])
            /\ sel' = [sel EXCEPT ![e.n] = e.sel]
            /\ IF e.sel = 0
               THEN /\ pc' = [pc EXCEPT ![e.n] = "count"] /\ step' = [step EXCEPT ![e.n] = R1]
                    /\ due' = [due EXCEPT ![e.n] = <<D(R1, Empty)>>]
               ELSE /\ pc' = [pc EXCEPT ![e.n] = "waitblock"] /\ UNCHANGED <<step, due>>
            /\ UNCHANGED <<cf, props, best, blocks, bh, ih, ba, pend, pool, sent, fetched, commit, endk>> /\ Ok

\* a vote of reduction one by a node that was waiting for the block: GotBlock or BlockTimeout happened, then Cast
CastR1(n, v) ==
    /\ pc' = [pc EXCEPT ![n] = "count"] /\ step' = [step EXCEPT ![n] = R1]
    /\ pool' = [pool EXCEPT ![n] = @ \cup {VoteMsg(n, R1, v)}] /\ sent' = sent \cup {VoteMsg(n, R1, v)}
    /\ UNCHANGED <<cf, props, best, blocks, sel, bh, ih, ba, pend, due, fetched, commit, endk>>

TVote ==
    /\ e.ev = "Vote"
    /\ LET n == e.n IN
       IF e.parent # 1 THEN Fail("Step:Vote:parent-is-not-the-head")
       ELSE IF pc[n] = "waitblock"
       THEN IF e.s = R1 /\ e.v = sel[n] /\ sel[n] \in blocks[n] THEN CastR1(n, e.v) /\ Ok
            ELSE IF e.s = R1 /\ e.v = Empty /\ sel[n] \notin blocks[n] THEN CastR1(n, Empty) /\ Ok
            ELSE IF e.s # R1 THEN Fail("Step:Vote:R1-skipped")
            ELSE IF e.v = Empty THEN Fail("Step:Vote:R1:empty-but-block-stored")
            ELSE IF e.v = sel[n] THEN Fail("EmptyOnTimeout:R1:block-not-received")
            ELSE Fail("Step:Vote:R1:unselected-block")
       ELSE IF due[n] # <<>>
       THEN IF Head(due[n]) = D(e.s, e.v) THEN Cast(n) /\ Ok
            ELSE IF Head(due[n]).s # e.s THEN Fail("Step:Vote:step:" \o StepName(Head(due[n]).s) \o "-due-" \o StepName(e.s) \o "-cast")
            ELSE IF Head(due[n]).v = Empty /\ lastres[n] = NoVal
                 THEN Fail("EmptyOnTimeout:" \o StepName(e.s) \o ":" \o ValName(e.v) \o "-after-timeout")
            ELSE Fail("VoteValue:" \o StepName(e.s) \o ":" \o ValName(Head(due[n]).v) \o "-due-" \o ValName(e.v) \o "-cast")
       ELSE Fail("Step:Vote:unexpected:" \o StepName(e.s))

TCount ==
    /\ e.ev = "Count"
    /\ LET n == e.n
           s == e.s
           vs == ToSet(e.cert) IN
       IF e.cur # 1 THEN UNCHANGED vars /\ Ok
       ELSE IF pc[n] # "count" THEN Fail("Step:Count:unexpected:" \o StepName(s))
       ELSE IF due[n] # <<>> THEN Fail("Step:Count:before-vote:" \o StepName(Head(due[n]).s))
       ELSE IF step[n] # s THEN Fail("Step:Count:step:" \o StepName(step[n]) \o "-due-" \o StepName(s) \o "-counted")
       ELSE IF e.res = -1
            THEN IF \E v \in Values : Quorum(n, s, v) THEN Fail("CountComplete:" \o StepName(s))
                 ELSE AfterCount(n, NoVal, {}) /\ UNCHANGED <<pool, sent>> /\ skip' = skip /\ lastres' = [lastres EXCEPT ![n] = NoVal]
       ELSE IF e.res \notin Values THEN Fail("CountSound:" \o StepName(s) \o ":unknown-hash")
       ELSE IF ~Quorum(n, s, e.res) THEN Fail("CountSound:" \o StepName(s) \o ":" \o ValName(e.res) \o ":no-genuine-quorum")
       ELSE IF ~(vs \subseteq Voters(n, s, e.res) /\ Cardinality(vs) >= Thr(s)) THEN Fail("CountSound:" \o StepName(s) \o ":certificate")
       ELSE AfterCount(n, e.res, vs) /\ UNCHANGED <<pool, sent>> /\ skip' = skip /\ lastres' = [lastres EXCEPT ![n] = e.res]

\* getBlockByHash: a peer answered with the block
TFetch ==
    /\ e.ev = "Fetch"
    /\ LET n == e.n IN
       IF pc[n] # "getblock" THEN Fail("Step:Fetch:unexpected")
       ELSE IF e.got = 1 /\ ~CanServe(e.from, pend[n].v) THEN Fail("Step:Fetch:served-without-the-block")
       ELSE /\ fetched' = [fetched EXCEPT ![n] = IF e.got = 1 THEN @ \cup {pend[n].v} ELSE @]
            /\ UNCHANGED <<cf, props, pc, step, best, blocks, sel, bh, ih, ba, pend, pool, due, sent, commit, endk>> /\ Ok

\* ---------------------------------------------------------------------------------------------
\* the observed commit
ObsCommit == [v |-> e.v, final |-> e.final = 1, cs |-> e.cert.s, cv |-> e.cert.v, voters |-> ToSet(e.cert.voters)]
CertProblem(n) ==
    LET c == ObsCommit IN
    IF e.cert.present # 1 THEN "no-certificate"
    ELSE IF e.cert.round # 1 THEN "other-round"
    ELSE IF c.cv # c.v THEN "for-another-hash"
    ELSE IF ~(c.voters \subseteq Nodes) THEN "signature-of-a-non-member"
    ELSE IF ~Cert!AcceptA(ToSet(e.cert.appr), CertVotes(c.voters, c.cs, c.cv), FALSE, c.v, e.cert.req) THEN "no-quorum"
    ELSE IF ~skip /\ (\E w \in c.voters : VoteMsg(w, c.cs, c.cv) \notin sent) THEN "vote-nobody-cast"
    ELSE IF e.accW # 1 THEN "refused-by-witness"
    ELSE IF e.accP = -1 THEN "refused-by-participant"
    ELSE IF c.final # (c.cs = Final) THEN (IF c.final THEN "final-mark-no-final-cert" ELSE "final-cert-on-tentative")
    ELSE ""
ValidityProblem ==
    IF e.v = Empty THEN ""
    ELSE IF e.v \notin Nodes THEN "unknown-block"
    ELSE IF e.v \notin props \/ (~skip /\ BlockMsg(e.v) \notin sent) THEN "block-of-a-non-proposer"
    ELSE IF e.proposer # e.v THEN "proposer-mismatch"
    ELSE ""
AgreementProblem(n) ==
    IF \E m \in Nodes : m # n /\ Committed(m) /\ commit[m].v # e.v
    THEN LET m == CHOOSE x \in Nodes : x # n /\ Committed(x) /\ commit[x].v # e.v
         IN (IF commit[m].final THEN "final" ELSE "tent") \o "-" \o ValName(commit[m].v) \o "-vs-" \o
            (IF e.final = 1 THEN "final" ELSE "tent") \o "-" \o ValName(e.v)
    ELSE ""
Install(n) == /\ commit' = [commit EXCEPT ![n] = ObsCommit] /\ pc' = [pc EXCEPT ![n] = "done"]
              /\ UNCHANGED <<cf, props, step, best, blocks, sel, bh, ih, ba, pend, pool, due, sent, fetched, endk>>
PropertyProblems(n) ==
    /\ IF AgreementProblem(n) # "" THEN Rep("Agreement:" \o AgreementProblem(n)) ELSE TRUE
    /\ IF ValidityProblem # "" THEN Rep("Validity:" \o ValidityProblem) ELSE TRUE
    /\ IF CertProblem(n) # "" THEN Rep("CertifiedCommit:" \o CertProblem(n)) ELSE TRUE
Clean(n) == AgreementProblem(n) = "" /\ ValidityProblem = "" /\ CertProblem(n) = ""

TCommit ==
    /\ e.ev = "Commit"
    /\ LET n == e.n
           p == pend[n] IN
       /\ Install(n) /\ lastres' = lastres
       /\ PropertyProblems(n)
       /\ IF skip THEN skip' = skip
          ELSE LET why == IF ~(pc[n] \in {"commit", "getblock"}) THEN "Step:Commit:unexpected:" \o pc[n]
                          ELSE IF due[n] # <<>> THEN "Step:Commit:before-vote:" \o StepName(Head(due[n]).s)
                          ELSE IF e.h # 1 THEN "Step:Commit:height"
                          ELSE IF e.v # p.v THEN "CommitValue:" \o ValName(p.v) \o "-decided-" \o ValName(e.v) \o "-added"
                          ELSE IF (e.final = 1) # p.final THEN "FinalFlag:" \o (IF p.final THEN "final-count-ok-not-marked" ELSE "marked-without-final-count")
                          ELSE IF pc[n] = "getblock" /\ e.v \notin fetched[n] THEN "Step:Commit:block-from-nowhere"
                          ELSE IF e.cert.present = 1 /\ e.cert.s # p.cs     \* (which quorum of that step is stored is not prescribed)
                               THEN "CertifiedCommit:other-cert:" \o StepName(p.cs) \o "-due-" \o StepName(e.cert.s)
                          ELSE ""
               IN IF why = "" THEN skip' = (~Clean(n)) ELSE skip' = TRUE /\ Rep(why)

TEnd ==
    /\ e.ev = "End"
    /\ LET n == e.n IN
       IF skip THEN UNCHANGED vars /\ Ok
       ELSE IF e.kind = "noconsensus"
            THEN IF pc[n] = "done" /\ endk[n] = "noconsensus" THEN UNCHANGED vars /\ Ok
                 ELSE Fail("Termination:no-consensus:" \o pc[n] \o (IF pc[n] = "count" THEN ":" \o StepName(step[n]) ELSE ""))
       ELSE IF e.kind = "notfound"
            THEN IF pc[n] = "getblock" /\ pend[n].v \notin fetched[n]
                 THEN /\ pc' = [pc EXCEPT ![n] = "done"] /\ endk' = [endk EXCEPT ![n] = "notfound"]
                      /\ UNCHANGED <<cf, props, step, best, blocks, sel, bh, ih, ba, pend, pool, due, sent, fetched, commit>> /\ Ok
                 ELSE Fail("Termination:block-not-found:" \o pc[n])
       ELSE Fail("Driver:" \o e.kind)

TIgnored == skip /\ e.ev \in {"Start", "Proposed", "Deliver", "Skip", "SortDone", "Vote", "Count", "Fetch"} /\ UNCHANGED <<vars, skip, lastres>>

TraceNext ==
    /\ l <= Len(Trace) /\ l' = l + 1
    /\ \/ TReset
       \/ TCommit
       \/ TEnd
       \/ TIgnored
       \/ (~skip /\ (TStart \/ TProposed \/ TDeliverProposal \/ TDeliverVote \/ TSkip \/ TSortDone \/ TVote \/ TCount \/ TFetch))
TraceSpec == TraceInit /\ [][TraceNext]_tvars

TraceAccepted ==
    LET d == TLCGet("stats").diameter IN
    /\ PrintT(<<"DRIFT", TLCGet(2)>>)
    /\ IF d - 1 = Len(Trace) THEN TRUE ELSE Print(<<"TRACE_REJECTED_AT", d, Len(Trace)>>, FALSE)
    /\ \A i \in 1..Len(TLCGet(3)) : PrintT(<<"CLAUSE_BROKEN", TLCGet(3)[i][1], TLCGet(3)[i][2]>>)
    /\ TLCGet(3) = <<>>
=============================================================================
