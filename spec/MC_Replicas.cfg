CONSTANTS
  Replica = {"r1", "r2", "r3", "fs"}
  Lagging = {"fs"}
  MaxHeight = 4
  Kinds = {"line", "restart", "rollback1", "rollback2", "spec", "valins"}
  ExportOn = TRUE
INIT Init
NEXT Next
INVARIANTS Agreement InSyncOrPrefix
ACTION_CONSTRAINT Export
CHECK_DEADLOCK FALSE
