CONSTANTS
  Replica = {"r1", "r2", "r3"}
  MaxHeight = 4
  Kinds = {"line", "restart", "rollback1", "rollback2", "spec", "valins"}
  ExportOn = TRUE
INIT Init
NEXT Next
INVARIANTS Agreement
ACTION_CONSTRAINT Export
CHECK_DEADLOCK FALSE
