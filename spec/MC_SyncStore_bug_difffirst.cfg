CONSTANTS
  Diffs = {1, 2}
  MaxHeight = 4
  DropOnReset = TRUE
  DiffFirst = TRUE
INIT Init
NEXT Next
INVARIANT FollowerRoot
CHECK_DEADLOCK FALSE
