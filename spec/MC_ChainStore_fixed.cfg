CONSTANTS
  Retain = 3
  HeadBeforeCanon = FALSE
  KeepOrphanVersions = FALSE
  PruneHidesCommitError = FALSE
  MaxCrashes = 2
  Kinds = {"plain", "idupd"}
  ForkKinds = {"idupd"}
  ResetDepths = {1, 2}
  ForkLens = {1}
  FsKinds = {"plain", "idupd"}
  FsLens = {2}
  PreHeads = {2, 5}
  ExportOn = FALSE
INIT MInit
NEXT MNext
INVARIANTS TypeOK NoCrashNoProblem IdleConsistent NoBrokenClause
ACTION_CONSTRAINT Export
CHECK_DEADLOCK TRUE
