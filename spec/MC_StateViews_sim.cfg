CONSTANTS
  Slots = {1, 2, 3}
  Vals = {1, 2}
  Views = {1, 2, 3}
  MaxTop = 9
  MaxW = 4
  MaxOwn = 2
  MaxSteps = 1000
  ExportMode = "walk"
  Acts = {"CanonWrite", "CanonPrecommit", "CanonCommit", "CanonAddDiff", "CanonCommitTree", "CanonReset", "CanonResetTo", "MakeView", "ViewWrite", "ViewPrecommit", "ViewCommit", "ViewReset", "DropView", "NonceTouch"}
  CtorsOn = {"check", "overwrite", "readonly"}
  HeadOnly = FALSE
INIT MInit
NEXT MNext
INVARIANTS TypeOK HistoricalExact
PROPERTIES CanonUntouched ViewIsolated StoreSteps
ACTION_CONSTRAINT Export
CHECK_DEADLOCK FALSE
