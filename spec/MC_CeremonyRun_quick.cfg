CONSTANTS
  Layouts = {"l0", "l1", "l2", "l3", "l4", "l5"}
  MaxRestarts = 1
  MaxEvals = 2
  WithForks = TRUE
  CacheByHeight = FALSE
  ExportOn = TRUE
INIT Init
NEXT Next
INVARIANTS TypeOK PersistComplete StoreMatchesChain LinearSame NoForkSame RepairedSame Export ExportParams
CHECK_DEADLOCK FALSE
