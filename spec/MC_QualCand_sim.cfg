CONSTANTS
  SimLen = 9
  ExportOn = TRUE
INIT SimInit
NEXT SimNext
INVARIANTS InvDomain InvNoAnswerNoPoint InvScoreInRange InvPointJustified InvQualifiedCounts InvTestingFlips
ACTION_CONSTRAINT Export
CHECK_DEADLOCK FALSE
