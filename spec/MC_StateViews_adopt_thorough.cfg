CONSTANTS
  Slots = {1, 2}
  Vals = {1}
  Views = {1, 2}
  MaxTop = 4
  MaxW = 2
  MaxOwn = 1
  MaxSteps = 8
  ExportMode = "strata"
  Acts = {"CanonWrite", "CanonPrecommit", "CanonCommit", "CanonAddDiff", "CanonCommitTree", "CanonReset", "MakeView", "ViewWrite", "ViewPrecommit"}
  CtorsOn = {"check"}
  HeadOnly = TRUE
INIT MInit
NEXT MNext
VIEW view
INVARIANTS TypeOK HistoricalExact
PROPERTIES CanonUntouched ViewIsolated StoreSteps
ACTION_CONSTRAINT Export
CHECK_DEADLOCK FALSE
