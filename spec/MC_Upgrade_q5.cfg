CONSTANTS
  Nodes = {0, 1, 2}
  Bases = {10}
  Gens = {TRUE}
  VNs = {9}
  MaxT = 5
  VoteSets = {{0, 1, 2}}
  Proposers = {0}
  Crafters = {1}
  Laggers = {2}
  MaxVotes = 4
  MaxOdd = 0
  MaxBlocks = 5
  MaxRestarts = 1
  MaxPersists = 0
  MaxTicks = 3
  MaxCraft = 0
  MaxForce = 0
  MaxLag = 0
  MaxProbes = 1
  MaxReorg = 0
  MaxCrash = 0
  ExportOn = TRUE
  SampleMod = 5
INIT Init
NEXT Next
VIEW view
INVARIANTS TypeOK SameChainSameVersion SameGenesisInfo VersionByChain GenesisByChain NewGenesisExactlyAfterUpgrade
PROPERTIES VersionMonotone RestartNeutral
ACTION_CONSTRAINT Export
CHECK_DEADLOCK FALSE
