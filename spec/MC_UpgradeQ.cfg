CONSTANTS
  MaxOn = 6
INIT Init
NEXT Next
INVARIANTS Export Sane
CHECK_DEADLOCK FALSE
