------------------------------- MODULE Tracker -------------------------------
(* Push/pull announcement tracker (C20): protocol/pushpull.go addPush + manager loop,             *)
(* common/pushpull/tracker.go (RegisterPull, AddPendingPush, RemovePull, loop) and holder.go.    *)
(*                                                                                              *)
(* Implementation-shaped.  The tracker loop is split exactly where the code gives up control:    *)
(*   LoopPoll  = top of the loop: Len() check, Peek(0) WITHOUT the mutex, and, when the peeked   *)
(*               entry is already due, the rest of the iteration;                                *)
(*   LoopWake  = after time.Sleep(pullDelay - since): holder check / active-pull check /         *)
(*               move-with-new-time / remove / emit + RegisterPull (under ppMutex).              *)
(* Everything else (announcements, arrivals, time) interleaves freely between the two, which is  *)
(* what no timing-scripted test schedules.  Time is discrete (one tick = the harness's virtual   *)
(* clock unit).  The manager loop (forwarding an emitted request and registering the pull again) *)
(* is folded into the emitting step; both RegisterPull calls store the same instant.             *)
(*                                                                                              *)
(* The step functions are written over an explicit state record so that the trace specification  *)
(* can (a) predict the post-state of every observed step and (b) evaluate the property clauses   *)
(* on OBSERVED pre/post states.                                                                  *)
EXTENDS Integers, Sequences, FiniteSets, TLC

CONSTANTS Peers, Hashes,
          D,          \* pull delay in ticks
          MaxPar,     \* holder.MaxParallelPulls()
          MaxPend,    \* maxPendingPushes
          Horizon,    \* bound on time (model runs only)
          HeadCheck,  \* TRUE: the loop re-validates the peeked head under the mutex (repaired code)
          PlainBase,  \* items h >= PlainBase belong to a SECOND push type whose holder does not support pending requests (like the
                      \* transaction pool and the key pool): no RegisterPull, no AddPendingPush, at the cap an announcer is not asked.
                      \* The manager keeps ONE registry for all push types, keyed by type and hash: the item h carries the same
                      \* 128-bit hash VALUE as the item h - PlainBase of the first type - they are nevertheless different items.
          MaxHold,    \* how many announcers may be pre-empted at the cap evaluation at a time (per hash)
          CritOn      \* TRUE: the loop may be pre-empted INSIDE its critical section (at its holder.Has() call)

None == -1
Plain == {h \in Hashes : h >= PlainBase}
Tracked == Hashes \ Plain

VARIABLES now,      \* current tick
          has,      \* SUBSET Hashes: items the holder stores
          cnt,      \* [Hashes -> Nat]: manager's announcement counter (pendingPushes cache)
          active,   \* [Hashes -> Int]: time of the last pull request (None = no active pull)
          pend,     \* sequence of [p, h, t]: pending announcers sorted by t (stable)
          pc,       \* "idle" | "sleep" | "crit": where the tracker loop is ("crit" = inside its critical section, holding the
                    \*   tracker mutex, head re-validated, about to ask the holder)
          obj,      \* the entry the loop peeked (meaningful when pc = "sleep")
          out,      \* sequence of [p, h]: pull requests emitted by the LAST step (output)
          pulls,    \* [Hashes -> Seq(Int)]: times of the pull requests per hash within the last D ticks (history)
          regs,     \* [Hashes -> Seq(Int)]: <<time of the last REGISTERED pull>> per hash, <<>> if none (history)
          late,     \* [Hashes -> 0..2]: an announcing goroutine that sent its request but has not yet
                    \*   executed RegisterPull (concurrent callers of addPush): 1 = a further announcer,
                    \*   2 = the FIRST announcer of the item, which still holds the manager mutex
          capw,     \* [Hashes -> Seq([p, c])]: further announcers that have taken their ticket c (the atomic
                    \*   increment of the manager's counter) and are pre-empted before comparing it with the cap
          lab       \* label of the last step [ev, p, h] (for the property clauses and the export)

vars == <<now, has, cnt, active, pend, pc, obj, out, pulls, regs, late, capw, lab>>

State == [now |-> now, has |-> has, cnt |-> cnt, active |-> active, pend |-> pend, pc |-> pc, obj |-> obj,
          out |-> out, pulls |-> pulls, regs |-> regs, late |-> late, capw |-> capw]

NoObj == [p |-> None, h |-> None, t |-> None]

InitState == [now |-> 0, has |-> {}, cnt |-> [h \in Hashes |-> 0], active |-> [h \in Hashes |-> None],
              pend |-> <<>>, pc |-> "idle", obj |-> NoObj, out |-> <<>>, pulls |-> [h \in Hashes |-> <<>>],
              regs |-> [h \in Hashes |-> <<>>], late |-> [h \in Hashes |-> 0], capw |-> [h \in Hashes |-> <<>>]]

---------------------------------------------------------------------------
(* sortedPendingPushes.Add: insert before the first entry whose time is strictly later *)
InsertSorted(list, e) ==
    LET later == {i \in 1..Len(list) : list[i].t > e.t}
        i == IF later = {} THEN Len(list) + 1 ELSE CHOOSE x \in later : \A y \in later : x <= y
    IN SubSeq(list, 1, i - 1) \o <<e>> \o SubSeq(list, i, Len(list))

RemoveAt(list, i) == SubSeq(list, 1, i - 1) \o SubSeq(list, i + 1, Len(list))

\* a pull request goes out to peer p for hash h now; RegisterPull stores the time
Request(s, p, h) == IF h \in Plain THEN [s EXCEPT !.out = Append(@, [p |-> p, h |-> h]), !.pulls[h] = Append(@, s.now)]
                    ELSE [s EXCEPT !.out = Append(@, [p |-> p, h |-> h]),
                                   !.active[h] = s.now,
                                   !.pulls[h] = Append(@, s.now),
                                   !.regs[h] = <<s.now>>]

\* the request goes out but the calling goroutine is pre-empted before RegisterPull
RequestUnregistered(s, p, h) == [s EXCEPT !.out = Append(@, [p |-> p, h |-> h]),
                                          !.pulls[h] = Append(@, s.now),
                                          !.late[h] = IF s.cnt[h] = 1 THEN 2 ELSE 1]

(* the part of addPush after the atomic increment returned ticket c *)
Decide(s1, p, h, c) ==
    IF c >= MaxPar THEN
         \* AddPendingPush: stored only while an active pull exists, stamped with ITS time
         IF h \in Plain \/ h \in s1.has \/ Len(s1.pend) > MaxPend \/ s1.active[h] = None THEN s1
         ELSE [s1 EXCEPT !.pend = InsertSorted(@, [p |-> p, h |-> h, t |-> s1.active[h]])]
    ELSE Request(s1, p, h)

(* manager.addPush *)
DoAnnounce(s0, p, h) ==
    LET s == [s0 EXCEPT !.out = <<>>] IN
    IF h \in s.has THEN s                                   \* known item: ignored
    ELSE IF s.cnt[h] = 0 THEN Request([s EXCEPT !.cnt[h] = 1], p, h)     \* first announcer: immediately
    ELSE Decide([s EXCEPT !.cnt[h] = s.cnt[h] + 1], p, h, s.cnt[h] + 1)

(* addPush by a goroutine that is pre-empted right after the atomic increment (its ticket), before *)
(* the comparison with holder.MaxParallelPulls(); other announcers run in between                 *)
DoAnnounceHold(s0, p, h) ==
    LET s == [s0 EXCEPT !.out = <<>>] IN
    IF h \in s.has \/ s.cnt[h] = 0 THEN DoAnnounce(s0, p, h)
    ELSE [s EXCEPT !.cnt[h] = @ + 1, !.capw[h] = Append(@, [p |-> p, c |-> s.cnt[h] + 1])]

WaiterIdx(s, p, h) == CHOOSE i \in 1..Len(s.capw[h]) : s.capw[h][i].p = p
DoAnnounceResume(s0, p, h) ==
    LET s == [s0 EXCEPT !.out = <<>>]
        i == WaiterIdx(s, p, h)
    IN Decide([s EXCEPT !.capw[h] = RemoveAt(@, i)], p, h, s.capw[h][i].c)

(* manager.addPush by a goroutine that is pre-empted between makeRequest and RegisterPull; only *)
(* differs from DoAnnounce on the immediate-request paths                                        *)
DoAnnounceSplit(s0, p, h) ==
    LET s == [s0 EXCEPT !.out = <<>>] IN
    IF h \in s.has THEN s
    ELSE IF s.cnt[h] = 0 THEN RequestUnregistered([s EXCEPT !.cnt[h] = 1], p, h)
    ELSE IF s.cnt[h] + 1 >= MaxPar THEN DoAnnounce(s0, p, h)
    ELSE RequestUnregistered([s EXCEPT !.cnt[h] = s.cnt[h] + 1], p, h)

(* the pre-empted goroutine resumes: RegisterPull stores the CURRENT time *)
DoRegisterLate(s0, h) == [s0 EXCEPT !.out = <<>>, !.active[h] = s0.now, !.regs[h] = <<s0.now>>, !.late[h] = 0]

(* holder.Add -> RemovePull *)
DoArrive(s0, h) == [s0 EXCEPT !.out = <<>>, !.has = @ \cup {h}, !.active[h] = None]

\* (the request history only needs the window the ParallelCap clause looks at: older entries are pruned)
Recent(ts, t) == SelectSeq(ts, LAMBDA x : t - x < D)
DoTick(s0) == [s0 EXCEPT !.out = <<>>, !.now = @ + 1, !.pulls = [h \in Hashes |-> Recent(s0.pulls[h], s0.now + 1)]]

(* the part of a loop iteration after the (possible) sleep: under the tracker mutex the head is re-validated         *)
(* (FinishHead), then the holder is asked and the entry is dropped, re-queued or requested (FinishTail).  Goroutines   *)
(* that do not take the tracker mutex - item arrival (RemovePull), RegisterPull of immediate requests - can run       *)
(* between the two; AddPendingPush cannot.                                                                            *)
FinishHead(s, o) ==
    LET idle == [s EXCEPT !.pc = "idle", !.obj = NoObj] IN
    IF HeadCheck /\ (s.pend = <<>> \/ Head(s.pend) # o) THEN idle      \* head changed while sleeping: start over
    ELSE IF s.pend = <<>> THEN idle       \* (unrepaired code would panic on an empty list; not reachable: only the loop removes)
    ELSE [s EXCEPT !.pc = "crit", !.obj = o]
FinishTail(s, o) ==
    LET idle == [s EXCEPT !.pc = "idle", !.obj = NoObj] IN
    IF s.pend = <<>> THEN idle
    ELSE IF o.h \in s.has THEN [idle EXCEPT !.pend = RemoveAt(@, 1)]
    ELSE IF s.active[o.h] = None THEN [idle EXCEPT !.pend = RemoveAt(@, 1)]
    ELSE IF s.active[o.h] > o.t THEN
         \* a newer pull is in flight: re-queue index 0 with the newer time (MoveWithNewTime(0, t))
         [idle EXCEPT !.pend = InsertSorted(RemoveAt(s.pend, 1), [Head(s.pend) EXCEPT !.t = s.active[o.h]])]
    ELSE Request([idle EXCEPT !.pend = RemoveAt(@, 1)], o.p, o.h)   \* emits the PEEKED request, removes INDEX 0
Finish(s, o) == LET x == FinishHead(s, o) IN IF x.pc = "crit" THEN FinishTail(x, o) ELSE x

(* top of the loop *)
DoLoopPoll(s0) ==
    LET s == [s0 EXCEPT !.out = <<>>] IN
    IF s.pend = <<>> THEN s
    ELSE LET o == Head(s.pend) IN
         IF s.now - o.t < D THEN [s EXCEPT !.pc = "sleep", !.obj = o]
         ELSE Finish(s, o)

DoLoopWake(s0) == Finish([s0 EXCEPT !.out = <<>>], s0.obj)

(* the same two steps ending inside the critical section, and the step that leaves it *)
DoLoopPollHold(s0) ==
    LET s == [s0 EXCEPT !.out = <<>>] IN
    IF s.pend = <<>> THEN s
    ELSE LET o == Head(s.pend) IN
         IF s.now - o.t < D THEN [s EXCEPT !.pc = "sleep", !.obj = o]
         ELSE FinishHead(s, o)
DoLoopWakeHold(s0) == FinishHead([s0 EXCEPT !.out = <<>>], s0.obj)
DoLoopCrit(s0) == FinishTail([s0 EXCEPT !.out = <<>>], s0.obj)

---------------------------------------------------------------------------
Install(s) == /\ now' = s.now /\ has' = s.has /\ cnt' = s.cnt /\ active' = s.active /\ pend' = s.pend
              /\ pc' = s.pc /\ obj' = s.obj /\ out' = s.out /\ pulls' = s.pulls /\ regs' = s.regs /\ late' = s.late
              /\ capw' = s.capw

Init == /\ now = 0 /\ has = {} /\ cnt = [h \in Hashes |-> 0] /\ active = [h \in Hashes |-> None]
         /\ pend = <<>> /\ pc = "idle" /\ obj = NoObj /\ out = <<>> /\ pulls = [h \in Hashes |-> <<>>]
         /\ regs = [h \in Hashes |-> <<>>] /\ late = [h \in Hashes |-> 0] /\ capw = [h \in Hashes |-> <<>>]
         /\ lab = [ev |-> "Init", p |-> None, h |-> None]

L(e, p, h) == lab' = [ev |-> e, p |-> p, h |-> h]

\* the first announcement of an item takes the manager mutex; it waits while a pre-empted first
\* announcer holds it
MutexFree(h) == cnt[h] = 0 => \A x \in Hashes : late[x] # 2
\* an announcement that has to queue (AddPendingPush) waits for the tracker mutex while the loop is inside its critical section
QueuesNot(h, c) == pc = "crit" => (h \in has \/ c < MaxPar)
Announce(p, h) == MutexFree(h) /\ QueuesNot(h, cnt[h] + 1) /\ Install(DoAnnounce(State, p, h)) /\ L("Announce", p, h)
AnnounceSplit(p, h) == /\ \A x \in Hashes : late[x] = 0          \* at most one pre-empted announcer at a time
                       /\ h \in Tracked /\ h \notin has /\ cnt[h] + 1 < MaxPar /\ MutexFree(h)
                       /\ Install(DoAnnounceSplit(State, p, h)) /\ L("AnnounceSplit", p, h)
AnnounceHold(p, h) == /\ h \in Tracked /\ h \notin has /\ cnt[h] >= 1 /\ Len(capw[h]) < MaxHold
                      /\ \A i \in 1..Len(capw[h]) : capw[h][i].p # p
                      /\ Install(DoAnnounceHold(State, p, h)) /\ L("AnnounceHold", p, h)
AnnounceResume(p, h) == /\ \E i \in 1..Len(capw[h]) : capw[h][i].p = p
                        /\ QueuesNot(h, capw[h][WaiterIdx(State, p, h)].c)
                        /\ Install(DoAnnounceResume(State, p, h)) /\ L("AnnounceResume", p, h)
RegisterLate(h) == late[h] > 0 /\ Install(DoRegisterLate(State, h)) /\ L("RegisterLate", None, h)
Arrive(h)      == h \notin has /\ Install(DoArrive(State, h)) /\ L("Arrive", None, h)
Tick           == now < Horizon /\ Install(DoTick(State)) /\ L("Tick", None, None)
LoopPoll       == pc = "idle" /\ Install(DoLoopPoll(State)) /\ L("LoopPoll", None, None)
LoopWake       == pc = "sleep" /\ now - obj.t >= D /\ Install(DoLoopWake(State)) /\ L("LoopWake", None, None)
LoopPollHold   == CritOn /\ pc = "idle" /\ pend # <<>> /\ now - Head(pend).t >= D
                  /\ Install(DoLoopPollHold(State)) /\ L("LoopPollHold", None, None)
LoopWakeHold   == CritOn /\ pc = "sleep" /\ now - obj.t >= D /\ Install(DoLoopWakeHold(State)) /\ L("LoopWakeHold", None, None)
LoopCrit       == pc = "crit" /\ Install(DoLoopCrit(State)) /\ L("LoopCrit", None, None)

Next == \/ \E p \in Peers, h \in Hashes : Announce(p, h)
        \/ \E p \in Peers, h \in Hashes : AnnounceSplit(p, h)
        \/ \E p \in Peers, h \in Hashes : AnnounceHold(p, h)
        \/ \E p \in Peers, h \in Hashes : AnnounceResume(p, h)
        \/ \E h \in Hashes : RegisterLate(h)
        \/ \E h \in Hashes : Arrive(h)
        \/ Tick
        \/ LoopPoll
        \/ LoopWake
        \/ LoopPollHold
        \/ LoopWakeHold
        \/ LoopCrit

Spec == Init /\ [][Next]_vars

---------------------------------------------------------------------------
(* Property clauses, over explicit pre/post states and the step label, so that they can be        *)
(* evaluated both on the model (as an action property) and on observed states of the real code.   *)
(* ev is a record [ev |-> name, p |-> peer, h |-> hash].                                          *)

Ents(list) == {<<list[i].p, list[i].h>> : i \in 1..Len(list)}
Count(list, p, h) == Cardinality({i \in 1..Len(list) : list[i].p = p /\ list[i].h = h})
Emitted(post, p, h) == \E i \in 1..Len(post.out) : post.out[i].p = p /\ post.out[i].h = h

\* never lose an announcer: an entry leaves the pending list only by being asked, because the item
\* has arrived, or because its active pull is gone
NoLoss(pre, post) ==
    \A e \in Ents(pre.pend) :
        Count(post.pend, e[1], e[2]) < Count(pre.pend, e[1], e[2]) =>
            \/ Emitted(post, e[1], e[2])
            \/ e[2] \in post.has
            \/ pre.active[e[2]] = None

\* once the item is stored no further requests for it are issued; announcements of known items are ignored
\* (an announcement that passed its holder check before the item arrived and resumes afterwards is the one
\* request the check-then-act of addPush cannot avoid: it is attributed to the announcement, not to the stored item)
NoPullAfterStored(pre, post, ev) == \A i \in 1..Len(post.out) : post.out[i].h \notin pre.has \/ ev.ev = "AnnounceResume"
KnownIgnored(pre, post, ev) ==
    (ev.ev \in {"Announce", "AnnounceSplit", "AnnounceHold"} /\ ev.h \in pre.has) => (post.out = <<>> /\ post.pend = pre.pend /\ post.active = pre.active)

\* the first announcer of an unknown item is asked immediately
FirstImmediate(pre, post, ev) ==
    (ev.ev \in {"Announce", "AnnounceSplit", "AnnounceHold"} /\ ev.h \notin pre.has /\ pre.cnt[ev.h] = 0) =>
        post.out = <<[p |-> ev.p, h |-> ev.h]>>

\* a further announcer (one that had to wait in the pending list) is asked only after the delay has
\* passed since the last pull REGISTERED for that item (a request whose RegisterPull has not executed
\* yet is invisible to the tracker; the guarantee is relative to registration)
DelayRespected(pre, post, ev) ==
    (ev.ev \in {"LoopPoll", "LoopWake", "LoopCrit"}) =>
        \A i \in 1..Len(post.out) :
            LET h == post.out[i].h IN
            pre.regs[h] # <<>> => post.now - pre.regs[h][Len(pre.regs[h])] >= D

\* at most MaxPar requests for one item within any window shorter than the delay
ParallelCap(post) ==
    \A h \in Hashes :
        LET ts == post.pulls[h] IN
        \A i \in 1..Len(ts) : Cardinality({j \in 1..Len(ts) : ts[j] <= ts[i] /\ ts[i] - ts[j] < D}) <= MaxPar

\* every request goes to a peer that announced the item
OnlyAnnouncers(pre, post, ev) ==
    \A i \in 1..Len(post.out) :
        \/ (ev.ev \in {"Announce", "AnnounceSplit", "AnnounceHold", "AnnounceResume"} /\ post.out[i] = [p |-> ev.p, h |-> ev.h])
        \/ <<post.out[i].p, post.out[i].h>> \in Ents(pre.pend) \/ post.out[i] = [p |-> pre.obj.p, h |-> pre.obj.h]

Bounded(post) == Len(post.pend) <= MaxPend + 1

\* name of the first clause a step breaks ("" = none)
Broken(pre, post, ev) ==
    IF ~NoLoss(pre, post) THEN "NoLoss"
    ELSE IF ~NoPullAfterStored(pre, post, ev) THEN "NoPullAfterStored"
    ELSE IF ~KnownIgnored(pre, post, ev) THEN "KnownIgnored"
    ELSE IF ~FirstImmediate(pre, post, ev) THEN "FirstImmediate"
    ELSE IF ~DelayRespected(pre, post, ev) THEN "DelayRespected"
    ELSE IF ~ParallelCap(post) THEN "ParallelCap"
    ELSE IF ~OnlyAnnouncers(pre, post, ev) THEN "OnlyAnnouncers"
    ELSE IF ~Bounded(post) THEN "Bounded"
    ELSE ""

StepProps == [][Broken(State, State', lab') = ""]_vars

TypeOK == /\ now \in 0..Horizon /\ has \subseteq Hashes /\ pc \in {"idle", "sleep", "crit"}
          /\ \A i \in 1..Len(pend) : pend[i].p \in Peers /\ pend[i].h \in Hashes
          /\ \A i \in 1..(Len(pend) - 1) : pend[i].t <= pend[i + 1].t      \* the list stays sorted

(* liveness: an item that is not stored and has a pending announcer is eventually requested from it *)
(* or arrives (weak fairness on the loop and on time).                                           *)
Fair == WF_vars(LoopPoll) /\ WF_vars(LoopWake) /\ WF_vars(Tick)
=============================================================================
