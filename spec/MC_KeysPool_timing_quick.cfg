CONSTANTS
  NN = 2
  Authors = {1, 2}
  ForgeFor = {1}
  FClasses = {1}
  MaxPos = 6
  MaxLag = 1
  MaxDlv = 1
  MaxRst = 1
  MaxSyn = 0
  MaxBatch = 0
  Acts = {"timer", "delayed"}
  SyncCap = 1
  ExportOn = TRUE
  SampleMod = 40
  WalkEvery = 10
INIT Init
NEXT Next
VIEW view
INVARIANTS TypeOK Admission HonestAgreement OrderIndependent FirstWins ClearedAtEpoch OwnIsOwn PublishedBySession NoEarlyReveal PkgAfterLottery
PROPERTY OnePerAuthorEpoch
ACTION_CONSTRAINT Export
CHECK_DEADLOCK FALSE
