CONSTANTS
  NS = 2
  MaxNonce = 2
  MaxEpoch = 0
  NK = 3
  EL = 2
  PL = 1
  QS = 0
  ES = 0
  CB = 1
  RIC = FALSE
  GasCap = 2
  InitEpochs = {0}
  InitPers = {3}
  ForeignMax = 0
  ExportOn = TRUE
  MaxOps = 4
  SampleMod = 40
  ImportantMod = 1
INIT MInit
NEXT MNext
VIEW view
INVARIANTS TypeOK
PROPERTIES Refines
ACTION_CONSTRAINT Export
CHECK_DEADLOCK FALSE
