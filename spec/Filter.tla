-------------------------------- MODULE Filter --------------------------------
(* The proposer's transaction filter (growth of C02): blockchain.filterTxs walks through what the    *)
(* pool offers on ONE check state: per transaction  validation (ValidateTx, in-block mode) ->          *)
(* application (applyTxOnState) -> included, and a transaction that fails either step is SKIPPED       *)
(* while the loop goes on with the same check state.  The validating path (processTxs) sees only the   *)
(* included transactions.  C02 therefore needs                                                         *)
(*                                                                                                    *)
(*   FilterLeavesNoTrace:  the check state after the loop = the start state with exactly the included  *)
(*                         transactions applied,                                                       *)
(*                                                                                                    *)
(* i.e. an attempted-and-skipped transaction leaves nothing behind.  Whether it does depends on WHERE   *)
(* it fails and on the situation of its sender, so the model enumerates offers by                      *)
(*   - the cause of the first refusal: an identity conflict with an earlier transaction of the block   *)
(*     by ANOTHER sender (two invitations of one address, an invitee terminated by its inviter), by    *)
(*     the SAME sender (self-termination followed by an identity transaction), lack of funds behind a   *)
(*     big spender;                                                                                    *)
(*   - the number of follow-up transactions queued behind the refused one (they pass validation and    *)
(*     fail at application: their nonce is no longer the next one);                                    *)
(*   - the sender's account: used in the current epoch, last used in an older epoch (its nonce          *)
(*     sequence restarts with its first applied transaction), never used;                              *)
(*   - the chain's epoch (0 / later).                                                                  *)
(* Bug = "rollover" is the transcription of a filter whose application step moves the account to the   *)
(* current epoch BEFORE its nonce check (specification self-test: FilterLeavesNoTrace must fail).       *)
EXTENDS Integers, Sequences, FiniteSets, TLC

CONSTANTS MaxFollow, Bug

Senders == {"a", "b"}
Causes == {"none", "double-invite", "killed-invitee", "self-kill", "overspend"}
Accts == {"current", "stale", "fresh"}

\* abstract transactions: [s: sender, n: nonce, k: kind]
\*   send | sendbig (leaves too little for a sendover) | sendover | invite (of the one address X) | killinv (b terminates its
\*   invitee a) | idtx (needs a live identity) | kill (self-termination)
VARIABLES case,    \* [epoch, acct, cause, follow]
          offer,   \* the pool's offer (sequence of transactions)
          i,       \* position of the loop
          st,      \* check state: [acct : Senders -> [e, n], invited, killed, spent]
          st0,     \* state at the start of the loop
          incl     \* included transactions so far
vars == <<case, offer, i, st, st0, incl>>

Cur(c) == IF c.epoch = "e0" THEN 0 ELSE 1
AcctOf(c) == CASE c.acct = "current" -> [e |-> Cur(c), n |-> 2]
               [] c.acct = "stale" -> [e |-> 0, n |-> 5]
               [] OTHER -> [e |-> 0, n |-> 0]
Base(s, c, sender) == IF s.acct[sender].e = Cur(c) THEN s.acct[sender].n ELSE 0

RECURSIVE Follow(_, _, _)
Follow(sender, n, k) == IF k = 0 THEN <<>> ELSE <<[s |-> sender, n |-> n, k |-> "send"]>> \o Follow(sender, n + 1, k - 1)

\* the offer of a case: the victim "a" (account as the case says), its partner "b" (always a current account)
OfferOf(c) ==
    LET an == Base([acct |-> [x \in Senders |-> AcctOf(c)]], c, "a") + 1
        bn == 3 IN
    CASE c.cause = "none"           -> <<[s |-> "a", n |-> an, k |-> "send"]>> \o Follow("a", an + 1, c.follow)
      [] c.cause = "double-invite"  -> <<[s |-> "b", n |-> bn, k |-> "invite"], [s |-> "a", n |-> an, k |-> "invite"]>> \o Follow("a", an + 1, c.follow)
      [] c.cause = "killed-invitee" -> <<[s |-> "b", n |-> bn, k |-> "killinv"], [s |-> "a", n |-> an, k |-> "idtx"]>> \o Follow("a", an + 1, c.follow)
      [] c.cause = "self-kill"      -> <<[s |-> "a", n |-> an, k |-> "kill"], [s |-> "a", n |-> an + 1, k |-> "idtx"]>> \o Follow("a", an + 2, c.follow)
      [] c.cause = "overspend"      -> <<[s |-> "a", n |-> an, k |-> "sendbig"], [s |-> "a", n |-> an + 1, k |-> "sendover"]>> \o Follow("a", an + 2, c.follow)

Cases == {c \in [epoch : {"e0", "e1"}, acct : Accts, cause : Causes, follow : 0..MaxFollow] :
             /\ (c.epoch = "e0" => c.acct # "stale")
             /\ (c.cause = "killed-invitee" => c.acct # "stale")}      \* an invitee was created in the current epoch

Start(c) == [acct |-> [x \in Senders |-> IF x = "a" THEN AcctOf(c) ELSE [e |-> Cur(c), n |-> 2]],
             invited |-> FALSE, killed |-> {}, spent |-> {}]

\* ValidateTx in a block: nonce not used yet; kind-specific admissibility on the CHECK state
Valid(s, c, t) ==
    /\ t.n > Base(s, c, t.s)
    /\ CASE t.k = "invite"   -> ~s.invited /\ t.s \notin s.killed
         [] t.k = "killinv"  -> "a" \notin s.killed
         [] t.k = "idtx"     -> t.s \notin s.killed
         [] t.k = "kill"     -> t.s \notin s.killed
         [] t.k = "sendover" -> t.s \notin s.spent
         [] OTHER            -> TRUE
\* applyTxOnState: strict next nonce; effects
Applies(s, c, t) == t.n = Base(s, c, t.s) + 1
Effect(s, c, t) ==
    LET s1 == [s EXCEPT !.acct[t.s] = [e |-> Cur(c), n |-> t.n]] IN
    CASE t.k = "invite"  -> [s1 EXCEPT !.invited = TRUE]
      [] t.k = "killinv" -> [s1 EXCEPT !.killed = @ \cup {"a"}]
      [] t.k = "kill"    -> [s1 EXCEPT !.killed = @ \cup {t.s}]
      [] t.k = "sendbig" -> [s1 EXCEPT !.spent = @ \cup {t.s}]
      [] OTHER           -> s1
\* what a refused application leaves behind
Residue(s, c, t) == IF Bug = "rollover" /\ s.acct[t.s].e < Cur(c) THEN [s EXCEPT !.acct[t.s] = [e |-> Cur(c), n |-> 0]] ELSE s

Init == /\ case \in Cases /\ offer = OfferOf(case) /\ i = 1 /\ st = Start(case) /\ st0 = st /\ incl = <<>>

Step == /\ i <= Len(offer)
        /\ LET t == offer[i] IN
           IF ~Valid(st, case, t) THEN st' = st /\ incl' = incl                          \* skipped at validation
           ELSE IF ~Applies(st, case, t) THEN st' = Residue(st, case, t) /\ incl' = incl   \* skipped at application
           ELSE st' = Effect(st, case, t) /\ incl' = Append(incl, t)
        /\ i' = i + 1 /\ UNCHANGED <<case, offer, st0>>
Next == Step
Spec == Init /\ [][Next]_vars

RECURSIVE ApplyAll(_, _, _)
ApplyAll(s, c, ts) == IF ts = <<>> THEN s ELSE ApplyAll(Effect(s, c, Head(ts)), c, Tail(ts))

FilterLeavesNoTrace == i > Len(offer) => st = ApplyAll(st0, case, incl)
\* the validating path accepts the included list
IncludedValid == i > Len(offer) =>
    \A j \in 1..Len(incl) : LET s == ApplyAll(st0, case, SubSeq(incl, 1, j - 1)) IN Valid(s, case, incl[j]) /\ Applies(s, case, incl[j])
TypeOK == i \in 1..(Len(offer) + 1)
=============================================================================
