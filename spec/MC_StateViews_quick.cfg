CONSTANTS
  Slots = {1, 2}
  Vals = {1}
  Views = {1, 2}
  MaxTop = 4
  MaxW = 2
  MaxOwn = 1
  MaxSteps = 4
  ExportMode = "strata"
  Acts = {"CanonWrite", "CanonPrecommit", "CanonCommit", "CanonAddDiff", "CanonCommitTree", "CanonReset", "CanonResetTo", "MakeView", "ViewWrite", "ViewPrecommit", "ViewCommit", "ViewReset", "DropView", "NonceTouch"}
  CtorsOn = {"check", "overwrite", "readonly"}
  HeadOnly = FALSE
INIT MInit
NEXT MNext
VIEW view
INVARIANTS TypeOK HistoricalExact
PROPERTIES CanonUntouched ViewIsolated StoreSteps
ACTION_CONSTRAINT Export
CHECK_DEADLOCK FALSE
