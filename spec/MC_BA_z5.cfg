CONSTANTS
  MN = 4
  MT = 3
  MTF = 3
  MMaxSteps = 5
  ExportOn = TRUE
  SampleMod = 150
  TimeoutOdds = 1
  MByz = {1}
  Ks = {0, 1, 2}
INIT MInit
NEXT MNext
VIEW view
INVARIANTS TypeOK Agreement CertifiedCommitV Validity
PROPERTIES StepProps
ACTION_CONSTRAINT Export
CHECK_DEADLOCK FALSE
