----------------------------- MODULE MempoolAbs -----------------------------
(* C14 - mempool coherence, property-shaped.                                                     *)
(*                                                                                              *)
(* The abstract pool is what a USER of core/mempool can see: which transactions the lookups      *)
(* (GetTx by hash, GetPendingByAddress by sender) return, the list BuildBlockTransactions offers *)
(* to a proposer, the committed ledger (global epoch, validation period, per-account nonce and   *)
(* epoch) and which transactions the chain has included.  How the pool is organised inside       *)
(* (executable queue, pending set, limits, promotion) is NOT fixed here: that is Mempool.tla,    *)
(* which refines this module.                                                                    *)
(*                                                                                              *)
(* The property clauses are written over explicit pre/post state records and an event record so  *)
(* that they can be evaluated (a) as the next-state relation of this module, which Mempool.tla   *)
(* must refine (TLC checks that on the bounded model), and (b) on OBSERVED states of the real    *)
(* pool by Trace_MempoolAbs.tla (the verdict of the check).                                      *)
(*                                                                                              *)
(* A transaction is a record  [s, n, e, k, g] : sender, nonce, epoch, kind (0 = regular,         *)
(* > 0 = a ceremony type, which the pool treats with priority), gas.  Transactions are referred  *)
(* to by an id; `u` maps ids to records (a function or a sequence).                              *)
(*                                                                                              *)
(* Abstract state  a = [ep, per, acc, sync, pool, any, incl]                                     *)
(*    ep    global epoch                       per   validation period 0 none, 1 flip lottery,   *)
(*    acc   acc[s] = <<nonce, epoch>> of the         2 short session, 3 long session,            *)
(*          committed account of sender s            4 after long session                        *)
(*    sync  the node is catching up (block notifications to the pool are suspended)              *)
(*    pool  ids retrievable through BOTH lookups   any   ids returned by AT LEAST ONE lookup      *)
(*    incl  ids included in blocks of the chain so far                                           *)
(* Event  ev = [ev, tx, res, txs, cand, inv, cap]                                                *)
(*    ev    "Add" | "Block" | "Build" | "StartSync" | "StopSync" | "Reset"                       *)
(*    tx    id submitted (Add)               res   "ok" (nil returned) | "err"                   *)
(*    txs   ids of the block applied (Block), of the head block the pool is reset to (StopSync)  *)
(*    cand  the list BuildBlockTransactions returned (Build)                                     *)
(*    inv   ids that the ledger's transaction validation rejects on the post state               *)
(*    cap   block gas cap                                                                        *)
EXTENDS Integers, Sequences, FiniteSets, TLC

SeqToSet(q) == {q[i] : i \in 1..Len(q)}

(* the nonce the committed state continues from: the account nonce, or 0 when the account's epoch is older *)
Base(a, s) == IF a.acc[s][2] < a.ep THEN 0 ELSE a.acc[s][1]

(* a transaction the committed state has left behind: past epoch, or consumed nonce in the current epoch *)
Stale(u, a, i) == \/ u[i].e < a.ep
                  \/ (u[i].e = a.ep /\ a.acc[u[i].s][2] = a.ep /\ u[i].n <= a.acc[u[i].s][1])

(* outside the validation sessions (the pool prunes in the none and flip-lottery periods) *)
OutsideSessions(a) == a.per \in {0, 1}

RECURSIVE SumGas(_, _)
SumGas(u, q) == IF q = <<>> THEN 0 ELSE u[Head(q)].g + SumGas(u, Tail(q))

-----------------------------------------------------------------------------
(* Candidate: the offered list has no duplicates, only transactions of the current epoch, per    *)
(* sender consecutive nonces continuing from the committed state, total gas within the cap.      *)
NoDup(q) == \A i, j \in 1..Len(q) : i # j => q[i] # q[j]
Continuing(u, a, q) ==
    \A i \in 1..Len(q) :
        LET t == u[q[i]]
            before == Cardinality({j \in 1..(i - 1) : u[q[j]].s = t.s})
        IN t.e = a.ep /\ t.n = Base(a, t.s) + before + 1
Candidate(u, post, ev) ==
    ev.ev = "Build" => /\ NoDup(ev.cand)
                       /\ Continuing(u, post, ev.cand)
                       /\ SumGas(u, ev.cand) <= ev.cap

(* Retained: a transaction leaves the pool only because it was included, belongs to a past       *)
(* epoch, is rejected by the ledger's validation on the new state, or follows (same sender,      *)
(* same epoch, higher nonce) a transaction that is.  A submission answered with success while    *)
(* the node is not catching up is retrievable.                                                   *)
Excused(u, pre, post, ev, i) ==
    \/ i \in post.incl
    \/ u[i].e < post.ep
    \* (a transaction of a LATER epoch is parked: the ledger's validation refuses it for its epoch as long as it waits, which
    \* is not "made invalid" - it leaves only by the other excuses)
    \/ (i \in ev.inv /\ u[i].e <= post.ep)
    \* ... or follows a transaction that can never be applied any more for another reason than a consumed nonce (a
    \* predecessor whose nonce was merely consumed - by a competing transaction in the block - leaves its successors
    \* perfectly valid: they stay)
    \/ \E j \in pre.any : /\ u[j].s = u[i].s /\ u[j].e = u[i].e /\ u[j].n <= u[i].n
                           /\ j \in ev.inv /\ ~Stale(u, post, j) /\ u[j].e <= post.ep
Retained(u, pre, post, ev) == \A i \in pre.pool : i \notin post.pool => Excused(u, pre, post, ev, i)
Accepted(pre, post, ev) == (ev.ev = "Add" /\ ev.res = "ok" /\ ~pre.sync) => ev.tx \in post.pool

(* BlockCleared: after a block notification (a block applied while not catching up; the head     *)
(* block handed over when catching up ends) none of that block's transactions is returned by     *)
(* any lookup.                                                                                   *)
BlockCleared(pre, post, ev) ==
    ((ev.ev = "Block" /\ ~pre.sync) \/ ev.ev = "StopSync") => SeqToSet(ev.txs) \cap post.any = {}

(* NoStale: outside the validation sessions, and while the pool is being notified of blocks, no  *)
(* transaction with a consumed nonce or a past epoch is returned by any lookup.                  *)
NoStale(u, post) == (~post.sync /\ OutsideSessions(post)) => \A i \in post.any : ~Stale(u, post, i)

(* sanity of the bookkeeping: what both lookups return is returned by at least one *)
WellFormed(post) == post.pool \subseteq post.any

(* name of the first clause that a step breaks ("" = none) *)
Broken(u, pre, post, ev) ==
    IF ev.ev = "Reset" THEN ""
    ELSE IF ~WellFormed(post) THEN "WellFormed"
    ELSE IF ~Candidate(u, post, ev) THEN "Candidate"
    ELSE IF ~Accepted(pre, post, ev) THEN "Accepted"
    ELSE IF ~Retained(u, pre, post, ev) THEN "Retained"
    ELSE IF ~BlockCleared(pre, post, ev) THEN "BlockCleared"
    ELSE IF ~NoStale(u, post) THEN "NoStale"
    ELSE ""

-----------------------------------------------------------------------------
(* The module as a specification: any step that breaks no clause is allowed. *)
VARIABLES au,    \* the universe of transactions (id -> record)
          abs,   \* the abstract state
          alab   \* the event of the last step

avars == <<au, abs, alab>>

AbsInit == abs.pool = {} /\ abs.any = {} /\ abs.incl = {} /\ ~abs.sync
AbsNext == Broken(au', abs, abs', alab') = ""
AbsSpec == AbsInit /\ [][AbsNext]_avars
=============================================================================
