--------------------------- MODULE Trace_OverlayDb ---------------------------
(* Trace validation for C13 (copy-on-write store): every recorded execution of the real          *)
(* BackedMemDb must be a behaviour of OverlayDb, and every recorded observation must equal what  *)
(* an ordinary store pre-loaded with the base content (`ref`) would return.                      *)
EXTENDS OverlayDb, Json, IOUtils

Trace == ndJsonDeserialize(IOEnv.TRACE_FILE)

VARIABLE l
tvars == <<vars, l>>

IsEvent(e) == l <= Len(Trace) /\ Trace[l].ev = e /\ l' = l + 1

ToStore(pairs) == [k \in Keys |-> IF \E i \in 1..Len(pairs) : pairs[i][1] = k
                                  THEN (CHOOSE i \in 1..Len(pairs) : pairs[i][1] = k) \* index
                                  ELSE 0]
BaseOf(pairs) == [k \in Keys |-> IF \E i \in 1..Len(pairs) : pairs[i][1] = k
                                 THEN pairs[CHOOSE i \in 1..Len(pairs) : pairs[i][1] = k][2]
                                 ELSE Nil]

TraceInit == /\ l = 1
             /\ base = [k \in Keys |-> Nil] /\ base0 = base /\ ref = base
             /\ inner = [k \in Keys |-> Nil] /\ touched = {} /\ hist = <<>> /\ bopen = FALSE /\ bops = <<>>

TReset == /\ IsEvent("Reset")
          /\ base' = BaseOf(Trace[l].base) /\ base0' = base' /\ ref' = base'
          /\ inner' = [k \in Keys |-> Nil] /\ touched' = {} /\ hist' = <<>> /\ bopen' = FALSE /\ bops' = <<>>

TSet == IsEvent("Set") /\ Set(Trace[l].k, Trace[l].v)
TDelete == IsEvent("Delete") /\ Delete(Trace[l].k)
TBatch == IsEvent("Batch") /\ Batch(Trace[l].ops)
TBOpen == IsEvent("BOpen") /\ BOpen
TBSet == IsEvent("BSet") /\ BQueue([op |-> "set", k |-> Trace[l].k, v |-> Trace[l].v])
TBDel == IsEvent("BDel") /\ BQueue([op |-> "del", k |-> Trace[l].k, v |-> Nil])
TBWrite == IsEvent("BWrite") /\ BWrite
TBDiscard == IsEvent("BDiscard") /\ BDiscard

(* an observation is explained iff it is what the reference store returns *)
ObsOk(o) == /\ \A i \in 1..Len(o.get) : o.get[i][2] = ref[o.get[i][1]]
            /\ \A i \in 1..Len(o.has) : (o.has[i][2] = 1) = (ref[o.has[i][1]] # Nil)
            /\ \A i \in 1..Len(o.iter) :
                   LET q == o.iter[i] IN q.out = RefIter(q.s, q.e, q.r)
            /\ o.baseSame = TRUE

TObs == /\ IsEvent("Obs")
        /\ ObsOk(Trace[l])
        /\ UNCHANGED vars

TraceNext == TReset \/ TSet \/ TDelete \/ TBatch \/ TObs \/ TBOpen \/ TBSet \/ TBDel \/ TBWrite \/ TBDiscard
TraceSpec == TraceInit /\ [][TraceNext]_tvars

TraceAccepted ==
    LET d == TLCGet("stats").diameter IN
    IF d - 1 = Len(Trace) THEN TRUE
    ELSE Print(<<"TRACE_REJECTED_AT", d, Len(Trace)>>, FALSE)
=============================================================================
