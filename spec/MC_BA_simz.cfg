CONSTANTS
  MN = 4
  MT = 3
  MTF = 3
  MMaxSteps = 7
  ExportOn = TRUE
  SampleMod = 1
  TimeoutOdds = 5
  MByz = {1}
  Ks = {0, 1, 2, 3}
INIT MInit
NEXT SNext
INVARIANTS TypeOK Agreement CertifiedCommit Validity EmptyOnTimeout BackedCommit OneVotePerStep
ACTION_CONSTRAINT ExportEnd
CHECK_DEADLOCK FALSE
