----------------------------- MODULE MC_Ledger -----------------------------
(* Design-level model of the replay / nonce discipline (C06) and of the issuance bound (C04) on   *)
(* an abstract ledger: two senders, nonces 1..MaxNonce, epochs 0..MaxEpoch, unit amounts.        *)
(* Blocks include transactions under the rule the code enforces (strict next nonce within the    *)
(* account's epoch, transaction epoch = global epoch), epochs change, the chain is reorganised   *)
(* (rollback to an earlier block, whose transactions become includable again exactly once).      *)
EXTENDS Integers, Sequences, FiniteSets, TLC

CONSTANTS Senders, MaxNonce, MaxEpoch, MaxBlocks, Reward

Tx == [s : Senders, n : 1..MaxNonce, e : 0..MaxEpoch]

VARIABLES chain,    \* sequence of blocks; a block = [txs : Seq(Tx), epochEnd : BOOLEAN, pre : state before it]
          st        \* [nonce : [Senders -> Nat], aepoch : [Senders -> Nat], epoch : Nat, total : Nat]
vars == <<chain, st>>

Init == /\ chain = <<>>
        /\ st = [nonce |-> [s \in Senders |-> 0], aepoch |-> [s \in Senders |-> 0], epoch |-> 0, total |-> 10]

Base(x, s) == IF x.aepoch[s] = x.epoch THEN x.nonce[s] ELSE 0
Valid(x, t) == t.e = x.epoch /\ t.n = Base(x, t.s) + 1
Apply(x, t) == [x EXCEPT !.nonce[t.s] = t.n, !.aepoch[t.s] = t.e]     \* fees are burnt: total never grows by a tx

RECURSIVE ApplyAll(_, _)
ApplyAll(x, txs) == IF txs = <<>> THEN x ELSE ApplyAll(Apply(x, Head(txs)), Tail(txs))
RECURSIVE AllValid(_, _)
AllValid(x, txs) == IF txs = <<>> THEN TRUE ELSE (Valid(x, Head(txs)) /\ AllValid(Apply(x, Head(txs)), Tail(txs)))

TxSeqs == {<<>>} \cup {<<t>> : t \in Tx} \cup {<<t, u>> : t \in Tx, u \in Tx}

\* a proposed block: any valid sequence of <= 2 txs; mints at most the reward; may finish the epoch
Block(txs, epochEnd) ==
    /\ Len(chain) < MaxBlocks
    /\ AllValid(st, txs)
    /\ (epochEnd => st.epoch < MaxEpoch)
    /\ LET x == ApplyAll(st, txs)
           y == [x EXCEPT !.total = @ + Reward + (IF epochEnd THEN Reward * (Len(chain) + 1) ELSE 0),
                          !.epoch = IF epochEnd THEN @ + 1 ELSE @] IN
       /\ chain' = Append(chain, [txs |-> txs, epochEnd |-> epochEnd, pre |-> st])
       /\ st' = y

Reorg(k) == /\ k \in 1..Len(chain)
            /\ st' = chain[Len(chain) - k + 1].pre
            /\ chain' = SubSeq(chain, 1, Len(chain) - k)

Next == \/ \E txs \in TxSeqs, ee \in BOOLEAN : Block(txs, ee)
        \/ \E k \in 1..2 : Reorg(k)

AllTxs == [i \in 1..Len(chain) |-> chain[i].txs]
RECURSIVE Flat(_)
Flat(ss) == IF ss = <<>> THEN <<>> ELSE Head(ss) \o Flat(Tail(ss))

\* C06 on the canonical chain: every signed transaction at most once; an invalid one is never includable
NoDoubleOnChain == LET f == Flat(AllTxs) IN \A i, j \in 1..Len(f) : i # j => f[i] # f[j]
\* per sender and epoch the nonces on the chain are 1, 2, 3, ... in order
ConsecutiveOnChain ==
    LET f == Flat(AllTxs) IN
    \A i \in 1..Len(f) : f[i].n = Cardinality({j \in 1..(i - 1) : f[j].s = f[i].s /\ f[j].e = f[i].e}) + 1
\* C04: issuance bound per block (action property)
IssuanceBound == [][Len(chain') > Len(chain) =>
                       st'.total - st.total <= Reward + (IF chain'[Len(chain')].epochEnd THEN Reward * Len(chain') ELSE 0)]_vars
=============================================================================
