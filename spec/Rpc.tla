-------------------------------- MODULE Rpc --------------------------------
(* API-key gate of the JSON-RPC server (rpc/server.go readRequest + handle/exec/execBatch,        *)
(* rpc/json.go parseRequest/parseBatchRequest) -- property C19.                                  *)
(*                                                                                               *)
(* A message is a single request or a batch of request *shapes* <<key class, kind>>.  The module *)
(* has two parts:                                                                                *)
(*  1. a reference server, implementation-shaped: one action per real step                       *)
(*       Read     = ReadRequestHeaders (decoding of the envelope; whole-message rejection)       *)
(*       Gate     = one iteration of the loop in Server.readRequest (key comparison, look-up,    *)
(*                  argument parsing)                                                            *)
(*       Dispatch = Server.handle for one element (callback / subscription create / cancel)      *)
(*       Reply    = codec.Write of the response(s)                                               *)
(*     with the C19 clauses as invariants over its state;                                        *)
(*  2. the property-shaped verdict `Broken(m, o)`: the set of C19 clauses that an OBSERVED        *)
(*     outcome o of a message m breaks.  It is permissive wherever the property is silent (which *)
(*     error code an authorised bad request gets, which of two duplicated "key" fields counts,   *)
(*     whether an undecodable message is refused as a whole or element by element).              *)
(* Trace_Rpc evaluates `Broken` on every message the real server answered.                       *)
EXTENDS Integers, Sequences, FiniteSets, TLC

CONSTANTS KeyClasses,      \* key shapes used by the bounded model (subset of AllKeyClasses)
          Kinds,           \* request kinds used by the bounded model (subset of AllKinds)
          InvalidKeyCode,  \* error code of the invalid-key error (rpc/errors.go: -32800)
          DupLast          \* reference server: of a duplicated "key" member the last one counts (encoding/json)

(* key shapes.  "K" is the configured key.                                                        *)
(*   right    "key":K                 wrong   another string of the same length                   *)
(*   missing  no key member           null    "key":null           empty  "key":""                *)
(*   prefix   proper prefix of K      longer  K plus a suffix      casevar K with letter case changed *)
(*   padded   K with leading/trailing white space                                               *)
(*   num bool obj arr                 a key member that is not a JSON string                      *)
(*   dupRL / dupWL                    two key members: wrong then right / right then wrong        *)
AllKeyClasses == {"right", "wrong", "missing", "null", "empty", "prefix", "longer", "casevar", "padded",
                  "num", "bool", "obj", "arr", "dupRL", "dupWL"}
(* kinds (the probe service of the driver is registered under the namespace "dna").               *)
(*   call        dna_echo [tag]                   (counts an invocation)                          *)
(*   meta        rpc_modules                      (built-in service, registered by NewServer)     *)
(*   badparams   dna_echo [tag, 7]                unknown    dna_nosuch (unknown method)           *)
(*   unknownSvc  nosuch_echo [tag]                (unknown service)                               *)
(*   malformed   method name without exactly one separator                                       *)
(*   sub         dna_subscribe ["events", tag]    (creates a subscription on a pub-sub transport) *)
(*   subUnknown  dna_subscribe ["nosuch", tag]    subBare    dna_subscribe without params          *)
(*   unsub       dna_unsubscribe [id of a live subscription of this connection]                   *)
(*   unsubBad    dna_unsubscribe []               notif      a call without "id"                   *)
AllKinds == {"call", "meta", "badparams", "unknown", "unknownSvc", "malformed", "sub", "subUnknown", "subBare",
             "unsub", "unsubBad", "notif"}

\* rpc/errors.go invalidApiKeyError.ErrorCode; the cfg files substitute it for InvalidKeyCode (they cannot hold negative numbers)
InvalidKeyCodeOfErrorsGo == -32800

ASSUME KeyClasses \subseteq AllKeyClasses /\ Kinds \subseteq AllKinds /\ DupLast \in BOOLEAN

KeyOf(e)  == e[1]
KindOf(e) == e[2]

(* ------------------------------------------------------------------------------------------- *)
(* what an element carries                                                                      *)
Decodable(k) == k \notin {"num", "bool", "obj", "arr"}      \* the envelope decodes into jsonRequest
Carried(k) ==                                               \* string values of the key member(s), in order
    CASE k = "right"   -> <<"K">>
      [] k = "wrong"   -> <<"W">>
      [] k \in {"missing", "null", "empty"} -> <<"">>
      [] k = "prefix"  -> <<"Kpre">>
      [] k = "longer"  -> <<"Klong">>
      [] k = "casevar" -> <<"Kcase">>
      [] k = "padded"  -> <<"Kpad">>
      [] k = "dupRL"   -> <<"W", "K">>
      [] k = "dupWL"   -> <<"K", "W">>
      [] OTHER         -> <<"">>
Readings(k) == {Carried(k)[i] : i \in 1..Len(Carried(k))}   \* admissible effective keys
ModelEff(k) == IF DupLast THEN Carried(k)[Len(Carried(k))] ELSE Carried(k)[1]

Auth(ks, v) == ~ks \/ v = "K"       \* ks: a key is configured.  Exact equality, nothing else.

(* an element whose envelope the server cannot decode / accept: the real server then refuses the *)
(* whole message (json.Unmarshal of the array, checkReqId, subscribe without params)             *)
EnvBad(e) == ~Decodable(KeyOf(e)) \/ KindOf(e) \in {"notif", "subBare"}
MsgEnvBad(m) == \E i \in 1..Len(m.el) : EnvBad(m.el[i])
IsBatch(m) == m.batch
(* "otherwise well-formed": with the right key the request would have been looked up *)
WellFormedElem(e) == Decodable(KeyOf(e)) /\ KindOf(e) \notin {"malformed", "notif", "subBare"}

(* ------------------------------------------------------------------------------------------- *)
(* outcomes: <<class, code, ran, attempted, created, cancelled>>                                *)
(*   class      "result" | "error" | "none" | "other"     code  error code (0 for a result)      *)
(*   ran        invocations of the probe method carrying this element's tag                      *)
(*   attempted  entries into the subscription method with this element's tag                     *)
(*   created    subscriptions created for this element's tag                                     *)
(*   cancelled  1 iff the subscription this element points at was cancelled                      *)
Err(c) == <<"error", c, 0, 0, 0, 0>>
NoEff(x) == x[3] = 0 /\ x[4] = 0 /\ x[5] = 0 /\ x[6] = 0

(* reference server, element level *)
GateOf(m, e) ==     \* 0 = goes on to handle(); otherwise the error code fixed by readRequest
    IF KindOf(e) = "malformed" THEN -32601                                   \* r.err from the parser
    ELSE IF ~Auth(m.ks, ModelEff(KeyOf(e))) THEN InvalidKeyCode             \* the gate
    ELSE CASE KindOf(e) \in {"unknown", "unknownSvc", "subUnknown"} -> -32601
           [] KindOf(e) \in {"badparams", "unsubBad"} -> -32602
           [] OTHER -> 0
Handle(m, e) ==
    CASE KindOf(e) = "call"  -> <<"result", 0, 1, 0, 0, 0>>
      [] KindOf(e) = "meta"  -> <<"result", 0, 0, 0, 0, 0>>
      [] KindOf(e) = "sub"   -> IF m.ps THEN <<"result", 0, 0, 1, 1, 0>> ELSE <<"error", -32000, 0, 1, 0, 0>>
      [] KindOf(e) = "unsub" -> IF m.ps THEN <<"result", 0, 0, 0, 0, 1>> ELSE Err(-32000)
      [] OTHER -> Err(-32603)
ElemOut(m, e) == IF GateOf(m, e) # 0 THEN Err(GateOf(m, e)) ELSE Handle(m, e)

(* reference server, message level: the code with which an undecodable message is refused *)
FirstBadKind(m) == LET I == {i \in 1..Len(m.el) : KindOf(m.el[i]) \in {"notif", "subBare"}}
                   IN KindOf(m.el[CHOOSE i \in I : \A j \in I : i <= j])
WholeCode(m) == IF \E i \in 1..Len(m.el) : ~Decodable(KeyOf(m.el[i])) THEN -32700
                ELSE IF FirstBadKind(m) = "notif" THEN -32700 ELSE -32600
ModelOut(m) ==
    IF MsgEnvBad(m)
    THEN [whole |-> IF IsBatch(m) THEN 1 ELSE 0, ob |-> [i \in 1..Len(m.el) |-> Err(WholeCode(m))], extra |-> 0]
    ELSE [whole |-> 0, ob |-> [i \in 1..Len(m.el) |-> ElemOut(m, m.el[i])], extra |-> 0]

(* ------------------------------------------------------------------------------------------- *)
(* the verdict (property-shaped)                                                                *)
MayAuth(m, e)   == Decodable(KeyOf(e)) /\ \E v \in Readings(KeyOf(e)) : Auth(m.ks, v)
MayUnauth(m, e) == ~Decodable(KeyOf(e)) \/ \E v \in Readings(KeyOf(e)) : ~Auth(m.ks, v)

(* a whole-message refusal of a batch is legitimate only if some element cannot be decoded *)
Waived(m, o) == o.whole = 1 /\ MsgEnvBad(m)

Served(m, e, x) ==      \* the element passed the gate and was treated as on a server without gate
    CASE KindOf(e) = "call"  -> x[1] = "result" /\ x[3] >= 1 /\ x[4] = 0 /\ x[5] = 0 /\ x[6] = 0
      [] KindOf(e) = "meta"  -> x[1] = "result" /\ NoEff(x)
      [] KindOf(e) = "sub"   -> IF m.ps THEN x[1] = "result" /\ x[3] = 0 /\ x[4] >= 1 /\ x[5] >= 1 /\ x[6] = 0
                                ELSE x[1] = "error" /\ x[2] # InvalidKeyCode /\ x[3] = 0 /\ x[5] = 0 /\ x[6] = 0
      [] KindOf(e) = "unsub" -> IF m.ps THEN x[1] = "result" /\ x[3] = 0 /\ x[4] = 0 /\ x[5] = 0 /\ x[6] = 1
                                ELSE x[1] = "error" /\ x[2] # InvalidKeyCode /\ NoEff(x)
      [] KindOf(e) = "notif" -> TRUE      \* the property does not say what a served notification looks like
      [] OTHER -> x[1] = "error" /\ x[2] # InvalidKeyCode /\ NoEff(x)

UnauthClause(m, o, e, x) ==   \* "" iff x is admissible for an element that does not carry the key
    IF ~NoEff(x) THEN "NoKeyNoRun"
    ELSE IF ~(x[1] = "error" \/ (x[1] = "none" /\ KindOf(e) = "notif")) THEN "NoKeyGetsError"
    ELSE IF WellFormedElem(e) /\ ~Waived(m, o) /\ x[2] # InvalidKeyCode THEN "WellFormedGetsInvalidKey"
    ELSE ""
AuthClause(m, o, e, x) ==     \* "" iff x is admissible for an element that carries the key
    IF Waived(m, o) \/ Served(m, e, x) THEN "" ELSE "RightKeyServed"
ElemClause(m, o, i) ==
    LET e == m.el[i]
        x == o.ob[i]
    IN IF ~MayAuth(m, e) THEN UnauthClause(m, o, e, x)
       ELSE IF ~MayUnauth(m, e) THEN AuthClause(m, o, e, x)
       ELSE IF UnauthClause(m, o, e, x) = "" \/ AuthClause(m, o, e, x) = "" THEN ""
       ELSE IF ~NoEff(x) /\ x[1] # "result" THEN "NoKeyNoRun" ELSE "DupKeyNeitherServedNorRefused"

(* broken clauses as signatures  clause/kind/keyclass/position  *)
Pos(m, i) == IF ~IsBatch(m) THEN "single" ELSE IF i = 1 THEN "first" ELSE IF i = Len(m.el) THEN "last" ELSE "middle"
Broken(m, o) ==
    IF Len(o.ob) # Len(m.el) THEN {<<"MalformedObservation", "-", "-", "-">>}
    ELSE IF ~m.ks THEN {}     \* no key configured: C19 says nothing (such messages are a control; they count as drift only)
    ELSE {<<ElemClause(m, o, i), KindOf(m.el[i]), KeyOf(m.el[i]), Pos(m, i)>> :
             i \in {j \in 1..Len(m.el) : ElemClause(m, o, j) # ""}}
         \cup (IF o.extra # 0 THEN {<<"StrayInvocation", "-", "-", "-">>} ELSE {})

(* ------------------------------------------------------------------------------------------- *)
(* the reference server as a state machine                                                      *)
VARIABLES msg,      \* the message: [el : Seq(<<key class, kind>>), batch, ks, ps : BOOLEAN]
          pc,       \* "read" | "gate" | "dispatch" | "reply" | "done"
          idx,      \* element the gate / dispatch loop is at
          gate,     \* per element: 0 or the error code fixed by readRequest
          out,      \* per element outcome
          whole     \* 1 iff the message was refused as a whole
vars == <<msg, pc, idx, gate, out, whole>>

N == Len(msg.el)

Read == /\ pc = "read"
        /\ IF MsgEnvBad(msg)
           THEN /\ whole' = (IF IsBatch(msg) THEN 1 ELSE 0)
                /\ out' = [i \in 1..N |-> Err(WholeCode(msg))]
                /\ pc' = "reply" /\ idx' = 0
           ELSE /\ whole' = 0 /\ out' = out /\ pc' = "gate" /\ idx' = 1
        /\ UNCHANGED <<msg, gate>>

Gate == /\ pc = "gate"
        /\ gate' = Append(gate, GateOf(msg, msg.el[idx]))
        /\ IF idx = N THEN pc' = "dispatch" /\ idx' = 1 ELSE pc' = pc /\ idx' = idx + 1
        /\ UNCHANGED <<msg, out, whole>>

Dispatch == /\ pc = "dispatch"
            /\ out' = Append(out, IF gate[idx] # 0 THEN Err(gate[idx]) ELSE Handle(msg, msg.el[idx]))
            /\ IF idx = N THEN pc' = "reply" /\ idx' = 0 ELSE pc' = pc /\ idx' = idx + 1
            /\ UNCHANGED <<msg, gate, whole>>

Reply == /\ pc = "reply" /\ pc' = "done" /\ UNCHANGED <<msg, idx, gate, out, whole>>

Next == Read \/ Gate \/ Dispatch \/ Reply

(* C19 on the reference server *)
ModelAuth(j) == Decodable(KeyOf(msg.el[j])) /\ Auth(msg.ks, ModelEff(KeyOf(msg.el[j])))

TypeOK == /\ pc \in {"read", "gate", "dispatch", "reply", "done"}
          /\ whole \in {0, 1} /\ idx \in 0..N
          /\ Len(gate) <= N /\ Len(out) <= N
          /\ \A j \in 1..Len(out) : out[j][1] \in {"result", "error"}

NoKeyNoRun == \A j \in 1..Len(out) : ~NoEff(out[j]) => ModelAuth(j)

WellFormedGetsInvalidKey ==
    (pc = "done" /\ whole = 0) =>
        \A j \in 1..N : (~ModelAuth(j) /\ WellFormedElem(msg.el[j])) => out[j] = Err(InvalidKeyCode)

RightKeyServed ==
    (pc = "done" /\ whole = 0) =>
        \A j \in 1..N : (ModelAuth(j) /\ ~EnvBad(msg.el[j])) => Served(msg, msg.el[j], out[j])

(* the step-wise machine computes ModelOut, and the verdict accepts it *)
StepwiseIsModelOut == pc = "done" => [whole |-> whole, ob |-> out, extra |-> 0] = ModelOut(msg)
VerdictAcceptsModel == pc = "done" => Broken(msg, ModelOut(msg)) = {}
=============================================================================
