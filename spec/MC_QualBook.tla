----------------------------- MODULE MC_QualBook -----------------------------
(* The reporters book (reporters.go: reportersToReward) as a state machine: one action per method, every reachable *)
(* state of a book over Flips x Reps, every transition exported with one path of operations that reaches it (edge   *)
(* cover), for replay on a REAL book.  Design invariant: the three indexes always describe one relation             *)
(* (BookConsistent), a reporter that did not reach Newbie or better is gone, a deleted flip is gone.                *)
EXTENDS Qualification, Json, TLC
CONSTANTS Flips, Reps, States, ExportOn

\* flipsByAuthor[address] in setValidationResult (the flips the identity authored, in the order of the flip list)
AuthorFlips == {<<>>, <<0>>, <<1, 0>>} \cup (IF 2 \in Flips THEN {<<2>>} ELSE {})

VARIABLES book, hist
vars == <<book, hist>>
view == book

NewbieOrBetter(st) == st \in {3, 7, 8}        \* state.Verified, state.Newbie, state.Human

Init == book = EmptyBook /\ hist = <<>>
Add == \E f \in Flips, r \in Reps :
          /\ book' = BookAddReport(book, f, r)
          /\ hist' = Append(hist, [op |-> "add", f |-> f, r |-> r])
DelFlip == \E f \in Flips :
          /\ book' = BookDeleteFlip(book, f)
          /\ hist' = Append(hist, [op |-> "delf", f |-> f])
DelRep == \E r \in Reps :
          /\ book' = BookDeleteReporter(book, r)
          /\ hist' = Append(hist, [op |-> "delr", r |-> r])
SetRes == \E r \in Reps, st \in States, missed \in BOOLEAN, af \in AuthorFlips, any \in BOOLEAN :
          /\ book' = BookSetResult(book, r, NewbieOrBetter(st), st, missed, af, any)
          /\ hist' = Append(hist, [op |-> "res", r |-> r, st |-> st, missed |-> missed, af |-> af, any |-> any])
Next == Add \/ DelFlip \/ DelRep \/ SetRes

Export == IF ExportOn THEN PrintT(ToJson([ops |-> hist'])) ELSE TRUE

InvConsistent == BookConsistent(book)
\* what the last operation promises
InvLastOp == hist # <<>> =>
    LET o == hist[Len(hist)] IN
    /\ o.op = "delf" => ~\E p \in book.bf : p[1] = o.f
    /\ o.op = "delr" => (o.r \notin DOMAIN book.ba /\ ~\E p \in book.bf : p[2] = o.r)
    /\ (o.op = "res" /\ ~NewbieOrBetter(o.st)) => (o.r \notin DOMAIN book.ba /\ ~\E p \in book.bf : p[2] = o.r)
    /\ (o.op = "res" /\ NewbieOrBetter(o.st) /\ o.r \in DOMAIN book.ba) => book.ba[o.r] = o.st
    /\ (o.op = "res" /\ o.missed /\ ~o.any) => \A i \in 1..Len(o.af) : ~\E p \in book.bf : p[1] = o.af[i]
    /\ o.op = "add" => (<<o.f, o.r>> \in book.bf /\ o.r \in DOMAIN book.ba)
=============================================================================
