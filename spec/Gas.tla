--------------------------------- MODULE Gas ---------------------------------
(* Block gas accounting on the three paths a transaction list passes through (C02, C14):          *)
(*   PoolOffer  core/mempool/txblock_builder.go addTxsToBlock: STATIC gas only, a transaction that *)
(*              would cross the cap ends the list (it is not offered);                             *)
(*   Builder    blockchain.filterTxs (consensus >= Upgrade10): static + execution (receipt) gas;   *)
(*              the transaction that crosses the cap is still INCLUDED, then the block ends;       *)
(*   Validator  blockchain.processTxs (>= Upgrade10): the first transaction after which the total  *)
(*              is ABOVE the cap is tolerated once; a transaction after that refuses the block.    *)
(* One sender with consecutive nonces (the order is forced).  A transaction is [g, c]: static gas *)
(* g in model units and c = TRUE for a contract deployment whose execution burns R more units.    *)
(* The proposer's block is Builder(PoolOffer(txs)); C02 says the validator accepts it.            *)
(*                                                                                              *)
(* The model enumerates every list over small weights; what matters for the real code is the     *)
(* RELATION (<, =, >) of every cumulative total to the cap, so each list is exported with its     *)
(* relation pattern and the driver realises it with real transactions whose gas is               *)
(* Cap_real + (cum_model - Cap) * U at every prefix (U = the real execution gas of a deployment). *)
EXTENDS Integers, Sequences, FiniteSets, TLC

CONSTANTS Cap,        \* block gas cap in model units
          R,          \* execution gas of a contract deployment
          Weights,    \* static weights of a plain transaction
          CWeights,   \* static weights of a contract deployment (its attachment makes it bigger)
          MaxTx       \* list length bound

Tx == [g : Weights, c : {FALSE}] \cup [g : CWeights, c : {TRUE}]
Dyn(t) == t.g + (IF t.c THEN R ELSE 0)

RECURSIVE SumStatic(_), SumDyn(_)
SumStatic(s) == IF s = <<>> THEN 0 ELSE Head(s).g + SumStatic(Tail(s))
SumDyn(s) == IF s = <<>> THEN 0 ELSE Dyn(Head(s)) + SumDyn(Tail(s))

\* the mempool: longest prefix whose STATIC gas stays within the cap
RECURSIVE PoolOfferFrom(_, _)
PoolOfferFrom(s, used) == IF s = <<>> \/ used + Head(s).g > Cap THEN <<>>
                          ELSE <<Head(s)>> \o PoolOfferFrom(Tail(s), used + Head(s).g)
PoolOffer(s) == PoolOfferFrom(s, 0)

\* the proposer's filter: include, THEN test
RECURSIVE BuilderFrom(_, _)
BuilderFrom(s, used) == IF s = <<>> THEN <<>>
                        ELSE LET u == used + Dyn(Head(s)) IN
                             IF u > Cap THEN <<Head(s)>> ELSE <<Head(s)>> \o BuilderFrom(Tail(s), u)
Builder(s) == BuilderFrom(s, 0)

\* the validator: one crossing transaction is tolerated, nothing after it
RECURSIVE ValidatorFrom(_, _, _)
ValidatorFrom(s, used, reached) ==
    IF s = <<>> THEN TRUE
    ELSE LET u == used + Dyn(Head(s)) IN
         IF u > Cap THEN (IF reached THEN FALSE ELSE ValidatorFrom(Tail(s), u, TRUE))
         ELSE ValidatorFrom(Tail(s), u, reached)
Validator(s) == ValidatorFrom(s, 0, FALSE)

Block(s) == Builder(PoolOffer(s))

\* relation pattern of the cumulative totals of a list to the cap
Rel(x) == IF x < Cap THEN "<" ELSE IF x = Cap THEN "=" ELSE ">"
Pattern(s) == [i \in 1..Len(s) |-> Rel(SumDyn(SubSeq(s, 1, i)))]
StaticPattern(s) == [i \in 1..Len(s) |-> Rel(SumStatic(SubSeq(s, 1, i)))]

VARIABLE txs
Init == txs = <<>>
Next == Len(txs) < MaxTx /\ \E t \in Tx : txs' = Append(txs, t)
Spec == Init /\ [][Next]_txs

ProposedAccepted == Validator(Block(txs))
\* the block is a prefix of what the pool offered, which is a prefix of the sender's queue
BlockIsPrefix == LET b == Block(txs) IN SubSeq(txs, 1, Len(b)) = b
\* at most one transaction lies beyond the cap
AtMostOneBeyond == LET b == Block(txs) IN Len(b) > 1 => SumDyn(SubSeq(b, 1, Len(b) - 1)) <= Cap
=============================================================================
