---------------------------- MODULE Trace_Lottery ----------------------------
(* Trace validation for C16.  Each line of the trace is one real step:                           *)
(*   Evaluate : one run of the REAL GetAuthorsDistribution + GetFlipsDistribution for one shard  *)
(*              (through the export shim, or through the real calculateCeremonyCandidates on a   *)
(*              real application state), with the layout the code saw and the outputs it gave;   *)
(*   Package  : the REAL PrivateEncryptionKeyCandidates + EncryptPrivateKeysPackage +            *)
(*              getEncryptedKeyFromPackage for one author of the last evaluated shard;           *)
(*   Solve    : the REAL GetShort/LongFlipsToSolve, getPrivateKeyPackageIndex, GetFlipKeys       *)
(*              (KeysPool.GetEncryptedPrivateFlipKey) + decryption for one candidate;            *)
(*   Reset    : forget the runs seen so far (start of the next group of runs);                   *)
(*   Panic    : the repository's code panicked (no action explains it: clause "NoPanic").         *)
(* The relation of Lottery.tla is evaluated on the OBSERVED values; `bad` collects the clauses   *)
(* some observed step breaks.  The verdict is delivered by the postcondition: every broken       *)
(* clause once, with the first trace line that breaks it.  A layout that is not well formed is   *)
(* a harness error ("HarnessLayout"), not a verdict.                                             *)
EXTENDS Lottery, Json, IOUtils

Trace == ndJsonDeserialize(IOEnv.TRACE_FILE)
CoverNames == {"Evaluate", "Package", "Solve", "Reset", "eval_noflips", "eval_flips", "authors_gt7", "authors_le7", "placeholder",
               "authors_ge_quota", "authors_lt_quota", "own_flip", "repeated_recipient", "topped_up",
               "try_recipient", "try_non_recipient", "src_ceremony", "src_pure",
               "pkg_keyless_first", "pkg_keyless_middle", "pkg_keyless_last", "pkg_keyless_several",
               "pkg_keyless_empty", "pkg_keyless_malformed", "solve_keyless"}
ASSUME TLCSet(2, 0) /\ TLCSet(3, <<>>) /\ TLCSet(4, [x \in CoverNames |-> 0])

VARIABLES l, bad,
          unpub    \* authors of the last evaluated shard whose package the real key pool refused
tvars == <<lvars, l, bad, unpub>>

TraceInit == LInit /\ l = 1 /\ bad = {} /\ unpub = {}

Note(b) == /\ bad' = bad \cup b
           /\ IF b # {} THEN TLCSet(2, TLCGet(2) + 1) ELSE TRUE
           /\ \A x \in b : IF x \notin bad THEN TLCSet(3, Append(TLCGet(3), <<l, x>>)) ELSE TRUE

Cover(hits) == TLCSet(4, [x \in CoverNames |-> TLCGet(4)[x] + (IF x \in hits THEN 1 ELSE 0)])

TReset == /\ l <= Len(Trace) /\ Trace[l].ev = "Reset" /\ l' = l + 1
          /\ Forget /\ bad' = bad /\ unpub' = {} /\ Cover({"Reset"})

TEvaluate ==
    /\ l <= Len(Trace) /\ Trace[l].ev = "Evaluate" /\ l' = l + 1
    /\ LET e == Trace[l]
           b == IF ~LayoutOK(e.lay) THEN {"HarnessLayout"}
                ELSE Verdict(e.lay, e.q, e.out) \cup If(Deterministic(memo, e.lay, e.q, e.seed, e.out), "Deterministic")
                     \cup If(LayoutSeen(e.lay, e.seen), "LayoutSeen")
       IN /\ cur' = [lay |-> e.lay, q |-> e.q, seed |-> e.seed, out |-> e.out]
          /\ memo' = memo \cup {cur'}
          /\ unpub' = {}
          /\ Note(b)
          /\ Cover({"Evaluate", IF e.src = "ceremony" THEN "src_ceremony" ELSE "src_pure"}
                   \cup (IF b \cap {"HarnessLayout", "Shape"} = {} THEN EvalCover(e.lay, e.q, e.out) ELSE {}))

TPackage ==
    /\ l <= Len(Trace) /\ Trace[l].ev = "Package" /\ l' = l + 1
    /\ LET e == Trace[l]
           b == IF e.a \notin Cands(cur.lay) \/ ~Shape(cur.lay, cur.out) THEN {"HarnessPackage"}
                ELSE PackageVerdict(cur.lay, cur.out, e.a, e.has, e.recips, ToSet(e.ext), e.pub, e.size)
       IN /\ Note(b) /\ UNCHANGED lvars
          /\ unpub' = IF e.has /\ ~e.pub THEN unpub \cup {e.a} ELSE unpub
          /\ Cover({"Package"} \cup (IF b \cap {"HarnessPackage"} = {} /\ e.has THEN PackageCover(cur.lay, e.recips) ELSE {}))

TSolve ==
    /\ l <= Len(Trace) /\ Trace[l].ev = "Solve" /\ l' = l + 1
    /\ LET e == Trace[l]
           b == IF e.c \notin Cands(cur.lay) \/ ~Shape(cur.lay, cur.out) THEN {"HarnessSolve"}
                ELSE SolveVerdict(cur.lay, cur.out, e.c, e.ss, e.sl, ToSet(e.tries), unpub)
       IN /\ Note(b) /\ UNCHANGED <<lvars, unpub>>
          /\ Cover({"Solve"} \cup (IF b \cap {"HarnessSolve", "TryRange"} = {} THEN SolveCover(cur.lay, cur.out, e.c, ToSet(e.tries)) ELSE {}))

\* the repository's code panicked during a run: no action of the specification explains that
TPanic == /\ l <= Len(Trace) /\ Trace[l].ev = "Panic" /\ l' = l + 1
          /\ Note({"NoPanic"}) /\ UNCHANGED <<lvars, unpub>>

TraceNext == TReset \/ TEvaluate \/ TPackage \/ TSolve \/ TPanic
TraceSpec == TraceInit /\ [][TraceNext]_tvars

TraceAccepted ==
    LET d == TLCGet("stats").diameter IN
    /\ PrintT(<<"BROKEN_STEPS", TLCGet(2)>>)
    /\ \A x \in CoverNames : PrintT(<<"COVER", x, TLCGet(4)[x]>>)
    /\ IF d - 1 = Len(Trace) THEN TRUE ELSE Print(<<"TRACE_REJECTED_AT", d, Len(Trace)>>, FALSE)
    /\ \A i \in 1..Len(TLCGet(3)) : PrintT(<<"CLAUSE_BROKEN", TLCGet(3)[i][1], TLCGet(3)[i][2]>>)
    /\ TLCGet(3) = <<>>
=============================================================================
