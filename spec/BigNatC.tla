------------------------------- MODULE BigNatC -------------------------------
(* Exact arithmetic on natural numbers of any size inside TLC (whose integers are 32 bit).        *)
(* A number is a little-endian sequence of base-10^4 limbs without trailing zero limbs; zero is   *)
(* the empty sequence.  The drivers log every amount in this form (sim.Limbs); a negative amount  *)
(* (never legal) is logged as <<-1>>, which IsNat rejects.                                        *)
(* TLC needs a deep Java stack for the recursion: JAVA_TOOL_OPTIONS=-Xss512m.                     *)
EXTENDS Integers, Sequences

Base == 10000
Zero == <<>>

IsNat(a) == /\ \A i \in 1..Len(a) : a[i] \in 0..(Base - 1)
            /\ (Len(a) > 0 => a[Len(a)] # 0)

Hd(a) == IF a = <<>> THEN 0 ELSE a[1]
Tl(a) == IF a = <<>> THEN <<>> ELSE Tail(a)

RECURSIVE Norm(_)
Norm(a) == IF a = <<>> THEN <<>> ELSE IF a[Len(a)] = 0 THEN Norm(SubSeq(a, 1, Len(a) - 1)) ELSE a

RECURSIVE FromInt(_)
FromInt(n) == IF n <= 0 THEN <<>> ELSE <<n % Base>> \o FromInt(n \div Base)

RECURSIVE AddC(_, _, _)
AddC(a, b, c) == IF a = <<>> /\ b = <<>> THEN (IF c = 0 THEN <<>> ELSE <<c>>)
                 ELSE LET x == Hd(a) + Hd(b) + c IN <<x % Base>> \o AddC(Tl(a), Tl(b), x \div Base)
Add(a, b) == AddC(a, b, 0)

(* comparison: by length, then from the most significant limb *)
RECURSIVE LeqAt(_, _, _)
LeqAt(a, b, i) == IF i = 0 THEN TRUE
                  ELSE IF a[i] < b[i] THEN TRUE
                  ELSE IF a[i] > b[i] THEN FALSE
                  ELSE LeqAt(a, b, i - 1)
Leq(a, b) == IF Len(a) # Len(b) THEN Len(a) < Len(b) ELSE LeqAt(a, b, Len(a))
Less(a, b) == Leq(a, b) /\ a # b

(* a - b for b <= a *)
RECURSIVE SubB(_, _, _)
SubB(a, b, br) == IF a = <<>> THEN <<>>
                  ELSE LET x == Hd(a) - Hd(b) - br IN
                       IF x < 0 THEN <<x + Base>> \o SubB(Tl(a), Tl(b), 1)
                       ELSE <<x>> \o SubB(Tl(a), Tl(b), 0)
Sub(a, b) == Norm(SubB(a, b, 0))

(* a - b, or the illegal value <<-1>> when b > a or an operand is already illegal *)
Neg == <<-1>>
Monus(a, b) == IF ~IsNat(a) \/ ~IsNat(b) THEN Neg ELSE IF Leq(b, a) THEN Sub(a, b) ELSE Neg
Plus(a, b) == IF ~IsNat(a) \/ ~IsNat(b) THEN Neg ELSE Add(a, b)

RECURSIVE Sum(_)
Sum(s) == IF s = <<>> THEN <<>> ELSE Add(Head(s), Sum(Tail(s)))

(* a * k for a limb-sized k (0 <= k < Base) *)
RECURSIVE MulLimbC(_, _, _)
MulLimbC(a, k, c) == IF a = <<>> THEN (IF c = 0 THEN <<>> ELSE <<c>>)
                     ELSE LET x == Head(a) * k + c IN <<x % Base>> \o MulLimbC(Tail(a), k, x \div Base)
MulLimb(a, k) == IF k = 0 THEN <<>> ELSE MulLimbC(a, k, 0)

RECURSIVE Mul(_, _)
Mul(a, b) == IF b = <<>> \/ a = <<>> THEN <<>>
             ELSE LET rest == Mul(a, Tail(b)) IN
                  Add(MulLimb(a, Head(b)), IF rest = <<>> THEN <<>> ELSE <<0>> \o rest)
=============================================================================
