CONSTANTS
  Flips = {0, 1, 2}
  Reps = {1, 2}
  States = {3, 4, 7}
  ExportOn = TRUE
INIT Init
NEXT Next
VIEW view
INVARIANTS InvConsistent InvLastOp
ACTION_CONSTRAINT Export
CHECK_DEADLOCK FALSE
