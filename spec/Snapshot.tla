------------------------------ MODULE Snapshot ------------------------------
(* State snapshot export / import (C11b): core/state/util.go WriteTreeTo2 / ReadTreeFrom2,        *)
(* StateDB.WriteSnapshot2 / RecoverSnapshot2.                                                    *)
(*                                                                                              *)
(* Export turns a tree into an ARCHIVE: a sequence of blocks (tar entries "0", "1", ...), each a  *)
(* sequence of exported nodes.  An adversary or a bad disk applies ONE fault to the archive.     *)
(* Import = open the archive -> add the nodes to an importer -> commit -> load the version ->    *)
(* compare the root with the advertised one -> validate the tree; every failure branch clears    *)
(* the target database.  Abstractly a tree is the sequence of its nodes and the root a           *)
(* collision-free function of it; a "garbled" node is one whose bytes were altered.              *)
(*                                                                                              *)
(*   ImportAllOrNothing   after Import the target is empty, or holds exactly the source          *)
(*                        (advertised root and contents)                                         *)
(*   CleanRoundTrip       the unaltered archive is accepted                                      *)
EXTENDS Integers, Sequences, FiniteSets, TLC, Json

CONSTANTS MaxBlocks,      \* number of blocks of the archive (1..MaxBlocks)
          BlockLen,       \* nodes per block
          RootChecked     \* TRUE: the importer compares the root and validates the tree (the code as it is)

Faults == {"none", "flip-node", "flip-tar-header", "flip-padding", "drop-block", "dup-block", "swap-blocks", "truncate", "append-garbage"}

VARIABLES source,    \* sequence of node ids (the exported tree in export order)
          archive,   \* sequence of blocks; a block is a sequence of node ids; 0 = garbled node; <<-1>> = unreadable block
          fault, pos,
          target,    \* <<"untouched">> | <<"empty">> | sequence of node ids (imported tree)
          verdict    \* "pending" | "accepted" | "refused"
vars == <<source, archive, fault, pos, target, verdict>>

Bad == <<-1>>     \* an unreadable archive entry
Blocks(n) == [b \in 1..n |-> [i \in 1..BlockLen |-> (b - 1) * BlockLen + i]]
RECURSIVE Flat(_)
Flat(bs) == IF bs = <<>> THEN <<>> ELSE Head(bs) \o Flat(Tail(bs))

Init == \E n \in 1..MaxBlocks :
          /\ source = Flat(Blocks(n))
          /\ archive = Blocks(n)
          /\ fault = "pending" /\ pos = 0 /\ target = <<"untouched">> /\ verdict = "pending"

Corrupt(f, p) ==
    /\ fault = "pending" /\ f \in Faults /\ p \in 1..Len(archive)
    /\ fault' = f /\ pos' = p
    /\ archive' = CASE f = "none" -> archive
                    [] f = "flip-node" -> [archive EXCEPT ![p] = [@ EXCEPT ![1] = 0]]          \* a byte inside a node record
                    [] f = "flip-tar-header" -> [archive EXCEPT ![p] = Bad]                      \* the entry cannot be read
                    [] f = "flip-padding" -> archive                                           \* bytes nobody interprets
                    [] f = "drop-block" -> SubSeq(archive, 1, p - 1) \o SubSeq(archive, p + 1, Len(archive))
                    [] f = "dup-block" -> SubSeq(archive, 1, p) \o SubSeq(archive, p, Len(archive))
                    [] f = "swap-blocks" -> IF p < Len(archive) THEN [archive EXCEPT ![p] = archive[p + 1], ![p + 1] = archive[p]] ELSE archive
                    [] f = "truncate" -> SubSeq(archive, 1, p - 1)
                    [] f = "append-garbage" -> Append(archive, Bad)
    /\ UNCHANGED <<source, target, verdict>>

Readable == \A i \in 1..Len(archive) : archive[i] # Bad
\* the importer needs the nodes in export order; what it builds is the concatenation of the blocks it could read
Built == Flat(SelectSeq(archive, LAMBDA b : b # Bad))
\* an unreadable entry ends the reading loop silently (tar.Read error = end of archive); the root check must catch it
Import ==
    /\ fault # "pending" /\ verdict = "pending"
    /\ LET built == Flat(SubSeq(archive, 1, (CHOOSE k \in 0..Len(archive) : (\A i \in 1..k : archive[i] # Bad) /\ (k = Len(archive) \/ archive[k + 1] = Bad))))
           rootOk == built = source IN
       IF rootOk \/ ~RootChecked
       THEN verdict' = "accepted" /\ target' = built
       ELSE verdict' = "refused" /\ target' = <<"empty">>
    /\ UNCHANGED <<source, archive, fault, pos>>

Next == (\E f \in Faults, p \in 1..MaxBlocks : Corrupt(f, p)) \/ Import

ImportAllOrNothing == verdict # "pending" => (target = <<"empty">> \/ target = source)
CleanRoundTrip == (verdict # "pending" /\ fault \in {"none", "flip-padding"}) => verdict = "accepted"

\* every fault case is exported for the real importer
Export == IF fault' # "pending" /\ fault = "pending" THEN PrintT(ToJson([blocks |-> Len(archive), fault |-> fault', pos |-> pos'])) ELSE TRUE
=============================================================================
