------------------------- MODULE Trace_Qualification -------------------------
(* Trace validation for the growth module QUAL of C17.  Every line of the trace is one evaluation of the REAL     *)
(* qualification code, recorded by harness/cmd/d_qual with its input as read back from the real objects:           *)
(*   One      qualifyOneFlip on answer counts and committee numbers                                              *)
(*   Flips    qualifyFlips on a population (real qualification object filled through addAnswers with real         *)
(*            attachment payloads); FlipsV the same evaluation again / on an object filled in another arrival      *)
(*            order with later duplicate submissions / on an object restored from persist() / with the candidates  *)
(*            listed in another order                                                                            *)
(*   Cand     qualifyCandidate for one candidate and session over given flip qualifications; CandV its variants   *)
(*   BookNew  a new reporters book; Book one operation on it with the three indexes observed afterwards           *)
(* For every line the specification                                                                              *)
(*   - evaluates EVERY property clause of Qualification.tla on the OBSERVED result (a broken clause is a verdict), *)
(*   - computes the model's own result from the logged input and compares: a difference that breaks no clause is   *)
(*     counted as drift ("drift:table", "drift:flips", "drift:cand", "drift:stats", "drift:book"), not a verdict,  *)
(*   - reports a line whose input lies outside the model's domain as "Concretisation" (a fault of the driver).     *)
(* The postcondition prints each broken clause / drift kind once with its first line and, with line 0, the number  *)
(* of lines per name ("count:<name>=<n>").                                                                       *)
EXTENDS Qualification, Json, IOUtils, TLC

Trace == ndJsonDeserialize(IOEnv.TRACE_FILE)
ASSUME TLCSet(3, <<>>) /\ TLCSet(4, [c \in {} |-> 0])

VARIABLES l, bad, bfl, bcd, book
tvars == <<l, bad, bfl, bcd, book>>

SetOf(s) == {s[i] : i \in 1..Len(s)}
If(cond, name) == IF cond THEN {} ELSE {name}

Bump(f, c) == IF c \in DOMAIN f THEN [f EXCEPT ![c] = @ + 1] ELSE [x \in DOMAIN f \cup {c} |-> IF x = c THEN 1 ELSE f[x]]
RECURSIVE BumpAll(_, _)
BumpAll(f, cs) == IF cs = {} THEN f ELSE LET c == CHOOSE x \in cs : TRUE IN BumpAll(Bump(f, c), cs \ {c})
\* each name is reported once, with the first line that breaks it; every line is counted
Note(S) == /\ bad' = bad \cup S
           /\ \A x \in S \ bad : TLCSet(3, Append(TLCGet(3), <<l, x>>))
           /\ IF S # {} THEN TLCSet(4, BumpAll(TLCGet(4), S)) ELSE TRUE

TraceInit == l = 1 /\ bad = {} /\ bfl = <<>> /\ bcd = <<>> /\ book = EmptyBook

(* ---- One ------------------------------------------------------------------------------------------------------ *)
FlipObs(a) == [st |-> a[1], an |-> a[2], gr |-> a[3], gs |-> a[4]]
TOne ==
    /\ l <= Len(Trace) /\ Trace[l].ev = "One" /\ l' = l + 1
    /\ LET e == Trace[l]
           o == FlipObs(e.o)
           m == QualifyOneFlip(e.l, e.r, e.n, e.rep, e.tg, e.ap, e.rcs, e.gcs, e.u10, e.u11)
       IN IF ~OneInDomain(e) THEN Note({"Concretisation"})
          ELSE Note(If(OneGradeConsistent(e.rep, e.rcs, e.u11, o), "GradeConsistent")
                    \cup If(OneReportHonoured(e.rep, e.rcs, o), "ReportHonoured")
                    \cup If(OneAnswerBacked(e.l, e.r, e.n, o), "AnswerBacked")
                    \cup If(OneConsensusHonoured(e.l, e.r, e.n, o), "ConsensusHonoured")
                    \cup If(o = [st |-> m.st, an |-> m.an, gr |-> m.gr, gs |-> Micro(m.gsn, m.gsd)], "drift:table"))
    /\ UNCHANGED <<bfl, bcd, book>>

(* ---- Flips ---------------------------------------------------------------------------------------------------- *)
PopObs(o) == [fq |-> [x \in 1..Len(o.fq) |-> FlipObs(o.fq[x])], rw |-> [x \in 1..Len(o.rw) |-> SetOf(o.rw[x])], wr |-> o.wr]
ShapeOk(P, o) == Len(o.fq) = P.nf /\ Len(o.rw) = P.nf /\ Len(o.wr) = Len(P.cands)
TFlips ==
    /\ l <= Len(Trace) /\ Trace[l].ev = "Flips" /\ l' = l + 1
    /\ LET e == Trace[l]
           P == e.pop
           o == PopObs(e.o)
       IN IF ~PopInDomain(P) THEN Note({"Concretisation"})
          ELSE IF ~ShapeOk(P, o) THEN Note({"ResultShape"})
          ELSE LET m == QualifyFlips(P) IN
               Note(If(PopOnlyAssigned(P, o) /\ e.o.xf = 0, "OnlyAssigned")
                    \cup If(PopReportLimit(P, o), "ReportLimit")
                    \cup If(PopRewardOnlyReported(P, o), "RewardOnlyReported")
                    \cup If(PopReportersRewarded(P, o), "ReportersRewarded")
                    \cup If(PopGradeConsistent(P, o), "GradeConsistent")
                    \cup If(PopReportHonoured(P, o), "ReportHonoured")
                    \cup If(PopAnswerBacked(P, o), "AnswerBacked")
                    \cup If(PopConsensusHonoured(P, o), "ConsensusHonoured")
                    \cup If(e.o.bk = 1, "BookConsistent")
                    \cup If(/\ \A x \in 1..P.nf : o.fq[x] = [st |-> m.fq[x].st, an |-> m.fq[x].an, gr |-> m.fq[x].gr, gs |-> Micro(m.fq[x].gsn, m.fq[x].gsd)]
                            /\ o.rw = m.rw /\ o.wr = m.wr, "drift:flips"))
    /\ bfl' = Trace[l].o
    /\ UNCHANGED <<bcd, book>>

\* the result depends neither on the arrival order of the answers, on later duplicates, on a restart (restore from
\* persist), on evaluating twice, nor on the order in which the candidates are listed
TFlipsV ==
    /\ l <= Len(Trace) /\ Trace[l].ev = "FlipsV" /\ l' = l + 1
    /\ LET e == Trace[l] IN
       Note(If(e.o = bfl, IF e.var = "perm" THEN "PermutationInvariant" ELSE "Deterministic:" \o e.var))
    /\ UNCHANGED <<bfl, bcd, book>>

(* ---- Cand ----------------------------------------------------------------------------------------------------- *)
CtxOf(e) == [short |-> e.short, has |-> e.has, auth |-> IF e.short \/ (e.au = 1 /\ e.hs = 2) THEN 1 ELSE 0,
             fts |-> e.fts, ans |-> e.ans, na |-> SetOf(e.na), fq |-> e.fq]
CandObs(o) == [p2 |-> o.p2, q |-> o.q, nq |-> o.nq, noa |-> o.noa, fanil |-> o.fanil, fa |-> o.fa]
\* the statistics entries: answer, grade, index of every flip to solve, filed under the candidate
StatsOk(C, o) == o.fanil \/ (/\ Len(o.fx) = Len(C.fts)
                             /\ \A i \in 1..Len(C.fts) : o.fx[i] = <<DecA(C.ans[i][1]), DecG(C.ans[i][2]), i - 1, 1>>)
TCand ==
    /\ l <= Len(Trace) /\ Trace[l].ev = "Cand" /\ l' = l + 1
    /\ LET e == Trace[l]
           C == CtxOf(e)
           o == CandObs(e.o)
       IN IF ~CandInDomain(C) THEN Note({"skip:cand"})
          ELSE LET m == QualifyCandidate(C) IN
               Note(If(CandNoAnswerNoPoint(C, o), "NoAnswerNoPoint")
                    \cup If(CandScoreInRange(C, o) /\ e.o.pex, "ScoreInRange")
                    \cup If(CandPointJustified(C, o), "PointJustified")
                    \cup If(CandQualifiedCounts(C, o), "QualifiedCounts")
                    \cup If(CandTestingFlips(C, o), "TestingFlips")
                    \cup If(o = m, "drift:cand")
                    \cup If(StatsOk(C, e.o), "drift:stats"))
    /\ bcd' = Trace[l].o
    /\ UNCHANGED <<bfl, book>>

TCandV ==
    /\ l <= Len(Trace) /\ Trace[l].ev = "CandV" /\ l' = l + 1
    /\ LET e == Trace[l] IN Note(If(e.o = bcd, "Deterministic:" \o e.var))
    /\ UNCHANGED <<bfl, bcd, book>>

(* ---- the reporters book ------------------------------------------------------------------------------------------ *)
TBookNew ==
    /\ l <= Len(Trace) /\ Trace[l].ev = "BookNew" /\ l' = l + 1
    /\ book' = EmptyBook /\ Note({})
    /\ UNCHANGED <<bfl, bcd>>

BookOf(e) == [bf |-> {<<e.bf[i][1], e.bf[i][2]>> : i \in 1..Len(e.bf)},
              br |-> {<<e.br[i][1], e.br[i][2]>> : i \in 1..Len(e.br)},
              ba |-> [r \in {e.ba[i][1] : i \in 1..Len(e.ba)} |-> e.ba[CHOOSE i \in 1..Len(e.ba) : e.ba[i][1] = r][2]]]
SameBook(a, b) == a.bf = b.bf /\ a.br = b.br /\ DOMAIN a.ba = DOMAIN b.ba /\ \A r \in DOMAIN a.ba : a.ba[r] = b.ba[r]
TBook ==
    /\ l <= Len(Trace) /\ Trace[l].ev = "Book" /\ l' = l + 1
    /\ LET e == Trace[l]
           B == BookOf(e)
           m == IF e.op = "add" THEN BookAddReport(book, e.f, e.r)
                ELSE IF e.op = "delf" THEN BookDeleteFlip(book, e.f)
                ELSE IF e.op = "delr" THEN BookDeleteReporter(book, e.r)
                ELSE BookSetResult(book, e.r, e.ok, e.st, e.missed, e.af, e.any)
       IN /\ Note(If(/\ BookConsistent(B) /\ e.ef = <<>> /\ e.ptr
                     /\ \A i \in 1..Len(e.bf) : e.bf[i][2] \in DOMAIN B.ba /\ e.bf[i][3] = B.ba[e.bf[i][2]], "BookConsistent")
                  \* the published map after the operation is what the method's contract says, and a result that was set is shown
                  \cup If(/\ B.bf = m.bf
                          /\ (e.op = "res" /\ e.ok /\ e.r \in DOMAIN B.ba) => B.ba[e.r] = e.st, "BookOperation")
                  \cup If(SameBook(B, m) /\ e.cf = Cardinality({p \in B.bf : p[1] = e.f}) /\ e.cr = Cardinality({p \in B.bf : p[2] = e.r}), "drift:book"))
          /\ book' = B
    /\ UNCHANGED <<bfl, bcd>>

TraceNext == TOne \/ TFlips \/ TFlipsV \/ TCand \/ TCandV \/ TBookNew \/ TBook
TraceSpec == TraceInit /\ [][TraceNext]_tvars

TraceAccepted ==
    LET d == TLCGet("stats").diameter IN
    /\ IF d - 1 = Len(Trace) THEN TRUE ELSE Print(<<"TRACE_REJECTED_AT", d, Len(Trace)>>, FALSE)
    /\ \A i \in 1..Len(TLCGet(3)) : PrintT(<<"CLAUSE_BROKEN", TLCGet(3)[i][1], TLCGet(3)[i][2]>>)
    /\ \A c \in DOMAIN TLCGet(4) : PrintT(<<"CLAUSE_BROKEN", 0, "count:" \o c \o "=" \o ToString(TLCGet(4)[c])>>)
    /\ TLCGet(3) = <<>>
=============================================================================
