------------------------------ MODULE Ceremony ------------------------------
(* C17 part (a): the status decision table of a validation ceremony.                              *)
(*                                                                                                *)
(* Real code: core/ceremony/ceremony.go determineNewIdentityState (+ state.Identity.              *)
(* HasDoneAllRequiredFlips, thresholds in common/network.go).  One evaluation of the real function *)
(* is one `Evaluate` step of this module.                                                         *)
(*                                                                                                *)
(* The decision depends on the concrete inputs only through a finite abstraction (`Abstract`):    *)
(* which side of each published threshold a score / flip counter lies on.  `Decide` is the        *)
(* published rule over that abstraction; `Inputs` is the COMPLETE abstract input space, which TLC *)
(* enumerates.  The property's third sentence is stated as clauses over (input, new status):      *)
(*   AbsentNotPromoted / AbsentNotLeftValidated, InviteTerminated, DeadStaysDead / DeadFixedPoint. *)
(*                                                                                                *)
(* Scores are IEEE-754 single precision numbers in the code (float32).  For non-negative floats   *)
(* the order of the values is the order of their bit patterns read as integers, so a concrete     *)
(* score is represented here by its bit pattern and every threshold by the bit pattern of the     *)
(* float32 nearest to the published decimal (that is what the Go comparison `x >= 0.6` uses).     *)
EXTENDS Naturals, Sequences, TLC

Statuses  == {"Undefined", "Invite", "Candidate", "Verified", "Suspended", "Killed", "Zombie", "Newbie", "Human"}
Validated == {"Newbie", "Verified", "Human"}        \* state.NewbieOrBetter
Dead      == {"Killed", "Undefined"}

(* published thresholds (common/network.go) *)
F32_MinShortScore == 1058642330     \* float32(0.6)  = 0x3F19999A
F32_MinLongScore  == 1061158912     \* float32(0.75) = 0x3F400000
F32_MinTotalScore == 1061158912     \* float32(0.75)
F32_MinHumanScore == 1064011039     \* float32(0.92) = 0x3F6B851F
F32_Inf           == 2139095040     \* +Inf = 0x7F800000; every larger pattern is a NaN, which fails every comparison
MinFlipsVerified  == 13
MinFlipsHuman     == 24

(* ---------------------------------------------------------------------------------------------- *)
(* abstract inputs                                                                                 *)

ShortCnts == {"one", "two", "other"}     \* qualified short flips: 1, 2, anything else (0 or >= 3)
ShortCls  == {"zero", "low", "ok"}       \* short score: = 0, in (0, 0.6), >= 0.6
TotalCls  == {"low", "verified", "human"} \* total score: < 0.75 (or NaN), in [0.75, 0.92), >= 0.92
FlipsCls  == {"few", "verified", "human"} \* total qualified flips: < 13, in [13, 24), >= 24

Inputs == [prev : Statuses,
           flipsDone : BOOLEAN,          \* made all required flips
           missed : BOOLEAN,             \* not approved or no short / no long answers
           nqShort : BOOLEAN,            \* no qualified flips in the short session
           nqLong : BOOLEAN,             \* no qualified flips in the long session
           shortCnt : ShortCnts, shortCls : ShortCls,
           longOk : BOOLEAN,             \* long score >= 0.75
           total : TotalCls, flips : FlipsCls,
           fix93 : BOOLEAN,              \* epoch >= 93 (candidate-to-newbie fix)
           up10 : BOOLEAN, up12 : BOOLEAN]

(* a concrete call: c.prev status, c.req required flips, c.made flips made, c.missed, c.nqs, c.nql,  *)
(* c.sb / c.lb / c.tb float32 bit patterns of short / long / total score, c.sc short qualified    *)
(* flips, c.tf total qualified flips, c.fix, c.u10, c.u12                                         *)
\* 0/0 = NaN is what the ceremony computes as TOTAL score of an identity without any qualified flip; the
\* short and the long score are set by guarded divisions (0 when nothing was qualified) and are never NaN:
\* NaN short / long scores are outside the domain of the table.
IsNaN(b) == b > F32_Inf
InDomain(c) == /\ c.prev \in Statuses /\ ~IsNaN(c.sb) /\ ~IsNaN(c.lb)
               /\ c.req \in 0..255 /\ c.made \in 0..255          \* the code compares them as uint8
Abstract(c) ==
    [prev |-> c.prev,
     flipsDone |-> c.made >= c.req,
     missed |-> c.missed, nqShort |-> c.nqs, nqLong |-> c.nql,
     shortCnt |-> IF c.sc = 1 THEN "one" ELSE IF c.sc = 2 THEN "two" ELSE "other",
     shortCls |-> IF c.sb = 0 THEN "zero" ELSE IF c.sb < F32_MinShortScore THEN "low" ELSE "ok",
     longOk |-> c.lb >= F32_MinLongScore,
     total |-> IF c.tb < F32_MinTotalScore \/ IsNaN(c.tb) THEN "low" ELSE IF c.tb < F32_MinHumanScore THEN "verified" ELSE "human",
     flips |-> IF c.tf < MinFlipsVerified THEN "few" ELSE IF c.tf < MinFlipsHuman THEN "verified" ELSE "human",
     fix93 |-> c.fix, up10 |-> c.u10, up12 |-> c.u12]

(* ---------------------------------------------------------------------------------------------- *)
(* the decision table                                                                              *)

\* short session passed (since upgrade 12 one qualified flip always passes, two pass with any point)
ShortOk(i) == IF ~i.up12 THEN i.shortCls = "ok"
              ELSE CASE i.shortCnt = "one" -> TRUE
                     [] i.shortCnt = "two" -> i.shortCls # "zero"
                     [] OTHER              -> i.shortCls = "ok"
LongOk(i)  == i.longOk
TotalV(i)  == i.total \in {"verified", "human"}
TotalH(i)  == i.total = "human"
FlipsV(i)  == i.flips \in {"verified", "human"}
FlipsH(i)  == i.flips = "human"

\* nothing to judge in the short session, or nothing in the long one and `keep` holds: status is kept
Excused(i, keep) == i.nqShort \/ (i.nqLong /\ keep)

FromCandidate(i) ==
    IF i.missed THEN "Killed"
    ELSE IF Excused(i, ShortOk(i)) THEN (IF i.up10 \/ i.fix93 THEN "Newbie" ELSE "Candidate")
    ELSE IF ShortOk(i) /\ LongOk(i) THEN "Newbie"
    ELSE "Killed"

FromNewbie(i) ==
    IF i.missed THEN "Killed"
    ELSE IF Excused(i, ShortOk(i) /\ (FlipsV(i) => TotalV(i))) THEN "Newbie"
    ELSE IF FlipsV(i) /\ TotalV(i) /\ ShortOk(i) /\ LongOk(i) THEN "Verified"
    ELSE IF ~FlipsV(i) /\ ShortOk(i) /\ LongOk(i) THEN "Newbie"
    ELSE "Killed"

FromVerified(i) ==
    IF i.missed THEN "Suspended"
    ELSE IF Excused(i, TotalV(i) /\ ShortOk(i)) THEN "Verified"
    ELSE IF FlipsH(i) /\ TotalH(i) /\ ShortOk(i) /\ LongOk(i) THEN "Human"
    ELSE IF FlipsV(i) /\ TotalV(i) /\ ShortOk(i) /\ LongOk(i) THEN "Verified"
    ELSE "Killed"

FromHuman(i) ==
    IF i.missed THEN "Suspended"
    ELSE IF Excused(i, TotalH(i) /\ ShortOk(i)) THEN "Human"
    ELSE IF i.nqLong THEN "Suspended"
    ELSE IF TotalH(i) /\ ShortOk(i) /\ LongOk(i) THEN "Human"
    ELSE IF TotalV(i) /\ ShortOk(i) /\ LongOk(i) THEN "Verified"
    ELSE "Suspended"

\* since upgrade 10 a missing session counts as passed for the jump to Human
HumanJump(i) == /\ FlipsH(i) /\ TotalH(i)
                /\ (ShortOk(i) \/ (i.up10 /\ i.nqShort))
                /\ (LongOk(i) \/ (i.up10 /\ i.nqLong))

FromSuspended(i) ==
    IF i.missed THEN "Zombie"
    ELSE IF ~i.up10 /\ Excused(i, TotalV(i) /\ ShortOk(i)) THEN "Suspended"
    ELSE IF HumanJump(i) THEN "Human"
    ELSE IF TotalV(i) /\ ShortOk(i) /\ LongOk(i) THEN "Verified"
    ELSE IF i.up10 /\ Excused(i, TotalV(i) /\ ShortOk(i)) THEN "Verified"
    ELSE "Killed"

FromZombie(i) ==
    IF i.missed THEN "Killed"
    ELSE IF ~i.up10 /\ Excused(i, TotalV(i) /\ ShortOk(i)) THEN "Zombie"
    ELSE IF HumanJump(i) THEN "Human"
    ELSE IF TotalV(i) /\ ShortOk(i) THEN "Verified"
    ELSE IF i.up10 /\ i.nqShort THEN "Verified"
    ELSE "Killed"

Decide(i) ==
    IF ~i.flipsDone THEN (IF i.prev \in {"Verified", "Human"} THEN "Suspended" ELSE "Killed")
    ELSE CASE i.prev = "Undefined" -> "Undefined"
           [] i.prev = "Invite"    -> "Killed"
           [] i.prev = "Candidate" -> FromCandidate(i)
           [] i.prev = "Newbie"    -> FromNewbie(i)
           [] i.prev = "Verified"  -> FromVerified(i)
           [] i.prev = "Suspended" -> FromSuspended(i)
           [] i.prev = "Zombie"    -> FromZombie(i)
           [] i.prev = "Human"     -> FromHuman(i)
           [] i.prev = "Killed"    -> "Killed"

(* ---------------------------------------------------------------------------------------------- *)
(* the property (third sentence of C17) as clauses over an input and ANY new status o              *)

Absent(i) == i.missed \/ ~i.flipsDone

\* an identity that missed the session or lacked its required flips is never promoted ...
AbsentNotPromoted(i, o)      == (Absent(i) /\ i.prev \notin Validated) => o \notin Validated
\* ... or left validated
AbsentNotLeftValidated(i, o) == (Absent(i) /\ i.prev \in Validated) => o \notin Validated
\* an invitation that was not activated is terminated
InviteTerminated(i, o)       == i.prev = "Invite" => o = "Killed"
\* terminated or undefined identities never come back through validation
DeadStaysDead(i, o)          == i.prev \in Dead => o \in Dead
\* ... more precisely they are fixed points of the table whenever the required-flips gate does not fire
\* (an undefined identity has no required flips; with the gate firing the table says Killed for both)
DeadFixedPoint(i, o)         == (i.prev \in Dead /\ i.flipsDone) => o = i.prev
\* the result is a status at all
IsStatus(i, o)               == o \in Statuses

\* name of the first property clause that new status o breaks for input i ("" = none)
BrokenClause(i, o) ==
    IF ~IsStatus(i, o) THEN "IsStatus"
    ELSE IF ~AbsentNotPromoted(i, o) THEN "AbsentNotPromoted"
    ELSE IF ~AbsentNotLeftValidated(i, o) THEN "AbsentNotLeftValidated"
    ELSE IF ~InviteTerminated(i, o) THEN "InviteTerminated"
    ELSE IF ~DeadStaysDead(i, o) THEN "DeadStaysDead"
    ELSE IF ~DeadFixedPoint(i, o) THEN "DeadFixedPoint"
    ELSE ""

(* ---------------------------------------------------------------------------------------------- *)
(* numbering of the abstract input space (used to tie a recorded real call to the case it was      *)
(* generated for)                                                                                  *)

B(b) == IF b THEN 1 ELSE 0
Idx(s, x) == CHOOSE k \in 1..Len(s) : s[k] = x
StatusSeq == <<"Undefined", "Invite", "Candidate", "Verified", "Suspended", "Killed", "Zombie", "Newbie", "Human">>
CaseId(i) ==
    (Idx(StatusSeq, i.prev) - 1) + 9 * (B(i.flipsDone) + 2 * (B(i.missed) + 2 * (B(i.nqShort) + 2 * (B(i.nqLong) + 2 * (
    (Idx(<<"one", "two", "other">>, i.shortCnt) - 1) + 3 * ((Idx(<<"zero", "low", "ok">>, i.shortCls) - 1) + 3 * (B(i.longOk) + 2 * (
    (Idx(<<"low", "verified", "human">>, i.total) - 1) + 3 * ((Idx(<<"few", "verified", "human">>, i.flips) - 1) + 3 * (
    B(i.fix93) + 2 * (B(i.up10) + 2 * B(i.up12))))))))))))

(* ---------------------------------------------------------------------------------------------- *)
(* behaviour: one evaluation                                                                       *)

VARIABLES inp, out
vars == <<inp, out>>

Init == inp \in Inputs /\ out = "none"
Evaluate == out = "none" /\ out' = Decide(inp) /\ UNCHANGED inp
Next == Evaluate
Spec == Init /\ [][Next]_vars

TypeOK == inp \in Inputs /\ out \in Statuses \cup {"none"}
Rules  == out # "none" => BrokenClause(inp, out) = ""
\* each clause separately (so that a design-level counterexample names it)
InvAbsentNotPromoted      == out # "none" => AbsentNotPromoted(inp, out)
InvAbsentNotLeftValidated == out # "none" => AbsentNotLeftValidated(inp, out)
InvInviteTerminated       == out # "none" => InviteTerminated(inp, out)
InvDeadStaysDead          == out # "none" => DeadStaysDead(inp, out)
InvDeadFixedPoint         == out # "none" => DeadFixedPoint(inp, out)
=============================================================================
