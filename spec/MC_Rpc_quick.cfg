CONSTANTS
  KeyClasses = {"right", "wrong", "missing", "null", "empty", "prefix", "longer", "casevar", "padded", "num", "bool", "obj", "arr", "dupRL", "dupWL"}
  Kinds = {"call", "meta", "badparams", "unknown", "unknownSvc", "malformed", "sub", "subUnknown", "unsub", "notif"}
  InvalidKeyCode <- InvalidKeyCodeOfErrorsGo
  DupLast = TRUE
  ExportOn = TRUE
  Kinds2 = {"call", "sub", "unsub", "unknown"}
  Keys2 = {"right", "wrong", "missing"}
  Kinds3 = {"call", "sub", "unsub", "meta"}
  Keys3 = {"right", "wrong"}
  Same3 = TRUE
INIT MInit
NEXT Next
INVARIANTS TypeOK NoKeyNoRun WellFormedGetsInvalidKey RightKeyServed StepwiseIsModelOut VerdictAcceptsModel Export
CHECK_DEADLOCK FALSE
