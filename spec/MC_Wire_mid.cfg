CONSTANTS
  States = {"populated", "short"}
  TxTos = {"absent", "zero", "self", "known", "stranger", "contract"}
  TxPayloads = {"empty", "garbage", "valid"}
  TxAmounts = {"nil", "zero", "pos"}
  TxSenders = {"god", "verified", "newbie", "candidate", "invite", "funded", "unfunded"}
  MaxDev = 2
  Enumerate = TRUE
  Cmul = 64
  Cadd = 16777216
  BoundedDecode = TRUE
  ExportOn = TRUE
INIT Init
NEXT Next
INVARIANTS TypeOK Total Proportionate Export
CHECK_DEADLOCK FALSE
