CONSTANTS
  SimLen = 9
  ExportOn = TRUE
INIT Init
NEXT Next
INVARIANTS InvDomain InvNoAnswerNoPoint InvScoreInRange InvPointJustified InvQualifiedCounts InvTestingFlips
ACTION_CONSTRAINT Export
CHECK_DEADLOCK FALSE
