---------------------------- MODULE Trace_Tracker ----------------------------
(* Trace validation for C20.  Each line of the trace is one step of a schedule replayed on the   *)
(* real PushPullManager + DefaultPushTracker + DefaultHolder, with the state observed after it.  *)
(* The OBSERVED state is installed into the specification's variables (cnt and the pull history  *)
(* are carried by the specification) and                                                        *)
(*   - `bad`   collects the property clauses of Tracker.tla that some observed step breaks       *)
(*             (each reported once, with the first trace line, by the postcondition: the verdict);*)
(*   - `drift` counts the steps whose observed post-state differs from what the implementation-  *)
(*             shaped action predicts from the observed pre-state (reported, not a verdict).     *)
EXTENDS Tracker, Json, IOUtils

Trace == ndJsonDeserialize(IOEnv.TRACE_FILE)
ASSUME TLCSet(2, 0) /\ TLCSet(3, <<>>)

VARIABLES l, bad, drift
tvars == <<vars, l, bad, drift>>

ToSet(s) == {s[i] : i \in 1..Len(s)}
ActiveOf(pairs) == [h \in Hashes |-> IF \E i \in 1..Len(pairs) : pairs[i][1] = h
                                     THEN pairs[CHOOSE i \in 1..Len(pairs) : pairs[i][1] = h][2] ELSE None]
PendOf(tr) == [i \in 1..Len(tr) |-> [p |-> tr[i][1], h |-> tr[i][2], t |-> tr[i][3]]]
OutOf(tr) == [i \in 1..Len(tr) |-> [p |-> tr[i][1], h |-> tr[i][2]]]

RECURSIVE AddPulls(_, _, _)
AddPulls(pl, o, t) == IF o = <<>> THEN pl ELSE AddPulls([pl EXCEPT ![Head(o).h] = Append(@, t)], Tail(o), t)

TraceInit == /\ Init /\ l = 1 /\ bad = {} /\ drift = 0

TReset == /\ l <= Len(Trace) /\ Trace[l].ev = "Reset" /\ l' = l + 1
          /\ Install(InitState) /\ lab' = [ev |-> "Init", p |-> None, h |-> None]
          /\ bad' = bad /\ drift' = drift

Predicted(pre, e) ==
    CASE e.ev = "Announce" -> DoAnnounce(pre, e.p, e.h)
      [] e.ev = "AnnounceSplit" -> DoAnnounceSplit(pre, e.p, e.h)
      [] e.ev = "AnnounceHold"  -> DoAnnounceHold(pre, e.p, e.h)
      [] e.ev = "AnnounceResume" -> DoAnnounceResume(pre, e.p, e.h)
      [] e.ev = "RegisterLate"  -> DoRegisterLate(pre, e.h)
      [] e.ev = "Arrive"   -> DoArrive(pre, e.h)
      [] e.ev = "Tick"     -> DoTick(pre)
      [] e.ev = "LoopPoll" -> DoLoopPoll(pre)
      [] e.ev = "LoopWake" -> DoLoopWake(pre)
      [] e.ev = "LoopPollHold" -> DoLoopPollHold(pre)
      [] e.ev = "LoopWakeHold" -> DoLoopWakeHold(pre)
      [] e.ev = "LoopCrit" -> DoLoopCrit(pre)
      [] OTHER             -> [pre EXCEPT !.out = <<>>]

TStep == /\ l <= Len(Trace) /\ Trace[l].ev \in {"Announce", "AnnounceSplit", "AnnounceHold", "AnnounceResume", "RegisterLate", "Arrive", "Tick", "LoopPoll", "LoopWake", "LoopPollHold", "LoopWakeHold", "LoopCrit", "Skip"} /\ l' = l + 1
         /\ LET e    == Trace[l]
                pre  == State
                pred == Predicted(pre, e)
                o    == OutOf(e.out)
                obs  == [now |-> e.now, has |-> ToSet(e.has), cnt |-> pred.cnt, capw |-> pred.capw, active |-> ActiveOf(e.active),
                         pend |-> PendOf(e.pend), pc |-> e.pc,
                         obj |-> [p |-> e.obj[1], h |-> e.obj[2], t |-> e.obj[3]],
                         out |-> o, pulls |-> AddPulls([h \in Hashes |-> Recent(pre.pulls[h], e.now)], o, e.now),
                         regs |-> [h \in Hashes |-> IF ActiveOf(e.active)[h] # None /\
                                                       (ActiveOf(e.active)[h] # pre.active[h] \/
                                                        (e.ev \in {"LoopPoll", "LoopWake", "LoopCrit", "Announce", "AnnounceResume"} /\ \E i \in 1..Len(o) : o[i].h = h) \/
                                                        (e.ev = "RegisterLate" /\ e.h = h))
                                                    THEN <<ActiveOf(e.active)[h]>> ELSE pre.regs[h]],
                         late |-> [h \in Hashes |-> IF \E i \in 1..Len(e.late) : e.late[i][1] = h
                                                    THEN e.late[CHOOSE i \in 1..Len(e.late) : e.late[i][1] = h][2] ELSE 0]]
                lb   == [ev |-> e.ev, p |-> e.p, h |-> e.h]
                b    == Broken(pre, obs, lb)
            IN /\ Install(obs) /\ lab' = lb
               /\ bad' = IF b = "" THEN bad ELSE bad \cup {b}
               /\ drift' = drift + (IF obs # pred THEN 1 ELSE 0)
               /\ TLCSet(2, drift')
               /\ IF b # "" /\ b \notin bad THEN TLCSet(3, Append(TLCGet(3), <<l, b>>)) ELSE TRUE

\* a schedule whose loop goroutine stopped responding: the driver reports it, the trace spec accepts the line
TDead == /\ l <= Len(Trace) /\ Trace[l].ev = "Dead" /\ l' = l + 1 /\ UNCHANGED <<vars, drift>> /\ bad' = bad \cup {"LoopDead"}
         /\ IF "LoopDead" \notin bad THEN TLCSet(3, Append(TLCGet(3), <<l, "LoopDead">>)) ELSE TRUE

TraceNext == TReset \/ TStep \/ TDead
TraceSpec == TraceInit /\ [][TraceNext]_tvars

(* The verdict is delivered by the postcondition (first broken clause with its trace line), so that *)
(* a long trace does not produce a counterexample listing of every state.                          *)

TraceAccepted ==
    LET d == TLCGet("stats").diameter IN
    /\ PrintT(<<"DRIFT", TLCGet(2)>>)
    /\ IF d - 1 = Len(Trace) THEN TRUE ELSE Print(<<"TRACE_REJECTED_AT", d, Len(Trace)>>, FALSE)
    /\ \A i \in 1..Len(TLCGet(3)) : PrintT(<<"CLAUSE_BROKEN", TLCGet(3)[i][1], TLCGet(3)[i][2]>>)
    /\ TLCGet(3) = <<>>
=============================================================================
