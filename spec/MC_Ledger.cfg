CONSTANTS
  Senders = {"a", "b"}
  MaxNonce = 2
  MaxEpoch = 1
  MaxBlocks = 4
  Reward = 1
INIT Init
NEXT Next
INVARIANTS NoDoubleOnChain ConsecutiveOnChain
PROPERTIES IssuanceBound
CHECK_DEADLOCK FALSE
