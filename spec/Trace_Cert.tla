----------------------------- MODULE Trace_Cert -----------------------------
(* Trace validation for C07.  Every line of the trace is one case run on the REAL code            *)
(* (harness/cmd/d_cert): the identity-state shape that was written into a real IdentityStateDB,   *)
(* the committee the real ValidatorsCache drew, the votes that were really signed, and what the   *)
(* real ValidateBlockCert / AddVote / countVotes answered.  The specification (Cert.tla) is the   *)
(* oracle:                                                                                        *)
(*   - property clauses evaluated on the OBSERVED answers (verdict; first lines of every broken   *)
(*     clause are reported by the postcondition):                                                 *)
(*       Params         the consensus parameters are sane (majority agreement, final >= non-final) *)
(*       Committee      the logged committee is a committee of the logged registry (right size,   *)
(*                      members of the sorted registry, the whole registry up to 8, {god} if       *)
(*                      nobody is online)                                                         *)
(*       Eligibility    the logged validators / approved sets are determineValidators of it        *)
(*       Required       threshold - subtrahend as used by the code is an admissible Required       *)
(*                      (a single value except at float rounding ties, see Cert!Rounds; there the  *)
(*                      code's value is taken for the other clauses)                              *)
(*       Sound          accepted (nil cache, shared cache, on head)  =>  Quorum                    *)
(*       Complete       Quorum /\ NoForeign  =>  accepted by all three                             *)
(*       CounterSound   an emitted certificate consists of admitted votes, is a Quorum without     *)
(*                      foreign signatures for the emitted hash and was accepted (both caches)     *)
(*       Deterministic  two fresh loads and the incrementally updated registry give the same       *)
(*                      committee for every (seed, round, step) of the grid                        *)
(*   - equality with the implementation-shaped prediction (Accept, Admit, CountEmits): counted as  *)
(*     drift, reported, not a verdict.                                                            *)
EXTENDS Cert, Json, IOUtils

Trace == ndJsonDeserialize(IOEnv.TRACE_FILE)
TraceParams == [pctN |-> Trace[1].pctN, pctF |-> Trace[1].pctF, agree |-> Trace[1].agree, maxc |-> Trace[1].maxc]
HH == Trace[1].H
MaxReports == 40
ASSUME TLCSet(2, 0) /\ TLCSet(3, <<>>) /\ TLCSet(4, <<>>)

VARIABLE l

-----------------------------------------------------------------------------
ParamsSane(e) == /\ e.agree > 5000 /\ e.agree <= 10000
                 /\ e.pctN > 0 /\ e.pctN <= e.pctF /\ e.pctF <= 10000
                 /\ e.maxc >= 1 /\ e.H >= 2

\* c = a logged committee [o, v, p] (Original, Validators, ApprovedValidators as identity ids)
CommitteeOk(S, srt, c, cnt, step) ==
    LET comm == ToSet(c.o) IN
    /\ GodMode(S) => comm = {S.god}
    /\ GodMode(S) \/ (comm \subseteq srt /\ Cardinality(comm) \in CommitteeSizes(Cardinality(srt), step = Final))
    /\ cnt = Cardinality(srt)
EligibilityOk(S, c, A) ==
    /\ ToSet(c.v) = ValidatorsOf(S, ToSet(c.o))
    /\ ToSet(c.p) = A

\* the required number of votes: the code's own number if it is admissible, else the specification's
ReqOf(reqs, thr, sub) == IF (thr - sub) \in reqs THEN thr - sub ELSE CHOOSE r \in reqs : \A q \in reqs : q <= r

\* one run of the vote counter on the case's votes taken as a pool
Offered(e, c) == [k \in 1..Len(c.order) |-> e.votes[c.order[k] + 1]]
AdmModel(S, e, c) == LET pool == Offered(e, c)
                         pos(i) == CHOOSE k \in 1..Len(c.order) : c.order[k] + 1 = i
                     IN [i \in 1..Len(e.votes) |-> Admit(S, pool, pos(i), HH)]
Emitted(e, c) == [i \in 1..Len(c.emit) |-> e.votes[c.emit[i] + 1]]

\* per counter run: <<sound, drift>>
JudgeCount(S, cnt, e, c) ==
    LET commC == ToSet(c.comm.o)
        A     == ApprovedOf(S, commC)
        req   == ReqOf(RequiredsN(cnt, Cardinality(OriginalOf(S, commC)), Cardinality(A), c.step = Final), c.thr, c.sub)
        ev    == Emitted(e, c)
        adm   == [i \in 1..Len(c.adm) |-> c.adm[i]]
        sound == c.found =>
                   /\ c.h \in {0, 1}
                   /\ \A i \in 1..Len(c.emit) : c.emit[i] >= 0 /\ c.adm[c.emit[i] + 1]
                   /\ QuorumA(A, ev, c.h, req)
                   /\ NoForeignA(A, ev, c.h)
                   /\ c.accE /\ c.accEC
        drift == \/ adm # AdmModel(S, e, c)
                 \/ c.found # (\E h \in {0, 1} : CountEmitsA(A, e.votes, adm, c.step, h, req))
                 \/ (c.found /\ Len(c.emit) # EmitSize(req))
    IN <<sound, drift>>

\* [b |-> broken clauses, d |-> drift]
JudgeCase(e) ==
    LET S     == [ids |-> e.ids, god |-> e.god]
        srt   == Sorted(S)
        cnt   == Cardinality(srt)
        comm  == ToSet(e.comm.o)
        final == e.cstep = Final
        A     == ApprovedOf(S, comm)
        reqs  == RequiredsN(cnt, Cardinality(OriginalOf(S, comm)), Cardinality(A), final)
        req   == ReqOf(reqs, e.thr, e.sub)
        q     == QuorumA(A, e.votes, e.bh, req)
        jc    == [i \in 1..Len(e.counts) |-> JudgeCount(S, cnt, e, e.counts[i])]
        acc   == AcceptA(A, e.votes, FALSE, e.bh, req)
    IN [b |->   (IF CommitteeOk(S, srt, e.comm, e.cnt, e.cstep) /\ e.csize \in CommitteeSizes(cnt, final) THEN <<>> ELSE <<"Committee">>)
             \o (IF EligibilityOk(S, e.comm, A) THEN <<>> ELSE <<"Eligibility">>)
             \o (IF (e.thr - e.sub) \in reqs THEN <<>> ELSE <<"Required">>)
             \o (IF (e.acc \/ e.accC \/ e.accH) => q THEN <<>> ELSE <<"Sound">>)
             \o (IF (q /\ NoForeignA(A, e.votes, e.bh)) => (e.acc /\ e.accC /\ e.accH) THEN <<>> ELSE <<"Complete">>)
             \o (IF \A i \in 1..Len(jc) : jc[i][1] THEN <<>> ELSE <<"CounterSound">>),
        d |-> \/ e.acc # acc \/ e.accH # acc
              \/ e.accC # AcceptA(A, e.votes, TRUE, e.bh, req)
              \/ \E i \in 1..Len(jc) : jc[i][2]]

JudgeDet(e) ==
    LET S   == [ids |-> e.ids, god |-> e.god]
        srt == Sorted(S)
    IN [b |->   (IF \A i \in 1..Len(e.grid) : LET g == e.grid[i] IN g.a = g.b /\ g.a = g.inc /\ g.cnt[1] = g.cnt[2] /\ g.cnt[1] = g.cnt[3]
                 THEN <<>> ELSE <<"Deterministic">>)
             \o (IF \A i \in 1..Len(e.grid) : LET g == e.grid[i] IN CommitteeOk(S, srt, g.a, g.cnt[1], g.step)
                 THEN <<>> ELSE <<"Committee">>)
             \o (IF \A i \in 1..Len(e.grid) : LET g == e.grid[i] IN EligibilityOk(S, g.a, ApprovedOf(S, ToSet(g.a.o)))
                 THEN <<>> ELSE <<"Eligibility">>),
        d |-> FALSE]

Judge(e) == CASE e.ev = "Config" -> [b |-> IF ParamsSane(e) THEN <<>> ELSE <<"Params">>, d |-> FALSE]
              [] e.ev = "Case"   -> JudgeCase(e)
              [] e.ev = "Det"    -> JudgeDet(e)
              [] OTHER           -> [b |-> <<"UnknownEvent">>, d |-> FALSE]

-----------------------------------------------------------------------------
RECURSIVE Report(_, _)
Report(b, line) == IF b = <<>> THEN TRUE
                   ELSE /\ (IF Len(TLCGet(3)) < MaxReports THEN TLCSet(3, Append(TLCGet(3), <<line, Head(b)>>)) ELSE TRUE)
                        /\ Report(Tail(b), line)

TraceInit == l = 1
TraceNext == /\ l <= Len(Trace) /\ l' = l + 1
             /\ LET j == Judge(Trace[l]) IN
                /\ Report(j.b, l)
                /\ (IF j.d THEN TLCSet(2, TLCGet(2) + 1) /\ (IF Len(TLCGet(4)) < 10 THEN TLCSet(4, Append(TLCGet(4), l)) ELSE TRUE) ELSE TRUE)
TraceSpec == TraceInit /\ [][TraceNext]_l

(* The verdict is delivered by the postcondition: the first lines on which a clause is broken. *)
TraceAccepted ==
    LET d == TLCGet("stats").diameter IN
    /\ PrintT(<<"DRIFT", TLCGet(2)>>)
    /\ PrintT(<<"DRIFT_LINES", TLCGet(4)>>)
    /\ IF d - 1 = Len(Trace) THEN TRUE ELSE Print(<<"TRACE_REJECTED_AT", d, Len(Trace)>>, FALSE)
    /\ \A i \in 1..Len(TLCGet(3)) : PrintT(<<"CLAUSE_BROKEN", TLCGet(3)[i][1], TLCGet(3)[i][2]>>)
    /\ TLCGet(3) = <<>>
=============================================================================
