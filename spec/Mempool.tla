------------------------------- MODULE Mempool -------------------------------
(* C14 - the transaction pool of core/mempool (txpool.go, txblock_builder.go), implementation-   *)
(* shaped: one step function per public operation, written after the code:                      *)
(*                                                                                              *)
(*   DoAdd       AddExternalTxs / AddInternalTx: deferral while catching up (isSyncing, own     *)
(*               address exempt), duplicate check, checkLimits (ceremony types: one per type    *)
(*               and sender; regular: global size, per-address executable/pending limits, queue *)
(*               slots), validation (BOUND: the verdict of the ledger's ValidateTx is an input),*)
(*               put (executable iff it continues the queue - or the committed nonce when the   *)
(*               queue is empty -, else pending; ceremony types are exempt from "full")         *)
(*   DoReset     ResetTo: remove the block's transactions, movePendingTxsToExecutable, and -    *)
(*               outside the validation sessions - prune: past epochs, consumed nonces, and     *)
(*               everything from the lowest otherwise-invalid nonce of a sender upwards         *)
(*   DoBuild     BuildBlockTransactions: executable transactions of the current epoch sorted by *)
(*               nonce (stable, senders in map order = nondeterministic), ceremony transactions *)
(*               first together with the chain leading to them, then the rest, nonce continuity *)
(*               from the committed state, stop at the block gas cap                            *)
(*   DoStopSync  StopSync: ResetTo(head block), then the deferred submissions are replayed      *)
(*                                                                                              *)
(* The step functions take a context record c = [u, el, pl, qs, es, cb, ric, cap, nofee]         *)
(* (universe of transactions, TxPoolAddrExecutableLimit, TxPoolAddrQueueLimit, TxPoolQueueSlots,*)
(* TxPoolExecutableSlots, the sender that is the node's own address (0 = none), ResetInCeremony,*)
(* block gas cap, ids failing the builder's fee check) and an explicit state record, so that the*)
(* trace specification can predict the post-state of every observed step of the real pool.      *)
(*                                                                                              *)
(* State  st = [ep, per, acc, sync, exec, pend, def, incl]  (ledger part as in MempoolAbs;       *)
(*   exec[s] sequence of ids, pend[s] set of ids, def sequence of <<id, own>> deferred while     *)
(*   catching up).                                                                               *)
(*                                                                                              *)
(* Deliberate deviations: the deferred channel's capacity (100, drop-oldest) and the tx-sync     *)
(* counters are not modelled; the nonce cache is not part of the property and is left out;       *)
(* memory-level races are judged by the race detector in the concurrent driver.                  *)
EXTENDS Integers, Sequences, FiniteSets, SequencesExt, TLC

CONSTANTS NS,            \* senders 1..NS
          MaxNonce, MaxEpoch,
          NK,            \* kinds 0..NK-1 (0 = regular, > 0 ceremony types); kind 1 weighs 0 gas units, the others 1
          EL, PL, QS, ES, \* limits (0 = unlimited)
          CB,            \* own sender (0 = none)
          RIC,           \* Mempool.ResetInCeremony
          GasCap,        \* block gas cap in model units
          InitEpochs, InitPers,  \* initial ledgers explored
          ForeignMax             \* a foreign block carries transactions of at most so many senders

VARIABLES st,      \* the state record
          cx,      \* the context record (constant along a behaviour of the model; set per scenario by the trace spec)
          vt,      \* set of <<s, k>>: ceremony transactions already included in this epoch (ledger; model only)
          headTxs, \* transactions of the head block (model only; the trace logs them)
          lab      \* the event of the last step (as in MempoolAbs, plus the operation for the export)

vars == <<st, cx, vt, headTxs, lab>>

SeqToSet(q) == {q[i] : i \in 1..Len(q)}
Base(a, s) == IF a.acc[s][2] < a.ep THEN 0 ELSE a.acc[s][1]

-----------------------------------------------------------------------------
(* pool structure *)
SendersOf(s_) == DOMAIN s_.exec
ExecIds(s_) == UNION {SeqToSet(s_.exec[x]) : x \in SendersOf(s_)}
PendIds(s_) == UNION {s_.pend[x] : x \in SendersOf(s_)}
PoolIds(s_) == ExecIds(s_) \cup PendIds(s_)
PendSenders(s_) == {x \in SendersOf(s_) : s_.pend[x] # {}}
Full(len, max) == max > 0 /\ len >= max

(* sortedTxs.Add *)
ExecAddOk(c, ex, t) == /\ ~(t.k = 0 /\ Full(Len(ex), c.el))
                       /\ (ex = <<>> \/ (t.n = c.u[ex[Len(ex)]].n + 1 /\ t.e = c.u[ex[Len(ex)]].e))

(* checkLimits *)
LimitsOk(c, s_, t) ==
    IF t.k > 0
    THEN \A i \in SeqToSet(s_.exec[t.s]) \cup s_.pend[t.s] : c.u[i].k # t.k
    ELSE LET total == IF c.es < 0 \/ c.qs < 0 THEN -1 ELSE c.es * c.el + c.qs * c.pl IN
         /\ ~(total > 0 /\ Cardinality(PoolIds(s_)) >= total)
         /\ (s_.exec[t.s] # <<>> /\ Full(Len(s_.exec[t.s]), c.el)) =>
                /\ ~(s_.pend[t.s] # {} /\ Full(Cardinality(s_.pend[t.s]), c.pl))
                /\ ~(c.qs > 0 /\ Cardinality(PendSenders(s_)) >= c.qs)

(* putToPending *)
PutPending(c, s_, i) ==
    LET t == c.u[i] IN
    IF s_.pend[t.s] = {} /\ c.qs > 0 /\ Cardinality(PendSenders(s_)) >= c.qs THEN [ok |-> FALSE, st |-> s_]
    ELSE IF t.k = 0 /\ Full(Cardinality(s_.pend[t.s]), c.pl) THEN [ok |-> FALSE, st |-> s_]
    ELSE [ok |-> TRUE, st |-> [s_ EXCEPT !.pend[t.s] = @ \cup {i}]]

(* put *)
Put(c, s_, i) ==
    LET t == c.u[i]
        ex == s_.exec[t.s]
        isExec == IF ex = <<>> THEN t.e = s_.ep /\ t.n = Base(s_, t.s) + 1 ELSE TRUE
    IN IF isExec /\ ExecAddOk(c, ex, t) THEN [ok |-> TRUE, st |-> [s_ EXCEPT !.exec[t.s] = Append(@, i)]]
       ELSE PutPending(c, s_, i)

(* add: duplicate, limits, validation (bound), put *)
TryPut(c, s_, i, valid) ==
    IF i \in PoolIds(s_) \/ ~LimitsOk(c, s_, c.u[i]) \/ ~valid THEN [ok |-> FALSE, st |-> s_]
    ELSE Put(c, s_, i)

Defer(s_, i, own) == IF \E j \in 1..Len(s_.def) : s_.def[j][1] = i THEN s_
                     ELSE [s_ EXCEPT !.def = Append(@, <<i, own>>)]

(* AddExternalTxs (one transaction) / AddInternalTx *)
DoAdd(c, s_, i, own, valid) ==
    LET r == TryPut(c, s_, i, valid) IN
    IF own THEN
        IF s_.sync THEN [res |-> "ok", st |-> TryPut(c, Defer(s_, i, TRUE), i, valid).st]
        ELSE [res |-> IF r.ok THEN "ok" ELSE "err", st |-> r.st]
    ELSE IF s_.sync /\ c.u[i].s # c.cb THEN [res |-> "ok", st |-> Defer(s_, i, FALSE)]
    ELSE [res |-> IF r.ok THEN "ok" ELSE "err", st |-> r.st]

-----------------------------------------------------------------------------
(* ResetTo *)
RemoveIds(s_, B) == [s_ EXCEPT !.exec = [x \in SendersOf(s_) |-> SelectSeq(s_.exec[x], LAMBDA i : i \notin B)],
                               !.pend = [x \in SendersOf(s_) |-> s_.pend[x] \ B]]

(* txMap.Sorted: by (epoch, nonce); two different transactions with the same epoch and nonce come out in map    *)
(* order, i.e. either way round: `rev` chooses                                                                 *)
PendBefore(c, i, j, rev) == LET a == c.u[i]  b == c.u[j] IN
                            \/ a.e < b.e \/ (a.e = b.e /\ a.n < b.n)
                            \/ (a.e = b.e /\ a.n = b.n /\ (IF rev THEN i > j ELSE i < j))

RECURSIVE PromoteSeq(_, _, _, _)
PromoteSeq(c, s_, x, q) ==
    IF q = <<>> THEN s_
    ELSE LET i == Head(q)
             t == c.u[i]
             ex == s_.exec[x]
         IN IF ex = <<>> /\ ~(t.e = s_.ep /\ t.n = Base(s_, x) + 1) THEN s_
            ELSE IF ExecAddOk(c, ex, t)
                 THEN PromoteSeq(c, [s_ EXCEPT !.exec[x] = Append(@, i), !.pend[x] = @ \ {i}], x, Tail(q))
                 ELSE s_

RECURSIVE PromoteAll(_, _, _, _)
PromoteAll(c, s_, xs, rev) ==
    IF xs = {} THEN s_
    ELSE LET x == CHOOSE y \in xs : TRUE IN
         PromoteAll(c, PromoteSeq(c, s_, x, SetToSortSeq(s_.pend[x], LAMBDA i, j : PendBefore(c, i, j, rev))), xs \ {x}, rev)

(* the pruning part: invN = ids the ledger rejects for a consumed nonce, invO = ids it rejects otherwise *)
Prune(c, s_, invN, invO) ==
    LET ids == PoolIds(s_)
        errs(x) == {c.u[i].n : i \in {j \in ids \cap invO : c.u[j].s = x /\ c.u[j].e = s_.ep}}
        gone == {i \in ids : \/ c.u[i].e < s_.ep
                             \/ (c.u[i].e = s_.ep /\ (i \in invN \/ \E m \in errs(c.u[i].s) : c.u[i].n >= m))}
    IN RemoveIds(s_, gone)

(* s_ already carries the ledger after the block *)
DoReset(c, s_, B, invN, invO, rev) ==
    LET s2 == PromoteAll(c, RemoveIds(s_, B), SendersOf(s_), rev) IN
    IF ~c.ric /\ s_.per > 1 THEN s2 ELSE Prune(c, s2, invN, invO)

(* StopSync: dvalid = deferred ids the ledger's validation accepts now *)
RECURSIVE Replay(_, _, _, _)
Replay(c, s_, q, dvalid) ==
    IF q = <<>> THEN s_
    ELSE Replay(c, TryPut(c, s_, Head(q)[1], Head(q)[1] \in dvalid).st, Tail(q), dvalid)

DoStopSync(c, s_, B, invN, invO, dvalid, rev) ==
    LET s1 == DoReset(c, [s_ EXCEPT !.sync = FALSE], B, invN, invO, rev) IN
    [Replay(c, s1, s_.def, dvalid) EXCEPT !.def = <<>>]

-----------------------------------------------------------------------------
(* BuildBlockTransactions *)
InsNonce(c, q, i) == LET k == Cardinality({j \in 1..Len(q) : c.u[q[j]].n <= c.u[i].n}) IN
                     SubSeq(q, 1, k) \o <<i>> \o SubSeq(q, k + 1, Len(q))
RECURSIVE SortNonce(_, _, _)
SortNonce(c, acc, q) == IF q = <<>> THEN acc ELSE SortNonce(c, InsNonce(c, acc, Head(q)), Tail(q))

RECURSIVE Flat(_, _, _)
Flat(c, s_, ord) == IF ord = <<>> THEN <<>>
                    ELSE SelectSeq(s_.exec[Head(ord)], LAMBDA i : c.u[i].e = s_.ep) \o Flat(c, s_, Tail(ord))

RECURSIVE WalkChain(_, _, _, _, _, _, _, _)
WalkChain(c, b, ch, p, i, cur, add, gas) ==
    IF i > Len(ch) THEN [ok |-> FALSE]
    ELSE LET t == c.u[ch[i]] IN
         IF cur + 1 # t.n \/ ch[i] \in c.nofee \/ b.gas + gas + t.g > c.cap THEN [ok |-> FALSE]
         ELSE IF ch[i] = p THEN [ok |-> TRUE, add |-> Append(add, ch[i]), gas |-> gas + t.g, cur |-> t.n, i |-> i]
         ELSE WalkChain(c, b, ch, p, i + 1, t.n, Append(add, ch[i]), gas + t.g)

RECURSIVE PriPhase(_, _, _)
PriPhase(c, b, ps) ==
    IF ps = <<>> THEN b
    ELSE LET p == Head(ps)
             x == c.u[p].s
             w == WalkChain(c, b, b.chain[x], p, 1, b.cur[x], <<>>, 0)
         IN IF ~w.ok THEN PriPhase(c, b, Tail(ps))
            ELSE PriPhase(c, [b EXCEPT !.out = @ \o w.add, !.gas = @ + w.gas, !.cur[x] = w.cur,
                                       !.chain[x] = SubSeq(@, w.i + 1, Len(@))], Tail(ps))

RECURSIVE RegPhase(_, _, _)
RegPhase(c, b, q) ==
    IF q = <<>> THEN b
    ELSE LET i == Head(q)
             t == c.u[i]
         IN IF i \in c.nofee \/ b.cur[t.s] + 1 # t.n THEN RegPhase(c, b, Tail(q))
            ELSE IF b.gas + t.g > c.cap THEN b
            ELSE RegPhase(c, [b EXCEPT !.out = Append(@, i), !.gas = @ + t.g, !.cur[t.s] = t.n], Tail(q))

DoBuild(c, s_, ord) ==
    LET txs == SortNonce(c, <<>>, Flat(c, s_, ord))
        b0 == [out |-> <<>>, gas |-> 0,
               cur |-> [x \in SendersOf(s_) |-> Base(s_, x)],
               chain |-> [x \in SendersOf(s_) |-> SelectSeq(txs, LAMBDA i : c.u[i].s = x)]]
        ps == SelectSeq(txs, LAMBDA i : c.u[i].k > 0)
    IN RegPhase(c, PriPhase(c, b0, ps), txs).out

(* order-independent part of the prediction: what the list can contain at most (all of it when the cap does not bind) *)
RECURSIVE EligSeq(_, _, _)
EligSeq(c, q, cur) == IF q = <<>> THEN {}
                      ELSE LET i == Head(q) IN
                           IF i \in c.nofee \/ c.u[i].n # cur + 1 THEN EligSeq(c, Tail(q), cur)
                           ELSE {i} \cup EligSeq(c, Tail(q), c.u[i].n)
Eligible(c, s_) == UNION {EligSeq(c, SelectSeq(s_.exec[x], LAMBDA i : c.u[i].e = s_.ep), Base(s_, x)) : x \in SendersOf(s_)}

-----------------------------------------------------------------------------
(* The bounded model: a small ledger drives the pool.  In the traces of the real pool the ledger  *)
(* (epoch, period, account nonces, validity of transactions) is OBSERVED; here it is modelled just *)
(* far enough to reach every branch of the pool: nonce/epoch rules, regular transactions refused   *)
(* in the flip-lottery and short-session periods, ceremony transactions refused outside the        *)
(* ceremony and after one of the same type was included.                                           *)

W == (NK + 1) * (MaxEpoch + 1)
NIds == NS * MaxNonce * W
TxOf(id) == LET z == id - 1
                kk == z % (NK + 1)
                e == (z \div (NK + 1)) % (MaxEpoch + 1)
                r == z \div W
                k == IF kk = NK THEN 0 ELSE kk
            IN [s |-> (r \div MaxNonce) + 1, n |-> (r % MaxNonce) + 1, e |-> e, k |-> k,
                v |-> IF kk = NK THEN 1 ELSE 0,       \* v = 1: a different transaction with the same sender/nonce (only in foreign blocks)
                g |-> IF k = 1 THEN 0 ELSE 1]
IdOf(s, n, e, kk) == 1 + ((s - 1) * MaxNonce + (n - 1)) * W + e * (NK + 1) + kk
Universe == [id \in 1..NIds |-> TxOf(id)]

Ctx0 == [u |-> Universe, el |-> EL, pl |-> PL, qs |-> QS, es |-> ES, cb |-> CB, ric |-> RIC, cap |-> GasCap, nofee |-> {}]

BadNonce(s_, t) == t.e = s_.ep /\ s_.acc[t.s][2] = s_.ep /\ t.n <= s_.acc[t.s][1]
BadOther(s_, v_, t) == \/ t.e < s_.ep
                       \/ (t.k = 0 /\ s_.per \in {1, 2})
                       \/ (t.k > 0 /\ (s_.per = 0 \/ <<t.s, t.k>> \in v_))
MValid(s_, v_, t) == ~BadNonce(s_, t) /\ ~BadOther(s_, v_, t)
InvN(s_) == {i \in 1..NIds : BadNonce(s_, cx.u[i])}
InvO(s_, v_) == {i \in 1..NIds : ~BadNonce(s_, cx.u[i]) /\ BadOther(s_, v_, cx.u[i])}

Ev(e, i, res, txs, cand, post, v_, op) ==
    [ev |-> e, tx |-> i, res |-> res, txs |-> txs, cand |-> cand, inv |-> InvN(post) \cup InvO(post, v_), cap |-> cx.cap, op |-> op]

TxOut(i) == LET t == cx.u[i] IN [s |-> t.s, n |-> t.n, e |-> t.e, k |-> t.k, v |-> t.v]

Init == /\ \E e \in InitEpochs, p \in InitPers :
              st = [ep |-> e, per |-> p, acc |-> [x \in 1..NS |-> <<0, 0>>], sync |-> FALSE,
                    exec |-> [x \in 1..NS |-> <<>>], pend |-> [x \in 1..NS |-> {}], def |-> <<>>, incl |-> {}]
        /\ cx = Ctx0 /\ vt = {} /\ headTxs = <<>>
        /\ lab = [ev |-> "Reset", tx |-> 0, res |-> "ok", txs |-> <<>>, cand |-> <<>>, inv |-> {}, cap |-> GasCap, op |-> [op |-> "Reset"]]

Add(i, own) ==
    /\ cx.u[i].v = 0 /\ (own => cx.u[i].s = CB)
    /\ LET r == DoAdd(cx, st, i, own, MValid(st, vt, cx.u[i])) IN
       /\ st' = r.st
       /\ lab' = Ev("Add", i, r.res, <<>>, <<>>, r.st, vt, [op |-> "Add", tx |-> TxOut(i), own |-> own])
    /\ UNCHANGED <<cx, vt, headTxs>>

(* what the chain keeps of a proposed list (ceremony transactions are refused in a block before the short session) *)
RECURSIVE Filter(_, _, _, _)
Filter(s_, v_, q, cur) ==
    IF q = <<>> THEN <<>>
    ELSE LET i == Head(q)
             t == cx.u[i]
         IN IF t.n = cur[t.s] + 1 /\ (t.k > 0 => (s_.per >= 2 /\ <<t.s, t.k>> \notin v_))
            THEN <<i>> \o Filter(s_, v_ \cup (IF t.k > 0 THEN {<<t.s, t.k>>} ELSE {}), Tail(q), [cur EXCEPT ![t.s] = t.n])
            ELSE Filter(s_, v_, Tail(q), cur)

RECURSIVE ApplyTxs(_, _)
ApplyTxs(r, q) ==
    IF q = <<>> THEN r
    ELSE LET i == Head(q)
             t == cx.u[i]
         IN ApplyTxs([st |-> [r.st EXCEPT !.acc[t.s] = <<t.n, t.e>>, !.incl = @ \cup {i}],
                      vt |-> r.vt \cup (IF t.k > 0 THEN {<<t.s, t.k>>} ELSE {})], Tail(q))

ApplyLedger(s_, v_, B, adv) ==
    LET r == ApplyTxs([st |-> s_, vt |-> v_], B) IN
    IF ~adv THEN r
    ELSE IF s_.per = 4 THEN [st |-> [r.st EXCEPT !.ep = @ + 1, !.per = 0], vt |-> {}]
    ELSE [st |-> [r.st EXCEPT !.per = @ + 1], vt |-> r.vt]

Block(B, adv, op) ==
    /\ (adv /\ st.per = 4) => st.ep < MaxEpoch
    /\ \E rev \in BOOLEAN :
       LET r == ApplyLedger(st, vt, B, adv)
           post == IF st.sync THEN r.st ELSE DoReset(cx, r.st, SeqToSet(B), InvN(r.st), InvO(r.st, r.vt), rev)
       IN /\ st' = post /\ vt' = r.vt /\ headTxs' = B
          /\ lab' = Ev("Block", 0, "ok", B, <<>>, post, r.vt, op)
    /\ cx' = cx

Orders == {o \in [1..NS -> 1..NS] : \A i, j \in 1..NS : i # j => o[i] # o[j]}
Bases(s_) == [x \in 1..NS |-> Base(s_, x)]

BlockOwn(ord, adv) ==
    /\ ~st.sync
    /\ Block(Filter(st, vt, DoBuild(cx, st, ord), Bases(st)), adv, [op |-> "Block", adv |-> adv, foreign |-> FALSE, f |-> <<>>])

(* a block proposed elsewhere: for each sender nothing, its next regular transaction, or a different one with the same nonce *)
ForeignChoice == {ch \in [1..NS -> {0, 1, 2}] : Cardinality({x \in 1..NS : ch[x] # 0}) <= ForeignMax}
ForeignTxs(ch) == LET pick(x) == IF ch[x] = 0 \/ Base(st, x) + 1 > MaxNonce THEN <<>>
                                 ELSE <<IdOf(x, Base(st, x) + 1, st.ep, IF ch[x] = 1 THEN 0 ELSE NK)>>
                  IN FoldLeft(LAMBDA acc, x : acc \o pick(x), <<>>, [x \in 1..NS |-> x])
BlockForeign(ch, adv) ==
    /\ ((\A x \in 1..NS : ch[x] = 0) => (st.sync \/ adv))
    /\ LET F == ForeignTxs(ch) IN
       Block(F, adv, [op |-> "Block", adv |-> adv, foreign |-> TRUE, f |-> [j \in 1..Len(F) |-> TxOut(F[j])]])

Build(ord) ==
    /\ lab' = Ev("Build", 0, "ok", <<>>, DoBuild(cx, st, ord), st, vt, [op |-> "Build"])
    /\ UNCHANGED <<st, cx, vt, headTxs>>

StartSync ==
    /\ ~st.sync
    /\ st' = [st EXCEPT !.sync = TRUE]
    /\ lab' = Ev("StartSync", 0, "ok", <<>>, <<>>, st', vt, [op |-> "StartSync"])
    /\ UNCHANGED <<cx, vt, headTxs>>

StopSync ==
    /\ st.sync
    /\ \E rev \in BOOLEAN :
       LET dvalid == {i \in 1..NIds : MValid(st, vt, cx.u[i])}
           post == DoStopSync(cx, st, SeqToSet(headTxs), InvN(st), InvO(st, vt), dvalid, rev)
       IN /\ st' = post
          /\ lab' = Ev("StopSync", 0, "ok", headTxs, <<>>, post, vt, [op |-> "StopSync"])
    /\ UNCHANGED <<cx, vt, headTxs>>

Next == \/ \E i \in 1..NIds, own \in BOOLEAN : Add(i, own)
        \/ \E ord \in Orders, adv \in BOOLEAN : BlockOwn(ord, adv)
        \/ \E ch \in ForeignChoice, adv \in BOOLEAN : BlockForeign(ch, adv)
        \/ \E ord \in Orders : Build(ord)
        \/ StartSync
        \/ StopSync

Spec == Init /\ [][Next]_vars

-----------------------------------------------------------------------------
(* Refinement: the pool, seen through its lookups, is a behaviour of MempoolAbs. *)
AbsOf(s_) == [ep |-> s_.ep, per |-> s_.per, acc |-> s_.acc, sync |-> s_.sync,
              pool |-> PoolIds(s_), any |-> PoolIds(s_), incl |-> s_.incl]
Abs == INSTANCE MempoolAbs WITH au <- cx.u, abs <- AbsOf(st), alab <- lab
Refines == Abs!AbsSpec

(* structural invariants of the implementation-shaped state *)
TypeOK == /\ \A x \in 1..NS : SeqToSet(st.exec[x]) \cap st.pend[x] = {}
          /\ \A x \in 1..NS : \A i \in SeqToSet(st.exec[x]) \cup st.pend[x] : cx.u[i].s = x
          /\ \A x \in 1..NS : Abs!NoDup(st.exec[x])
          /\ \A x \in 1..NS : \A j \in 1..(Len(st.exec[x]) - 1) : cx.u[st.exec[x][j]].n < cx.u[st.exec[x][j + 1]].n
=============================================================================
