CONSTANTS
  KeyClasses = {"right", "wrong", "missing", "null", "empty", "prefix", "longer", "casevar", "padded", "num", "bool", "obj", "arr", "dupRL", "dupWL"}
  Kinds = {"call", "meta", "badparams", "unknown", "unknownSvc", "malformed", "sub", "subUnknown", "subBare", "unsub", "unsubBad", "notif"}
  InvalidKeyCode <- InvalidKeyCodeOfErrorsGo
  DupLast = TRUE
  ExportOn = TRUE
  Kinds2 = {"call", "meta", "badparams", "unknown", "unknownSvc", "malformed", "sub", "subUnknown", "subBare", "unsub", "unsubBad", "notif"}
  Keys2 = {"right"}
  Kinds3 = {"call", "sub", "unsub", "meta"}
  Keys3 = {"right", "wrong", "missing"}
  Same3 = FALSE
INIT MInit
NEXT Next
INVARIANTS TypeOK NoKeyNoRun WellFormedGetsInvalidKey RightKeyServed StepwiseIsModelOut VerdictAcceptsModel Export
CHECK_DEADLOCK FALSE
