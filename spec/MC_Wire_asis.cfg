CONSTANTS
  States = {"empty"}
  TxTos = {"absent"}
  TxPayloads = {"empty"}
  TxAmounts = {"nil"}
  TxSenders = {"verified"}
  MaxDev = 0
  Enumerate = TRUE
  Cmul = 64
  Cadd = 16777216
  BoundedDecode = FALSE
  ExportOn = FALSE
INIT Init
NEXT Next
INVARIANTS TypeOK Total Proportionate
CHECK_DEADLOCK FALSE
