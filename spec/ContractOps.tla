----------------------------- MODULE ContractOps -----------------------------
(* Scenario generator for C15: the operation alphabet of every embedded contract, of the bundled   *)
(* WASM contracts and of a hand-assembled WASM contract that moves DNA ("payer": transfers, burns,*)
(* cross-contract calls with pay amounts - none of the bundled ones does), over an abstract        *)
(* LIFECYCLE of one contract instance.                                                             *)
(*                                                                                                *)
(* An operation is  [m: deploy | method | terminate | unknown | fund | wait,                       *)
(*                   arg: argument class, amt: pay-amount class, gas: gas class, who: caller role, *)
(*                   pair: "no" | "same" | "term" (the block also carries, FIRST, an attempt with  *)
(*                   too little gas by the same sender - of the same call, or of a termination:    *)
(*                   two contract transactions share one block state and one VM environment)       *)
(*                   | "samerin" (the same with a plain transfer INTO the recipient in between)     *)
(*                   | "sw-<mid>-<tail>": a SANDWICH block, see below                              *)
(*                   | "pf-block" | "pf-mid" | "pf-mid-emb": the address the operation is about to *)
(*                   create already holds coins (pre-funded future contract address)].             *)
(* A sandwich block is  [the operation, well-formed and with enough gas]                           *)
(*   + <mid>: a balance change OUTSIDE any contract environment in between -                       *)
(*       none | self (the operation pays its own sender: the sender's fee is charged outside)      *)
(*       | cin (a plain transfer INTO the contract) | xout (the operation pays an account X and    *)
(*       X makes a plain transfer out)                                                             *)
(*   + <tail>: further contract transactions in the same block -                                   *)
(*       again (the operation once more) | emb (a successful call of ANOTHER, embedded contract)   *)
(*       | wasm (of another, wasm contract) | fail (a failing call of another contract)            *)
(*       | two (the other embedded contract, then the operation again: three contract txs)         *)
(*       | termemb (a termination of the contract itself, then the other embedded contract).       *)
(* Whatever an earlier transaction leaves in the execution context of the block (buffered absolute *)
(* balances, store entries, deployments) must not reach the state with a later one.                *)
(* The lifecycle (deployed? how far initialised? funded? terminated?) only STEERS the generator   *)
(* towards deep states: a well-formed operation by the right caller with enough gas is expected to*)
(* advance it, everything else is expected to leave it where it is.  Nothing here is a verdict:    *)
(* what really happens is decided by the real code and judged by ContractTx.  TLC explores the     *)
(* lifecycle graph breadth-first and exports, for every transition, one concrete path reaching it *)
(* (edge cover): every operation class is attempted in every lifecycle state.                      *)
EXTENDS Integers, Sequences, FiniteSets, TLC, Json

CONSTANTS Contracts,     \* contract kinds to generate for
          ArgClasses,    \* "valid" "valid2" "over" "missing" "garbage" "short"; "toself" / "tosender" = well-formed, and the
                         \* recipient argument names the contract's OWN address / the sender of the transaction
          AmtClasses,    \* "zero" "low" "some" "big"
          GasClasses,    \* "zero" "small" "exact" "enough"; "smallhalf" / "smallrem" = small, and the maximum fee is not a whole
                         \* number of gas units: on top it carries exactly half a unit / a unit less one base unit
          Roles,         \* "owner" "other" "voter"
          Deep,          \* TRUE: include the > 30000 blocks of waiting after which an oracle voting can be terminated
          WalkLen,       \* length of the exported random walks (simulation mode only)
          MaxDev,        \* an operation deviates from the method's well-formed default in at most MaxDev dimensions
          ExportOn

VARIABLES c,      \* contract kind
          w,      \* world preset: "base" | "voted" (a finished oracle voting exists) | "incd" (inc_func deployed)
                  \*               | "payerd" (a second instance of the hand-assembled payer contract exists)
          s,      \* lifecycle state [life, stage, funded, var]
          hist    \* operations so far (not in the view)
vars == <<c, w, s, hist>>
view == <<c, w, s>>

Embedded(k) == k \in {"timelock", "multisig", "oraclelock", "refundlock", "voting"}

Methods(k) ==
    CASE k = "timelock"   -> {"transfer"}
      [] k = "multisig"   -> {"add", "send", "push"}
      [] k = "oraclelock" -> {"checkOracleVoting", "push"}
      [] k = "refundlock" -> {"deposit", "push", "refund"}
      [] k = "voting"     -> {"startVoting", "sendVoteProof", "sendVote", "finishVoting", "prolongVoting", "addStake"}
      [] k = "inc"        -> {"inc"}
      [] k = "sum"        -> {"invoke", "_sum"}
      [] k = "erc20"      -> {"transfer", "approve", "transferFrom"}
      [] k = "testcases"  -> {"test"}
      [] k = "sft"        -> {"transferTo", "receive"}
      [] k = "payer"      -> {"pay", "burn", "payfail", "paytwice", "store", "storefail", "relay", "relayboom", "relayhop",
                              "spawn", "spawnlow", "payspawn"}      \* sub-deployments (of a further instance of its own code)
      [] OTHER            -> {}

Presets(k) == CASE k \in {"oraclelock", "refundlock"} -> {"base", "voted"}
                [] k = "sum" -> {"incd"}
                [] k = "payer" -> {"payerd"}
                [] OTHER -> {"base"}

(* the well-formed default of a method *)
DefWho(k, m) == IF m \in {"sendVoteProof", "sendVote", "send", "deposit"} THEN "voter" ELSE "owner"
DefAmt(k, m) == IF m = "deploy" THEN (IF Embedded(k) THEN "some" ELSE "zero")
                ELSE IF m \in {"deposit", "sendVoteProof", "addStake"} THEN "some"
                ELSE "zero"

Dev(k, op) == (IF op.arg # "valid" THEN 1 ELSE 0) + (IF op.amt # DefAmt(k, op.m) THEN 1 ELSE 0)
              + (IF op.gas # "enough" THEN 1 ELSE 0) + (IF op.who # DefWho(k, op.m) THEN 1 ELSE 0)
              + (IF op.pair # "no" THEN 1 ELSE 0)

(* methods with a recipient argument *)
HasRcpt(k, m) == \/ m = "terminate" /\ k \in {"timelock", "multisig", "refundlock"}
                 \/ k = "timelock" /\ m = "transfer"
                 \/ k = "multisig" /\ m \in {"send", "push"}
                 \/ k = "erc20" /\ m = "transfer"
                 \/ k = "sft" /\ m = "transferTo"
                 \/ k = "payer" /\ m \in {"pay", "payfail", "paytwice"}

Sandwiches == {"sw-" \o md \o "-" \o tl : md \in {"none", "self", "cin", "xout"}, tl \in {"again", "emb", "wasm", "fail", "two", "termemb"}}
IsSandwich(op) == op.pair \in Sandwiches
(* the address the operation is about to CREATE (top-level deployment, sub-deployment) already holds *)
(* coins: sent there by a plain transfer in an earlier block, in the same block just before the      *)
(* transaction, or in the same block with a further contract transaction behind                      *)
(* (payer.payspawn pays the future address earlier in the SAME transaction)                          *)
Prefunds == {"pf-block", "pf-mid", "pf-mid-emb"}
Creates(k, op) == op.m = "deploy" \/ (k = "payer" /\ op.m \in {"spawn", "spawnlow", "payspawn"})

TxOps(k) == {[m |-> m, arg |-> a, amt |-> p, gas |-> g, who |-> r, pair |-> pr] :
                m \in Methods(k) \cup {"deploy", "terminate", "unknown"},
                a \in ArgClasses, p \in AmtClasses, g \in GasClasses, r \in Roles, pr \in {"no", "same", "term", "samerin"} \cup Sandwiches \cup Prefunds}
Ops(k) == {op \in TxOps(k) :
              /\ Dev(k, op) <= MaxDev
              /\ (op.arg \in {"toself", "tosender"} => HasRcpt(k, op.m) /\ op.pair \in {"no", "same"})
              /\ (op.pair \in {"same", "term"} => Embedded(k) /\ op.gas \in {"exact", "enough"})
              /\ (op.pair = "term" => op.m # "deploy")
              \* "samerin": like "same" - the attempt with too little gas runs out of it at the very end, after it has moved the
              \* coins inside the execution context -, then a plain transfer INTO the operation's recipient, then the operation
              /\ (op.pair = "samerin" => Embedded(k) /\ HasRcpt(k, op.m) /\ op.m # "terminate" /\ op.gas = "enough" /\ op.arg \in {"valid", "valid2"}
                                          /\ op.amt = DefAmt(k, op.m) /\ op.who = DefWho(k, op.m))
              /\ (IsSandwich(op) => /\ (op.arg = "valid" \/ (op.arg = "valid2" /\ op.pair \in {"sw-self-again", "sw-cin-again", "sw-xout-emb"}))
                                    /\ op.gas = "enough" /\ op.m # "unknown"
                                    /\ (op.pair \in {"sw-none-termemb", "sw-self-termemb", "sw-cin-termemb", "sw-xout-termemb"} => Embedded(k) /\ op.m # "terminate")
                                    /\ op.amt = DefAmt(k, op.m) /\ op.who = DefWho(k, op.m))
              /\ (op.pair \in Prefunds => Creates(k, op) /\ op.arg \in {"valid", "valid2"} /\ op.gas \in {"enough", "small", "smallrem"})
              /\ (op.m = "terminate" => op.amt = "zero")}
          \cup {[m |-> "fund", arg |-> "valid", amt |-> "big", gas |-> "enough", who |-> "other", pair |-> "no"],
                [m |-> "wait", arg |-> "valid", amt |-> "zero", gas |-> "enough", who |-> "other", pair |-> "no"]}
          \cup (IF Deep /\ k = "voting"
                THEN {[m |-> "longwait", arg |-> "valid", amt |-> "zero", gas |-> "enough", who |-> "other", pair |-> "no"]} ELSE {})

OpsOf == [k \in Contracts |-> Ops(k)]      \* constant: evaluated once

WellFormed(op) == op.gas = "enough"      \* ("exact" probes the boundary: promise gas of wasm contracts is reserved on top)
Paid(op) == op.amt \in {"some", "big"}

CanTerm(k, st) ==
    CASE k = "timelock"   -> ~st.funded /\ st.var = 1
      [] k = "multisig"   -> ~st.funded
      [] k = "oraclelock" -> w = "base"
      [] k = "refundlock" -> ~st.funded
      [] k = "voting"     -> st.stage = 6
      [] OTHER            -> FALSE

(* expected lifecycle effect of a method call in state st *)
Progress(k, st, op) ==
    LET m == op.m  a == op.arg  r == op.who IN
    CASE k = "timelock" /\ m = "transfer" /\ r = "owner" /\ st.funded /\ st.var = 1 /\ a \in {"valid", "valid2"}
            -> [st EXCEPT !.funded = (a = "valid")]
      [] k = "multisig" /\ m = "add" /\ r = "owner" /\ ((st.stage = 0 /\ a = "valid") \/ (st.stage = 1 /\ a = "valid2"))
            -> [st EXCEPT !.stage = @ + 1]
      [] k = "multisig" /\ m = "send" /\ r = "voter" /\ st.stage = 2 /\ a \in {"valid", "over"}
            -> [st EXCEPT !.stage = IF a = "valid" THEN 3 ELSE 4]
      [] k = "multisig" /\ m = "push" /\ st.stage = 3 /\ a = "valid" /\ st.funded /\ st.var = 1
            -> [st EXCEPT !.stage = 2]
      [] k = "oraclelock" /\ m = "checkOracleVoting" /\ w = "voted" /\ st.stage = 0
            -> [st EXCEPT !.stage = 1]
      [] k = "oraclelock" /\ m = "push" /\ st.stage = 1
            -> [st EXCEPT !.stage = 2, !.funded = FALSE]
      [] k = "refundlock" /\ m = "deposit" /\ st.stage \in {0, 1} /\ Paid(op)
            -> [st EXCEPT !.stage = 1, !.funded = TRUE]
      [] k = "refundlock" /\ m = "push" /\ st.stage = 1
            -> IF w = "voted" /\ st.var = 1 THEN [st EXCEPT !.stage = 5, !.funded = FALSE] ELSE [st EXCEPT !.stage = 2]
      [] k = "refundlock" /\ m = "refund" /\ st.stage = 3
            -> [st EXCEPT !.stage = 4, !.funded = FALSE]
      [] k = "voting" /\ m = "startVoting" /\ st.stage = 0 /\ st.funded /\ st.var = 1
            -> [st EXCEPT !.stage = 1]
      [] k = "voting" /\ m = "sendVoteProof" /\ st.stage = 1 /\ r = "voter" /\ Paid(op) /\ a = "valid"
            -> [st EXCEPT !.stage = 2]
      [] k = "voting" /\ m = "sendVote" /\ st.stage = 3 /\ r = "voter" /\ a = "valid"
            -> [st EXCEPT !.stage = 4]
      [] k = "voting" /\ m = "finishVoting" /\ st.stage = 4
            -> [st EXCEPT !.stage = 5, !.funded = FALSE]
      [] OTHER -> st

Step(k, st, op) ==
    IF op.m = "fund" THEN (IF st.life = "live" THEN [st EXCEPT !.funded = TRUE] ELSE st)
    ELSE IF op.m = "wait" THEN
        (IF k = "voting" /\ st.stage = 2 THEN [st EXCEPT !.stage = 3]
         ELSE IF k = "refundlock" /\ st.stage = 2 THEN [st EXCEPT !.stage = 3] ELSE st)
    ELSE IF op.m = "longwait" THEN (IF st.stage = 1 THEN [st EXCEPT !.stage = 6] ELSE st)
    ELSE IF ~WellFormed(op) THEN st
    ELSE IF op.m = "deploy" THEN
        (IF st.life = "none" /\ op.arg \in {"valid", "valid2"} /\ (Embedded(k) => Paid(op))
         THEN [life |-> "live", stage |-> 0, funded |-> (~Embedded(k) /\ op.amt # "zero"), var |-> IF op.arg = "valid" THEN 1 ELSE 2]
         ELSE st)
    ELSE IF st.life # "live" THEN st
    ELSE IF op.m = "terminate" THEN
        (IF op.who = "owner" /\ op.arg = "valid" /\ CanTerm(k, st) THEN [st EXCEPT !.life = "dead"] ELSE st)
    ELSE IF op.m = "unknown" THEN st
    ELSE Progress(k, st, op)

Init == /\ c \in Contracts /\ w \in Presets(c)
        /\ s = [life |-> "none", stage |-> 0, funded |-> FALSE, var |-> 1]
        /\ hist = <<>>

(* before a deployment only deployments reach a block (calls to an address without code are    *)
(* refused by validation); a terminated instance ends the scenario                            *)
Next == \E op \in OpsOf[c] :
          /\ (s.life = "live" \/ (s.life = "none" /\ op.m = "deploy"))
          /\ (op.m = "longwait" => s.stage = 1)          \* (the long wait is only worth its > 30000 blocks where it leads somewhere)
          \* (a sandwich never lies on the path to a lifecycle state: it is generated as a last step only)
          /\ s' = IF IsSandwich(op) THEN s ELSE Step(c, s, op)
          /\ hist' = Append(hist, op @@ [good |-> (Step(c, s, [op EXCEPT !.pair = "no"]) # s)])
          /\ UNCHANGED <<c, w>>

Export == IF ExportOn THEN PrintT(ToJson([c |-> c, w |-> w, path |-> hist'])) ELSE TRUE

(* simulation mode (random walks): TLC evaluates invariants on every candidate successor, so a   *)
(* walk is exported exactly once - when it has WalkLen steps and the candidate step is "wait" -   *)
(* or when it ends early because the instance was terminated                                     *)
WalkExport == IF ExportOn /\ ((Len(hist) = WalkLen /\ hist[WalkLen].m = "wait") \/ (s.life = "dead" /\ Len(hist) >= 3 /\ Len(hist) <= WalkLen))
              THEN PrintT(ToJson([c |-> c, w |-> w, path |-> hist])) ELSE TRUE

TypeOK == s.life \in {"none", "live", "dead"} /\ s.stage \in 0..6
=============================================================================
