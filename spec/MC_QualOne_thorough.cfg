CONSTANTS
  MaxAnswers = 24
  MaxCommittee = 11
  BigSizes = {50, 100, 200}
  ExportOn = TRUE
INIT Init
NEXT Next
INVARIANTS InvGradeConsistent InvReportHonoured InvAnswerBacked InvConsensusHonoured InvSymmetric InvMonotone
ACTION_CONSTRAINT Export
CHECK_DEADLOCK FALSE
