----------------------------- MODULE MC_QualPop -----------------------------
(* Small populations for qualifyFlips / qualifyCandidate: TLC builds every population of the families below      *)
(* (BFS: Init / Next) or random populations cell by cell (simulation: SimInit / SimNext), evaluates the model   *)
(* (QualifyFlips, and QualifyCandidate for every candidate in both sessions), checks the design-level clauses on  *)
(* the model's own result and exports population + expected result for replay on the REAL code.                  *)
(*                                                                                                              *)
(* A population is [nf, u10, u11, na, cands]; a candidate [s, j, f, c, hs, sf, sa, au]:                           *)
(*   s  long payload  0 none, 1 parsable, 2 garbage        j  stray bit beyond the long answer bits              *)
(*   f, c   long flips and raw cells                        hs short payload 0 none, 1 garbage, 2 parsable       *)
(*   sf, sa short flips and raw cells (grade bits 0)        au 1: the long answers open the committed short      *)
(*   answers (hash, salt, words rnd); 0: other salt; 2: no answer hash on record; 3: other words rnd             *)
(*   na = not approved flips (sequence)                                                                         *)
(*                                                                                                              *)
(* Families (one seed state each, the populations are its successors, so that the workers share the work):       *)
(*   committee  one target flip judged by K candidates, each with a target cell and a profile of its two private *)
(*              flips (plain / one approval / two increased grades / a second report = over the allowance), as   *)
(*              multisets; every composition of a report committee up to K members                               *)
(*   allowance  a subject with n flips reporting r of them, one helper reporting the same flips within its own    *)
(*              allowance: whether the subject's reports count decides whether those flips are Reported          *)
(*   silent     SilentWhenAllZero and its neighbours: all-zero answers, all-zero + stray bit, one grade only,    *)
(*              nothing sent, garbage, no flips at all                                                          *)
(*   decode     every raw cell (both answer bits, grade patterns 6 and 7) in a committee of two or three         *)
EXTENDS Qualification, Json, TLC, IOUtils
CONSTANTS MaxK, AllowN, BigAllow, SimC, SimF, SampleMod, Seed, ExportOn

VARIABLES pop, res, stage
vars == <<pop, res, stage>>

Flags == {<<FALSE, FALSE>>, <<TRUE, FALSE>>, <<TRUE, TRUE>>}

Cand(s, j, f, c, hs, sf, sa, au) == [s |-> s, j |-> j, f |-> f, c |-> c, hs |-> hs, sf |-> sf, sa |-> sa, au |-> au]
Pop(nf, fl, na, cands) == [nf |-> nf, u10 |-> fl[1], u11 |-> fl[2], na |-> na, cands |-> cands]
SetOf(s) == {s[i] : i \in 1..Len(s)}

(* ---- committee ------------------------------------------------------------------------------------------------ *)
TargetCells == <<<<Left, GNone>>, <<Left, GReported>>, <<Right, GReported>>, <<Left, GD>>, <<Right, GA>>, <<None, GNone>>,
                 <<None, GReported>>, <<Right, GNone>>>>
Profiles == <<  <<<<Left, GNone>>, <<Left, GNone>>>>,          \* plain
                <<<<Left, GD>>, <<Left, GNone>>>>,             \* one approval elsewhere
                <<<<Left, GA>>, <<Left, GB>>>>,                \* two increased grades
                <<<<Left, GReported>>, <<Left, GNone>>>>  >>   \* a second report: 2 of 3 flips
NT == Len(TargetCells)
NP == Len(Profiles)
\* member i of a committee: index x in 0..(NT * NP - 1)
Member(i, x) ==
    LET t == TargetCells[(x % NT) + 1]
        p == Profiles[(x \div NT) + 1]
    IN Cand(1, 0, <<0, 2 * i - 1, 2 * i>>, <<t, p[1], p[2]>>, 2, <<0, 2 * i - 1>>, <<<<t[1], 0>>, <<Left, 0>>>>, 1)
\* non-decreasing member sequences starting with member `lo` (multisets of members, one seed per smallest member)
Sorted(K, lo) == {<<lo>> \o t : t \in {u \in [1..(K - 1) -> lo..(NT * NP - 1)] : \A i \in 1..(K - 2) : u[i] <= u[i + 1]}}
\* committees are sampled (one in SampleMod, which ones depends on the run's seed: VERIF_SEED in the environment, else Seed)
SeedV == IF "VERIF_SEED" \in DOMAIN IOEnv THEN atoi(IOEnv.VERIF_SEED) ELSE Seed
Sampled(s, K) == SampleMod = 1 \/ (SumOver([i \in 1..K |-> s[i] * (2 * i + 1)], 1..K) + SeedV) % SampleMod = 0
CommitteePops(K, fl, lo) ==
    {Pop(1 + 2 * K, fl, <<>>, [i \in 1..K |-> Member(i, s[i])]) : s \in {x \in Sorted(K, lo) : Sampled(x, K)}}

(* ---- allowance ------------------------------------------------------------------------------------------------ *)
\* subject: flips 0..n-1, reports the first r, approves the next one (if any); helper: the r reported flips + 2r private ones
\* (r of 3r: within the allowance), reporting (hk = 1) or approving (hk = 2) the shared flips
AllowPop(n, r, hk, fl) ==
    LET subj == Cand(1, 0, [i \in 1..n |-> i - 1],
                     [i \in 1..n |-> IF i <= r THEN <<Left, GReported>> ELSE IF i = r + 1 THEN <<Left, GD>> ELSE <<Left, GNone>>],
                     2, <<>>, <<>>, 1)
        help == Cand(1, 0, [i \in 1..(3 * r) |-> IF i <= r THEN i - 1 ELSE n + i - r - 1],
                     [i \in 1..(3 * r) |-> IF i <= r THEN <<Left, IF hk = 1 THEN GReported ELSE GD>>
                                           ELSE IF i = r + 1 THEN <<Right, GD>> ELSE <<Right, GNone>>],
                     2, <<>>, <<>>, 1)
    IN Pop(n + 2 * r, fl, <<>>, IF r = 0 THEN <<subj>> ELSE <<subj, help>>)
AllowPairs(maxn) == {<<n, r>> \in (1..maxn) \X (0..maxn) : r <= n /\ r <= ((34 * n) \div 100) + 2}
AllowPops(fl) == {AllowPop(p[1], p[2], hk, fl) : p \in AllowPairs(AllowN), hk \in {1, 2}}
                 \cup {AllowPop(n, r, 1, fl) : n \in BigAllow, r \in {x \in 0..200 : \E m \in BigAllow : x \in (((34 * m) \div 100) - 1)..(((34 * m) \div 100) + 1)}}

(* ---- silent ---------------------------------------------------------------------------------------------------- *)
Zero3 == <<<<0, 0>>, <<0, 0>>, <<0, 0>>>>
SilentKinds == <<
    Cand(1, 0, <<0, 1, 2>>, Zero3, 2, <<0, 1>>, <<<<0, 0>>, <<0, 0>>>>, 1),                            \* all zero: silent
    Cand(1, 1, <<0, 1, 2>>, Zero3, 2, <<0, 1>>, <<<<Left, 0>>, <<0, 0>>>>, 1),                         \* all zero + stray bit: counted
    Cand(1, 0, <<0, 1, 2>>, <<<<0, 0>>, <<0, GD>>, <<0, 0>>>>, 2, <<0, 1>>, <<<<Left, 0>>, <<Right, 0>>>>, 1),  \* one grade only
    Cand(1, 0, <<0, 1, 2>>, <<<<0, GReported>>, <<0, 0>>, <<0, 0>>>>, 2, <<>>, <<>>, 1),               \* one report only
    Cand(0, 0, <<0, 1, 2>>, Zero3, 2, <<0, 1>>, <<<<Left, 0>>, <<Left, 0>>>>, 1),                      \* nothing sent (long)
    Cand(2, 0, <<0, 1, 2>>, Zero3, 2, <<0, 1>>, <<<<Left, 0>>, <<Left, 0>>>>, 1),                      \* garbage (long)
    Cand(1, 1, <<>>, <<>>, 2, <<>>, <<>>, 1),                                                          \* no flips, stray bit
    Cand(1, 0, <<0, 1, 2>>, <<<<0, 7>>, <<0, 0>>, <<0, 0>>>>, 0, <<0, 1>>, <<<<Left, 0>>, <<Left, 0>>>>, 1),  \* high grade pattern only; no short payload
    Cand(1, 0, <<0, 1, 2>>, <<<<Left, GD>>, <<Left, 0>>, <<Left, 0>>>>, 1, <<0, 1>>, <<<<Left, 0>>, <<Left, 0>>>>, 1), \* garbage short payload
    Cand(1, 0, <<0, 1, 2>>, <<<<Left, GD>>, <<Left, 0>>, <<Left, 0>>>>, 2, <<0, 1>>, <<<<Left, 0>>, <<Left, 0>>>>, 0), \* other salt
    Cand(1, 0, <<0, 1, 2>>, <<<<Left, GD>>, <<Left, 0>>, <<Left, 0>>>>, 2, <<0, 1>>, <<<<Left, 0>>, <<Left, 0>>>>, 2), \* no answer hash
    Cand(1, 0, <<0, 1, 2>>, <<<<Left, GD>>, <<Left, 0>>, <<Left, 0>>>>, 2, <<0, 1>>, <<<<Left, 0>>, <<Left, 0>>>>, 3)  \* other words rnd
>>
Plain3(a, g) == Cand(1, 0, <<0, 1, 2>>, <<<<a, g>>, <<a, 0>>, <<a, 0>>>>, 2, <<0, 1, 2>>, <<<<a, 0>>, <<a, 0>>, <<0, 0>>>>, 1)
SilentPops(fl) == {Pop(3, fl, na, cs) : na \in {<<>>, <<0>>},
                   cs \in {<<SilentKinds[i], Plain3(a, GD)>> : i \in 1..Len(SilentKinds), a \in {Left, None}}
                      \cup {<<SilentKinds[i], SilentKinds[k], Plain3(Right, GD)>> : i \in 1..Len(SilentKinds), k \in 1..Len(SilentKinds)}
                      \cup {<<SilentKinds[i]>> : i \in 1..Len(SilentKinds)}}

(* ---- decode ---------------------------------------------------------------------------------------------------- *)
RawCells == (0..3) \X (0..7)
DecodePops(fl) == {Pop(3, fl, <<>>, <<Cand(1, 0, <<0, 1, 2>>, <<x, <<Left, GD>>, <<Right, 0>>>>, 2, <<0, 2>>, <<<<x[1], x[2]>>, <<Right, 0>>>>, 1)>> \o oth)
                   : x \in RawCells,
                     oth \in {<<Plain3(Left, GD)>>, <<Plain3(Right, GReported)>>, <<Plain3(Left, GReported), Plain3(Left, GD)>>}}

(* ---- the families as seeds ---------------------------------------------------------------------------------------- *)
Seeds == ({"committee"} \X Flags \X (2..MaxK) \X (0..(NT * NP - 1)))
         \cup ({"allowance", "silent", "decode"} \X Flags \X {0} \X {0})
PopsOf(sd) == IF sd[1] = "committee" THEN CommitteePops(sd[3], sd[2], sd[4])
              ELSE IF sd[1] = "allowance" THEN AllowPops(sd[2])
              ELSE IF sd[1] = "silent" THEN SilentPops(sd[2])
              ELSE DecodePops(sd[2])

(* ---- evaluation ---------------------------------------------------------------------------------------------------- *)
ObsFlip(o) == [st |-> o.st, an |-> o.an, gr |-> o.gr, gs |-> Micro(o.gsn, o.gsd)]
\* the long / short candidate contexts of candidate k over the flip qualifications fq (observation format)
FqSeq(fq, fts) == [i \in 1..Len(fts) |-> <<fts[i], fq[fts[i] + 1].st, fq[fts[i] + 1].an, fq[fts[i] + 1].gr>>]
LongCtx(P, fq, k) ==
    LET c == P.cands[k] IN
    [short |-> FALSE, has |-> IF c.s = 0 THEN 0 ELSE IF c.s = 2 THEN 1 ELSE 2, auth |-> IF c.au = 1 /\ c.hs = 2 THEN 1 ELSE 0,
     fts |-> c.f, ans |-> c.c, na |-> SetOf(P.na), fq |-> FqSeq(fq, c.f)]
ShortCtx(P, fq, k) ==
    LET c == P.cands[k] IN
    [short |-> TRUE, has |-> IF c.hs = 0 THEN 0 ELSE IF c.hs = 1 THEN 1 ELSE 2, auth |-> 1,
     fts |-> c.sf, ans |-> c.sa, na |-> SetOf(P.na), fq |-> FqSeq(fq, c.sf)]
Model(P) ==
    LET r  == QualifyFlips(P)
        fq == [x \in 1..P.nf |-> ObsFlip(r.fq[x])]
    IN [fq |-> fq, rw |-> r.rw, wr |-> r.wr,
        long  |-> [k \in 1..Len(P.cands) |-> QualifyCandidate(LongCtx(P, fq, k))],
        short |-> [k \in 1..Len(P.cands) |-> QualifyCandidate(ShortCtx(P, fq, k))]]

Init == pop \in Seeds /\ res = <<>> /\ stage = <<"seed">>
Build == /\ stage = <<"seed">>
         /\ \E P \in PopsOf(pop) : pop' = P /\ res' = Model(P) /\ stage' = <<"done">>
Next == Build

(* ---- random populations, cell by cell (simulation mode) ------------------------------------------------------------- *)
SimCells == <<  <<<<Left, 0>>, <<Right, 0>>, <<None, 0>>, <<Left, 0>>>>,                                   \* plain solver
                <<<<Left, GD>>, <<Right, GD>>, <<Left, 0>>, <<Left, GC>>, <<None, GD>>, <<Right, 0>>>>,     \* grader
                <<<<Left, GReported>>, <<Right, GReported>>, <<Left, GD>>, <<Left, 0>>, <<Right, 0>>, <<None, GReported>>>>,  \* reporter
                <<<<Left, GA>>, <<Right, GB>>, <<Left, GReported>>, <<3, GD>>, <<Left, 6>>, <<None, 0>>, <<Right, 7>>>>  >>   \* odd
Window(start, len, nf) == [i \in 1..len |-> (start + i - 1) % nf]

SimInit == /\ \E nf \in 2..SimF, fl \in Flags, na \in {<<>>, <<0>>, <<1>>, <<0, 1>>} : pop = Pop(nf, fl, na, <<>>)
           /\ res = <<>> /\ stage = <<"cand">>
\* a new candidate in three steps: payload kinds <<s, j, hs, au>>, profile + window of long flips, window of short flips
PayloadKinds == <<<<1, 0, 2, 1>>, <<1, 0, 2, 1>>, <<1, 0, 2, 1>>, <<1, 0, 2, 1>>, <<1, 1, 2, 1>>, <<0, 0, 2, 1>>, <<2, 0, 2, 1>>, <<1, 0, 0, 1>>,
                  <<1, 0, 1, 1>>, <<1, 0, 2, 0>>, <<1, 0, 2, 2>>, <<1, 0, 2, 3>>, <<0, 0, 0, 1>>>>
SimCand == /\ stage = <<"cand">> /\ Len(pop.cands) < SimC
           /\ \E i \in 1..Len(PayloadKinds) : LET pk == PayloadKinds[i] IN
                 pop' = [pop EXCEPT !.cands = Append(@, Cand(pk[1], pk[2], <<>>, <<>>, pk[3], <<>>, <<>>, pk[4]))]
           /\ stage' = <<"long">> /\ res' = res
SimLong == /\ stage = <<"long">>
           /\ \E prof \in 1..Len(SimCells), start \in 0..(pop.nf - 1), len \in 0..pop.nf :
                 /\ pop' = [pop EXCEPT !.cands[Len(pop.cands)].f = Window(start, len, pop.nf)]
                 /\ stage' = <<"short", prof>>
           /\ res' = res
SimShort == /\ stage[1] = "short"
            /\ \E start \in 0..(pop.nf - 1), len \in 0..Min(pop.nf, ShortFlips + ShortExtraFlips) :
                  pop' = [pop EXCEPT !.cands[Len(pop.cands)].sf = Window(start, len, pop.nf)]
            /\ stage' = <<"cells", stage[2]>> /\ res' = res
SimCell == /\ stage[1] = "cells"
           /\ LET k == Len(pop.cands)
                  c == pop.cands[k]
              IN IF Len(c.c) < Len(c.f)
                 THEN \E x \in SetOf(SimCells[stage[2]]) : pop' = [pop EXCEPT !.cands[k].c = Append(@, x)] /\ stage' = stage
                 ELSE IF Len(c.sa) < Len(c.sf)
                 THEN \E a \in 0..3 : pop' = [pop EXCEPT !.cands[k].sa = Append(@, <<a, 0>>)] /\ stage' = stage
                 ELSE pop' = pop /\ stage' = <<"cand">>
           /\ res' = res
SimDone == /\ stage = <<"cand">> /\ Len(pop.cands) >= 2
           /\ pop' = pop /\ res' = Model(pop) /\ stage' = <<"done">>
SimNext == SimCand \/ SimLong \/ SimShort \/ SimCell \/ SimDone

(* ---- export and design-level clauses ----------------------------------------------------------------------------------- *)
SetSeq(S) == LET RECURSIVE ToSeq(_) ToSeq(T) == IF T = {} THEN <<>> ELSE LET m == CHOOSE x \in T : \A y \in T : x <= y IN <<m>> \o ToSeq(T \ {m}) IN ToSeq(S)
ExpFlips(r) == [fq |-> r.fq, rw |-> [x \in DOMAIN r.rw |-> SetSeq(r.rw[x])], wr |-> r.wr, long |-> r.long, short |-> r.short]
Export == IF ExportOn /\ stage' = <<"done">>
          THEN PrintT(ToJson([fam |-> IF stage = <<"seed">> THEN pop[1] ELSE "sim", pop |-> pop', expect |-> ExpFlips(res')]))
          ELSE TRUE

Done == stage = <<"done">>
ObsOf == [fq |-> res.fq, rw |-> res.rw, wr |-> res.wr]
InvDomain            == Done => PopInDomain(pop)
InvOnlyAssigned      == Done => PopOnlyAssigned(pop, ObsOf)
InvReportLimit       == Done => PopReportLimit(pop, ObsOf)
InvRewardOnlyReported == Done => PopRewardOnlyReported(pop, ObsOf)
InvReportersRewarded == Done => PopReportersRewarded(pop, ObsOf)
InvGradeConsistent   == Done => PopGradeConsistent(pop, ObsOf)
InvReportHonoured    == Done => PopReportHonoured(pop, ObsOf)
InvAnswerBacked      == Done => PopAnswerBacked(pop, ObsOf)
InvConsensusHonoured == Done => PopConsensusHonoured(pop, ObsOf)
CandClauses(C, o) == /\ CandInDomain(C) /\ CandNoAnswerNoPoint(C, o) /\ CandScoreInRange(C, o) /\ CandPointJustified(C, o)
                     /\ CandQualifiedCounts(C, o) /\ CandTestingFlips(C, o)
InvCandidates == Done => \A k \in 1..Len(pop.cands) :
                             /\ CandClauses(LongCtx(pop, res.fq, k), res.long[k])
                             /\ CandClauses(ShortCtx(pop, res.fq, k), res.short[k])
\* the result does not depend on the order of the candidates
InvPermutation == (Done /\ Len(pop.cands) >= 2) =>
    LET n == Len(pop.cands)
        rev == [pop EXCEPT !.cands = [i \in 1..n |-> pop.cands[n + 1 - i]]]
        r2 == QualifyFlips(rev)
    IN /\ \A x \in 1..pop.nf : ObsFlip(r2.fq[x]) = res.fq[x] /\ r2.rw[x] = {n + 1 - k : k \in res.rw[x]}
       /\ \A k \in 1..n : r2.wr[k] = res.wr[n + 1 - k]
=============================================================================
