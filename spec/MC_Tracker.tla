----------------------------- MODULE MC_Tracker -----------------------------
(* Bounded model run of Tracker + export of schedules for replay on the real tracker. *)
EXTENDS Tracker, Json
CONSTANTS ExportOn, MaxAnn,  \* MaxAnn bounds the number of announcements in a behaviour
          SampleMod          \* BFS export keeps every head-change transition and 1/SampleMod of the others

VARIABLE hist               \* the schedule so far (not in the VIEW)
mvars == <<vars, hist>>
view == <<now, has, cnt, active, pend, pc, obj, pulls, regs, late, capw>>   \* without the outputs (out, lab) and hist

MInit == Init /\ hist = <<>>
Anns == Cardinality({i \in 1..Len(hist) : hist[i].ev \in {"Announce", "AnnounceSplit", "AnnounceHold"}})
MNext == /\ \/ (Anns < MaxAnn /\ \E p \in Peers, h \in Hashes : Announce(p, h))
            \/ (Anns < MaxAnn /\ \E p \in Peers, h \in Hashes : AnnounceSplit(p, h))
            \/ (Anns < MaxAnn /\ \E p \in Peers, h \in Hashes : AnnounceHold(p, h))
            \/ \E p \in Peers, h \in Hashes : AnnounceResume(p, h)
            \/ \E h \in Hashes : RegisterLate(h)
            \/ \E h \in Hashes : Arrive(h)
            \/ Tick
            \/ LoopPoll
            \/ LoopWake
            \/ LoopPollHold
            \/ LoopWakeHold
            \/ LoopCrit
         /\ hist' = Append(hist, lab')

\* every explored transition is printed with one concrete schedule reaching it
\* BFS export: loop steps that do something after a head change, a re-queue, or an emission
Interesting == /\ lab'.ev \in {"LoopWake", "LoopPoll"}
               /\ \/ (pc = "sleep" /\ (pend = <<>> \/ Head(pend) # obj))      \* head changed while sleeping
                  \/ (Len(pend') = Len(pend) /\ pend' # pend)                  \* MoveWithNewTime
                  \/ out' # <<>>                                              \* emission
                  \/ Len(pend') < Len(pend)                                   \* removal
Kind == IF pc = "sleep" /\ (pend = <<>> \/ Head(pend) # obj) THEN "headchange"
        ELSE IF pc = "sleep" /\ pend # <<>> /\ Head(pend) = obj /\ active[obj.h] > obj.t /\ late' = late /\
                (\E i \in 1..Len(hist) : hist[i].ev = "RegisterLate" /\ hist[i].h = obj.h)
             THEN "staleread"   \* a late registration may have landed while the loop slept
        ELSE IF Len(pend') = Len(pend) /\ pend' # pend THEN "move"
        ELSE IF out' # <<>> THEN "emit" ELSE "remove"
Export == IF ExportOn /\ Interesting /\ (Kind = "headchange" \/ RandomElement(1..SampleMod) = 1) THEN PrintT(ToJson([kind |-> Kind, sched |-> hist'])) ELSE TRUE
\* cap family (MC_Tracker_cap.cfg): every resume of a pre-empted announcer, keyed by how many were waiting and the ticket
NEv(e) == Cardinality({i \in 1..Len(hist') : hist'[i].ev = e})
CapKind == "hold" \o ToString(NEv("AnnounceHold")) \o "resume" \o ToString(NEv("AnnounceResume")) \o (IF out' # <<>> THEN "ask" ELSE "queue")
ExportCap == IF ExportOn /\ lab'.ev = "AnnounceResume" /\ RandomElement(1..SampleMod) = 1
             THEN PrintT(ToJson([kind |-> CapKind, sched |-> hist'])) ELSE TRUE
\* critical-section family (MC_Tracker_crit.cfg): every exit from the critical section, keyed by what ran inside it
LastHold == CHOOSE i \in 1..Len(hist) : hist[i].ev \in {"LoopPollHold", "LoopWakeHold"} /\ \A j \in (i + 1)..Len(hist) : hist[j].ev \notin {"LoopPollHold", "LoopWakeHold"}
Inside == {hist[i] : i \in (LastHold + 1)..Len(hist)}
CritKind == "crit" \o (IF \E e \in Inside : e.ev = "Arrive" /\ e.h = obj.h THEN "-arrived" ELSE "")
                   \o (IF \E e \in Inside : e.ev = "Arrive" /\ e.h # obj.h THEN "-otherarrived" ELSE "")
                   \o (IF \E e \in Inside : e.ev \in {"Announce", "AnnounceSplit", "RegisterLate", "AnnounceResume"} THEN "-announced" ELSE "")
                   \o (IF Len(pend) > 1 THEN "-more" ELSE "-last")
                   \o (IF out' # <<>> THEN "-emit" ELSE IF Len(pend') < Len(pend) THEN "-drop" ELSE "-move")
ExportCrit == IF ExportOn /\ lab'.ev = "LoopCrit" /\ RandomElement(1..SampleMod) = 1
              THEN PrintT(ToJson([kind |-> CritKind, sched |-> hist'])) ELSE TRUE
\* push-type family (MC_Tracker_types.cfg): every announcement of an item whose 128-bit hash value is shared with an item of the
\* OTHER push type, keyed by both items' registry counters and by whether the twin is stored
Twin(h) == IF h >= PlainBase THEN h - PlainBase ELSE h + PlainBase
TypesKind == "types-" \o (IF lab'.h \in Plain THEN "plain" ELSE "tracked") \o "-own" \o ToString(cnt[lab'.h])
                      \o "-twin" \o ToString(cnt[Twin(lab'.h)]) \o (IF Twin(lab'.h) \in has THEN "-twinstored" ELSE "")
                      \o (IF out' # <<>> THEN "-ask" ELSE "-quiet")
ExportTypes == IF ExportOn /\ lab'.ev = "Announce" /\ Twin(lab'.h) \in Hashes /\ RandomElement(1..SampleMod) = 1
               THEN PrintT(ToJson([kind |-> TypesKind, sched |-> hist'])) ELSE TRUE
\* simulation export: every step (the runner keeps maximal walks)
ExportAll == IF ExportOn THEN PrintT(ToJson([sched |-> hist'])) ELSE TRUE
=============================================================================
