------------------------------- MODULE Offline -------------------------------
(* Offline detection, offline penalties and online status switching (growth module "OD" of C10).            *)
(*                                                                                                          *)
(* What is modelled (one definition per real step, written over explicit records so that the model run and   *)
(* the trace specification share them):                                                                     *)
(*   blockchain/offline_detector.go  ProposeOffline  -> HonestOff        (what an honest proposer writes)    *)
(*                                   VoteForOffline  -> HonestVote       (TurnOffline flag of an honest vote) *)
(*                                   ValidateBlock   -> DetAccepts       (what validators check before voting)*)
(*                                   verifyOfflineProposing -> Thr       (required TurnOffline votes)         *)
(*   blockchain/blockchain.go        applyBlockOnState: OnlineStatusTx (toggle / cancel), calculateFlags     *)
(*                                   (IdentityUpdate every StatusSwitchRange blocks while something pends),  *)
(*                                   applyStatusSwitch, applyDelayedOfflinePenalties, epoch clearing,        *)
(*                                   penalty seconds served at rewards (calculatePenalty), applyOfflinePenalty*)
(*                                   -> ApplyBlock                                                           *)
(*   blockchain/validation           validateOnlineStatusTx -> TxClass                                       *)
(*   Blockchain.ValidateBlock        only refuses OfflineCommit without address -> ChainMustRefuse           *)
(*                                                                                                          *)
(* The coin-denominated penalty (Blockchain.calculatePenalty(addr), pool multiplier) is dead code in this    *)
(* version of the node: penalties are "penalty seconds" (OfflinePenaltyDuration) during which an online      *)
(* identity earns nothing; that is what is specified here.                                                   *)
(*                                                                                                          *)
(* A chain state is a record                                                                                *)
(*   [online, valid, pend, delayed : SUBSET ids, dc, ps, pts : [ids -> Int], period : Int, net : Int]       *)
(* (dc[a] = entries of a in the list of delayed offline penalties, delayed = {a : dc[a] > 0})               *)
(* a block is                                                                                               *)
(*   [h, t, empty, idupd, valfin, snap, off |-> [f, a], txs : Seq([from, on]), com : SUBSET ids, prop]      *)
(* (com = the final committee the reward context was built for, prop = the proposer; both logged and bound) *)
(* off.f: 0 none, 1 OfflinePropose, 2 OfflineCommit, 3 both; off.a = -1: no address.                         *)
(* cfg = [R, PD, PI, VI, RI, MaxC3]: StatusSwitchRange, OfflinePenaltyDuration, OfflineProposeInterval,      *)
(* OfflineVoteInterval, IntervalBetweenOfflineRetry (seconds), 3 * MaxCommitteeSize.                         *)
EXTENDS Integers, Sequences, FiniteSets, TLC

NoAddr == -1
Min(a, b) == IF a < b THEN a ELSE b
HasP(f) == f = 1 \/ f = 3
HasC(f) == f = 2 \/ f = 3
NoOff == [f |-> 0, a |-> NoAddr]

---------------------------------------------------------------------------
(* transactions *)

Toggle(S, a) == IF a \in S THEN S \ {a} ELSE S \cup {a}

\* blockchain.go applyTxOnState, case OnlineStatusTx: an identity with a delayed offline penalty cancels it
\* (whatever status it asks for), anybody else toggles its pending switch
\* (the delayed penalties are a LIST in the state: dc[a] = number of entries of a; delayed = the identities with an entry)
DSet(dc) == {a \in DOMAIN dc : dc[a] > 0}
RECURSIVE ApplyTxs(_, _)
ApplyTxs(pd, txs) ==
    IF txs = <<>> THEN pd
    ELSE LET x == Head(txs).from IN
         ApplyTxs(IF x \in DOMAIN pd.dc /\ pd.dc[x] > 0 THEN [pd EXCEPT !.dc[x] = @ - 1] ELSE [pd EXCEPT !.pend = Toggle(@, x)], Tail(txs))

\* validation.validateOnlineStatusTx on the head state (no delegations in the modelled worlds)
TxClass(c, from, on) ==
    IF c.period # 0 THEN "late"
    ELSE IF from \notin c.valid THEN "sender"
    ELSE LET isOn == from \in c.online
             pending == from \in c.pend
             delayedP == from \in c.delayed
         IN IF on /\ ((isOn /\ ~pending /\ ~delayedP) \/ (~isOn /\ pending)) THEN "on"
            ELSE IF ~on /\ ((~isOn /\ ~pending) \/ (isOn /\ pending)) THEN "off"
            ELSE "ok"

---------------------------------------------------------------------------
(* block application *)

\* calculatePenalty, seconds part: what an online identity serves between its penalty timestamp and this block
Served(ps, pts, t) == IF ps > 0 /\ pts > 0 /\ t > pts THEN Min(t - pts, ps) ELSE 0

\* calculateFlags: the switch block
SwitchDue(cfg, b, pd) == (b.snap \/ b.h % cfg.R = 0) /\ (pd.pend # {} \/ DSet(pd.dc) # {})

\* newValid: the validated set after the block (bound from the observation at epoch blocks: validation outcomes are
\* scenario input, not part of this module); ids: the universe the functions range over
ApplyBlock(cfg, ids, c, b, newValid) ==
    LET pd1 == ApplyTxs([pend |-> c.pend, dc |-> c.dc], IF b.empty THEN <<>> ELSE b.txs)
        \* applyStatusSwitch (IdentityUpdate blocks only)
        goOff == IF b.idupd THEN pd1.pend \cap c.online ELSE {}
        goOn  == IF b.idupd THEN {a \in pd1.pend \ c.online : a \in c.valid} ELSE {}
        sv1   == [a \in ids |-> IF a \in goOff THEN Served(c.ps[a], c.pts[a], b.t) ELSE 0]
        ps1   == [a \in ids |-> c.ps[a] - sv1[a]]
        pts1  == [a \in ids |-> IF a \in goOff /\ sv1[a] > 0 THEN 0
                                ELSE IF a \in goOn /\ c.ps[a] > 0 THEN b.t ELSE c.pts[a]]
        on1   == (c.online \ goOff) \cup goOn
        \* applyDelayedOfflinePenalties
        hit   == IF b.idupd THEN DSet(pd1.dc) ELSE {}
        ps2   == [a \in ids |-> IF a \in hit THEN cfg.PD ELSE ps1[a]]
        pts2  == [a \in ids |-> IF a \in hit THEN 0 ELSE pts1[a]]
        on2   == on1 \ hit
        \* applyNewEpoch: identities that are not validated any more go offline, every penalty is cleared
        ps3   == [a \in ids |-> IF b.valfin THEN 0 ELSE ps2[a]]
        pts3  == [a \in ids |-> IF b.valfin THEN 0 ELSE pts2[a]]
        on3   == IF b.valfin THEN on2 \cap newValid ELSE on2
        \* rewards: a penalised identity earns nothing and serves the time since its penalty timestamp; the final committee
        \* is paid first, the proposer afterwards (a proposer whose penalty ends with its committee share is paid as proposer)
        svA   == [a \in ids |-> IF ~b.empty /\ a \in b.com THEN Served(ps3[a], pts3[a], b.t) ELSE 0]
        psA   == [a \in ids |-> ps3[a] - svA[a]]
        ptsA  == [a \in ids |-> IF svA[a] > 0 THEN (IF psA[a] = 0 THEN 0 ELSE b.t) ELSE pts3[a]]
        sv4   == [a \in ids |-> IF ~b.empty /\ a = b.prop THEN Served(psA[a], ptsA[a], b.t) ELSE 0]
        ps4   == [a \in ids |-> psA[a] - sv4[a]]
        pts4  == [a \in ids |-> IF sv4[a] > 0 THEN (IF ps4[a] = 0 THEN 0 ELSE b.t) ELSE ptsA[a]]
        \* applyGlobalParams: OfflineCommit
        com   == ~b.empty /\ HasC(b.off.f) /\ b.off.a # NoAddr
        dc4   == [a \in ids |-> IF b.idupd THEN 0 ELSE pd1.dc[a]]
        dc5   == [a \in ids |-> dc4[a] + (IF com /\ c.net > 0 /\ a = b.off.a THEN 1 ELSE 0)]
        on5   == IF com /\ c.net = 0 THEN on3 \ {b.off.a} ELSE on3
    IN [online |-> on5, valid |-> newValid, pend |-> IF b.idupd THEN {} ELSE pd1.pend, delayed |-> DSet(dc5), dc |-> dc5,
        ps |-> ps4, pts |-> pts4,
        earnless |-> IF b.empty THEN {}                                       \* in line for a reward while penalised
                     ELSE {a \in b.com \ {b.prop} : ps3[a] > 0} \cup {a \in {b.prop} \cap ids : ps3[a] > 0 /\ psA[a] > 0},
        pd |-> pd1]

---------------------------------------------------------------------------
(* offline detector *)

\* verifyOfflineProposing (heights below the 3634300 switch): more than half of the online identities, capped
Thr(cfg, onlineSize) == Min(onlineSize \div 2 + 1, cfg.MaxC3)

\* verifyOfflineProposing above height 3634300 (the rule in force on the main network): the validators of the round's vote
\* steps must have been recorded for exactly the 4 allowed steps, and at least three quarters of their union (n identities)
\* voted TurnOffline (k of them); votes of others and votes without the flag do not count; `any` = some TurnOffline vote
\* for the block was heard at all
CommitteeThr(n, k, steps, any) == any /\ steps = 4 /\ 4 * k >= 3 * n

\* ValidateBlock of the detector: the check a validator runs on a proposal before it votes.  tov = TurnOffline voters
\* for the parent block this validator has heard.
DetAccepts(cfg, c, prev, off, tov) ==
    /\ off.f # 3
    /\ off.f \in {1, 2} =>
          /\ off.a # NoAddr
          /\ off.a \in c.online /\ off.a \notin c.delayed
          /\ c.period = 0
          /\ off.a \notin c.pend
          /\ off.f = 2 => /\ HasP(prev.f) /\ prev.a = off.a
                          /\ Cardinality(tov) >= Thr(cfg, Cardinality(c.online))

\* the part of it that only needs on-chain data (what block validation could check as well)
OnChainConsistent(c, prev, off) ==
    /\ off.f # 3
    /\ off.f \in {1, 2} =>
          /\ off.a # NoAddr
          /\ off.a \in c.online /\ off.a \notin c.delayed
          /\ c.period = 0
          /\ off.a \notin c.pend
          /\ off.f = 2 => (HasP(prev.f) /\ prev.a = off.a)

\* Blockchain.ValidateBlock / ValidateHeader: the only Offline rule on the chain path
ChainMustRefuse(off) == HasC(off.f) /\ off.a = NoAddr

\* first clause of the deterministic checks a block breaks ("" = none): the signature of a chain-path gap
Inconsistency(c, prev, off) ==
    IF off.f = 3 THEN "both-flags"
    ELSE IF off.f = 0 THEN ""
    ELSE IF off.a = NoAddr THEN "no-address"
    ELSE IF off.a \notin c.online THEN "target-not-online"
    ELSE IF off.a \in c.delayed THEN "target-already-penalised"
    ELSE IF c.period # 0 THEN "during-ceremony"
    ELSE IF off.a \in c.pend THEN "target-has-pending-switch"
    ELSE IF off.f = 2 /\ ~HasP(prev.f) THEN "commit-without-proposal"
    ELSE IF off.f = 2 /\ prev.a # off.a THEN "commit-for-other-address"
    ELSE ""

\* ProposeOffline of an honest proposer p whose detector has run for upAge seconds, has heard identity a idle[a] seconds
\* ago (-1 = never), proposed a retry[a] seconds ago (-1 = never) and knows the TurnOffline voters tov of the head block.
\* The result is the SET of admissible header choices (the detector iterates over a Go set: any candidate may come first).
Candidates(cfg, c, p, upAge, idle, retry) ==
    IF upAge < cfg.PI THEN {}
    ELSE {a \in c.online \ {p} : /\ a \notin c.delayed /\ a \notin c.pend
                                /\ idle[a] >= cfg.PI
                                /\ (retry[a] < 0 \/ retry[a] >= cfg.RI)}
HonestOff(cfg, c, prev, p, upAge, idle, retry, tov) ==
    IF c.period # 0 THEN {NoOff}
    ELSE IF HasP(prev.f) THEN
         (IF prev.a # NoAddr /\ Cardinality(tov) >= Thr(cfg, Cardinality(c.online)) THEN {[f |-> 2, a |-> prev.a]} ELSE {NoOff})
    ELSE LET cs == Candidates(cfg, c, p, upAge, idle, retry) IN
         IF cs = {} THEN {NoOff} ELSE {[f |-> 1, a |-> a] : a \in cs}

\* VoteForOffline of an honest voter v on a block carrying `off` (the voter's state is the head state c)
HonestVote(cfg, c, off, v, upAge, idleOfTarget) ==
    /\ off.f = 1 /\ off.a # NoAddr /\ off.a # v
    /\ upAge >= cfg.VI
    /\ c.period = 0
    /\ off.a \notin c.pend
    /\ idleOfTarget > cfg.VI
=============================================================================
