------------------------------- MODULE Ledger -------------------------------
(* The coin ledger as the properties C04, C05, C06 see it: per address balance, stake (with its   *)
(* locked and replenished parts), contract stake, nonce, epoch, identity status, inviter and      *)
(* delegatee; the global epoch; the set of applied transactions.                                  *)
(*                                                                                              *)
(* Property-shaped and permissive: the amounts a block moves are never recomputed here (fee      *)
(* formulas, reward splits and gas prices are the implementation's business); the clauses only   *)
(* say what any correct block may do to the ledger.  A ledger is a record                        *)
(*   [accts : sequence of account records, epoch : Nat]                                          *)
(* an account record is [a, bal, stake, locked, repl, cstake, nonce, epoch, status, inviter,     *)
(* delegatee] with amounts as BigNat limb sequences.                                             *)
EXTENDS BigNat, FiniteSets, TLC

\* transaction types (blockchain/types)
SendTx == 0   ActivationTx == 1   InviteTx == 2   KillTx == 3   KillInviteeTx == 10
KillDelegatorTx == 20
ValidationFinishedFlag == 32

HasFlag(flags, f) == (flags \div f) % 2 = 1

Idx(L, a) == {i \in 1..Len(L.accts) : L.accts[i].a = a}
Has(L, a) == Idx(L, a) # {}
Acct(L, a) == L.accts[CHOOSE i \in Idx(L, a) : TRUE]
Zero == <<>>
Bal(L, a) == IF Has(L, a) THEN Acct(L, a).bal ELSE Zero
Stake(L, a) == IF Has(L, a) THEN Acct(L, a).stake ELSE Zero
Addrs(L) == {L.accts[i].a : i \in 1..Len(L.accts)}

Total(L) == SumSeq([i \in 1..Len(L.accts) |-> Add(Add(L.accts[i].bal, L.accts[i].stake), L.accts[i].cstake)])

---------------------------------------------------------------------------
(* C04 *)
NonNeg(L) == \A i \in 1..Len(L.accts) :
                LET x == L.accts[i] IN
                /\ ~IsNeg(x.bal) /\ ~IsNeg(x.stake) /\ ~IsNeg(x.cstake) /\ ~IsNeg(x.locked) /\ ~IsNeg(x.repl)
                /\ Leq(x.locked, x.stake)

\* what a block may mint: the block reward of a proposed block, plus one epoch's pool (block reward
\* times the number of blocks of the epoch) on the block that finishes a validation; nothing otherwise
Mint(kind, flags, epochLen, blockReward) ==
    Add(IF kind = "proposed" THEN blockReward ELSE Zero,
        IF HasFlag(flags, ValidationFinishedFlag) THEN MulSmall(blockReward, epochLen) ELSE Zero)

BlockIssuance(pre, post, kind, flags, epochLen, blockReward) ==
    Leq(Total(post), Add(Total(pre), Mint(kind, flags, epochLen, blockReward)))

---------------------------------------------------------------------------
(* C05: a block with exactly one transaction that does not finish a validation *)
Exception(pre, t, a) ==
    \/ (t.type = KillInviteeTx /\ t.to = a /\ Has(pre, a) /\ Acct(pre, a).inviter = t.from)
    \/ (t.type = KillDelegatorTx /\ t.to = a /\ Has(pre, a) /\ Acct(pre, a).delegatee = t.from)

OnlySigner(pre, post, t) ==
    \A a \in Addrs(pre) :
        (a # t.from /\ ~Exception(pre, t, a)) => (Leq(Bal(pre, a), Bal(post, a)) /\ Leq(Stake(pre, a), Stake(post, a)))

---------------------------------------------------------------------------
(* C06 *)
BaseNonce(pre, s) == IF Has(pre, s) /\ Acct(pre, s).epoch = pre.epoch THEN Acct(pre, s).nonce ELSE 0
Earlier(txs, i) == Cardinality({j \in 1..(i - 1) : txs[j].from = txs[i].from})

NoDouble(applied, txs) == /\ \A i \in 1..Len(txs) : txs[i].id \notin applied
                          /\ \A i, j \in 1..Len(txs) : i # j => txs[i].id # txs[j].id
Consecutive(pre, txs) == \A i \in 1..Len(txs) : txs[i].nonce = BaseNonce(pre, txs[i].from) + Earlier(txs, i) + 1
EpochMatch(pre, txs) == \A i \in 1..Len(txs) : txs[i].epoch = pre.epoch
\* the nonce a transaction consumed stays recorded for its signer (an account whose nonce record disappears inside an
\* epoch can be made to apply the same transaction again); not evaluated on the block that finishes an epoch, where
\* the epoch moves on and dust accounts are legitimately cleared
NonceRecorded(pre, post, txs) ==
    \A i \in 1..Len(txs) :
        LET s == txs[i].from IN
        /\ Has(post, s) /\ Acct(post, s).epoch = pre.epoch
        /\ Acct(post, s).nonce = BaseNonce(pre, s) + Cardinality({j \in 1..Len(txs) : txs[j].from = s})
=============================================================================
