INIT TraceInit
NEXT TraceNext
POSTCONDITION TraceAccepted
CHECK_DEADLOCK FALSE
