------------------------------- MODULE MC_Gas -------------------------------
EXTENDS Gas, Json
CONSTANT ExportOn
\* every list whose block reaches the neighbourhood of the cap is exported with its patterns and the model's prediction
Near == \E i \in 1..Len(txs') : SumDyn(SubSeq(txs', 1, i)) >= Cap - 1
Export == IF ExportOn /\ Len(txs') >= 2 /\ Near
          THEN PrintT(ToJson([txs |-> txs', cap |-> Cap, r |-> R, pat |-> Pattern(txs'), spat |-> StaticPattern(txs'),
                              offered |-> Len(PoolOffer(txs')), block |-> Len(Block(txs')), accept |-> Validator(Block(txs'))]))
          ELSE TRUE
=============================================================================
