CONSTANTS
  MaxK = 3
  AllowN = 9
  BigAllow = {}
  SimC = 4
  SimF = 4
  SampleMod = 5
  Seed = 1
  ExportOn = TRUE
INIT Init
NEXT Next
INVARIANTS InvDomain InvOnlyAssigned InvReportLimit InvRewardOnlyReported InvGradeConsistent InvAnswerBacked InvConsensusHonoured InvCandidates InvPermutation
ACTION_CONSTRAINT Export
CHECK_DEADLOCK FALSE
