CONSTANTS
  MaxK = 3
  AllowN = 9
  BigAllow = {50}
  SimC = 4
  SimF = 4
  SampleMod = 5
  Seed = 1
  ExportOn = TRUE
INIT Init
NEXT Next
INVARIANTS InvDomain InvOnlyAssigned InvReportLimit InvRewardOnlyReported InvReportersRewarded InvGradeConsistent InvReportHonoured InvAnswerBacked InvConsensusHonoured InvCandidates InvPermutation
ACTION_CONSTRAINT Export
CHECK_DEADLOCK FALSE
