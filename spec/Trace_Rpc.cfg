CONSTANTS
  KeyClasses = {"right", "wrong", "missing", "null", "empty", "prefix", "longer", "casevar", "padded", "num", "bool", "obj", "arr", "dupRL", "dupWL"}
  Kinds = {"call", "meta", "badparams", "unknown", "unknownSvc", "malformed", "sub", "subUnknown", "subBare", "unsub", "unsubBad", "notif"}
  InvalidKeyCode <- InvalidKeyCodeOfErrorsGo
  DupLast = TRUE
INIT TraceInit
NEXT TraceNext
POSTCONDITION TraceAccepted
CHECK_DEADLOCK FALSE
