------------------------------- MODULE Upgrade -------------------------------
(* Consensus upgrade voting, activation and the intermediate genesis (growth module "UPG" of C01).          *)
(*                                                                                                          *)
(* What is modelled (one definition per real step, written over explicit records so that the model run and   *)
(* the trace specification share them):                                                                     *)
(*   core/upgrade/upgrader.go   Target                     -> Target                                        *)
(*                              IsValidTargetVersion       -> ValidTarget   (activation window, inclusive)    *)
(*                              UpgradeBits                -> Bits          (what an honest vote carries)     *)
(*                              CanUpgrade                 -> CanUpgrade    (window, distance to the next     *)
(*                                                            validation, 80% of the fork committee)         *)
(*                              processVote                -> ProcessVote   (the vote book)                   *)
(*                              persist / restore          -> pbook of a node record                          *)
(*                              ValidateBlock              -> UpgraderAccepts (proposal path, OWN book)       *)
(*                              CompleteMigration          -> TryUpgrade (config transformed, book cleared)   *)
(*   blockchain/blockchain.go   ProposeBlock               -> HonestBlock                                    *)
(*                              ValidateHeader             -> HeaderAccepts (Upgrade bits, NewGenesis flag)   *)
(*                              calculateFlags/validateBlock -> NgExpected, ChainAccepts (block path)         *)
(*                              tryUpgrade                 -> TryUpgrade (stored version written)             *)
(*                              AddBlock                   -> InsertBlock (tryUpgrade, then genesis switch)   *)
(*                              InitializeChain            -> RestartNode (tryUpgrade(head), genesis info)    *)
(*                              ResetTo (fork adoption)    -> RollBack (what the property requires of it)       *)
(*   main.go / node/node.go     start-up: stored version -> config -> InitializeChain -> Upgrader.Start      *)
(*                                                         -> RestartNode                                   *)
(*   config/consensus.go        ApplyConsensusVersion      -> the EnableUpgradeNN flags are a function of     *)
(*                                                            the version (E11, E12)                         *)
(*                                                                                                          *)
(* cfg = [Top, Gen, I, W]: Top = upgrade.TargetVersion, Gen = GenerateGenesisAfterUpgrade, I =                *)
(* UpgradeIntervalBeforeValidation, W = [version |-> [s, e]] activation window of each version (the unit of   *)
(* time is the caller's: ticks in the bounded model, unix seconds in the trace specification).               *)
(* A block is [upg, ng, empty]: Upgrade bits of the proposed header (0 for an empty block), NewGenesis flag. *)
(* A book is a function voter -> bits (0 = no entry).                                                       *)
(* A node is [ver, stored, book, pbook, cur, old, inter]: consensus version of the in-memory configuration,  *)
(* consensus version stored in the repository (0 = none), vote book in memory / persisted, current and old    *)
(* genesis of the in-memory GenesisInfo (heights; NoGen = none), stored intermediate genesis height.         *)
(*                                                                                                          *)
(* Quirks of the code, modelled as they are and named:                                                       *)
(*   V11Always    Upgrader.ValidateBlock accepts Upgrade = 11 whatever the book, the window and the version   *)
(*                say; ValidateHeader accepts Upgrade = 11 while the version is <= 11 (even AT version 11,     *)
(*                where it upgrades nothing but still triggers a new genesis when Gen is set).               *)
(*   TopAgain     at the top version Target() = Version, so ValidateHeader accepts Upgrade = Top again (the   *)
(*                proposal path refuses it: the target is not valid); nothing is upgraded, a new genesis is   *)
(*                still triggered when Gen is set.                                                           *)
(*   BlockPathBlind  the block path (ValidateBlock / AddBlock, sync, fork adoption) checks neither window nor  *)
(*                distance nor quorum - it cannot know the books -, only that the bits name the target.       *)
(*   SmallQuorum  the quorum is int(0.8 * K): 0 for K <= 1 (no vote at all is needed).                       *)
(*   OldGenesisAfterRestart  AddBlock shifts Genesis -> OldGenesis at every NewGenesis block, InitializeChain  *)
(*                always restores OldGenesis = the predefined genesis: after a SECOND intermediate genesis a  *)
(*                restarted node and a running node report different old geneses.                            *)
(*   StaleBookAfterUpgrade  CompleteMigration clears the book in memory only; the persisted copy survives      *)
(*                until the next tick of the listener (a restart in between restores the old book).          *)
EXTENDS Integers, Sequences, FiniteSets, TLC

NoGen == 0
PreGen == 1

---------------------------------------------------------------------------
(* upgrader *)

Target(cfg, ver) == IF ver < cfg.Top THEN ver + 1 ELSE cfg.Top

ValidTarget(cfg, ver, now) ==
    LET t == Target(cfg, ver) IN ver < t /\ now >= cfg.W[t].s /\ now <= cfg.W[t].e

Bits(cfg, ver, now) == IF ValidTarget(cfg, ver, now) THEN Target(cfg, ver) ELSE 0

\* vt = next validation time of the node's head state
Far(cfg, now, vt) == vt - now >= cfg.I

\* int(0.80 * float64(committeeSize)): exact for every size (0.8 is rounded up in binary, the product never falls short)
Quorum(k) == (8 * k) \div 10

\* elig = the online, non-discriminated identities (the fork committee); only their votes count
Counted(book, elig, t) == Cardinality({i \in elig : book[i] = t})

HasQuorum(cfg, ver, book, elig) == Counted(book, elig, Target(cfg, ver)) >= Quorum(Cardinality(elig))

CanUpgrade(cfg, ver, now, vt, book, elig) ==
    /\ ValidTarget(cfg, ver, now)
    /\ Far(cfg, now, vt)
    /\ HasQuorum(cfg, ver, book, elig)

\* processVote: a vote with bits replaces the voter's entry, a vote without removes it
ProcessVote(book, i, b) == [book EXCEPT ![i] = b]

EmptyBook(book) == [i \in DOMAIN book |-> 0]

\* Upgrader.ValidateBlock (what a validator runs on a proposal before it votes)
UpgraderAccepts(cfg, ver, now, vt, book, elig, upg) ==
    \/ upg = 0
    \/ upg = Target(cfg, ver) /\ CanUpgrade(cfg, ver, now, vt, book, elig)
    \/ upg = 11                                                                   \* V11Always

---------------------------------------------------------------------------
(* chain *)

\* calculateFlags: the block after a block with Upgrade bits starts a new genesis (empty blocks included)
NgExpected(cfg, prev) == prev.upg > 0 /\ cfg.Gen

\* ValidateHeader, the Upgrade / NewGenesis rules (proposed blocks only: an empty header returns early)
HeaderAccepts(cfg, ver, prev, b) ==
    /\ b.ng => (b.upg = 0 /\ prev.upg > 0 /\ cfg.Gen)
    /\ NgExpected(cfg, prev) => b.ng
    /\ b.upg > 0 => (b.upg = Target(cfg, ver) \/ (b.upg = 11 /\ ver <= 11))      \* TopAgain, V11Always

\* Blockchain.ValidateBlock: the header rules plus the recomputed flags (an empty block is compared with the one the
\* node generates itself)
ChainAccepts(cfg, ver, prev, b) ==
    IF b.empty THEN b.upg = 0 /\ (b.ng <=> NgExpected(cfg, prev))
    ELSE HeaderAccepts(cfg, ver, prev, b) /\ (b.ng <=> NgExpected(cfg, prev))

\* the whole proposal path of a validator (pengings.Proposals.AddProposedBlock: header, then upgrader)
ProposalAccepts(cfg, ver, now, vt, book, elig, prev, b) ==
    HeaderAccepts(cfg, ver, prev, b) /\ UpgraderAccepts(cfg, ver, now, vt, book, elig, b.upg)

\* ProposeBlock of an honest proposer
HonestUpg(cfg, ver, now, vt, book, elig, prev) ==
    IF CanUpgrade(cfg, ver, now, vt, book, elig) /\ ~NgExpected(cfg, prev) THEN Bits(cfg, ver, now) ELSE 0
HonestBlock(cfg, ver, now, vt, book, elig, prev) ==
    [upg |-> HonestUpg(cfg, ver, now, vt, book, elig, prev), ng |-> NgExpected(cfg, prev), empty |-> FALSE]
EmptyBlock(cfg, prev) == [upg |-> 0, ng |-> NgExpected(cfg, prev), empty |-> TRUE]
NoBlock == [upg |-> 0, ng |-> FALSE, empty |-> FALSE]         \* what precedes the first block of a world

\* the first rule of the proposal path a block breaks ("" = none): the signature of a crafted block
Reason(cfg, ver, now, vt, book, elig, prev, b) ==
    IF b.ng /\ b.upg # 0 THEN "ng-with-upgrade"
    ELSE IF b.ng /\ ~NgExpected(cfg, prev) THEN "ng-spurious"
    ELSE IF ~b.ng /\ NgExpected(cfg, prev) THEN "ng-missing"
    ELSE IF b.upg = 0 THEN ""
    ELSE IF b.upg = 11 /\ ver = 11 THEN "v11-at-11"
    ELSE IF b.upg = cfg.Top /\ ver = cfg.Top THEN "top-again"
    ELSE IF b.upg # Target(cfg, ver) THEN "wrong-target"
    ELSE IF ~ValidTarget(cfg, ver, now) THEN (IF b.upg = 11 THEN "v11-out-of-window" ELSE "out-of-window")
    ELSE IF ~Far(cfg, now, vt) THEN (IF b.upg = 11 THEN "v11-near-validation" ELSE "near-validation")
    ELSE IF ~HasQuorum(cfg, ver, book, elig) THEN (IF b.upg = 11 THEN "v11-no-quorum" ELSE "no-quorum")
    ELSE ""

---------------------------------------------------------------------------
(* node *)

E11(ver) == ver >= 11
E12(ver) == ver >= 12

\* Blockchain.tryUpgrade + Upgrader.CompleteMigration
Upgrades(cfg, ver, b) == Target(cfg, ver) # ver /\ ~b.empty /\ b.upg = Target(cfg, ver)
TryUpgrade(cfg, nd, b) ==
    IF Upgrades(cfg, nd.ver, b)
    THEN [nd EXCEPT !.ver = Target(cfg, nd.ver), !.stored = b.upg, !.book = EmptyBook(nd.book)]
    ELSE nd

\* AddBlock after the block is stored: tryUpgrade, then the genesis switch of a NewGenesis block at height h
InsertBlock(cfg, nd, b, h) ==
    LET n1 == TryUpgrade(cfg, nd, b) IN
    IF b.ng THEN [n1 EXCEPT !.inter = h, !.old = n1.cur, !.cur = h] ELSE n1

\* process start over the node's database: main.go derives the configuration from the stored version (never below the
\* version `base` of the configuration file), InitializeChain runs tryUpgrade(head) and rebuilds the genesis info from the
\* stored intermediate genesis, Upgrader.Start restores the persisted book
RestartNode(cfg, base, nd, headBlk) ==
    LET v1 == IF nd.stored > base THEN nd.stored ELSE base
        n1 == TryUpgrade(cfg, [nd EXCEPT !.ver = v1], headBlk)
        pre == nd.inter = NoGen \/ nd.inter = PreGen
    IN [n1 EXCEPT !.book = nd.pbook,
                  !.cur = IF pre THEN PreGen ELSE nd.inter,
                  !.old = IF pre THEN NoGen ELSE PreGen]                       \* OldGenesisAfterRestart

\* what a node that started at version `base` is after inserting the blocks bs[1..j] (bs[x] at height h0 + x), never restarted:
\* version, stored version and genesis info are a function of the chain
RECURSIVE ByChainNode(_, _, _, _, _, _)
ByChainNode(cfg, base, bs, h0, j, book0) ==
    IF j = 0 THEN [ver |-> base, stored |-> 0, book |-> book0, pbook |-> book0, cur |-> PreGen, old |-> NoGen, inter |-> NoGen]
    ELSE InsertBlock(cfg, ByChainNode(cfg, base, bs, h0, j - 1, book0), bs[j], h0 + j)

\* Blockchain.ResetTo (fork adoption, recovery) down to the blocks bs[1..j]: the property requires that the node is afterwards
\* what the chain it keeps makes it - the version an orphaned upgrade block brought is gone (configuration AND stored version),
\* the genesis info names blocks of the kept chain; the books are untouched.
\* (The code under verification does not do this: ResetTo leaves configuration, stored version and genesis info alone.)
RollBack(cfg, base, nd, bs, h0, j) ==
    LET f == ByChainNode(cfg, base, bs, h0, j, EmptyBook(nd.book)) IN
    [nd EXCEPT !.ver = f.ver, !.stored = f.stored, !.cur = f.cur, !.old = f.old, !.inter = f.inter]

\* a probe block carries a transaction with a 4 KiB payload, which the rules admit from version 11 on (the rules of the
\* versions differ otherwise only in contract execution and at the epoch change): built by a node running the rules of
\* version r - which can build it only from version 11 on -, accepted exactly by the nodes whose own rules admit it
ProbeBuilt(k, r) == E11(r)
ProbeAccepts(k, r, ver) == E11(ver)
=============================================================================
