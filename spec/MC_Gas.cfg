CONSTANTS
  Cap = 6
  R = 1
  Weights = {1, 2, 3}
  CWeights = {2, 3}
  MaxTx = 5
  ExportOn = TRUE
INIT Init
NEXT Next
INVARIANTS ProposedAccepted BlockIsPrefix AtMostOneBeyond
ACTION_CONSTRAINT Export
CHECK_DEADLOCK FALSE
