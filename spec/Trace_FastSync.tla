--------------------------- MODULE Trace_FastSync ---------------------------
(* Trace validation for the fast-sync growth module.  Each line is one step of a scenario run on    *)
(* the REAL fastSync / Downloader / Blockchain / state code by d_fastsync, with the observed state.   *)
(*                                                                                                  *)
(*   Chain     the canonical chain above the syncing node's head as the reference node holds it       *)
(*   New       createBlockApplier + preConsuming            Serve    one BlocksRange answer on the wire *)
(*   BatchEnd  processBatch returned                         Post     postConsuming returned             *)
(*   Restart   the node was restarted                        Tail     normal block application after S    *)
(*   Wire / Synced  whole-Downloader scenarios: the answers on the wire, the state after SyncBlockchain  *)
(*   Final     summaries of the arrived node and of a node that applied every block                  *)
(*                                                                                                  *)
(* The specification (FastSync.tla) is advanced by the same operators the bounded model uses, fed     *)
(* with what was really on the wire.  The VERDICT is the set of property clauses that an observed      *)
(* state breaks (delivered by the postcondition, first trace line per clause):                        *)
(*   NoPartialSwitch        head / state / identity state / validator view / canonical index change    *)
(*                          only in a successful postConsuming (to exactly the manifest height, and     *)
(*                          durably) and in normal block application; a refused snapshot leaves nothing *)
(*   BadPeerRefused         everything the node accepted is canonical; the peer whose altered block    *)
(*                          was looked at is banned / set aside; no switch on a bad snapshot            *)
(*   HonestPeerAccepted     unaltered answers are accepted, honest peers are not blamed, an honest      *)
(*                          peer completes the sync after every refusal                                *)
(*   NoCrash                the sync code does not panic                                               *)
(*   ArrivedState / ArrivedValidators / ArrivedArtifacts / ArrivedTail / ArrivedRestart                *)
(*                          = ArrivedEqualsApplied, by the property the compared item belongs to        *)
(* `drift` counts steps where the implementation-shaped prediction (preliminary head, deferred         *)
(* headers, saved versions, reload requests) differs from the observation without breaking a clause.   *)
EXTENDS FastSync, Json, IOUtils

Trace == ndJsonDeserialize(IOEnv.TRACE_FILE)
ASSUME TLCSet(2, 0) /\ TLCSet(3, <<>>) /\ TLCSet(4, <<>>)

VARIABLES l, refb, prev, bad, drift,
          lied    \* some alteration was on the wire in this scenario
tvars == <<ch, N, st, l, refb, prev, bad, drift, lied>>

ToSet(s) == {s[i] : i \in 1..Len(s)}
NoObs == [none |-> TRUE]

RECURSIVE Report(_, _)
Report(S, line) == IF S = {} THEN TRUE
                   ELSE LET c == CHOOSE x \in S : TRUE IN TLCSet(3, Append(TLCGet(3), <<line, c>>)) /\ Report(S \ {c}, line)
Note(b, d) == /\ bad' = bad \cup b /\ Report(b, l)
              /\ drift' = drift + (IF d THEN 1 ELSE 0) /\ TLCSet(2, drift')
              /\ (IF d /\ Len(TLCGet(4)) < 40 THEN TLCSet(4, Append(TLCGet(4), l)) ELSE TRUE)

If(c, name) == IF c THEN {name} ELSE {}

------------------------------------------------------------------------------------------------
\* clauses on observations

\* every artifact the node holds above its start equals the canonical one
ArtOk(a) == /\ a.h \in 1..Len(refb)
            /\ a.hash = refb[a.h].hash
            /\ a.diffd = refb[a.h].diffd
            /\ (a.certd # "" => a.certd = refb[a.h].certfull)
            /\ (refb[a.h].need => a.certd # "")
ArtsOk(o) == \A i \in 1..Len(o.arts) : ArtOk(o.arts[i])
\* non-canonical artifacts: accepted from a lying peer, or (nobody lied) lost / mangled by the node itself
ArtClause == IF lied THEN "BadPeerRefused" ELSE "ArrivedArtifacts"
CanonSame(o) == prev = NoObs \/ o.canon = prev
\* the canonical part of the node right after the switch: exactly block N
SwitchedTo(o) == /\ o.canon.head = N /\ o.canon.durHead = N /\ o.canon.stateVer = N /\ o.canon.idVer = N
                 /\ o.canon.headHash = refb[N].hash /\ o.canon.root = refb[N].root /\ o.canon.idRoot = refb[N].idroot
                 /\ o.canon.liveRoot = refb[N].root /\ o.canon.liveIdRoot = refb[N].idroot
                 /\ o.prelim = -1 /\ o.durPrelim = -1
Blamed(o) == ToSet(o.banned) \cup ToSet(o.forked)

\* bring the predicted state in line with the observation (so that one deviation is counted once)
HonestDef(hs) == [i \in 1..Len(hs) |-> [h |-> hs[i], fault |-> "none", peer |-> "?"]]
DefHeights(s) == [i \in 1..Len(s.def) |-> s.def[i].h]
Resync(s, o) ==
    LET s1 == [s EXCEPT !.reg = ToSet(o.registered), !.banned = ToSet(o.banned), !.forked = ToSet(o.forked)] IN
    IF o.canon.head # 0 THEN s1
    ELSE LET s2 == IF o.prelim = s1.ph THEN s1
                   ELSE [s1 EXCEPT !.ph = o.prelim, !.idc = LastU(IF o.prelim < 0 THEN 0 ELSE o.prelim), !.vv = LastU(IF o.prelim < 0 THEN 0 ELSE o.prelim),
                                   !.acc = [i \in 1..(IF o.prelim < 0 THEN 0 ELSE o.prelim) |-> "none"]]
             s3 == IF DefHeights(s2) = o.deferred THEN s2 ELSE [s2 EXCEPT !.def = HonestDef(o.deferred)]
             s4 == IF o.applier THEN [s3 EXCEPT !.idv = ToSet(o.pIdVers) \cup {0}] ELSE s3
         IN s4
Differs(s, o) == o.canon.head = 0 /\ (o.prelim # s.ph \/ DefHeights(s) # o.deferred \/ (o.applier /\ (s.idv \ {0}) # ToSet(o.pIdVers)))

------------------------------------------------------------------------------------------------
TraceInit == /\ l = 1 /\ ch = <<>> /\ N = 0 /\ st = InitState({}) /\ refb = <<>> /\ prev = NoObs /\ bad = {} /\ drift = 0 /\ lied = FALSE

TChain == /\ l <= Len(Trace) /\ Trace[l].ev = "Chain" /\ l' = l + 1
          /\ LET e == Trace[l] IN
             /\ ch' = [i \in 1..Len(e.blocks) |-> [kind |-> e.blocks[i].kind, need |-> e.blocks[i].need, diff |-> e.blocks[i].diff, cert |-> e.blocks[i].cert]]
             /\ N' = e.N /\ refb' = e.blocks
             /\ st' = InitState(ToSet(e.peers))
          /\ prev' = NoObs /\ bad' = {} /\ lied' = FALSE /\ UNCHANGED drift

TNew == /\ l <= Len(Trace) /\ Trace[l].ev = "New" /\ l' = l + 1
        /\ LET e == Trace[l]
               o == e.obs
               p == IF e.res = "ok" THEN PreConsume(st, e.man) ELSE [st EXCEPT !.pc = "idle", !.def = <<>>]   \* no usable manifest: no applier
               b == If(~CanonSame(o), "NoPartialSwitch") \cup If(~ArtsOk(o), ArtClause)
           IN /\ st' = Resync(p, o) /\ prev' = o.canon
              /\ Note(b, Differs(p, o) \/ (e.res = "ok" /\ e.from # p.cur))
              /\ lied' = (lied \/ e.man \notin {"ok", ""})
        /\ UNCHANGED <<ch, N, refb>>

TServe == /\ l <= Len(Trace) /\ Trace[l].ev = "Serve" /\ l' = l + 1
          /\ LET e == Trace[l]
                 bs == [i \in 1..Len(e.blocks) |-> [h |-> e.blocks[i].h, fault |-> e.blocks[i].f, peer |-> e.peer]]
                 expected == IF st.pc = "reload" THEN e.from = st.rfrom /\ e.to = st.bto /\ e.peer \in Candidates(st) ELSE st.pc = "ready" /\ e.from = st.cur
                 s0 == IF st.pc = "reload" THEN st ELSE [st EXCEPT !.att = 0, !.reg = @ \cup {e.peer}]
             IN /\ st' = Settle(Attempt(s0, e.peer, e.from, e.to, bs))
                /\ Note({}, ~expected)
                /\ lied' = (lied \/ \E i \in 1..Len(e.blocks) : e.blocks[i].f # "none")
          /\ UNCHANGED <<ch, N, refb, prev>>

TBatchEnd == /\ l <= Len(Trace) /\ Trace[l].ev = "BatchEnd" /\ l' = l + 1
             /\ LET e == Trace[l]
                    o == e.obs
                    predOk == st.pc = "ready"
                    b == If(~CanonSame(o), "NoPartialSwitch")
                         \cup If(~ArtsOk(o), ArtClause)                                    \* something non-canonical was accepted
                         \cup If(~(st.blamed \subseteq Blamed(o)), "BadPeerRefused")                \* the culprit was not set aside
                         \cup If(st.pc = "reload" /\ e.res = "ok", "BadPeerRefused")                \* a refusal was due, the batch went through
                         \cup If(predOk /\ e.res # "ok", "HonestPeerAccepted")                    \* nothing altered was looked at, yet the batch failed
                         \cup If(~(Blamed(o) \subseteq (st.banned \cup st.forked)), "HonestPeerAccepted")   \* somebody was blamed without cause
                    p == IF e.res = "ok" THEN [st EXCEPT !.pc = "ready", !.cur = e.to + 1] ELSE [st EXCEPT !.pc = "idle"]
                IN /\ st' = Resync(p, o)
                   /\ prev' = o.canon
                   /\ Note(b, Differs(st, o) \/ (st.pc = "reload"))
             /\ UNCHANGED <<ch, N, refb, lied>>

TPost == /\ l <= Len(Trace) /\ Trace[l].ev = "Post" /\ l' = l + 1
         /\ LET e == Trace[l]
                o == e.obs
                \* a truncated / garbled archive may or may not still contain the whole state: the import decides, and what it
                \* accepts is judged by SwitchedTo (exactly the state of block N)
                man == IF e.man \in {"snap-truncated", "snap-garbled"} THEN (IF e.res = "ok" THEN "ok" ELSE "snap-otherheight") ELSE e.man
                p == Post([st EXCEPT !.man = man])
                durable == e.reboot.ok /\ e.reboot.canon = o.canon
                b == IF e.res = "ok"
                     THEN If(~SwitchedTo(o) \/ st.ph # N, "NoPartialSwitch")               \* switched, but not to exactly block N
                          \cup If(~durable, "NoPartialSwitch")                            \* a restarted node does not see the same
                          \cup If(p.pc # "switched" /\ st.ph = N, "BadPeerRefused")          \* switched although the snapshot is not the state at N
                          \cup If(~ArtsOk(o), ArtClause)
                     ELSE If(~CanonSame(o), "NoPartialSwitch")
                          \cup If(e.leftover # 0, "NoPartialSwitch")                      \* the refused import left state behind
                          \cup If(~durable, "NoPartialSwitch")
                          \cup If(p.pc = "switched", "HonestPeerAccepted")                \* everything was in place, the switch was refused
            IN /\ st' = IF e.res = "ok" THEN [Resync(p, o) EXCEPT !.pc = "switched", !.head = N, !.ph = -1] ELSE Resync([p EXCEPT !.pc = "idle"], o)
               /\ prev' = o.canon
               /\ Note(b, (e.res = "ok") # (p.pc = "switched") \/ (e.res # "ok" /\ ((p.out = "badsnapshot" /\ ~e.invalid) \/ (e.man = "ok" /\ e.invalid))))
         /\ UNCHANGED <<ch, N, refb, lied>>

TRestart == /\ l <= Len(Trace) /\ Trace[l].ev = "Restart" /\ l' = l + 1
            /\ LET o == Trace[l].obs
                   p == Reboot(st, ToSet(o.registered))
                   b == If(~CanonSame(o), "NoPartialSwitch") \cup If(~ArtsOk(o), ArtClause) IN
               /\ st' = Resync(p, o) /\ prev' = o.canon
               /\ Note(b, Differs(p, o))
            /\ UNCHANGED <<ch, N, refb, lied>>

TTail == /\ l <= Len(Trace) /\ Trace[l].ev = "Tail" /\ l' = l + 1
         /\ LET e == Trace[l]
                b == If(e.accepted # e.to - e.from + 1, "ArrivedTail") IN
            /\ Note(b, FALSE) /\ prev' = e.obs.canon
         /\ UNCHANGED <<ch, N, st, refb, lied>>

\* ArrivedEqualsApplied on the two summaries
ArtsEq(a, b) == Len(a) = Len(b) /\ \A i \in 1..Len(a) : a[i].h = b[i].h /\ a[i].hash = b[i].hash /\ a[i].diffd = b[i].diffd
TFinal == /\ l <= Len(Trace) /\ Trace[l].ev = "Final" /\ l' = l + 1
          /\ LET e == Trace[l]
                 s == e.sync
                 r == e.ref
                 b == If(~e.switched, "HonestPeerAccepted")
                      \cup If(e.switched /\ ([s.canon EXCEPT !.view = "", !.index = ""] # [r.canon EXCEPT !.view = "", !.index = ""] \/ s.ledger # r.ledger \/ s.params # r.params), "ArrivedState")
                      \cup If(e.switched /\ (s.canon.view # r.canon.view \/ s.freshView # r.freshView \/ s.canon.view # s.freshView), "ArrivedValidators")
                      \cup If(e.switched /\ (~ArtsEq(s.arts, r.arts) \/ s.needCerts # r.needCerts \/ s.canon.index # r.canon.index \/ s.idVers # r.idVers
                                             \/ s.stVers # r.stVers \/ s.replayBad # <<>> \/ s.ownTx # r.ownTx), "ArrivedArtifacts")
                      \cup If(e.switched /\ s.reboot # r.reboot, "ArrivedRestart")
             IN Note(b, FALSE)
          /\ UNCHANGED <<ch, N, st, refb, prev, lied>>

\* whole-Downloader scenarios (nothing mirrored, nothing observable in between): the answers that were on the wire ...
TWire == /\ l <= Len(Trace) /\ Trace[l].ev = "Wire" /\ l' = l + 1
         /\ lied' = (lied \/ \E i \in 1..Len(Trace[l].blocks) : Trace[l].blocks[i].f # "none")
         /\ UNCHANGED <<ch, N, st, refb, prev, bad, drift>>
\* ... and the end state after Downloader.SyncBlockchain returned: synchronized up to the peers' height, holding canonical
\* artifacts only, durably, nothing preliminary or half-imported left
TSynced == /\ l <= Len(Trace) /\ Trace[l].ev = "Synced" /\ l' = l + 1
           /\ LET e == Trace[l]
                  o == e.obs
                  b == If(e.res # "ok" \/ o.canon.head # e.top, "HonestPeerAccepted")
                       \cup If(~ArtsOk(o), ArtClause)
                       \cup If(~(e.reboot.ok /\ e.reboot.canon = o.canon) \/ e.leftover # 0 \/ o.prelim # -1 \/ o.durPrelim # -1
                              \/ o.canon.liveRoot # o.canon.root \/ o.canon.liveIdRoot # o.canon.idRoot \/ o.canon.durHead # o.canon.head, "NoPartialSwitch")
              IN Note(b, FALSE) /\ prev' = o.canon
           /\ UNCHANGED <<ch, N, st, refb, lied>>

\* the repository's code panicked while syncing
TPanic == /\ l <= Len(Trace) /\ Trace[l].ev = "Panic" /\ l' = l + 1 /\ Note({"NoCrash"}, FALSE) /\ UNCHANGED <<ch, N, st, refb, prev, lied>>

TSkip == /\ l <= Len(Trace) /\ Trace[l].ev = "Skip" /\ l' = l + 1 /\ UNCHANGED <<ch, N, st, refb, prev, bad, drift, lied>>

TraceNext == TChain \/ TPanic \/ TWire \/ TSynced \/ TNew \/ TServe \/ TBatchEnd \/ TPost \/ TRestart \/ TTail \/ TFinal \/ TSkip
TraceSpec == TraceInit /\ [][TraceNext]_tvars

TraceAccepted ==
    LET d == TLCGet("stats").diameter IN
    /\ PrintT(<<"DRIFT", TLCGet(2)>>)
    /\ PrintT(<<"DRIFT_AT", TLCGet(4)>>)
    /\ IF d - 1 = Len(Trace) THEN TRUE ELSE Print(<<"TRACE_REJECTED_AT", d, Len(Trace)>>, FALSE)
    /\ \A i \in 1..Len(TLCGet(3)) : PrintT(<<"CLAUSE_BROKEN", TLCGet(3)[i][1], TLCGet(3)[i][2]>>)
    /\ TLCGet(3) = <<>>
=============================================================================
