--------------------------- MODULE Trace_Registry ---------------------------
(* Trace validation for C10 (validator registry) and C11a (served identity diffs) on the         *)
(* histories recorded by harness/cmd/d_chain.  Per block the reference replica logs               *)
(*   vincr    its incrementally maintained ValidatorsCache, through every public getter           *)
(*            (sizes, validated / online / discriminated sets, pools with sizes and sub-identity  *)
(*            picks, delegations, committees for a grid of seeds / rounds / steps / limits)       *)
(*   vload    the same getters of a FRESH cache loaded from the same stored identity state        *)
(*   registry the stored identity-state entries                                                  *)
(*   post     the identity ledger (statuses, delegatees)                                          *)
(* and at the end a follower that replayed every served identity diff from the genesis identity  *)
(* state reports the heights whose root did not match the canonical header.                      *)
EXTENDS Integers, Sequences, FiniteSets, TLC, Json, IOUtils

Trace == ndJsonDeserialize(IOEnv.TRACE_FILE)
ASSUME TLCSet(3, <<>>)

VARIABLES l, bad
vars == <<l, bad>>

Validated == {3, 7, 8}        \* Verified, Newbie, Human (core/state IdentityState)

RegIdx(reg, a) == {i \in 1..Len(reg) : reg[i].a = a}
RegHas(reg, a) == RegIdx(reg, a) # {}
Reg(reg, a) == reg[CHOOSE i \in RegIdx(reg, a) : TRUE]
RegValidated(reg, a) == RegHas(reg, a) /\ Reg(reg, a).validated
RegDelegatee(reg, a) == IF RegHas(reg, a) THEN Reg(reg, a).delegatee ELSE ""

\* the incrementally maintained view is indistinguishable from a rebuilt one
IncrEqLoad(e) == e.vincr = e.vload

\* an address is registered as validated exactly when its identity status is Newbie, Verified or Human
ValidatedIffStatus(e) ==
    /\ \A i \in 1..Len(e.post.accts) :
          LET x == e.post.accts[i] IN (x.status \in Validated) <=> RegValidated(e.registry, x.a)
    /\ \A i \in 1..Len(e.registry) :
          e.registry[i].validated => \E j \in 1..Len(e.post.accts) : e.post.accts[j].a = e.registry[i].a /\ e.post.accts[j].status \in Validated

\* delegations of validated identities match the ledger
DelegationsMatch(e) ==
    \A i \in 1..Len(e.post.accts) :
        LET x == e.post.accts[i] IN
        (x.status \in Validated /\ ~x.pundel) => RegDelegatee(e.registry, x.a) = x.delegatee

\* only validated identities or pools (somebody validated delegates to them) are online
OnlineOnlyValidatedOrPool(e) ==
    \A i \in 1..Len(e.registry) :
        e.registry[i].online =>
            \/ e.registry[i].validated
            \/ \E j \in 1..Len(e.registry) : e.registry[j].delegatee = e.registry[i].a

\* the view's own sets agree with the stored registry
ViewMatchesRegistry(e) ==
    /\ \A i \in 1..Len(e.registry) : e.registry[i].validated => \E j \in 1..Len(e.vload.validated) : e.vload.validated[j] = e.registry[i].a
    /\ \A j \in 1..Len(e.vload.validated) : RegValidated(e.registry, e.vload.validated[j])

\* the coupling assumptions under which ValidatorsIncr.tla proves Update(Load(R), D) = Load(R (+) D), checked on
\* the real stored registry: only validated identities keep a delegation, a pool does not delegate itself, a
\* delegator is not online itself
CouplingAssumptions(e) ==
    \A i \in 1..Len(e.registry) :
        LET x == e.registry[i] IN
        x.delegatee # "" =>
            /\ x.validated
            /\ ~x.online
            /\ RegDelegatee(e.registry, x.delegatee) = ""

Clauses(e) ==
    (IF ~CouplingAssumptions(e) THEN {"CouplingAssumptions"} ELSE {}) \cup
    (IF ~IncrEqLoad(e) THEN {"IncrEqLoad"} ELSE {}) \cup
    (IF ~ValidatedIffStatus(e) THEN {"ValidatedIffStatus"} ELSE {}) \cup
    (IF ~DelegationsMatch(e) THEN {"DelegationsMatch"} ELSE {}) \cup
    (IF ~OnlineOnlyValidatedOrPool(e) THEN {"OnlineOnlyValidatedOrPool"} ELSE {}) \cup
    (IF ~ViewMatchesRegistry(e) THEN {"ViewMatchesRegistry"} ELSE {})

RECURSIVE Report(_, _)
Report(S, line) == IF S = {} THEN TRUE
                   ELSE LET c == CHOOSE x \in S : TRUE IN
                        TLCSet(3, Append(TLCGet(3), <<line, c>>)) /\ Report(S \ {c}, line)

TraceInit == l = 1 /\ bad = {}

TBlock == /\ l <= Len(Trace) /\ Trace[l].ev = "Block" /\ ~Trace[l].refused /\ l' = l + 1
          /\ LET b == Clauses(Trace[l]) IN bad' = bad \cup b /\ Report(b, l)

\* C11a: replaying the served diffs reproduces every canonical identity root
TFollower == /\ l <= Len(Trace) /\ Trace[l].ev = "Follower" /\ l' = l + 1
             /\ LET b == IF Trace[l].bad # <<>> THEN {"FollowerRoot"} ELSE {} IN bad' = bad \cup b /\ Report(b, l)

TOther == /\ l <= Len(Trace) /\ (Trace[l].ev \notin {"Block", "Follower"} \/ (Trace[l].ev = "Block" /\ Trace[l].refused))
          /\ l' = l + 1 /\ UNCHANGED bad

TraceNext == TBlock \/ TFollower \/ TOther
TraceSpec == TraceInit /\ [][TraceNext]_vars

TraceAccepted ==
    LET d == TLCGet("stats").diameter IN
    /\ IF d - 1 = Len(Trace) THEN TRUE ELSE Print(<<"TRACE_REJECTED_AT", d, Len(Trace)>>, FALSE)
    /\ \A i \in 1..Len(TLCGet(3)) : PrintT(<<"CLAUSE_BROKEN", TLCGet(3)[i][1], TLCGet(3)[i][2]>>)
    /\ TLCGet(3) = <<>>
=============================================================================
