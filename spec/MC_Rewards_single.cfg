CONSTANTS
  N = 1
  Upgs = {9, 10, 11, 12}
  Gods = {"V", "U"}
  Pools = {0}
  PrevSet = {2, 3, 4, 6, 7, 8}
  OutSet = {3, 4, 5, 6, 7, 8}
  GoodSet = {0, 1, 3, 4}
  RepSet = {0, 1}
  NqSet = {0, 1}
  StakeSet = {0, 1, 2}
  DelegSet = {FALSE, TRUE}
  RelOn = TRUE
  PerPat = 0
  SampleMod = 1
INIT MCInit
NEXT MCNext
INVARIANTS Inv Export
CHECK_DEADLOCK FALSE
