------------------------------ MODULE Relations ------------------------------
(* Who may do what to whom: the relationship part of the identity ledger (C05, also C04 / C10).   *)
(* Actors: the god identity, two validated inviters, two fresh keys, a candidate, a funded        *)
(* stranger.  State: identity status, inviter link, active and pending delegation.  Every        *)
(* transaction type that names ANOTHER address is modelled as an ATTEMPT by every actor against   *)
(* every target in every relationship state: the attempt is either admissible (the relationship  *)
(* the protocol requires holds: effect applied) or not (no effect).  TLC explores all states      *)
(* reachable by <= MaxDepth attempts and exports every transition - admissible or not - with a   *)
(* path reaching it; the driver turns each path into real signed transactions, one per block,    *)
(* and the ledger clauses (Ledger.tla: OnlySigner, NonNeg, BlockIssuance ...) are evaluated on    *)
(* what the real node did.  The model's own invariant is the relationship rule of C05.           *)
EXTENDS Integers, Sequences, FiniteSets, TLC, Json

CONSTANTS MaxDepth

Actors == {"g", "v1", "v2", "f1", "f2", "c", "s"}
None == "none"

VARIABLES status,   \* [Actors -> {"Undef","Invite","Cand","Val","Killed"}]
          inviter,  \* [Actors -> Actors \cup {None}]
          deleg,    \* [Actors -> Actors \cup {None}]    active delegation
          pdeleg,   \* [Actors -> Actors \cup {None, "undel"}]  pending delegation switch
          invites,  \* [Actors -> 0..2]
          hist,     \* path so far (export)
          last      \* last attempt [op, a, b, ok] (output)

vars == <<status, inviter, deleg, pdeleg, invites, hist, last>>
view == <<status, inviter, deleg, pdeleg, invites>>

Init == /\ status = [a \in Actors |-> CASE a \in {"g", "v1", "v2"} -> "Val" [] a = "c" -> "Cand" [] OTHER -> "Undef"]
        /\ inviter = [a \in Actors |-> IF a = "c" THEN "g" ELSE None]     \* the candidate was invited by the god identity
        /\ deleg = [a \in Actors |-> None]
        /\ pdeleg = [a \in Actors |-> None]
        /\ invites = [a \in Actors |-> IF a = "g" THEN 2 ELSE IF a \in {"v1", "v2"} THEN 1 ELSE 0]
        /\ hist = <<>>
        /\ last = [op |-> "init", a |-> None, b |-> None, ok |-> TRUE, talive |-> FALSE, tst |-> "na", rel |-> "na"]

Alive(a) == status[a] \in {"Invite", "Cand", "Val"}
Invitees(a) == {x \in Actors : inviter[x] = a}

\* killing an identity removes its links with inviter and invitees, its delegation, and (when it is a pool) nothing else
Dead(a) == /\ status' = [status EXCEPT ![a] = "Killed"]
           /\ inviter' = [x \in Actors |-> IF x = a \/ inviter[x] = a THEN None ELSE inviter[x]]
           /\ deleg' = [deleg EXCEPT ![a] = None]
           /\ pdeleg' = [pdeleg EXCEPT ![a] = None]
           /\ UNCHANGED invites

Attempt(op, a, b, ok) == /\ Len(hist) < MaxDepth
                         /\ last' = [op |-> op, a |-> a, b |-> b, ok |-> ok,
                                     talive |-> IF b \in Actors THEN Alive(b) ELSE FALSE,   \* is the target a live identity?
                                     tst |-> IF b \in Actors THEN status[b] ELSE "na",       \* status of the target
                                     rel |-> IF b \notin Actors THEN "na"                    \* relationship of the actor to the target
                                             ELSE IF inviter[b] = a THEN "inviter"
                                             ELSE IF deleg[b] = a THEN "pool"
                                             ELSE IF inviter[b] = None THEN "no-inviter" ELSE "foreign-inviter"]
                         /\ hist' = Append(hist, last')

Reject(op, a, b) == Attempt(op, a, b, FALSE) /\ UNCHANGED <<status, inviter, deleg, pdeleg, invites>>

Invite(a, f) ==
    IF status[a] = "Val" /\ invites[a] > 0 /\ status[f] = "Undef" /\ a # f
    THEN /\ Attempt("Invite", a, f, TRUE)
         /\ status' = [status EXCEPT ![f] = "Invite"] /\ inviter' = [inviter EXCEPT ![f] = a]
         /\ invites' = [invites EXCEPT ![a] = @ - 1] /\ UNCHANGED <<deleg, pdeleg>>
    ELSE Reject("Invite", a, f)

\* the holder of an invitation activates it for itself or for another fresh address
Activate(f, t) ==
    IF status[f] = "Invite" /\ (t = f \/ status[t] = "Undef")
    THEN /\ Attempt("Activate", f, t, TRUE)
         /\ status' = [status EXCEPT ![t] = "Cand", ![f] = IF t = f THEN "Cand" ELSE "Killed"]
         /\ inviter' = [inviter EXCEPT ![t] = inviter[f], ![f] = IF t = f THEN inviter[f] ELSE None]
         /\ UNCHANGED <<deleg, pdeleg, invites>>
    ELSE Reject("Activate", f, t)

Kill(a) == IF Alive(a) /\ a # "g" /\ deleg[a] = None
           THEN Attempt("Kill", a, None, TRUE) /\ Dead(a)
           ELSE Reject("Kill", a, None)

\* C05: only the inviter may terminate an invitee (an identity that is not validated yet)
KillInvitee(a, b) ==
    IF inviter[b] = a /\ status[b] \in {"Invite", "Cand"} /\ status[a] = "Val"
    THEN Attempt("KillInvitee", a, b, TRUE) /\ Dead(b)
    ELSE Reject("KillInvitee", a, b)

Delegate(a, p) ==
    IF Alive(a) /\ status[a] # "Invite" /\ a # p /\ deleg[a] = None /\ pdeleg[a] = None /\ a # "g"
    THEN /\ Attempt("Delegate", a, p, TRUE) /\ pdeleg' = [pdeleg EXCEPT ![a] = p]
         /\ UNCHANGED <<status, inviter, deleg, invites>>
    ELSE Reject("Delegate", a, p)

Undelegate(a) ==
    IF deleg[a] # None /\ pdeleg[a] = None
    THEN /\ Attempt("Undelegate", a, None, TRUE) /\ pdeleg' = [pdeleg EXCEPT ![a] = "undel"]
         /\ UNCHANGED <<status, inviter, deleg, invites>>
    ELSE Reject("Undelegate", a, None)

\* C05: only the pool may terminate its delegator
KillDelegator(p, a) ==
    IF deleg[a] = p /\ Alive(a)
    THEN Attempt("KillDelegator", p, a, TRUE) /\ Dead(a)
    ELSE Reject("KillDelegator", p, a)

\* the delegation-switch block: pending delegations become active (only towards a target that does not delegate itself)
Switch ==
    /\ \E a \in Actors : pdeleg[a] # None
    /\ Attempt("Switch", None, None, TRUE)
    /\ deleg' = [a \in Actors |-> CASE pdeleg[a] = "undel" -> None
                                    [] pdeleg[a] \notin {None, "undel"} /\ deleg[pdeleg[a]] = None /\ Alive(a) -> pdeleg[a]
                                    [] OTHER -> deleg[a]]
    /\ pdeleg' = [a \in Actors |-> None]
    /\ UNCHANGED <<status, inviter, invites>>

Next == \/ \E a \in {"g", "v1", "v2", "s"}, f \in {"f1", "f2", "s"} : Invite(a, f)
        \/ \E f \in {"f1", "f2", "s"}, t \in {"f1", "f2"} : Activate(f, t)
        \/ \E a \in {"v1", "v2", "f1", "c"} : Kill(a)
        \/ \E a \in {"g", "v1", "v2", "s", "c"}, b \in {"f1", "f2", "c", "v2"} : a # b /\ KillInvitee(a, b)
        \/ \E a \in {"v1", "c", "f1"}, p \in {"v2", "s"} : Delegate(a, p)
        \/ \E a \in {"v1", "c"} : Undelegate(a)
        \/ \E p \in {"v2", "s", "g"}, a \in {"v1", "c", "f1"} : KillDelegator(p, a)
        \/ Switch

Spec == Init /\ [][Next]_vars

\* the relationship rule, as an action property: an identity other than the actor dies only through the named relationships
OnlyNamedRelationships ==
    [][\A x \in Actors :
          (status[x] # "Killed" /\ status'[x] = "Killed" /\ x # last'.a) =>
              \/ (last'.op = "KillInvitee" /\ inviter[x] = last'.a)
              \/ (last'.op = "KillDelegator" /\ deleg[x] = last'.a)
              \/ (last'.op = "Activate" /\ FALSE)]_vars

Export == PrintT(ToJson([path |-> hist']))
=============================================================================
