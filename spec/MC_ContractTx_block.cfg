CONSTANTS
  Names = {"S", "C", "R", "P"}
  Proposer = "P"
  Sender = "S"
  Target = "C"
  Other = "K"
  Rcpt = "R"
  AmtVals = {0, 1}
  GasVals = {2}
  MaxSteps = 1
  MaxDepth = 0
  MaxTx = 2
  Bug = "none"
  ExportOn = FALSE
INIT Init
NEXT Next
INVARIANTS TypeOK ClausesHold
CHECK_DEADLOCK FALSE
