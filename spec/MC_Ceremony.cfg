CONSTANTS
  ExportOn = TRUE
INIT Init
NEXT Next
INVARIANTS TypeOK IdInRange Rules InvAbsentNotPromoted InvAbsentNotLeftValidated InvInviteTerminated InvDeadStaysDead InvDeadFixedPoint
ACTION_CONSTRAINT Export
CHECK_DEADLOCK FALSE
