CONSTANTS
  NS = 1
  MaxNonce = 1
  MaxEpoch = 1
  NK = 1
  EL = 0
  PL = 0
  QS = 0
  ES = 0
  CB = 0
  RIC = FALSE
  GasCap = 0
  InitEpochs = {0}
  InitPers = {0}
  ForeignMax = 1
INIT TraceInit
NEXT TraceNext
POSTCONDITION TraceAccepted
CHECK_DEADLOCK FALSE
