------------------------- MODULE Trace_ContractTx -------------------------
(* Trace validation for C15.  Each Tx line of the trace is one contract transaction executed by  *)
(* the real node (alone in its block, or one of several in one block: "mid" = not the last one;  *)
(* Plain lines are the other transactions of such a block), with the receipt                      *)
(* the node stored, the effects the probes recorded during the real run, and the ledger          *)
(* projection read back from the committed state after the block.  The ledger is carried by the  *)
(* specification: `led` is the last observed (or, for a mid line, the specified) ledger, so every*)
(* line is judged against the state the previous line left.                                      *)
(* The observation is installed into the variables of ContractTx (pre0, led, tx, rc, eff, pc =   *)
(* "done"), i.e. every observed transaction is a completed-transaction state of the envelope      *)
(* on which the model's own invariant ClausesHold is what `Broken` evaluates.                      *)
(*   - `bad` collects the clauses of ContractTx.tla that some observed step breaks (verdict,     *)
(*     delivered by the postcondition with the first trace line of each clause);                 *)
(*   - `drift` counts steps whose charge differs from size fee + gas cost (reported only).       *)
EXTENDS ContractTx, Json, IOUtils

Trace == ndJsonDeserialize(IOEnv.TRACE_FILE)
ASSUME TLCSet(2, 0) /\ TLCSet(3, <<>>)

VARIABLES l, bad, drift,
          inb,     \* inside a block: earlier transactions of the block (mid lines) have been consumed
          bpre,    \* the ledger at the start of the current block
          bacc     \* what the earlier transactions of the block paid and burnt
tvars == <<vars, l, bad, drift, inb, bpre, bacc>>
prop == Proposer
Unused == UNCHANGED <<frames, gas, steps, shok, acts, blk>>

Pairs(s) == {<<s[j][1], s[j][2]>> : j \in DOMAIN s}
LedgerOf(s) == [n \in {s[i].a : i \in DOMAIN s} |->
                  LET r == s[CHOOSE i \in DOMAIN s : s[i].a = n]
                  IN [bal |-> r.bal, stake |-> r.stake, cstake |-> r.cstake, nonce |-> r.nonce, code |-> r.code,
                      store |-> Pairs(r.store)]]
ReqOf(s) == [n \in {s[i].a : i \in DOMAIN s} |-> s[CHOOSE i \in DOMAIN s : s[i].a = n].v]
EffOf(e) == [req |-> ReqOf(e.req), burnt |-> e.burnt, term |-> e.term, deployed |-> {e.deployed[i] : i \in DOMAIN e.deployed},
             sh |-> IF e.sh.ran THEN [ran |-> TRUE, ok |-> e.sh.ok,
                                      writes |-> {<<e.sh.writes[j][1], e.sh.writes[j][2], e.sh.writes[j][3]>> : j \in DOMAIN e.sh.writes},
                                      keep |-> {e.sh.keep[i] : i \in DOMAIN e.sh.keep}, moved |-> e.sh.moved,
                                      req |-> ReqOf(e.sh.req), dest |-> e.sh.dest,
                                      deployed |-> {e.sh.deployed[i] : i \in DOMAIN e.sh.deployed},
                                      base |-> [n \in {e.sh.req[i].a : i \in DOMAIN e.sh.req} |->
                                                  e.sh.req[CHOOSE i \in DOMAIN e.sh.req : e.sh.req[i].a = n].b]]
                    ELSE NoShadow]

NoTx == [kind |-> "none"]
NoRc == [success |-> FALSE, gasUsed |-> 0, gasCost |-> Zero, oog |-> FALSE]
NoEff == [req |-> <<>>, burnt |-> Zero, term |-> Zero, deployed |-> {}, sh |-> NoShadow]
TraceInit == /\ l = 1 /\ led = <<>> /\ pre0 = <<>> /\ pc = "idle" /\ tx = NoTx /\ rc = NoRc /\ eff = NoEff
             /\ frames = <<>> /\ gas = 0 /\ steps = 0 /\ shok = TRUE /\ acts = {} /\ blk = [cache |-> <<>>, ntx |-> 1, out |-> FALSE]
             /\ bad = {} /\ drift = 0 /\ inb = FALSE /\ bpre = <<>> /\ bacc = Zero

TReset == /\ l <= Len(Trace) /\ Trace[l].ev = "Reset" /\ l' = l + 1
          /\ Trace[l].p = Proposer
          /\ led' = LedgerOf(Trace[l].st) /\ pre0' = led' /\ pc' = "idle" /\ tx' = NoTx /\ rc' = NoRc /\ eff' = NoEff
          /\ Unused /\ UNCHANGED <<bad, drift>> /\ inb' = FALSE /\ bpre' = led' /\ bacc' = Zero

(* a block without contract transaction (funding transfer, empty blocks): the observation is installed *)
TOther == /\ l <= Len(Trace) /\ Trace[l].ev = "Other" /\ l' = l + 1
          /\ led' = LedgerOf(Trace[l].st) /\ pre0' = led' /\ pc' = "idle" /\ tx' = NoTx /\ rc' = NoRc /\ eff' = NoEff
          /\ Unused /\ UNCHANGED <<bad, drift>> /\ inb' = FALSE /\ bpre' = led' /\ bacc' = Zero

Note(b) == /\ bad' = IF b = "" THEN bad ELSE bad \cup {b}
           /\ IF b # "" /\ b \notin bad THEN TLCSet(3, Append(TLCGet(3), <<l, b>>)) ELSE TRUE

(* an earlier transaction of a block: the block accumulators *)
InBlock(spent) == /\ inb' = TRUE /\ bpre' = (IF inb THEN bpre ELSE led)
                  /\ bacc' = Plus(IF inb THEN bacc ELSE Zero, spent)

(* a transaction of a block that is not a contract transaction (never the last one of a block) *)
TPlain == /\ l <= Len(Trace) /\ Trace[l].ev = "Plain" /\ l' = l + 1
          /\ LET p == Trace[l] IN /\ led' = PlainOp(led, p) /\ InBlock(Plus(p.fee, p.tips))
          /\ pre0' = led /\ pc' = "idle" /\ tx' = NoTx /\ rc' = NoRc /\ eff' = NoEff
          /\ Unused /\ UNCHANGED <<bad, drift>>

TTx == /\ l <= Len(Trace) /\ Trace[l].ev = "Tx" /\ l' = l + 1
       /\ LET e == Trace[l]
              t == e.tx
              r == e.rc
              ef == EffOf(e.eff)
          IN IF e.mid
             THEN \* not the last transaction of its block: no observation in between; the specified
                  \* outcome is carried on, the clauses that need no observation are evaluated
                  /\ led' = MidOp(led, t, r, ef)
                  /\ Note(MidBroken(led, t, r, ef, prop)) /\ drift' = drift
                  /\ InBlock(Spent(t, r, ef, MidCharge(t, r)))
             ELSE LET post == LedgerOf(e.st)
                      b0 == Broken(led, post, t, r, ef, prop)
                      b == IF b0 = "" /\ inb /\ ~BlockConserved(bpre, post, Plus(bacc, Spent(t, r, ef, Charged(led, post, t, r, ef))), prop)
                           THEN "BlockConserved" ELSE b0
                      d == IF b = "" /\ Drift(led, post, t, r, ef) THEN 1 ELSE 0
                  IN /\ led' = post /\ Note(b)
                     /\ drift' = drift + d /\ TLCSet(2, drift')
                     /\ inb' = FALSE /\ bpre' = post /\ bacc' = Zero
       /\ pre0' = led /\ pc' = "done" /\ tx' = Trace[l].tx /\ rc' = Trace[l].rc /\ eff' = EffOf(Trace[l].eff)
       /\ Unused

TraceNext == TReset \/ TOther \/ TPlain \/ TTx
TraceSpec == TraceInit /\ [][TraceNext]_tvars

TraceAccepted ==
    LET d == TLCGet("stats").diameter IN
    /\ PrintT(<<"DRIFT", TLCGet(2)>>)
    /\ IF d - 1 = Len(Trace) THEN TRUE ELSE Print(<<"TRACE_REJECTED_AT", d, Len(Trace)>>, FALSE)
    /\ \A i \in 1..Len(TLCGet(3)) : PrintT(<<"CLAUSE_BROKEN", TLCGet(3)[i][1], TLCGet(3)[i][2]>>)
    /\ TLCGet(3) = <<>>
=============================================================================
