CONSTANTS
  Retain = 4
  HeadBeforeCanon = FALSE
  KeepOrphanVersions = FALSE
  PruneHidesCommitError = FALSE
  MaxCrashes = 2
  Kinds = {"plain", "tx", "idupd"}
  ForkKinds = {"idupd"}
  ResetDepths = {1, 2}
  ForkLens = {1, 2}
  FsKinds = {"plain", "idupd"}
  FsLens = {2}
  PreHeads = {2, 6}
  ExportOn = TRUE
INIT MInit
NEXT MNext
INVARIANTS TypeOK NoCrashNoProblem IdleConsistent ExplainedAsIs
ACTION_CONSTRAINT Export
CHECK_DEADLOCK TRUE
