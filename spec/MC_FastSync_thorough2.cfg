CONSTANTS
  MaxAttempts = 10
  NN = 3
  Peers = {"A", "B", "C"}
  Liars = {"A", "B"}
  MaxFaults = 2
  MaxNew = 2
  MaxRestarts = 0
  ExportOn = TRUE
  SampleMod = 400
  RareMod = 10
  BlockFaults = {"diff-wrong", "hdr-seed", "hdr-forged", "trunc", "cert-outsider"}
INIT MInit
NEXT MNext
VIEW view
INVARIANTS TypeOK NoFaultAccepted CulpritSetAside ArrivedEqualsApplied Recoverable
PROPERTIES NoPartialSwitch
ACTION_CONSTRAINT Export
CHECK_DEADLOCK FALSE
