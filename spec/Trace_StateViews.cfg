CONSTANTS
  Slots = {1, 2, 3}
  Vals = {1, 2, 3}
  Views = {1, 2, 3}
  MaxTop = 40
  MaxW = 1000000
  MaxOwn = 1000000
INIT TraceInit
NEXT TraceNext
POSTCONDITION TraceAccepted
CHECK_DEADLOCK FALSE
