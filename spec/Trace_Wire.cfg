CONSTANTS
  States = {"empty", "populated", "lottery", "short", "long", "afterlong"}
  TxTos = {"absent", "zero", "self", "known", "stranger", "contract"}
  TxPayloads = {"empty", "garbage", "valid"}
  TxAmounts = {"nil", "zero", "pos"}
  TxSenders = {"god", "verified", "newbie", "candidate", "invite", "funded", "unfunded"}
  MaxDev = 3
  Enumerate = FALSE
  Cmul = 64
  Cadd = 16777216
  BoundedDecode = TRUE
INIT TraceInit
NEXT TraceNext
POSTCONDITION TraceAccepted
CHECK_DEADLOCK FALSE
