CONSTANTS
  MN = 3
  MT = 2
  MTF = 2
  MMaxSteps = 3
  ExportOn = TRUE
  SampleMod = 40
  TimeoutOdds = 1
  MByz = {}
  Ks = {2}
INIT MInit
NEXT MNext
VIEW view
INVARIANTS TypeOK Agreement CertifiedCommitV Validity
PROPERTIES StepProps
ACTION_CONSTRAINT Export
CHECK_DEADLOCK FALSE
