------------------------------ MODULE MC_Wire ------------------------------
(* Bounded model run of Wire: TLC enumerates the whole shape table (Init chooses the shape, Handle *)
(* maps it to the admitted verdicts), checks Total and Proportionate on the model, and exports     *)
(* every shape as one JSON line for the Go driver.                                                *)
EXTENDS Wire, Json
CONSTANT ExportOn

Export == IF ExportOn /\ pc = "done" THEN PrintT(ToJson(case)) ELSE TRUE
=============================================================================
