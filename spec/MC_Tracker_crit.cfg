CONSTANTS
  Peers = {1, 2, 3}
  Hashes = {1, 2}
  D = 2
  MaxPar = 3
  MaxPend = 3
  Horizon = 3
  HeadCheck = TRUE
  PlainBase = 10
  MaxHold = 0
  CritOn = TRUE
  ExportOn = TRUE
  SampleMod = 4
  MaxAnn = 5
INIT MInit
NEXT MNext
VIEW view
INVARIANTS TypeOK
PROPERTIES StepProps
ACTION_CONSTRAINT ExportCrit
CHECK_DEADLOCK FALSE
