CONSTANTS
  MN = 4
  MT = 3
  MTF = 3
  MMaxSteps = 5
  ExportOn = TRUE
  SampleMod = 60
  TimeoutOdds = 1
  MByz = {}
  Ks = {0, 1}
INIT MInit
NEXT MNext
VIEW view
INVARIANTS TypeOK Agreement CertifiedCommitV Validity
PROPERTIES StepProps
ACTION_CONSTRAINT Export
CHECK_DEADLOCK FALSE
