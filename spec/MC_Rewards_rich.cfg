CONSTANTS
  N = 4
  Upgs = {10, 11, 12}
  Gods = {"V"}
  Pools = {0, 1}
  PrevSet = {2, 3, 7, 8}
  OutSet = {3, 7, 8}
  GoodSet = {1, 3, 4, 5}
  RepSet = {0, 1}
  NqSet = {0}
  StakeSet = {1, 2}
  DelegSet = {FALSE, TRUE}
  RelOn = TRUE
  PerPat = 0
  SampleMod = 1
INIT MCInit
NEXT MCNext
INVARIANTS Inv Export
CHECK_DEADLOCK FALSE
