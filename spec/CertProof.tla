------------------------------ MODULE CertProof ------------------------------
(* Unbounded proof (TLAPS) of the soundness half of C07 on the specification level:               *)
(* whatever the number of votes, the size of the approved set and the required count,             *)
(* a certificate that ValidateBlockCert (Cert!AcceptA) accepts contains a quorum of DISTINCT       *)
(* approved members with genuine signatures over this block hash, parent and round (Cert!QuorumA). *)
(* TLC checks the same implication on bounded instances (the MC_Cert configurations); this removes the bound.*)
EXTENDS Cert, TLAPS, FiniteSetTheorems

Vote == [voter : Nat, round : Nat, step : Nat, hash : Nat, parent : Nat, flag : Nat, sig : STRING]

THEOREM AcceptImpliesQuorum ==
    ASSUME NEW A, A \subseteq Nat,                 \* approved members are identities (never the markers NoOne / Garbage)
           NEW votes \in Seq(Vote),
           NEW cached \in BOOLEAN, NEW bh, NEW req \in Int,
           AcceptA(A, votes, cached, bh, req)
    PROVE  QuorumA(A, votes, bh, req)
<1> DEFINE c      == Compress(votes)
           idx    == {i \in 1..Len(votes) : ~(cached /\ votes[i].sig = "forged")}
           voters == {RecAddr(c, votes[i]) : i \in idx}
           gidx   == {j \in 1..Len(votes) : Genuine(c, votes[j], bh)}
           g      == {votes[i].voter : i \in gidx}
<1>1. /\ \A i \in idx : RecAddr(c, votes[i]) \in A /\ c.round = 0 /\ c.hash = bh
      /\ Cardinality(voters) >= req
    BY DEF AcceptA
<1>2. \A i \in idx : i \in gidx /\ RecAddr(c, votes[i]) = votes[i].voter
    <2> TAKE i \in idx
    <2>1. RecAddr(c, votes[i]) \in Nat
        BY <1>1
    <2>2. votes[i] \in Vote
        OBVIOUS
    <2>3. /\ votes[i].sig # "forged"
          /\ <<votes[i].round, votes[i].step, votes[i].hash>> = <<c.round, c.step, c.hash>>
          /\ votes[i].parent = 0
          /\ RecAddr(c, votes[i]) = votes[i].voter
        BY <2>1 DEF RecAddr, NoOne, Garbage
    <2>4. c.round = 0 /\ c.hash = bh
        BY <1>1
    <2>5. Genuine(c, votes[i], bh)
        BY <2>3, <2>4 DEF Genuine
    <2> QED BY <2>3, <2>5
<1>3. voters \subseteq g \cap A
    BY <1>1, <1>2
<1>4. IsFiniteSet(g \cap A)
    <2>1. IsFiniteSet(1..Len(votes))
        BY FS_Interval
    <2>2. IsFiniteSet(gidx)
        BY <2>1, FS_Subset
    <2>3. IsFiniteSet(g)
        BY <2>2, FS_Image
    <2> QED BY <2>3, FS_Subset
<1>5. Cardinality(voters) <= Cardinality(g \cap A)
    BY <1>3, <1>4, FS_Subset
<1>6. Cardinality(g \cap A) \in Nat /\ Cardinality(voters) \in Nat
    BY <1>3, <1>4, FS_Subset, FS_CardinalityType
<1>7. Cardinality(g \cap A) >= req
    BY <1>1, <1>5, <1>6
<1> QED BY <1>7 DEF QuorumA

(* The completeness half: a certificate made only of genuine votes of approved members, with a     *)
(* quorum of distinct ones among them, is accepted - with or without the shared signer cache.      *)
THEOREM QuorumImpliesAccept ==
    ASSUME NEW A, A \subseteq Nat,
           NEW votes \in Seq(Vote),
           NEW cached \in BOOLEAN, NEW bh, NEW req \in Int,
           QuorumA(A, votes, bh, req), NoForeignA(A, votes, bh)
    PROVE  AcceptA(A, votes, cached, bh, req)
<1> DEFINE c      == Compress(votes)
           idx    == {i \in 1..Len(votes) : ~(cached /\ votes[i].sig = "forged")}
           voters == {RecAddr(c, votes[i]) : i \in idx}
           gidx   == {j \in 1..Len(votes) : Genuine(c, votes[j], bh)}
           g      == {votes[i].voter : i \in gidx}
<1>1. \A i \in 1..Len(votes) : Genuine(c, votes[i], bh) /\ votes[i].voter \in A
    BY DEF NoForeignA
<1>2. \A i \in 1..Len(votes) : /\ i \in idx /\ i \in gidx
                                /\ RecAddr(c, votes[i]) = votes[i].voter
                                /\ c.round = 0 /\ c.hash = bh
    <2> TAKE i \in 1..Len(votes)
    <2>1. Genuine(c, votes[i], bh)
        BY <1>1
    <2>2. /\ votes[i].sig # "forged"
          /\ votes[i].round = 0 /\ votes[i].hash = bh /\ votes[i].parent = 0
          /\ votes[i].step = c.step /\ c.round = 0 /\ c.hash = bh
        BY <2>1 DEF Genuine
    <2>3. RecAddr(c, votes[i]) = votes[i].voter
        BY <2>2 DEF RecAddr
    <2> QED BY <2>1, <2>2, <2>3
<1>3. voters = g
    BY <1>2
<1>4. g \cap A = g
    BY <1>1
<1>5. Cardinality(voters) >= req
    BY <1>3, <1>4 DEF QuorumA
<1>6. \A i \in idx : RecAddr(c, votes[i]) \in A /\ c.round = 0 /\ c.hash = bh
    BY <1>1, <1>2
<1> QED BY <1>5, <1>6 DEF AcceptA

(* The vote counter: whenever countVotes can emit (Cert!CountEmitsA), the admitted votes it can    *)
(* collect contain req (or, for req <= 0, one) DISTINCT approved voters with genuine votes for the *)
(* hash - the material of a certificate that AcceptA accepts.                                      *)
THEOREM CounterHasQuorum ==
    ASSUME NEW A, A \subseteq Nat,
           NEW pool \in Seq(Vote), NEW adm \in [1..Len(pool) -> BOOLEAN],
           NEW step \in Nat, NEW h \in Nat, NEW req \in Int,
           CountEmitsA(A, pool, adm, step, h, req)
    PROVE  /\ EligibleA(A, pool, adm, step, h) \subseteq A
           /\ Cardinality(EligibleA(A, pool, adm, step, h)) >= req
           /\ Cardinality(EligibleA(A, pool, adm, step, h)) >= 1
<1>1. EligibleA(A, pool, adm, step, h) \subseteq A
    BY DEF EligibleA
<1>2. Cardinality(EligibleA(A, pool, adm, step, h)) >= EmitSize(req)
    BY DEF CountEmitsA
<1>3. EmitSize(req) >= req /\ EmitSize(req) >= 1 /\ EmitSize(req) \in Int
    BY DEF EmitSize
<1>4. IsFiniteSet(EligibleA(A, pool, adm, step, h))
    <2> DEFINE K == {j \in 1..Len(pool) : /\ adm[j] /\ pool[j].sig # "forged"
                                          /\ pool[j].round = 0 /\ pool[j].step = step
                                          /\ pool[j].parent = 0 /\ pool[j].hash = h
                                          /\ pool[j].voter \in A}
    <2>1. IsFiniteSet(1..Len(pool))
        BY FS_Interval
    <2>2. IsFiniteSet(K)
        BY <2>1, FS_Subset
    <2>3. EligibleA(A, pool, adm, step, h) = {pool[k].voter : k \in K}
        BY DEF EligibleA
    <2> QED BY <2>2, <2>3, FS_Image
<1>5. Cardinality(EligibleA(A, pool, adm, step, h)) \in Nat
    BY <1>4, FS_CardinalityType
<1> QED BY <1>1, <1>2, <1>3, <1>5
=============================================================================
