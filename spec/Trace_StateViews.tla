-------------------------- MODULE Trace_StateViews --------------------------
(* Trace validation for C13 (state views).  Each line of the trace is one real call performed by  *)
(* d_stateviews on the real StateDB / IdentityStateDB / AppState (canonical object `c`, views      *)
(* `v[x]`) and, for canonical calls, on a CONTROL object `t` that lives in a database of its own,  *)
(* never has a view taken from it and is re-opened from its database instead of being Reset.      *)
(* After every call the driver logs what every object shows: working roots of both trees,         *)
(* version, validators cache digest, and (lines with d = TRUE) the digests of the getter          *)
(* read-backs per kind of buffer; for the canonical object also the list of stored versions and   *)
(* a digest of the whole canonical database.                                                      *)
(*                                                                                               *)
(* The specification's actions (StateViews) must explain the sequence of calls; the OBSERVED      *)
(* values are then judged by the clauses below.  The verdict is delivered by the postcondition    *)
(* (CLAUSE_BROKEN lines: first trace line of each broken clause).                                 *)
EXTENDS StateViews, Json, IOUtils

Trace == ndJsonDeserialize(IOEnv.TRACE_FILE)
ASSUME TLCSet(3, <<>>)

VARIABLES l,      \* next trace line
          ob,     \* the observation logged by the previous line
          com,    \* height -> what a freshly booted reader of the CONTROL database showed right after that commit
          vsv,    \* view -> what the view showed when it was made / last saved a version of its own
          seen,   \* {[k |-> [chain, work], r |-> <<root, iroot>>]} : roots observed per content
          bad     \* clauses broken so far
tvars == <<vars, l, ob, com, vsv, seen, bad>>

NoObs == [live |-> FALSE]

Sh(o) == <<o.root, o.iroot, o.ver>>
SameRb(a, b) == (a.d /\ b.d) => a.rb = b.rb
Same(a, b) == Sh(a) = Sh(b) /\ a.vc = b.vc /\ SameRb(a, b)
SameNoVc(a, b) == Sh(a) = Sh(b) /\ SameRb(a, b)

Key(chain, work) == [chain |-> chain, work |-> work]
Roots(o) == <<o.root, o.iroot>>

\* objects of the NEXT model state with their observation in `post`
Objs(post) ==
    {[k |-> Key(store', canon'.work), r |-> Roots(post.c)], [k |-> Key(store', canon'.work), r |-> Roots(post.t)]}
    \cup {[k |-> Key(views'[x].chain, views'[x].work), r |-> Roots(post.v[x])] : x \in {y \in Views : views'[y].st = "live"}}

Clash(objs) == \E a \in objs, b \in objs \cup seen : a.k = b.k /\ a.r # b.r

TraceInit == /\ Init /\ l = 1 /\ bad = {}
             /\ ob = NoObs /\ com = <<>> /\ vsv = [x \in Views |-> NoObs] /\ seen = {}

Note(cl) == /\ bad' = bad \cup cl
            /\ \A c \in cl \ bad : TLCSet(3, Append(TLCGet(3), <<l, c>>))

\* a new case: fresh canonical + control databases holding the two genesis versions
TReset ==
    /\ l <= Len(Trace) /\ Trace[l].ev = "Reset" /\ l' = l + 1
    /\ LET e == Trace[l] IN
       /\ store' = Genesis /\ canon' = Clean /\ views' = [x \in Views |-> NoView]
       /\ lab' = Lab("Init", 0, "", 0, 0, 0, "")
       /\ ob' = e.obs
       /\ com' = [h \in 1..MaxTop |-> IF h <= Len(e.gen) THEN e.gen[h] ELSE NoObs]
       /\ vsv' = [x \in Views |-> NoObs]
       /\ seen' = {[k |-> Key(Genesis, <<>>), r |-> Roots(e.gen[Len(Genesis)])]}
       /\ Note((IF ~(SameNoVc(e.obs.c, e.obs.t) /\ e.obs.cx.vers = e.obs.tx.vers) THEN {"CanonMatchesControl"} ELSE {})
               \cup (IF ~SameNoVc(e.obs.c, e.gen[Len(Genesis)]) THEN {"HistoricalExact"} ELSE {}))

ModelStep(e) ==
    CASE e.ev = "CanonWrite"      -> CanonWrite([s |-> e.s, v |-> e.v])
      [] e.ev = "CanonPrecommit"  -> CanonPrecommit
      [] e.ev = "CanonCommit"     -> CanonCommit
      [] e.ev = "CanonAddDiff"    -> CanonAddDiff(e.x)
      [] e.ev = "CanonCommitTree" -> CanonCommitTree
      [] e.ev = "CanonReset"      -> CanonReset
      [] e.ev = "CanonResetTo"    -> CanonResetTo(e.h)
      [] e.ev = "MakeView"        -> MakeView(e.x, e.ctor, e.h)
      [] e.ev = "ViewWrite"       -> ViewWrite(e.x, [s |-> e.s, v |-> e.v])
      [] e.ev = "ViewPrecommit"   -> ViewPrecommit(e.x)
      [] e.ev = "ViewCommit"      -> ViewCommit(e.x)
      [] e.ev = "ViewReset"       -> ViewReset(e.x)
      [] e.ev = "DropView"        -> DropView(e.x)
      [] e.ev = "NonceTouch"      -> NonceTouch(e.x)
      [] e.ev = "ReadAll"         -> UNCHANGED <<store, canon, views>> /\ lab' = Lab("ReadAll", 0, "", 0, 0, 0, "")

\* the property clauses, evaluated on the observed values around one real call
Broken(e, pre, post) ==
    LET viewStep == e.ev \in ViewEvs
        other(x) == Live(x) /\ views'[x].st = "live" /\ (e.x # x \/ e.ev \in CanonEvs)
    IN  \* (1) no step of a view changes what the canonical object shows, its stored versions or its database
        (IF (viewStep \/ e.ev = "ReadAll") /\ ~(Same(pre.c, post.c) /\ pre.cx = post.cx) THEN {"CanonUntouched"} ELSE {})
        \* (2) a view changes by its own steps only
        \cup (IF \E x \in Views : other(x) /\ ~Same(pre.v[x], post.v[x]) THEN {"ViewIsolated"} ELSE {})
        \* (3) the canonical object equals the control that performed the canonical calls only
        \*     ("commit of a different block": nothing a view did may end up in a canonical Precommit / Commit)
        \cup (IF ~(SameNoVc(post.c, post.t) /\ post.cx.vers = post.tx.vers) THEN {"CanonMatchesControl"} ELSE {})
        \* (4) a new view of height h is exactly what was committed at h
        \cup (IF e.ev = "MakeView" /\ ~SameNoVc(post.v[e.x], com[e.h]) THEN {"HistoricalExact"} ELSE {})
        \* (5) Reset / ResetTo bring back exactly the saved version: nothing speculative survives
        \cup (IF e.ev = "CanonReset" /\ ~SameNoVc(post.c, com[Top]) THEN {"ResetRestores"} ELSE {})
        \cup (IF e.ev = "CanonResetTo" /\ ~SameNoVc(post.c, com[e.h]) THEN {"ResetRestores"} ELSE {})
        \cup (IF e.ev = "ViewReset" /\ ~SameNoVc(post.v[e.x], vsv[e.x]) THEN {"ResetRestores"} ELSE {})
        \* (5b) right after a commit the canonical object shows exactly the committed version (no buffer survives it)
        \cup (IF e.ev \in {"CanonCommit", "CanonCommitTree"} /\ e.err = "" /\ ~SameNoVc(post.c, e.hist) THEN {"CommitExact"} ELSE {})
        \* (6) what an object's trees hold is a function of its own history: two objects with the same
        \*     [chain, work] show the same roots (a view computes what the canonical object would)
        \cup (IF Clash(Objs(post)) THEN {"SameContentSameRoot"} ELSE {})
        \* (7) an enabled call does not fail
        \cup (IF e.err # "" THEN {"CallFailed"} ELSE {})

TStep ==
    /\ l <= Len(Trace) /\ Trace[l].ev \notin {"Reset", "Panic"} /\ l' = l + 1
    /\ LET e == Trace[l] IN
       /\ ModelStep(e)
       /\ ob' = e.obs
       /\ com' = IF e.ev \in {"CanonCommit", "CanonCommitTree"} THEN [com EXCEPT ![Len(store')] = e.hist] ELSE com
       /\ vsv' = IF e.ev \in {"MakeView", "ViewCommit"} THEN [vsv EXCEPT ![e.x] = e.obs.v[e.x]] ELSE vsv
       /\ seen' = seen \cup Objs(e.obs)
       /\ Note(Broken(e, ob, e.obs))

\* the real code panicked inside a call the specification enables: the case ends there
TPanic ==
    /\ l <= Len(Trace) /\ Trace[l].ev = "Panic" /\ l' = l + 1
    /\ UNCHANGED <<vars, ob, com, vsv, seen>>
    /\ Note({"Panic"})

TraceNext == TReset \/ TStep \/ TPanic
TraceSpec == TraceInit /\ [][TraceNext]_tvars

TraceAccepted ==
    LET d == TLCGet("stats").diameter IN
    /\ IF d - 1 = Len(Trace) THEN TRUE ELSE Print(<<"TRACE_REJECTED_AT", d, Len(Trace)>>, FALSE)
    /\ \A i \in 1..Len(TLCGet(3)) : PrintT(<<"CLAUSE_BROKEN", TLCGet(3)[i][1], TLCGet(3)[i][2]>>)
    /\ TLCGet(3) = <<>>
=============================================================================
