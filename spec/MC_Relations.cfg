CONSTANTS
  MaxDepth = 4
INIT Init
NEXT Next
VIEW view
PROPERTIES OnlyNamedRelationships
ACTION_CONSTRAINT Export
CHECK_DEADLOCK FALSE
