CONSTANTS
  MaxK = 2
  AllowN = 1
  BigAllow = {}
  SimC = 6
  SimF = 6
  SampleMod = 1
  Seed = 1
  ExportOn = TRUE
INIT SimInit
NEXT SimNext
INVARIANTS InvDomain InvOnlyAssigned InvReportLimit InvRewardOnlyReported InvReportersRewarded InvGradeConsistent InvReportHonoured InvAnswerBacked InvConsensusHonoured InvCandidates InvPermutation
ACTION_CONSTRAINT Export
CHECK_DEADLOCK FALSE
