------------------------------ MODULE MC_Filter ------------------------------
EXTENDS Filter, Json
CONSTANT ExportOn
Kinds(ts) == [j \in 1..Len(ts) |-> ts[j].s \o ":" \o ts[j].k]
Export == IF ExportOn /\ i' > Len(offer)
          THEN PrintT(ToJson([case |-> case, offer |-> Kinds(offer), included |-> Kinds(incl'),
                              skippedAtApplication |-> Len(offer) - Len(incl') - (IF case.cause = "none" THEN 0 ELSE 1)]))
          ELSE TRUE
=============================================================================
