----------------------------- MODULE MC_QualCand -----------------------------
(* Candidate contexts for qualifyCandidate with FREE flip qualifications (any coherent map, not only one that      *)
(* qualifyFlips produced for the same population): TLC builds every context of the families below (BFS) or random  *)
(* ones position by position (simulation), evaluates QualifyCandidate, checks the clauses on the model's own       *)
(* result and exports context + expected result for replay on the REAL code.                                       *)
(*   position  one flip to solve: every flip qualification kind x reported or not x approved author or not x       *)
(*             every raw answer x session                                                                         *)
(*   extras    short lists of 7 and 8 flips: 0..3 unanswered not-approved regular flips, every kind of the two      *)
(*             extra positions (the "testing flips" rule, ExtraFlipsInOrder)                                      *)
(*   payload   no payload / garbage / parsable x long answers that open the short ones or not x list lengths       *)
EXTENDS Qualification, Json, TLC
CONSTANTS SimLen, ExportOn

VARIABLES ctx, res, stage
vars == <<ctx, res, stage>>

SetOf(s) == {s[i] : i \in 1..Len(s)}
\* na is exported as a sequence; Ctx turns it into the set the model uses
Ctx(c) == [short |-> c.short, has |-> c.has, auth |-> c.auth, fts |-> c.fts, ans |-> c.ans, na |-> SetOf(c.na), fq |-> c.fq]
Mk(short, has, auth, fts, ans, na, fq) == [short |-> short, has |-> has, auth |-> auth, fts |-> fts, ans |-> ans, na |-> na, fq |-> fq]

\* coherent flip qualification kinds <<status, answer>>
Kinds == <<<<Qualified, Left>>, <<Qualified, Right>>, <<WeaklyQualified, Left>>, <<WeaklyQualified, Right>>, <<QualifiedByNone, None>>, <<NotQualified, None>>>>
Fq(f, kind, gr) == <<f, Kinds[kind][1], Kinds[kind][2], gr>>

PositionCtxs == {Mk(short, 2, 1, <<5>>, <<<<a, g>>>>, na, fq) :
                    short \in BOOLEAN, a \in 0..3, g \in {0, GReported, 7}, na \in {<<>>, <<5>>},
                    fq \in {<<Fq(5, k, gr)>> : k \in 1..Len(Kinds), gr \in {GReported, GD, GNone}} \cup {<<>>}}

\* regular part: positions 1..6 on flips 10..15, all Qualified Left; the first k unanswered and not approved, the others answered Left
ExtraKinds == {<<a, k, gr>> : a \in {None, Left, Right}, k \in {1, 3, 4, 5, 6}, gr \in {GD, GReported}}
ExtraCtxs(len) == {Mk(TRUE, 2, 1, [i \in 1..len |-> 9 + i],
                 [i \in 1..len |-> IF i <= k THEN <<None, 0>> ELSE IF i <= 6 THEN <<Left, 0>> ELSE IF i = 7 THEN <<e1[1], 0>> ELSE <<e2[1], 0>>],
                 [i \in 1..(k + nax) |-> IF i <= k THEN 9 + i ELSE 16],
                 [i \in 1..len |-> IF i <= 6 THEN Fq(9 + i, 1, GD) ELSE IF i = 7 THEN Fq(16, e1[2], e1[3]) ELSE Fq(17, e2[2], e2[3])]) :
                 k \in 0..3, nax \in {0, 1}, e1 \in ExtraKinds, e2 \in (IF len = 8 THEN ExtraKinds ELSE {<<None, 1, GD>>})}

PayloadCtxs == {Mk(short, has, auth, [i \in 1..len |-> i - 1], [i \in 1..len |-> <<Left, GD>>], <<>>, [i \in 1..len |-> Fq(i - 1, 1, GD)]) :
                   short \in BOOLEAN, has \in 0..2, auth \in 0..1, len \in {0, 1, 3, 6, 7, 9}}

Seeds == {"position", "extras7", "extras8", "payload"}
CtxsOf(sd) == IF sd = "position" THEN PositionCtxs
              ELSE IF sd = "extras7" THEN ExtraCtxs(7)
              ELSE IF sd = "extras8" THEN ExtraCtxs(8)
              ELSE PayloadCtxs

Init == ctx \in Seeds /\ res = <<>> /\ stage = <<"seed">>
Build == /\ stage = <<"seed">>
         /\ \E c \in CtxsOf(ctx) : ctx' = c /\ res' = QualifyCandidate(Ctx(c)) /\ stage' = <<"done">>
Next == Build

\* ---- random contexts, position by position (simulation mode)
SimInit == /\ \E short \in BOOLEAN, minlen \in {0, 3, 7, 8}, pk \in {<<2, 1>>, <<2, 1>>, <<2, 0>>, <<1, 1>>, <<0, 1>>}, na \in {<<>>, <<0>>, <<1, 2>>, <<0, 3, 5>>} :
              /\ ctx = Mk(short, pk[1], pk[2], <<>>, <<>>, na, <<>>)
              /\ stage = <<"build", minlen>>
           /\ res = <<>>
SimPos == /\ stage[1] = "build" /\ Len(ctx.fts) < (IF ctx.short THEN ShortFlips + ShortExtraFlips ELSE SimLen)
          /\ \E a \in 0..3, g \in {0, 0, GReported, GD, GA}, k \in 0..Len(Kinds), gr \in {GNone, GReported, GD, GB} :
                LET f == Len(ctx.fts) IN
                ctx' = [ctx EXCEPT !.fts = Append(@, f), !.ans = Append(@, <<a, IF ctx.short THEN 0 ELSE g>>),
                                   !.fq = IF k = 0 THEN @ ELSE Append(@, Fq(f, k, gr))]
          /\ res' = res /\ stage' = stage
SimDone == /\ stage[1] = "build" /\ Len(ctx.fts) >= Min(stage[2], IF ctx.short THEN ShortFlips + ShortExtraFlips ELSE SimLen)
           /\ ctx' = ctx /\ res' = QualifyCandidate(Ctx(ctx)) /\ stage' = <<"done">>
SimNext == SimPos \/ SimDone

Export == IF ExportOn /\ stage' = <<"done">> THEN PrintT(ToJson([ctx |-> ctx', expect |-> res'])) ELSE TRUE

Done == stage = <<"done">>
InvDomain           == Done => CandInDomain(Ctx(ctx))
InvNoAnswerNoPoint  == Done => CandNoAnswerNoPoint(Ctx(ctx), res)
InvScoreInRange     == Done => CandScoreInRange(Ctx(ctx), res)
InvPointJustified   == Done => CandPointJustified(Ctx(ctx), res)
InvQualifiedCounts  == Done => CandQualifiedCounts(Ctx(ctx), res)
InvTestingFlips     == Done => CandTestingFlips(Ctx(ctx), res)
=============================================================================
