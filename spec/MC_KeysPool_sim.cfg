CONSTANTS
  NN = 4
  Authors = {1, 2, 4}
  ForgeFor = {1, 3}
  FClasses = {1, 2, 3, 4, 5, 6, 7}
  MaxPos = 11
  MaxLag = 2
  MaxDlv = 30
  MaxRst = 3
  MaxSyn = 12
  MaxBatch = 0
  Acts = {"timer", "delayed"}
  SyncCap = 1
  ExportOn = TRUE
  SampleMod = 8
  WalkEvery = 40
INIT Init
NEXT Next
VIEW view
INVARIANTS TypeOK Admission HonestAgreement OrderIndependent FirstWins ClearedAtEpoch OwnIsOwn PublishedBySession NoEarlyReveal PkgAfterLottery ExportWalk

ACTION_CONSTRAINT NoExport
CHECK_DEADLOCK FALSE
