------------------------------ MODULE ForkStore ------------------------------
(* Fork adoption (C08): consensus/fork_resolver.go (processBlocks, checkForkSize, applyFork),     *)
(* blockchain/blockchain.go (ValidateSubChain, ResetTo, AddBlock, WriteCertificate),              *)
(* core/appstate ResetTo, core/state ResetTo.  The fork part of the ChainStore family.            *)
(*                                                                                              *)
(* Two nodes: the ADOPTER lives on its own branch `own` above a common ancestor and is offered   *)
(* the branch `fork` by a peer; the REFERENCE follows `fork` from the ancestor by plain sync.    *)
(* One action per step of the code:                                                             *)
(*   OfferFork        the bundles of the peer arrive (sorted by height)                          *)
(*   CheckForkSize    the weight rule, exactly as in checkForkSize                               *)
(*   ValidateBlock(i) one iteration of ValidateSubChain on a copy-on-write state at the ancestor:*)
(*                    full block validation, certificate REQUIRED on identity-update blocks,     *)
(*                    certificate validated whenever it is non-empty, Commit on the copy         *)
(*   ValidateTip      the tip must carry a certificate (the property: required AND non-empty)    *)
(*   ResetTo          roll state, identity state, validator view, head and index back            *)
(*   AddBlock(i), WriteCert(i)   re-apply the fork, one block at a time                          *)
(*   RefSync          the reference replica inserts the fork blocks one after the other          *)
(* Blocks are abstract records [empty, idupd, v, c, txs, hash]:                                  *)
(*   v  in {"valid","badroot","badtx","badflags"}   full validity on top of its predecessor      *)
(*   c  in {"nil","empty","under","forged","valid"} the certificate that travels with it        *)
(* A node's state is what it applied since the ancestor (the state is a function of the chain); *)
(* the validator view is kept separately because the code keeps it in a cache that is only      *)
(* refreshed on identity-update blocks and must be reloaded on ResetTo.                          *)
(*                                                                                              *)
(* AsRead = FALSE is the property-shaped oracle used for generation and for judging traces of   *)
(* the real code.  AsRead = TRUE transcribes two places of the code as they read today (tip     *)
(* test `Cert == nil` only; WriteCertificate(nil) dereferences the nil certificate); TLC then   *)
(* refutes AdoptOnlyCertified / AdoptionCompletes in the model, which yields the candidate       *)
(* shapes that the conformance run reproduces on the real code.                                  *)
(* (A third place is deliberately NOT transcribed: ValidateSubChain commits the copy with Commit *)
(* after validateBlock's Precommit, so the copy's validator view is not refreshed behind an      *)
(* identity-update block and every later fork block is refused.  That only makes the code refuse *)
(* acceptable forks - drift against this oracle, not a violation of the "only if" property.)     *)
EXTENDS Integers, Sequences, FiniteSets, TLC

CONSTANT AsRead

VARIABLES own,       \* Seq(block): the adopter's branch above the ancestor
          fork,      \* Seq(block): the offered branch (<<>> = nothing offered yet)
          seed,      \* "better" | "worse" | "equal": seed of fork[1] against seed of own[1]
          pc,        \* "idle" | "offered" | "validating" | "loaded" | "applying" | "adopted" | "done" | "refused" | "crashed"
          vi,        \* ValidateSubChain: index of the next block to validate
          ai,        \* applyFork: index of the next block to insert
          sub,       \* applyFork: "add" | "cert"
          A,         \* store of the adopter
          R,         \* store of the reference replica
          pre,       \* adopter's store when the fork was offered
          reverted,  \* transactions handed back by ResetTo
          why        \* reason of a refusal (export / diagnostics)

vars == <<own, fork, seed, pc, vi, ai, sub, A, R, pre, reverted, why>>

---------------------------------------------------------------------------
(* blocks and stores *)

CertAbsent(c) == c \in {"nil", "empty"}

Hashes(bs) == [i \in 1..Len(bs) |-> bs[i].hash]
RECURSIVE TxsOf(_)
TxsOf(bs) == IF bs = <<>> THEN <<>> ELSE Head(bs).txs \o TxsOf(Tail(bs))
IdUpdBlocks(bs) == SelectSeq(bs, LAMBDA b : b.idupd)

\* a store, relative to the ancestor: canonical index (hashes by height), applied state, validator
\* view (identity-update blocks applied), headers present, certificates present
StoreOf(bs) == [chain |-> Hashes(bs),
                st    |-> Hashes(bs),
                vv    |-> Hashes(IdUpdBlocks(bs)),
                hdr   |-> {bs[i].hash : i \in 1..Len(bs)},
                certs |-> {bs[i].hash : i \in {j \in 1..Len(bs) : ~CertAbsent(bs[j].c)}}]
EmptyStore == StoreOf(<<>>)

\* what the property compares between adopter and reference
View(s) == [chain |-> s.chain, st |-> s.st, vv |-> s.vv,
            resolved |-> [i \in 1..Len(s.chain) |-> s.chain[i] \in s.hdr]]

---------------------------------------------------------------------------
(* the weight rule: consensus/fork_resolver.go checkForkSize *)
Proposed(bs, n) == Cardinality({i \in 1..n : ~bs[i].empty})

SizeOk(o, f, s) ==
    IF Len(f) > Len(o) THEN TRUE                                 \* fork tip above the own head
    ELSE IF Proposed(f, Len(f)) < Proposed(o, Len(f)) THEN FALSE  \* fewer proposed blocks on the compared heights
    ELSE s = "better"                                            \* otherwise the first fork block needs the better seed

(* one iteration of ValidateSubChain *)
BlockPasses(b) == /\ b.v = "valid"
                  /\ (b.idupd => ~CertAbsent(b.c))              \* "Block cert is missing"
                  /\ (~CertAbsent(b.c) => b.c = "valid")         \* ValidateBlockCert on the copy's validator view

FirstFail(f) == IF \A i \in 1..Len(f) : BlockPasses(f[i]) THEN 0
                ELSE CHOOSE i \in 1..Len(f) : ~BlockPasses(f[i]) /\ \A j \in 1..(i - 1) : BlockPasses(f[j])

(* the tip certificate: the property demands required AND non-empty *)
TipOk(f) == LET t == f[Len(f)].c IN IF AsRead THEN t # "nil" ELSE ~CertAbsent(t)

(* property-level notions, independent of AsRead *)
AllValid(f)  == \A i \in 1..Len(f) : f[i].v = "valid"
Certified(f) == /\ f[Len(f)].c = "valid"
                /\ \A i \in 1..Len(f) : (f[i].idupd => f[i].c = "valid") /\ (~CertAbsent(f[i].c) => f[i].c = "valid")
Acceptable(o, f, s) == SizeOk(o, f, s) /\ AllValid(f) /\ Certified(f)

\* which certificate requirements an adopted fork misses ("" = none): the signature of a wrong adoption
CertDefect(f) ==
    LET t  == f[Len(f)].c
        d1 == IF \E i \in 1..(Len(f) - 1) : f[i].idupd /\ CertAbsent(f[i].c) THEN "identity-update-uncertified" ELSE ""
        d2 == IF \E i \in 1..(Len(f) - 1) : ~CertAbsent(f[i].c) /\ f[i].c # "valid" THEN "mid-badcert" ELSE ""
        d3 == IF t = "valid" THEN "" ELSE "tip-" \o t \o (IF f[Len(f)].idupd THEN "-on-identity-update" ELSE "")
        J(a, b) == IF a = "" THEN b ELSE IF b = "" THEN a ELSE a \o "+" \o b
    IN J(J(d1, d2), d3)
AdoptDefect(o, f, s) ==
    IF ~SizeOk(o, f, s) THEN "AdoptOnlyHeavier"
    ELSE IF ~AllValid(f) THEN "AdoptOnlyValid:" \o f[CHOOSE i \in 1..Len(f) : f[i].v # "valid"].v
    ELSE IF ~Certified(f) THEN "AdoptOnlyCertified:" \o CertDefect(f)
    ELSE ""

---------------------------------------------------------------------------
(* store steps of applyFork, as functions (reused by the trace specification) *)

\* Blockchain.ResetTo(ancestor): appState.ResetTo (state, identity state, ValidatorsCache.Load, nonce
\* cache), setHead, then for every abandoned height: collect the body, remove header and index entry
DoReset(s, o) == [s EXCEPT !.chain = <<>>, !.st = <<>>, !.vv = <<>>,
                           !.hdr = @ \ {o[i].hash : i \in 1..Len(o)}]
\* Blockchain.AddBlock: validate on the canonical state, commit, refresh the validator view on
\* identity-update blocks, write header / head / canonical entry
DoAdd(s, b) == [s EXCEPT !.chain = Append(@, b.hash), !.st = Append(@, b.hash),
                         !.vv = IF b.idupd THEN Append(@, b.hash) ELSE @,
                         !.hdr = @ \cup {b.hash}]
DoCert(s, b) == IF b.c = "nil" THEN s ELSE [s EXCEPT !.certs = @ \cup {b.hash}]

RECURSIVE Replay(_, _)
Replay(s, bs) == IF bs = <<>> THEN s ELSE Replay(DoAdd(s, Head(bs)), Tail(bs))
\* the adopter's store after a completed adoption, and the reference's after following the fork
Adopted(s, o, f) == Replay(DoReset(s, o), f)
Followed(f) == Replay(EmptyStore, f)

---------------------------------------------------------------------------
Init == /\ own = <<>> /\ fork = <<>> /\ seed = "equal" /\ pc = "idle" /\ vi = 0 /\ ai = 0 /\ sub = "add"
        /\ A = EmptyStore /\ R = EmptyStore /\ pre = EmptyStore /\ reverted = <<>> /\ why = ""

\* the adopter has reached `o` by ordinary consensus; the peer's answer `f` arrives
OfferFork(o, f, s) ==
    /\ pc = "idle" /\ o # <<>> /\ f # <<>>
    /\ own' = o /\ fork' = f /\ seed' = s
    /\ A' = StoreOf(o) /\ pre' = StoreOf(o) /\ R' = EmptyStore
    /\ pc' = "offered" /\ vi' = 0 /\ ai' = 0 /\ sub' = "add" /\ reverted' = <<>> /\ why' = ""

CheckForkSize ==
    /\ pc = "offered"
    /\ IF SizeOk(own, fork, seed) THEN pc' = "validating" /\ vi' = 1 /\ why' = why
       ELSE pc' = "refused" /\ vi' = vi /\ why' = "size"
    /\ UNCHANGED <<own, fork, seed, ai, sub, A, R, pre, reverted>>

ValidateBlock ==
    /\ pc = "validating" /\ vi <= Len(fork)
    /\ IF BlockPasses(fork[vi]) THEN pc' = pc /\ vi' = vi + 1 /\ why' = why
       ELSE /\ pc' = "refused" /\ vi' = vi
            /\ why' = IF fork[vi].v # "valid" THEN "invalid" ELSE "cert"
    /\ UNCHANGED <<own, fork, seed, ai, sub, A, R, pre, reverted>>     \* the canonical store is not touched

ValidateTip ==
    /\ pc = "validating" /\ vi = Len(fork) + 1
    /\ IF TipOk(fork) THEN pc' = "loaded" /\ why' = why ELSE pc' = "refused" /\ why' = "tip"
    /\ UNCHANGED <<own, fork, seed, vi, ai, sub, A, R, pre, reverted>>

ResetTo ==
    /\ pc = "loaded"
    /\ A' = DoReset(A, own)
    /\ reverted' = TxsOf(own)
    /\ pc' = "applying" /\ ai' = 1 /\ sub' = "add"
    /\ UNCHANGED <<own, fork, seed, vi, R, pre, why>>

AddBlock ==
    /\ pc = "applying" /\ sub = "add" /\ ai <= Len(fork)
    /\ A' = DoAdd(A, fork[ai]) /\ sub' = "cert"
    /\ UNCHANGED <<own, fork, seed, pc, vi, ai, R, pre, reverted, why>>

WriteCert ==
    /\ pc = "applying" /\ sub = "cert"
    /\ IF AsRead /\ fork[ai].c = "nil"
       THEN pc' = "crashed" /\ A' = A /\ ai' = ai /\ sub' = sub          \* nil certificate dereferenced
       ELSE pc' = pc /\ A' = DoCert(A, fork[ai]) /\ ai' = ai + 1 /\ sub' = "add"
    /\ UNCHANGED <<own, fork, seed, vi, R, pre, reverted, why>>

Finish ==
    /\ pc = "applying" /\ sub = "add" /\ ai = Len(fork) + 1
    /\ pc' = "adopted"
    /\ UNCHANGED <<own, fork, seed, vi, ai, sub, A, R, pre, reverted, why>>

RefSync ==
    /\ pc = "adopted"
    /\ R' = Followed(fork) /\ pc' = "done"
    /\ UNCHANGED <<own, fork, seed, vi, ai, sub, A, pre, reverted, why>>

Steps == CheckForkSize \/ ValidateBlock \/ ValidateTip \/ ResetTo \/ AddBlock \/ WriteCert \/ Finish \/ RefSync

---------------------------------------------------------------------------
(* the property *)
Moved == pc \in {"applying", "adopted", "done", "crashed"}     \* the adopter left its own branch

AdoptOnlyCertified == Moved => Acceptable(own, fork, seed)
AdoptionCompletes  == pc # "crashed"
AdoptionEqualsSync == pc = "done" => View(A) = View(R)
RevertedReturned   == Moved => reverted = TxsOf(own)
RefusedUnchanged   == pc = "refused" => A = pre
\* (the oracle refuses exactly the unacceptable forks: the model's AdoptFork enabledness)
RefuseIffUnacceptable == /\ pc = "refused" => ~Acceptable(own, fork, seed) \/ AsRead
                         /\ pc = "loaded" => (Acceptable(own, fork, seed) \/ AsRead)

TypeOK == /\ pc \in {"idle", "offered", "validating", "loaded", "applying", "adopted", "done", "refused", "crashed"}
          /\ sub \in {"add", "cert"} /\ vi \in 0..(Len(fork) + 1) /\ ai \in 0..(Len(fork) + 1)
=============================================================================
