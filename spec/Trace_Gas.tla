------------------------------ MODULE Trace_Gas ------------------------------
(* Trace validation of the gas-boundary scenarios (harness/cmd/d_chain -gas).  Each "GasCase" line  *)
(* carries the model list it realises and what the real nodes did with it.  The specification      *)
(* recomputes pattern, offer and block from Gas.tla and judges:                                   *)
(*   Realised          the real per-transaction gas (static + receipt) reproduces the model's       *)
(*                     relation pattern to the REAL cap on the included prefix (otherwise the       *)
(*                     scenario proves nothing: reported as not-realised, never as a verdict);      *)
(*   ProposedAccepted  the proposer's block and the block that takes the leftovers were accepted    *)
(*                     by every in-sync replica (C02);                                             *)
(*   drift             the real block has another length than Builder(PoolOffer(list)).            *)
EXTENDS Gas, Json, IOUtils

Trace == ndJsonDeserialize(IOEnv.TRACE_FILE)
ASSUME TLCSet(2, 0) /\ TLCSet(3, <<>>)
VARIABLES l, bad
tvars == <<txs, l, bad>>

TxsOf(c) == [i \in 1..Len(c.txs) |-> [g |-> c.txs[i].g, c |-> c.txs[i].c]]

TraceInit == txs = <<>> /\ l = 1 /\ bad = {}

Judge(e) ==
    LET s == TxsOf(e.case)
        realised == /\ e.feasible /\ e.case.cap = Cap /\ e.case.r = R
                    /\ (e.accepted => /\ e.blockLen <= Len(s)
                                      /\ e.pat = SubSeq(Pattern(s), 1, e.blockLen))
    IN IF ~realised THEN {"NotRealised"}
       ELSE (IF ~e.accepted \/ ~e.nextAccepted THEN {"ProposedAccepted"} ELSE {})

TGas == /\ l <= Len(Trace) /\ Trace[l].ev = "GasCase" /\ l' = l + 1
        /\ LET e == Trace[l]  b == Judge(e) IN
           /\ txs' = TxsOf(e.case)
           /\ bad' = bad \cup b
           /\ \A c \in b : TLCSet(3, Append(TLCGet(3), <<l, c>>))
           /\ IF b = {} /\ e.blockLen # Len(Block(TxsOf(e.case))) THEN TLCSet(2, TLCGet(2) + 1) ELSE TRUE
TOther == /\ l <= Len(Trace) /\ Trace[l].ev # "GasCase" /\ l' = l + 1 /\ UNCHANGED <<txs, bad>>

TraceNext == TGas \/ TOther
TraceSpec == TraceInit /\ [][TraceNext]_tvars

TraceAccepted ==
    LET d == TLCGet("stats").diameter IN
    /\ PrintT(<<"DRIFT", TLCGet(2)>>)
    /\ IF d - 1 = Len(Trace) THEN TRUE ELSE Print(<<"TRACE_REJECTED_AT", d, Len(Trace)>>, FALSE)
    /\ \A i \in 1..Len(TLCGet(3)) : PrintT(<<"CLAUSE_BROKEN", TLCGet(3)[i][1], TLCGet(3)[i][2]>>)
    /\ TLCGet(3) = <<>>
=============================================================================
