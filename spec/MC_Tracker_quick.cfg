CONSTANTS
  Peers = {1, 2}
  Hashes = {1, 2}
  D = 2
  MaxPar = 3
  MaxPend = 3
  Horizon = 4
  HeadCheck = TRUE
  PlainBase = 10
  MaxHold = 0
  CritOn = FALSE
  ExportOn = TRUE
  SampleMod = 20
  MaxAnn = 6
INIT MInit
NEXT MNext
VIEW view
INVARIANTS TypeOK
PROPERTIES StepProps
ACTION_CONSTRAINT Export
CHECK_DEADLOCK FALSE
