CONSTANTS
  Params <- DefaultParams
  MaxN = 130
  ExportNs <- QuickNs
  DevNs <- QuickDevNs
  ExportOn = TRUE
INIT Init
NEXT Next
INVARIANTS SizeSane Majority Export
CHECK_DEADLOCK FALSE
