CONSTANTS
  Params <- DefaultParams
  MaxN = 150
  ExportNs <- QuickNs
  DevNs <- QuickDevNs
  ExportOn = TRUE
INIT Init
NEXT Next
INVARIANTS SizeSane Majority Export
CHECK_DEADLOCK FALSE
