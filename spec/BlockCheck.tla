------------------------------ MODULE BlockCheck ------------------------------
(* C03 - a block with any inconsistent derived field is rejected, side-effect free.              *)
(*                                                                                               *)
(* Property-shaped case table with an implementation-shaped validator.                           *)
(*                                                                                               *)
(* A block is a record of INPUTS (body, proposer key, timestamp - the things a proposer chooses) *)
(* and of DERIVED header fields.  The honest value of a derived field is a symbolic function of  *)
(* the inputs it is computed from (`Rec`), evaluated on the validator's own state (the state is  *)
(* fixed per case, so it does not appear as an argument).  A tamper case rewrites inputs and/or  *)
(* header fields.  `Validate` is the staged validator of blockchain.go (validateBlockParentHash, *)
(* validateBlockTimestamp, ValidateHeader, validateBlock), one action per stage, returning at    *)
(* the first failing stage.                                                                      *)
(*                                                                                               *)
(* Three strengths of mismatch are distinguished, so that the table never expects a rejection    *)
(* the property does not justify:                                                                *)
(*   def    - the header value is certainly not the recomputation (window, eligibility, a field  *)
(*            that is an injective function of a changed input: txHash/body CID of the body,     *)
(*            seed/proof of the key, a body that cannot be executed);                            *)
(*   ifdiff - the header value was rewritten while the inputs it depends on were not; it is a    *)
(*            mismatch iff the rewritten encoding really differs from the honest block with the  *)
(*            same inputs (the driver measures that; identical encodings are skipped);           *)
(*   may    - the field depends on a changed input but not injectively (roots of a reordered     *)
(*            body, flags of a shifted timestamp): the recomputation MAY coincide.  The staged   *)
(*            validator is nondeterministic there; a case whose only mismatches are `may` has    *)
(*            no expectation (it must be a declared free choice, else the table is unsound:      *)
(*            invariant TableSound).                                                             *)
EXTENDS Integers, Sequences, FiniteSets, TLC

CONSTANTS Kinds,       \* block kinds enumerated: subset of {"ptx", "prc", "pnotx", "empty"}
          MixKinds,    \* kinds for which the sibling mixes are enumerated
          PairKinds    \* kinds for which two-part tampers are enumerated

ToSet(s) == {s[i] : i \in 1..Len(s)}

PF == <<"parent", "height", "seed", "proof", "fee", "txhash", "bloom", "flags", "root", "idroot", "ipfs", "rcid">>
EF == <<"parent", "height", "root", "idroot", "seed", "time", "flags">>
Fields(k) == IF k = "empty" THEN ToSet(EF) ELSE ToSet(PF)
Ops == {"flip", "inc", "dec", "zero", "foreign"}
(* REPLAY: a derived field (or a group of fields that belong together) carries the value it had in an EARLIER honest  *)
(* block of the SAME proposer - a block the validator itself has validated and inserted moments ago (a "warm"       *)
(* validator: the property's "what the validator recomputes from its own state" has to hold whatever the node has   *)
(* in its memory from earlier validations).  Every field of a group comes from the same donor block, so the group   *)
(* is coherent in itself (a valid seed proof of that key for another height, roots that belong together, ...).       *)
ReplayGroups == [seed |-> {"seed"}, proof |-> {"proof"}, seedpair |-> {"seed", "proof"},
                 roots |-> {"root", "idroot"}, bodyhdr |-> {"txhash", "bloom", "ipfs", "rcid"},
                 flags |-> {"flags"}, fee |-> {"fee"}, derived |-> {"seed", "proof", "root", "idroot", "txhash", "bloom", "ipfs", "rcid", "flags", "fee"}]

(* inputs a derived field is computed from (besides the validator's own state) *)
Dep(k, f) == IF k = "empty" THEN {}
             ELSE CASE f \in {"seed", "proof"}                   -> {"key"}
                    [] f \in {"txhash", "bloom", "ipfs", "rcid"} -> {"body"}
                    [] f = "flags"                               -> {"body", "time"}
                    [] f \in {"root", "idroot"}                  -> {"body", "key", "time"}
                    [] OTHER                                     -> {}
(* ... of which injectively (a change of the input certainly changes the recomputation) *)
Must(k, f) == IF k = "empty" THEN {}
              ELSE CASE f \in {"seed", "proof"}  -> {"key"}
                     [] f \in {"txhash", "ipfs"} -> {"body"}
                     [] OTHER                    -> {}
BodyDep == {"txhash", "bloom", "flags", "root", "idroot", "ipfs", "rcid"}

(* symbolic values: <<tag, body, key, time>> *)
Pick(k, f, x, in) == IF x \in Dep(k, f) THEN in[x] ELSE "-"
Rec(k, f, in) == <<"rec", Pick(k, f, "body", in), Pick(k, f, "key", in), Pick(k, f, "time", in)>>
Alt(op)  == <<"alt", op, "-", "-">>
Absent   == <<"absent", "-", "-", "-">>
InputOf(v, x) == CASE x = "body" -> v[2] [] x = "key" -> v[3] [] x = "time" -> v[4]

In0 == [body |-> "orig", key |-> "P", time |-> "orig"]
(* `struct`: which header variants the block carries.  A header has two optional parts (empty / *)
(* proposed); a well-formed one carries exactly the part its kind dictates, and an empty block     *)
(* carries no transactions:                                                                       *)
(*   asis    - untouched                  both   - both parts present                             *)
(*   neither - no part                    e_body - the empty part only, with transactions attached *)
(*   e_only / p_only - the honest block of the OTHER kind for the same height (a control)         *)
Honest(k, in) == [kind |-> k, in |-> in, hdr |-> [f \in Fields(k) |-> Rec(k, f, in)], free |-> FALSE, mix |-> FALSE,
                  struct |-> "asis"]

---------------------------------------------------------------------------
(* tamper cases *)
BodyEdits == {"drop", "dup", "swap", "strip", "app_epoch", "app_poor"}
TimeOut   == {"below1", "atprev", "beforeprev", "above1", "farabove",
              "maxint", "minint"}      \* next to the limits of the 64-bit seconds counter (arithmetic on them wraps around)
KeyCases  == {"swap", "unknown", "offline"}
FreeCases == {"fee_absent", "time_inwin", "offline_propose"}
(* structural tampers: they change WHICH parts the header carries / whether an empty block has a  *)
(* body.  E = the honest empty header of this height, P = an honest proposed header.              *)
StructOf(s) ==
    CASE s \in {"attach_p_sib",          \* E + the proposed header (and body) of an honest proposal of the same height
                "attach_p_sib_nobody",   \* the same without the body
                "attach_p_other",        \* E + the proposed header and body of a block of another height
                "attach_p_fab",          \* E + a fabricated proposed header (matching height and parent) and body
                "attach_e",              \* the honest proposed block + E
                "attach_e_nobody",       \* the same with the body removed
                "both_e_tampered",       \* both parts, a field of the empty part rewritten
                "both_p_tampered"}       \* both parts, a field of the proposed part rewritten
                                 -> "both"
      [] s \in {"neither", "neither_body"} -> "neither"      \* no part at all (without / with a body)
      [] s = "body_on_empty"              -> "e_body"       \* honest empty header with transactions attached
      [] s = "to_empty"                   -> "e_only"       \* control: the honest empty block of this height
      [] s = "to_proposed"                -> "p_only"       \* control: an honest proposal of this height
StructNames == {"attach_p_sib", "attach_p_sib_nobody", "attach_p_other", "attach_p_fab", "attach_e", "attach_e_nobody",
                "both_e_tampered", "both_p_tampered", "neither", "neither_body", "body_on_empty", "to_empty", "to_proposed"}

FieldCases(k) == {[t |-> "field", f |-> f, op |-> op] : f \in Fields(k), op \in Ops}
BodyCases(k)  == IF k = "empty" THEN {}
                 ELSE {[t |-> "body", e |-> e, rehash |-> r] :
                          e \in (IF k = "pnotx" THEN {"app_epoch", "app_poor"} ELSE BodyEdits), r \in BOOLEAN}
\* rebuilt: the block is HONESTLY built for that timestamp (every derived field recomputed for it by the proposer's own functions):
\* the window is then the only thing wrong with it
TimeCases(k)  == IF k = "empty" THEN {} ELSE {[t |-> "time", c |-> c, rebuilt |-> r] : c \in TimeOut, r \in BOOLEAN}
KeyCs(k)      == IF k = "empty" THEN {} ELSE {[t |-> "key", c |-> c] : c \in KeyCases}
FreeCs(k)     == IF k = "empty" THEN {} ELSE {[t |-> "free", c |-> c] : c \in FreeCases}
ReplayCases(k) == IF k = "empty" THEN {} ELSE {[t |-> "replay", g |-> g] : g \in DOMAIN ReplayGroups}
StructCases(k) == {[t |-> "struct", s |-> s] : s \in StructNames \ (IF k = "empty" THEN {"to_empty", "attach_e"} ELSE {"to_proposed"})}
MixCases(k)   == IF k \in MixKinds
                 THEN {[t |-> "mix", body |-> b, src |-> s] : b \in {"orig", "sib"}, s \in [BodyDep -> {"orig", "sib"}]}
                 ELSE {}
(* two-part tampers, applied in order: a rewrite of another field or one definite input change,  *)
(* then a field rewrite.  A body edit is never combined with a rewrite of the body CID (a        *)
(* foreign CID could be the right one).                                                          *)
PairCases(k)  == IF k \in PairKinds
                 THEN UNION {{[t |-> "multi", parts |-> <<b, a>>] :
                                b \in {x \in FieldCases(k) : x.f # a.f} \cup
                                      (IF a.f = "ipfs" THEN {} ELSE BodyCases(k)) \cup TimeCases(k) \cup KeyCs(k)} :
                             a \in FieldCases(k)}
                 ELSE {}
Singles(k) == {[t |-> "none"]} \cup FieldCases(k) \cup BodyCases(k) \cup TimeCases(k) \cup KeyCs(k) \cup FreeCs(k) \cup MixCases(k)
              \cup StructCases(k) \cup ReplayCases(k)
Cases(k)   == Singles(k) \cup PairCases(k)

(* Apply(b, c, D): the block after tamper case c.  D is the set of header fields in which the     *)
(* rewritten encoding REALLY differs from the honest block with the same inputs: a rewrite that   *)
(* does not change the encoding (zero of an already empty field, a foreign value equal to the own *)
(* one, a sibling's field equal to the own one) is no tamper.  The model run uses D = all fields  *)
(* (every rewrite effective); trace validation uses the measured set.                             *)
RECURSIVE Apply(_, _, _)
Apply(b, c, D) ==
    CASE c.t = "none"  -> b
      [] c.t = "field" -> IF c.f \notin D THEN b
                          ELSE IF c.f = "fee" /\ c.op = "zero"
                          THEN [b EXCEPT !.hdr["fee"] = Absent, !.free = TRUE]     \* an absent fee rate is a free choice
                          ELSE [b EXCEPT !.hdr[c.f] = Alt(c.op)]
      [] c.t = "body"  -> LET b1 == [b EXCEPT !.in.body = c.e]
                          IN IF c.rehash THEN [b1 EXCEPT !.hdr["txhash"] = Rec(b.kind, "txhash", b1.in)] ELSE b1
      [] c.t = "time"  -> IF c.rebuilt THEN [Honest(b.kind, [b.in EXCEPT !.time = c.c]) EXCEPT !.free = b.free]
                          ELSE [b EXCEPT !.in.time = c.c]
      [] c.t = "key"   -> IF c.c = "swap"
                          THEN [b EXCEPT !.in.key = "other"]                       \* key replaced, nothing recomputed
                          ELSE [Honest(b.kind, [b.in EXCEPT !.key = c.c]) EXCEPT !.free = b.free]  \* honestly built by an ineligible key
      [] c.t = "mix"   -> [b EXCEPT !.in.body = c.body, !.mix = TRUE,
                                    !.hdr = [f \in Fields(b.kind) |->
                                               IF f \in BodyDep
                                               THEN Rec(b.kind, f, [b.in EXCEPT !.body = IF f \in D THEN c.src[f] ELSE c.body])
                                               ELSE b.hdr[f]]]
      [] c.t = "struct" -> [b EXCEPT !.struct = StructOf(c.s)]
      [] c.t = "replay" -> [b EXCEPT !.hdr = [f \in Fields(b.kind) |->
                                                IF f \in ReplayGroups[c.g] \cap D THEN Alt("replay") ELSE b.hdr[f]]]
      [] c.t = "free"  -> IF c.c = "time_inwin" THEN [b EXCEPT !.in.time = "inwin", !.free = TRUE]
                          ELSE IF c.c = "fee_absent" THEN [b EXCEPT !.hdr["fee"] = Absent, !.free = TRUE]
                          ELSE [b EXCEPT !.free = TRUE]
      [] c.t = "multi" -> IF Len(c.parts) = 0 THEN b
                          ELSE Apply(Apply(b, c.parts[1], D), [t |-> "multi", parts |-> Tail(c.parts)], D)

TamperedD(k, c, D) == Apply(Honest(k, In0), c, D)
Tampered(k, c) == TamperedD(k, c, Fields(k))

---------------------------------------------------------------------------
(* the validator, stage by stage (code order) *)
PStages == <<"shape", "link", "window", "seed", "fee", "proposer", "txhash", "txs", "bloom", "flags", "roots", "ipfs", "rcid">>
EStages == <<"shape", "emptyhash">>
Stages(k) == IF k = "empty" THEN EStages ELSE PStages

Ok == 0
May == 1
IfDiff == 2
Def == 3
Max2(a, b) == IF a >= b THEN a ELSE b
MaxOf(S) == IF S = {} THEN 0 ELSE CHOOSE x \in S : \A y \in S : y <= x

FieldLevel(b, f) ==
    LET v == b.hdr[f]
        r == Rec(b.kind, f, b.in)
    IN IF v = r THEN Ok
       ELSE IF v[1] = "absent" THEN Ok
       ELSE IF v[1] = "alt" THEN IfDiff
       ELSE IF \E x \in Must(b.kind, f) : InputOf(v, x) # InputOf(r, x) THEN Def
       ELSE IF b.mix THEN IfDiff       \* value of the honest sibling: decided by comparing with it
       ELSE May

InWindow(b) == b.in.time \in {"orig", "inwin"}
Eligible(b) == b.in.key \in {"P", "other"}

StageLevel(b, s) ==
    CASE s = "shape"     -> IF b.struct \in {"both", "neither", "e_body"} THEN Def ELSE Ok
      [] s = "link"      -> Max2(FieldLevel(b, "height"), FieldLevel(b, "parent"))
      [] s = "window"    -> IF InWindow(b) THEN Ok ELSE Def
      [] s = "seed"      -> Max2(FieldLevel(b, "proof"), FieldLevel(b, "seed"))
      [] s = "fee"       -> FieldLevel(b, "fee")
      [] s = "proposer"  -> IF Eligible(b) THEN Ok ELSE Def
      [] s = "txhash"    -> FieldLevel(b, "txhash")
      [] s = "txs"       -> IF b.in.body \in {"dup", "app_epoch", "app_poor"} THEN Def
                            ELSE IF b.in.body \in {"drop", "swap", "strip"} THEN May ELSE Ok
      [] s = "bloom"     -> FieldLevel(b, "bloom")
      [] s = "flags"     -> FieldLevel(b, "flags")
      [] s = "roots"     -> Max2(FieldLevel(b, "root"), FieldLevel(b, "idroot"))
      [] s = "ipfs"      -> FieldLevel(b, "ipfs")
      [] s = "rcid"      -> FieldLevel(b, "rcid")
      [] s = "emptyhash" -> MaxOf({FieldLevel(b, f) : f \in Fields(b.kind)})

Worst(b) == MaxOf({StageLevel(b, s) : s \in ToSet(Stages(b.kind))})

(* the property's notion, written over the FIELDS (independently of the stage list): a block is  *)
(* certainly inconsistent / certainly consistent; `may` mismatches leave it undetermined         *)
WellFormed(b)   == b.struct \in {"asis", "e_only", "p_only"}   \* exactly one header part, no body on an empty block
Inconsistent(b) == \/ ~WellFormed(b)
                   \/ \E f \in Fields(b.kind) : FieldLevel(b, f) >= IfDiff
                   \/ b.kind # "empty" /\ (~InWindow(b) \/ ~Eligible(b) \/ StageLevel(b, "txs") = Def)
Consistent(b)   == /\ WellFormed(b)
                   /\ \A f \in Fields(b.kind) : FieldLevel(b, f) = Ok
                   /\ b.kind = "empty" \/ (InWindow(b) /\ Eligible(b) /\ StageLevel(b, "txs") = Ok)

(* expectation of the table *)
Expect(b) == LET w == Worst(b) IN
             IF w >= IfDiff THEN "reject"
             ELSE IF b.free THEN "free"
             ELSE IF w = May THEN "unsound"
             ELSE "accept"
Conditional(b) == Worst(b) = IfDiff         \* rejection expected only if the encoding really differs
MayFail(b)  == {s \in ToSet(Stages(b.kind)) : StageLevel(b, s) > Ok}
SeqFilter(s, S) == SelectSeq(s, LAMBDA x : x \in S)

---------------------------------------------------------------------------
VARIABLES kind, cs, blk, pc, verdict, first
vars == <<kind, cs, blk, pc, verdict, first>>

Init == /\ kind \in Kinds
        /\ cs \in Cases(kind)
        /\ blk = Tampered(kind, cs)
        /\ pc = 1
        /\ verdict = "pending"
        /\ first = ""

Pass == /\ IF pc = Len(Stages(kind)) THEN verdict' = "accept" /\ pc' = pc ELSE verdict' = verdict /\ pc' = pc + 1
        /\ UNCHANGED <<kind, cs, blk, first>>
Fail == /\ verdict' = "reject" /\ first' = Stages(kind)[pc]
        /\ UNCHANGED <<kind, cs, blk, pc>>

(* one stage of the validator; a `may` stage can go either way *)
Check == /\ verdict = "pending"
         /\ LET lv == StageLevel(blk, Stages(kind)[pc]) IN
            \/ lv = Ok /\ Pass
            \/ lv = May /\ (Pass \/ Fail)
            \/ lv >= IfDiff /\ Fail

Next == Check
Spec == Init /\ [][Next]_vars

---------------------------------------------------------------------------
(* properties of the model *)
TypeOK == verdict \in {"pending", "accept", "reject"} /\ pc \in 1..Len(Stages(kind))

(* Accepted => Consistent (every derived field equals its recomputation, window, eligibility) *)
AcceptedConsistent == verdict = "accept" => ~Inconsistent(blk)
(* the stage list decides exactly the property's notion wherever the notion is decided *)
VerdictMatchesTable == /\ (verdict = "accept" => Expect(blk) \in {"accept", "free"})
                       /\ (verdict = "reject" => Expect(blk) \in {"reject", "free"})
(* the table expects nothing it cannot justify *)
TableSound == /\ Expect(blk) # "unsound"
              /\ (Expect(blk) = "accept" => Consistent(blk))
              /\ (Expect(blk) = "reject" => Inconsistent(blk))
(* a rejection is always attributed to a stage that can fail *)
FirstInFailSet == verdict = "reject" => first \in MayFail(blk)
=============================================================================
