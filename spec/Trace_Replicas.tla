--------------------------- MODULE Trace_Replicas ---------------------------
(* Trace validation for C01 and C02 on the histories recorded by harness/cmd/d_chain.            *)
(* Each "Block" line carries, for one block offered to all replicas: the proposer, the block     *)
(* kind, per replica the node-local pre-history it went through, its verdict (validation /       *)
(* insertion error class) and its observation after the step.  The observed values are bound    *)
(* into the variables of Replicas and the property clauses are evaluated on them; broken clauses *)
(* are delivered (once each, with the first trace line) by the postcondition.                    *)
EXTENDS Integers, Sequences, FiniteSets, TLC, Json, IOUtils

Trace == ndJsonDeserialize(IOEnv.TRACE_FILE)
ASSUME TLCSet(3, <<>>)

VARIABLES l,       \* position in the trace
          heads,   \* [replica name -> [height, hash]] heads observed so far (function over a set of strings)
          bad      \* set of broken clause names

vars == <<l, heads, bad>>

Names(rec) == DOMAIN rec

\* a replica is in sync before the block iff its head is the parent (same height and hash as the reference r0)
InSync(h, r) == r \in DOMAIN h /\ h[r] = h["r0"]

\* C02: the block was built by an honest proposer (ProposeBlock or GenerateEmptyBlock on its head):
\* every replica that is in sync accepts it, on the validation path and on the insertion path
ProposedAccepted(pre, e) ==
    \A r \in Names(e.verdicts) : InSync(pre, r) => e.verdicts[r] = "ok"

\* C01: replicas that are in sync and are offered the same honestly built block never disagree about its state
\* transition: it is a violation when one of them refuses the block for a roots / hash mismatch while another accepts
\* it, and when ALL of them refuse it (for whatever reason) although proposing on the same head gives varying results - the
\* refused proposal included - (the proposer's own evaluations disagree: node-local nondeterminism).  When every replica, the proposer included, deterministically
\* refuses the proposal, the replicas agree with each other - that is C02's business (ProposedAccepted), not C01's.
SameTransition(pre, e) ==
    LET ins == {r \in Names(e.verdicts) : InSync(pre, r)} IN
    /\ ~(\E a, b \in ins : e.verdicts[a] = "roots-mismatch" /\ e.verdicts[b] = "ok")
    /\ ~((\A r \in ins : e.verdicts[r] # "ok") /\ ins # {} /\ "diag" \in DOMAIN e /\ e.diag # <<>> /\ e.diag.nondet)

\* C01: all replicas that hold the same chain observe the same result (byte-identical head hash, roots,
\* flags, epoch, period, next validation time, fee rate, VRF threshold, shards, discrimination threshold,
\* validator-view sizes), whatever node-local history they went through
Agreement(e) ==
    \A a, b \in Names(e.obs) :
        (e.verdicts[a] = "ok" /\ e.verdicts[b] = "ok" /\ e.obs[a].hash = e.obs[b].hash) => e.obs[a] = e.obs[b]

\* the live state a node keeps working on is the one its head commits to
LiveMatchesHead(e) == \A r \in Names(e.obs) : e.verdicts[r] = "ok" => e.obs[r].liveroot = e.obs[r].root

\* C13 (chain level): speculative work (validation, proposal, read-only query) left database and live root alone
CanonUntouched(e) == \A r \in Names(e.canon) : e.canon[r] = TRUE

\* C13 (chain level): a read-only view of a retained height returns what was committed at that height
HistoricalExact(e) == ("hist" \in DOMAIN e) => (e.hist.ok /\ e.hist.same)

\* C13 (chain level): the read-only view of the head returns exactly what the node committed for its head
ReadonlyHeadExact(e) == ("rohead" \in DOMAIN e) => (e.rohead.ok /\ e.rohead.same)

\* C01: a replica that was away and is offered the canonical chain in batches by full sync accepts it and ends with the
\* observation of the replicas that followed the chain block by block (the reference observation is bound to the head
\* the specification recorded for r0 when the batch reaches the current head)
SyncedAgrees(e, hd) ==
    /\ e.verdict = "ok"
    /\ e.obs = e.refobs
    /\ (e.head = hd["r0"][1] => e.obs.hash = hd["r0"][2])

Broken(pre, e) ==
    (IF ~ProposedAccepted(pre, e) THEN {"ProposedAccepted"} ELSE {}) \cup
    (IF ~Agreement(e) THEN {"Agreement"} ELSE {}) \cup
    (IF ~SameTransition(pre, e) THEN {"SameTransition"} ELSE {}) \cup
    (IF ~LiveMatchesHead(e) THEN {"LiveMatchesHead"} ELSE {}) \cup
    (IF ~CanonUntouched(e) THEN {"CanonUntouched"} ELSE {}) \cup
    (IF ~HistoricalExact(e) THEN {"HistoricalExact"} ELSE {}) \cup
    (IF ~ReadonlyHeadExact(e) THEN {"ReadonlyHeadExact"} ELSE {})

RECURSIVE Report(_, _)
Report(S, line) == IF S = {} THEN TRUE
                   ELSE LET c == CHOOSE x \in S : TRUE IN
                        TLCSet(3, Append(TLCGet(3), <<line, c>>)) /\ Report(S \ {c}, line)

TraceInit == l = 1 /\ heads = <<>> /\ bad = {}

TGenesis == /\ l <= Len(Trace) /\ Trace[l].ev = "Genesis" /\ l' = l + 1
            /\ heads' = [r \in {"r0"} |-> <<Trace[l].obs.height, Trace[l].obs.hash>>]
            /\ UNCHANGED bad

TBlock == /\ l <= Len(Trace) /\ Trace[l].ev = "Block" /\ l' = l + 1
          /\ LET e == Trace[l]
                 \* before the first block every replica is at the genesis head
                 pre == [r \in Names(e.verdicts) |-> IF r \in DOMAIN heads THEN heads[r] ELSE heads["r0"]]
                 b == Broken(pre, e)
             IN /\ heads' = [r \in Names(e.obs) |-> <<e.obs[r].height, e.obs[r].hash>>]
                /\ bad' = bad \cup b
                /\ Report(b, l)

\* a fork switch performed by every replica: heads move back together
TReset == /\ l <= Len(Trace) /\ Trace[l].ev = "Reset" /\ l' = l + 1
          /\ heads' = [r \in DOMAIN Trace[l].obs |-> <<Trace[l].obs[r].height, Trace[l].obs[r].hash>>]
          /\ UNCHANGED bad

TCatchup == /\ l <= Len(Trace) /\ Trace[l].ev = "Catchup" /\ l' = l + 1
            /\ LET b == IF SyncedAgrees(Trace[l], heads) THEN {} ELSE {"SyncedAgrees"} IN
               /\ bad' = bad \cup b
               /\ Report(b, l)
            /\ UNCHANGED heads

TOther == /\ l <= Len(Trace) /\ Trace[l].ev \notin {"Genesis", "Block", "Reset", "Catchup"} /\ l' = l + 1 /\ UNCHANGED <<heads, bad>>

TraceNext == TGenesis \/ TBlock \/ TReset \/ TCatchup \/ TOther
TraceSpec == TraceInit /\ [][TraceNext]_vars

TraceAccepted ==
    LET d == TLCGet("stats").diameter IN
    /\ IF d - 1 = Len(Trace) THEN TRUE ELSE Print(<<"TRACE_REJECTED_AT", d, Len(Trace)>>, FALSE)
    /\ \A i \in 1..Len(TLCGet(3)) : PrintT(<<"CLAUSE_BROKEN", TLCGet(3)[i][1], TLCGet(3)[i][2]>>)
    /\ TLCGet(3) = <<>>
=============================================================================
