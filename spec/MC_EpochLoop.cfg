CONSTANTS
  Ids = {1, 2, 3, 4}
  CanonicalOrder = TRUE
INIT Init
NEXT Next
INVARIANTS Confluent ExportSensitive
CHECK_DEADLOCK FALSE
