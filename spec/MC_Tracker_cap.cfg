CONSTANTS
  Peers = {1, 2, 3, 4}
  Hashes = {1}
  D = 2
  MaxPar = 3
  MaxPend = 3
  Horizon = 2
  HeadCheck = TRUE
  PlainBase = 10
  MaxHold = 3
  CritOn = FALSE
  ExportOn = TRUE
  SampleMod = 8
  MaxAnn = 5
INIT MInit
NEXT MNext
VIEW view
INVARIANTS TypeOK
PROPERTIES StepProps
ACTION_CONSTRAINT ExportCap
CHECK_DEADLOCK FALSE
