CONSTANTS
  Peers = {1, 2, 3, 4, 5, 6}
  Hashes = {1, 2, 3, 11, 12}
  D = 2
  MaxPar = 3
  MaxPend = 20000
  Horizon = 1000000
  HeadCheck = TRUE
  PlainBase = 10
  MaxHold = 3
  CritOn = TRUE
INIT TraceInit
NEXT TraceNext
POSTCONDITION TraceAccepted
CHECK_DEADLOCK FALSE
