---------------------------- MODULE CeremonyRun ----------------------------
(* C17 part (b): one node going through a validation ceremony - the variants in which a node can reach *)
(* the block that finishes the validation, and what it then computes.                                  *)
(*                                                                                                    *)
(* Implementation-shaped, one action per step of core/ceremony/ceremony.go:                            *)
(*   Add       = AddBlock of the next block of the node's chain: the AddBlock event handler            *)
(*               (handleBlock -> processCeremonyTxs -> qualification.addAnswers / epoch db, then        *)
(*               qualification.persist); for the block that starts the flip lottery the lottery seed    *)
(*               and identities are written; for the block that finishes the validation the epoch is    *)
(*               evaluated (ApplyNewEpoch inside ValidateBlock) and completeEpoch runs (new epoch db,   *)
(*               new answer store, per-height cache dropped, old epoch db cleared - the code clears it  *)
(*               from a goroutine, the model at once)                                                   *)
(*   Restart   = the process is replaced: Initialize -> restoreState (qualification.restore, lottery    *)
(*               identities read back from the epoch db); the per-height cache is gone                  *)
(*   Eval(k)   = ApplyNewEpoch for a proposal of the epoch height without inserting it: "Validate" the  *)
(*               chain's own epoch block, "ValidateAlt" another proposal on the same parent, "Propose"  *)
(*               the node's own proposal; the result is kept in epochApplyingCache[height]              *)
(*   Switch    = the node's fork loses: ResetTo the fork point (BlockchainResetEvent: the answers of    *)
(*               reverted transactions are removed), the node continues on fork b                       *)
(*   Rollback  = the inserted epoch block loses against another block of the same height (ResetTo one   *)
(*               block; the ceremony object has already completed the epoch)                            *)
(* Data recorded in blocks is abstract: a set of transaction classes.  The result of an evaluation is   *)
(* identified with the set of classes it was computed from (`got`); "data recorded in blocks" of the    *)
(* evaluated chain is Data(chain).  The property:                                                       *)
(*   SameResult == every evaluation a node performs yields Result(Data(chain it evaluates on))          *)
(* i.e. no node-local history (restart, cache, layout, local clock, forks seen before) shows in the     *)
(* result.  CacheByHeight = TRUE models the code as it is (cache keyed by block height only, epoch     *)
(* completed on insertion and not restored on rollback); with fork actions enabled TLC then produces    *)
(* the stale-evaluation behaviours, which are CANDIDATES to be run on the real code.                   *)
EXTENDS Naturals, Sequences, FiniteSets, TLC

CONSTANTS Layouts,        \* subset of DOMAIN Placement used in this run
          MaxRestarts, MaxEvals,
          WithForks,      \* enable Switch / Rollback
          CacheByHeight   \* TRUE: as the code is.  FALSE: cache keyed by the evaluated parent, epoch state restored on rollback

Slots == <<"Lot", "S0", "S1", "L0", "L1", "L2", "A0", "A1", "Clean", "Epoch">>
NS == Len(Slots)
Idx(s) == CHOOSE i \in 1..NS : Slots[i] = s

(* Transaction classes: answers hash, long answers, evidence, short answers of the ordinary participants; *)
(* short and long answers of the latecomer (they land after the long session; fork b lacks the long ones). *)
Classes == {"h", "l", "e", "s", "ls", "ll"}

(* First slot whose block may carry a class: a block is validated against the state of its parent, so     *)
(* hash / long answers need a parent in the short session or later, short answers / evidence a parent in   *)
(* the long session or later (blockchain/validation: validateSubmit*Tx, EarlyTx).                          *)
FirstSlot == [h |-> "S1", l |-> "S1", e |-> "L1", s |-> "L1"]

(* Layouts: where the network put each class (order = the per-sender order, nonces follow it).            *)
Placement ==
    [l0 |-> [order |-> "hles", h |-> "S1", l |-> "L0", e |-> "L1", s |-> "L1", rev |-> FALSE, shuffle |-> FALSE],
     l1 |-> [order |-> "hles", h |-> "S1", l |-> "S1", e |-> "L1", s |-> "L2", rev |-> TRUE,  shuffle |-> FALSE],
     l2 |-> [order |-> "hles", h |-> "L0", l |-> "L1", e |-> "L2", s |-> "A0", rev |-> FALSE, shuffle |-> TRUE],
     l3 |-> [order |-> "hles", h |-> "S1", l |-> "L2", e |-> "L2", s |-> "L2", rev |-> TRUE,  shuffle |-> TRUE],
     l4 |-> [order |-> "selh", h |-> "A0", l |-> "L2", e |-> "L1", s |-> "L1", rev |-> FALSE, shuffle |-> TRUE],
     l5 |-> [order |-> "lhse", h |-> "L1", l |-> "S1", e |-> "A0", s |-> "L1", rev |-> TRUE,  shuffle |-> TRUE]]

Pos(str, c) == CHOOSE i \in 1..4 : str[i] = c
OrderOf(lay) == LET o == Placement[lay].order IN
                [c \in {"h", "l", "e", "s"} |-> IF o = "hles" THEN Pos(<<"h", "l", "e", "s">>, c)
                                                  ELSE IF o = "selh" THEN Pos(<<"s", "e", "l", "h">>, c)
                                                  ELSE Pos(<<"l", "h", "s", "e">>, c)]
LayoutValid(lay) ==
    /\ \A c \in {"h", "l", "e", "s"} : Idx(Placement[lay][c]) >= Idx(FirstSlot[c]) /\ Idx(Placement[lay][c]) <= Idx("A1")
    \* a sender's transactions appear in nonce order
    /\ \A c, d \in {"h", "l", "e", "s"} : OrderOf(lay)[c] < OrderOf(lay)[d] => Idx(Placement[lay][c]) <= Idx(Placement[lay][d])
ASSUME \A lay \in DOMAIN Placement : LayoutValid(lay)
ASSUME Layouts \subseteq DOMAIN Placement

(* chains: a = the canonical history, b = a fork that differs in slot A1 (the latecomer's long answers are  *)
(* not included), a2 = chain a with another block at the epoch height.                                     *)
Parent(chain) == IF chain = "a2" THEN "a" ELSE chain
Content(chain, lay, slot) ==
    {c \in {"h", "l", "e", "s"} : Placement[lay][c] = slot}
    \cup (IF slot = "A1" THEN (IF Parent(chain) = "b" THEN {"ls"} ELSE {"ls", "ll"}) ELSE {})
Data(chain) == IF Parent(chain) = "b" THEN Classes \ {"ll"} ELSE Classes

NoCache == [on |-> FALSE, key |-> "", got |-> {}, failed |-> FALSE]

VARIABLES lay, late,  \* chosen once: the layout of the node's network, whether the node learns the blocks days later
          pos,        \* number of slots of the current chain inserted
          chain,      \* "a" | "b" | "a2"
          mem,        \* classes in the in-memory answer store / epoch db of the running ceremony object
          disk,       \* classes persisted for the epoch
          lot,        \* "none" | "live" | "restored": the lottery of the running ceremony object
          cache,      \* epochApplyingCache[epoch height]
          done,       \* completeEpoch ran (the ceremony object belongs to the next epoch)
          evals,      \* evaluations so far: [kind, chain, got, failed, hit]
          hist,       \* actions so far
          restarts

vars == <<lay, late, pos, chain, mem, disk, lot, cache, done, evals, hist, restarts>>

St == [lay |-> lay, pos |-> pos, chain |-> chain, mem |-> mem, disk |-> disk, lot |-> lot, cache |-> cache, done |-> done]
InitSt(l) == [lay |-> l, pos |-> 0, chain |-> "a", mem |-> {}, disk |-> {}, lot |-> "none", cache |-> NoCache, done |-> FALSE]

---------------------------------------------------------------------------
(* step functions over a state record (used by the model actions and by the trace specification) *)

CacheHit(st) == st.cache.on /\ (CacheByHeight \/ st.cache.key = Parent(st.chain))

\* ApplyNewEpoch on the node's current head
Evaluate(st) ==
    IF CacheHit(st) THEN [got |-> st.cache.got, failed |-> st.cache.failed, hit |-> TRUE]
    ELSE IF st.lot = "none" THEN [got |-> {}, failed |-> TRUE, hit |-> FALSE]     \* no candidates: "nobody is validated"
    ELSE [got |-> st.mem, failed |-> FALSE, hit |-> FALSE]

FillCache(st, r) == IF CacheHit(st) THEN st.cache ELSE [on |-> TRUE, key |-> Parent(st.chain), got |-> r.got, failed |-> r.failed]

DoAdd(st) ==
    LET s == Slots[st.pos + 1] IN
    IF s # "Epoch"
    THEN LET m == st.mem \cup Content(st.chain, st.lay, s) IN
         [st EXCEPT !.pos = @ + 1, !.mem = m, !.disk = m, !.lot = IF s = "Lot" THEN "live" ELSE @]
    ELSE \* evaluation inside ValidateBlock, then completeEpoch
         [st EXCEPT !.pos = @ + 1, !.mem = {}, !.disk = IF CacheByHeight THEN {} ELSE @, !.lot = "none", !.cache = NoCache, !.done = TRUE]

DoRestart(st) ==
    IF st.done /\ ~CacheByHeight /\ st.pos < NS
    THEN [st EXCEPT !.mem = st.disk, !.cache = NoCache, !.lot = "restored", !.done = FALSE]
    ELSE [st EXCEPT !.mem = st.disk, !.cache = NoCache, !.lot = IF @ = "none" THEN "none" ELSE "restored"]

DoEval(st) == [st EXCEPT !.cache = FillCache(st, Evaluate(st))]

DoSwitch(st) ==
    LET m == st.mem \ Content("a", st.lay, "A1") IN
    [st EXCEPT !.pos = Idx("A0"), !.chain = "b", !.mem = m, !.disk = m]

DoRollback(st) ==
    IF CacheByHeight THEN [st EXCEPT !.pos = NS - 1, !.chain = "a2"]
    ELSE [st EXCEPT !.pos = NS - 1, !.chain = "a2", !.mem = st.disk, !.lot = "restored", !.done = FALSE]

Install(st) == /\ pos' = st.pos /\ chain' = st.chain /\ mem' = st.mem /\ disk' = st.disk /\ lot' = st.lot
               /\ cache' = st.cache /\ done' = st.done

---------------------------------------------------------------------------
Init == /\ lay \in Layouts /\ late \in BOOLEAN
        /\ pos = 0 /\ chain = "a" /\ mem = {} /\ disk = {} /\ lot = "none" /\ cache = NoCache /\ done = FALSE
        /\ evals = <<>> /\ hist = <<>> /\ restarts = 0

Last == IF hist = <<>> THEN "" ELSE hist[Len(hist)]
NEvals == Cardinality({i \in 1..Len(evals) : evals[i].kind # "Add"})

Add == /\ pos < NS
       /\ Install(DoAdd(St))
       /\ evals' = IF Slots[pos + 1] = "Epoch" THEN Append(evals, [kind |-> "Add", chain |-> Parent(chain)] @@ Evaluate(St)) ELSE evals
       /\ hist' = Append(hist, "Add") /\ UNCHANGED <<lay, late, restarts>>

Restart == /\ restarts < MaxRestarts /\ pos > 0 /\ pos < NS /\ Last # "Restart"
           /\ Install(DoRestart(St))
           /\ restarts' = restarts + 1
           /\ hist' = Append(hist, "Restart") /\ UNCHANGED <<lay, late, evals>>

Eval(k) == /\ pos = NS - 1 /\ NEvals < MaxEvals
           /\ (k = "ValidateAlt" => chain = "a")
           /\ Install(DoEval(St))
           /\ evals' = Append(evals, [kind |-> k, chain |-> Parent(chain)] @@ Evaluate(St))
           /\ hist' = Append(hist, k) /\ UNCHANGED <<lay, late, restarts>>

Switch == /\ WithForks /\ chain = "a" /\ ~done /\ pos >= Idx("A1") /\ pos <= NS - 1
          /\ Install(DoSwitch(St))
          /\ hist' = Append(hist, "Switch") /\ UNCHANGED <<lay, late, restarts, evals>>

Rollback == /\ WithForks /\ chain = "a" /\ done /\ pos = NS
            /\ Install(DoRollback(St))
            /\ hist' = Append(hist, "Rollback") /\ UNCHANGED <<lay, late, restarts, evals>>

Next == Add \/ Restart \/ (\E k \in {"Validate", "ValidateAlt", "Propose"} : Eval(k)) \/ Switch \/ Rollback

Spec == Init /\ [][Next]_vars

---------------------------------------------------------------------------
(* properties *)

TypeOK == /\ pos \in 0..NS /\ chain \in {"a", "b", "a2"} /\ mem \subseteq Classes /\ disk \subseteq Classes
          /\ lot \in {"none", "live", "restored"} /\ restarts \in 0..MaxRestarts

Fresh(e) == ~e.failed /\ e.got = Data(e.chain)
SameResult == \A i \in 1..Len(evals) : Fresh(evals[i])

\* what is persisted is what the running object holds (checked between steps): a restart loses nothing
PersistComplete == ~done => disk = mem

\* before the epoch block the store holds exactly the classes of the blocks inserted so far
StoreMatchesChain == (~done /\ lot # "none") =>
                     mem = UNION {Content(chain, lay, Slots[i]) : i \in 1..pos}

Complete == pos = NS
=============================================================================
