--------------------------- MODULE MC_CeremonyRun ---------------------------
(* Bounded model run of CeremonyRun: every behaviour of one node within the bounds is explored, the       *)
(* design-level invariants are checked, and every COMPLETE behaviour (the node has inserted a block that     *)
(* finishes the validation) is exported as a scenario for the real code together with what the model       *)
(* predicts for each of its evaluations.  The layout table goes out once, so that the driver places the      *)
(* transactions exactly where the specification says.                                                       *)
EXTENDS CeremonyRun, Json

CONSTANT ExportOn

Pred(e) == [kind |-> e.kind, chain |-> e.chain, fresh |-> Fresh(e), failed |-> e.failed, hit |-> e.hit]

Export == IF ExportOn /\ Complete
          THEN PrintT(ToJson([hist |-> hist, layout |-> lay, late |-> late, final |-> chain,
                              pred |-> [i \in 1..Len(evals) |-> Pred(evals[i])],
                              same |-> SameResult]))
          ELSE TRUE

ExportParams == IF ExportOn /\ hist = <<>> /\ ~late /\ lay = CHOOSE x \in Layouts : TRUE
                THEN PrintT(ToJson([params |-> [slots |-> Slots, layouts |-> [x \in Layouts |-> Placement[x]]]]))
                ELSE TRUE

\* without forks no node-local history may show in any result
LinearSame == ~WithForks => SameResult
\* with forks: a node that never left its chain and never rolled the epoch block back computes the right result
NoForkSame == (\A i \in 1..Len(hist) : hist[i] \notin {"Switch", "Rollback"}) => SameResult
\* the repaired design (CacheByHeight = FALSE) has the property in every behaviour
RepairedSame == ~CacheByHeight => SameResult
=============================================================================
