CONSTANTS
  Names = {"S", "C", "K", "R", "P"}
  Proposer = "P"
  Sender = "S"
  Target = "C"
  Other = "K"
  Rcpt = "R"
  AmtVals = {0, 1, 2}
  GasVals = {0, 1, 3}
  MaxSteps = 2
  MaxDepth = 1
  MaxTx = 1
  Bug = "subdeploy_forgets_balance"
  ExportOn = FALSE
INIT Init
NEXT Next
INVARIANTS ClausesHold
CHECK_DEADLOCK FALSE
