----------------------------- MODULE MC_Upgrade -----------------------------
(* Bounded model of consensus upgrade voting / activation / intermediate genesis + export of schedules for    *)
(* replay on real multi-node worlds (harness/cmd/d_upgrade).                                                 *)
(*                                                                                                          *)
(* Nodes own an identity each (all online: the fork committee is Ids); they are on ONE chain, a node may be   *)
(* behind (it was not given the latest blocks yet).  A world is chosen in Init: base = consensus version of    *)
(* the configuration file (10: two upgrades ahead, 11: one), gen = GenerateGenesisAfterUpgrade, vn = the last *)
(* tick that is still far enough from the next validation.  Time is counted in ticks: version 11 may be        *)
(* activated in ticks 1..2, version 12 in ticks 3..4.                                                        *)
(*   Tick     time passes                                                                                   *)
(*   Vote     identity i casts a vote carrying bits b (what its own node's UpgradeBits says, or - a stale or   *)
(*            Byzantine voter - anything), which reaches the nodes S (books are node-local)                  *)
(*   Persist  the listener of node n writes its book to the repository                                       *)
(*   Restart  node n restarts over its database                                                              *)
(*   Round    one block: proposer p offers the block an honest node builds from ITS book (or a crafted one);  *)
(*            every synced node judges it on the proposal path (own book) and on the block path (header       *)
(*            rules); refused by a validator -> the round ends with an empty block, unless a Byzantine         *)
(*            committee certifies it anyway (force: only the block path stands in the way then); the nodes R   *)
(*            insert the block now, the others fall behind                                                   *)
(*   Deliver  a node that is behind receives its next block (block path only)                                *)
(*   Probe    every synced node validates a block that is valid only under one set of rules                   *)
(*   Crash    a node that is behind receives its next block and dies inside the insertion, either before anything  *)
(*            of the block is durable ("lost") or right after the block became the head, inside the write of the   *)
(*            stored consensus version / of the intermediate genesis ("kept"); it starts again over what survived  *)
(*   Reorg    the last block was inserted by some nodes only; the others commit the empty block at that height  *)
(*            instead and the holders of the orphaned block switch to it (ResetTo + AddBlock, as the fork        *)
(*            resolver does)                                                                                 *)
EXTENDS Upgrade, Json

CONSTANTS Nodes, Bases, Gens, VNs, MaxT,
          VoteSets,     \* the sets of nodes a vote may reach
          Proposers,    \* who proposes honest blocks
          Crafters,     \* who offers crafted blocks
          Laggers,      \* who may be left behind in a round
          MaxVotes, MaxOdd, MaxBlocks, MaxRestarts, MaxPersists, MaxTicks, MaxCraft, MaxForce, MaxLag, MaxProbes, MaxReorg, MaxCrash,
          ExportOn, SampleMod

Ids == Nodes
VT == 100
Wrong == 13                                   \* bits that never name a target
Win == [v \in 10..13 |-> IF v = 11 THEN [s |-> 1, e |-> 2] ELSE IF v = 12 THEN [s |-> 3, e |-> 4] ELSE [s |-> 99, e |-> 0]]

VARIABLES w,       \* the world: [base, gen, vn]
          chain,   \* the canonical chain after the world's prefix: Seq(block); block j has height j + 1
          nd,      \* [Nodes -> node record] (Upgrade.tla)
          hd,      \* [Nodes -> 0..Len(chain)]: how much of the chain the node holds
          now,     \* tick
          cnt,     \* counters bounding the exploration
          clean,   \* no forced block and no block adopted through the V11Always quirk so far
          sg,      \* <<stage, last index>>: between two rounds the steps come in ONE canonical order (tick, votes by voter, persists,
                   \* delivers, restarts by node, probe) - steps of different kinds commute or can be separated by a plain round
          lab,     \* what the last step was (for the export)
          hist     \* the schedule so far (not in the view)

vars == <<w, chain, nd, hd, now, cnt, clean, sg, lab, hist>>
view == <<w, chain, nd, hd, now, cnt, clean, sg>>

Cfg == [Top |-> 12, Gen |-> w.gen, I |-> VT - w.vn, W |-> Win]
Book0 == [i \in Ids |-> 0]

Init == /\ w \in [base : Bases, gen : Gens, vn : VNs]
        /\ chain = <<>>
        /\ nd = [n \in Nodes |-> [ver |-> w.base, stored |-> 0, book |-> Book0, pbook |-> Book0, cur |-> PreGen, old |-> NoGen, inter |-> NoGen]]
        /\ hd = [n \in Nodes |-> 0]
        /\ now = IF w.base = 10 THEN 0 ELSE 2
        /\ cnt = [vote |-> 0, odd |-> 0, blk |-> 0, restart |-> 0, persist |-> 0, tick |-> 0, craft |-> 0, force |-> 0, lag |-> 0, probe |-> 0, reorg |-> 0, crash |-> 0]
        /\ clean = TRUE /\ sg = <<0, -1>> /\ lab = [kind |-> "init"] /\ hist = <<>>

Step(k) == [k |-> k, ck |-> "", t |-> 0, i |-> 0, b |-> 0, hon |-> 0, s |-> {}, n |-> 0, p |-> 0, c |-> <<>>, f |-> 0, r |-> {}, x |-> <<>>]
Inc(f) == [cnt EXCEPT ![f] = @ + 1]
\* stage discipline: a step of stage s with index i may follow a step of a lower stage, or of the same stage with a lower index
At(s, i) == /\ (sg[1] < s \/ (sg[1] = s /\ sg[2] < i))
            /\ sg' = <<s, i>>

Synced == {n \in Nodes : hd[n] = Len(chain)}
BlockAt(j) == IF j = 0 THEN NoBlock ELSE chain[j]
Prev == BlockAt(Len(chain))
HeadOf(n) == BlockAt(hd[n])

---------------------------------------------------------------------------
Tick(t) ==
    /\ cnt.tick < MaxTicks /\ t > now /\ t <= MaxT /\ At(1, 0)
    /\ now' = t /\ cnt' = Inc("tick")
    /\ lab' = [kind |-> IF \E n \in Nodes : ValidTarget(Cfg, nd[n].ver, now) /\ ~ValidTarget(Cfg, nd[n].ver, t)
                        THEN "tick:leave-window" ELSE "tick"]
    /\ hist' = Append(hist, [Step("tick") EXCEPT !.t = t])
    /\ UNCHANGED <<w, chain, nd, hd, clean>>

\* bits an honest voter's own node computes
HonestBits(i) == Bits(Cfg, nd[i].ver, now)

Vote(i, b, S) ==
    /\ cnt.vote < MaxVotes /\ S # {} /\ At(2, i)
    /\ (b # HonestBits(i) => cnt.odd < MaxOdd)
    /\ nd' = [n \in Nodes |-> IF n \in S THEN [nd[n] EXCEPT !.book = ProcessVote(@, i, b)] ELSE nd[n]]
    /\ nd' # nd
    /\ cnt' = [cnt EXCEPT !.vote = @ + 1, !.odd = @ + (IF b # HonestBits(i) THEN 1 ELSE 0)]
    /\ lab' = [kind |-> IF b = 0 THEN "vote:remove" ELSE IF b # HonestBits(i) THEN "vote:odd" ELSE "vote"]
    /\ hist' = Append(hist, [Step("vote") EXCEPT !.i = i, !.b = b, !.hon = IF b = HonestBits(i) THEN 1 ELSE 0, !.s = S])
    /\ UNCHANGED <<w, chain, hd, now, clean>>

Persist(n) ==
    /\ cnt.persist < MaxPersists /\ nd[n].pbook # nd[n].book /\ At(3, n)
    /\ nd' = [nd EXCEPT ![n].pbook = nd[n].book]
    /\ cnt' = Inc("persist") /\ lab' = [kind |-> "persist"]
    /\ hist' = Append(hist, [Step("persist") EXCEPT !.n = n])
    /\ UNCHANGED <<w, chain, hd, now, clean>>

RestartKind(n, post) ==
    IF post.old # nd[n].old THEN "restart:old-genesis-differs"
    ELSE IF HeadOf(n).upg > 0 /\ nd[n].stored = HeadOf(n).upg THEN "restart:at-upgrade"
    ELSE IF HeadOf(n).ng THEN "restart:at-newgenesis"
    ELSE IF hd[n] < Len(chain) THEN "restart:behind"
    ELSE IF nd[n].ver > w.base THEN "restart:upgraded"
    ELSE IF nd[n].book # nd[n].pbook THEN "restart:book-lost"
    ELSE IF nd[n].book # Book0 THEN "restart:book-kept"
    ELSE "restart:plain"

Restart(n) ==
    /\ cnt.restart < MaxRestarts /\ At(5, n)
    /\ LET post == RestartNode(Cfg, w.base, nd[n], HeadOf(n)) IN
       /\ nd' = [nd EXCEPT ![n] = post]
       /\ lab' = [kind |-> RestartKind(n, post)]
    /\ cnt' = Inc("restart")
    /\ hist' = Append(hist, [Step("restart") EXCEPT !.n = n])
    /\ UNCHANGED <<w, chain, hd, now, clean>>

PropOK(v, b) == ProposalAccepts(Cfg, nd[v].ver, now, VT, nd[v].book, Ids, Prev, b)
ChainOK(v, b) == ChainAccepts(Cfg, nd[v].ver, Prev, b)
ReasonAt(v, b) == Reason(Cfg, nd[v].ver, now, VT, nd[v].book, Ids, Prev, b)

RoundKind(p, b, honest, adopted, forced) ==
    LET rs == {ReasonAt(v, b) : v \in Synced}
        why == IF Cardinality(rs) = 1 THEN (CHOOSE r \in rs : TRUE) ELSE "books-differ"
        how == IF forced THEN ":forced" ELSE IF adopted THEN ":adopted" ELSE ":refused"
        vs == IF b.upg = 11 THEN "11" ELSE IF b.upg = 12 THEN "12" ELSE "x"
    IN IF ~honest THEN "craft:" \o (IF why = "" THEN "consistent" ELSE why) \o how
       ELSE IF b.upg > 0 THEN "upgrade" \o vs \o how
       ELSE IF b.ng THEN "newgenesis"
       ELSE IF Prev.upg > 0 THEN "after-upgrade:no-newgenesis"
       ELSE IF HasQuorum(Cfg, nd[p].ver, nd[p].book, Ids) /\ Target(Cfg, nd[p].ver) # nd[p].ver /\ ~ValidTarget(Cfg, nd[p].ver, now) THEN "held:window"
       ELSE IF HasQuorum(Cfg, nd[p].ver, nd[p].book, Ids) /\ ValidTarget(Cfg, nd[p].ver, now) /\ ~Far(Cfg, now, VT) THEN "held:validation"
       ELSE IF ValidTarget(Cfg, nd[p].ver, now) /\ Far(Cfg, now, VT) /\ Counted(nd[p].book, Ids, Target(Cfg, nd[p].ver)) > 0 THEN "held:quorum"
       ELSE "plain"

DoRound(p, b, honest, force, R) ==
    /\ cnt.blk < MaxBlocks /\ p \in Synced /\ p \in R /\ R \subseteq Synced
    /\ (R # Synced => cnt.lag < MaxLag)
    /\ LET adopted == \A v \in Synced : PropOK(v, b) /\ ChainOK(v, b)
           forced  == ~adopted /\ force = 1 /\ \A v \in Synced : ChainOK(v, b)
           fin     == IF adopted \/ forced THEN b ELSE EmptyBlock(Cfg, Prev)
           j       == Len(chain) + 1
           quirk   == ~honest /\ adopted /\ b.upg > 0
       IN /\ (force = 1 => forced)
          /\ chain' = Append(chain, fin)
          /\ nd' = [n \in Nodes |-> IF n \in R THEN InsertBlock(Cfg, nd[n], fin, j + 1) ELSE nd[n]]
          /\ hd' = [n \in Nodes |-> IF n \in R THEN j ELSE hd[n]]
          /\ clean' = (clean /\ ~forced /\ ~quirk)
          /\ lab' = [kind |-> RoundKind(p, b, honest, adopted, forced)]
    /\ sg' = <<0, -1>>
    /\ cnt' = [cnt EXCEPT !.blk = @ + 1, !.lag = @ + (IF R # Synced THEN 1 ELSE 0), !.craft = @ + (IF honest THEN 0 ELSE 1), !.force = @ + force]
    /\ UNCHANGED <<w, now>>

Round(p, R) ==
    /\ DoRound(p, HonestBlock(Cfg, nd[p].ver, now, VT, nd[p].book, Ids, Prev), TRUE, 0, R)
    /\ hist' = Append(hist, [Step("round") EXCEPT !.p = p, !.r = R])

Crafted(p, u, g, force, R) ==
    /\ cnt.craft < MaxCraft /\ (force = 1 => cnt.force < MaxForce)
    /\ DoRound(p, [upg |-> u, ng |-> g, empty |-> FALSE], FALSE, force, R)
    /\ hist' = Append(hist, [Step("round") EXCEPT !.p = p, !.c = <<u, IF g THEN 1 ELSE 0>>, !.f = force, !.r = R])

Deliver(n) ==
    /\ hd[n] < Len(chain) /\ sg[1] <= 4 /\ sg' = <<4, -1>>
    /\ LET j == hd[n] + 1
           b == chain[j]
           ok == ChainAccepts(Cfg, nd[n].ver, BlockAt(j - 1), b)
       IN /\ nd' = [nd EXCEPT ![n] = IF ok THEN InsertBlock(Cfg, nd[n], b, j + 1) ELSE nd[n]]
          /\ hd' = [hd EXCEPT ![n] = IF ok THEN j ELSE hd[n]]
          /\ lab' = [kind |-> IF Upgrades(Cfg, nd[n].ver, b) THEN "deliver:upgrade"
                              ELSE IF b.ng THEN "deliver:newgenesis"
                              ELSE IF b.upg > 0 THEN "deliver:bits-without-upgrade"
                              ELSE "deliver:plain"]
          /\ ok                                    \* the block path of a node that is behind never refuses a canonical block
    /\ hist' = Append(hist, [Step("deliver") EXCEPT !.n = n])
    /\ UNCHANGED <<w, chain, now, cnt, clean>>

Probe(k, r) ==
    /\ cnt.probe < MaxProbes /\ Synced # {} /\ At(6, 0)
    /\ ProbeBuilt(k, r)
    /\ cnt' = Inc("probe")
    /\ lab' = [kind |-> "probe:" \o k \o (IF r = 10 THEN "10" ELSE IF r = 11 THEN "11" ELSE "12") \o
                        (IF \A v \in Synced : ProbeAccepts(k, r, nd[v].ver) THEN ":accepted"
                         ELSE IF \A v \in Synced : ~ProbeAccepts(k, r, nd[v].ver) THEN ":refused" ELSE ":mixed")]
    /\ hist' = Append(hist, [Step("probe") EXCEPT !.x = <<k, r>>])
    /\ UNCHANGED <<w, chain, nd, hd, now, clean>>

\* what the property requires after a crash inside an insertion: the node that starts again is what the chain it holds makes
\* it ("kept": as if the insertion had completed before the restart)
Crash(n, kept) ==
    /\ cnt.crash < MaxCrash /\ hd[n] < Len(chain) /\ sg[1] <= 4 /\ sg' = <<4, -1>>
    /\ LET j == hd[n] + 1
           b == chain[j]
       IN /\ (kept => (Upgrades(Cfg, nd[n].ver, b) \/ b.ng))
          /\ ChainAccepts(Cfg, nd[n].ver, BlockAt(j - 1), b)
          /\ nd' = [nd EXCEPT ![n] = IF kept THEN RestartNode(Cfg, w.base, InsertBlock(Cfg, nd[n], b, j + 1), b)
                                      ELSE RestartNode(Cfg, w.base, nd[n], HeadOf(n))]
          /\ hd' = [hd EXCEPT ![n] = IF kept THEN j ELSE hd[n]]
          /\ lab' = [kind |-> IF ~kept THEN "crash:lost" ELSE IF b.ng THEN "crash:kept:newgenesis" ELSE "crash:kept:upgrade"]
    /\ cnt' = Inc("crash")
    /\ hist' = Append(hist, [Step("crash") EXCEPT !.n = n, !.ck = IF kept THEN "kept" ELSE "lost"])
    /\ UNCHANGED <<w, chain, now, clean>>

Reorg ==
    /\ cnt.reorg < MaxReorg /\ Len(chain) >= 1
    /\ LET j == Len(chain)
           last == chain[j]
           alt == EmptyBlock(Cfg, BlockAt(j - 1))
           H == {n \in Nodes : hd[n] = j}
           B == {n \in Nodes : hd[n] = j - 1}
           sub == SubSeq(chain, 1, j - 1)
       IN /\ H # {} /\ B # {} /\ alt # last
          /\ chain' = [chain EXCEPT ![j] = alt]
          /\ nd' = [n \in Nodes |-> IF n \in B THEN InsertBlock(Cfg, nd[n], alt, j + 1)
                                    ELSE IF n \in H THEN InsertBlock(Cfg, RollBack(Cfg, w.base, nd[n], sub, 1, j - 1), alt, j + 1)
                                    ELSE nd[n]]
          /\ hd' = [n \in Nodes |-> IF n \in B THEN j ELSE hd[n]]
          /\ lab' = [kind |-> IF \E n \in H : nd'[n].ver # nd[n].ver THEN "reorg:upgrade"
                              ELSE IF last.ng THEN "reorg:newgenesis"
                              ELSE IF last.upg > 0 THEN "reorg:bits-without-upgrade" ELSE "reorg:plain"]
    /\ sg' = <<0, -1>> /\ cnt' = Inc("reorg")
    /\ hist' = Append(hist, Step("reorg"))
    /\ UNCHANGED <<w, now, clean>>

Rs(p) == {Synced} \cup {Synced \ {l} : l \in Laggers \ {p}}
Next == \/ \E t \in 0..MaxT : Tick(t)
        \/ \E i \in Ids, b \in {0, 11, 12, Wrong}, S \in VoteSets : Vote(i, b, S)
        \/ \E n \in Nodes : Persist(n)
        \/ \E n \in Nodes : Restart(n)
        \/ \E p \in Proposers : \E R \in Rs(p) : Round(p, R)
        \/ \E p \in Crafters, u \in {0, 11, 12, Wrong}, g \in BOOLEAN, force \in {0, 1} : \E R \in Rs(p) : Crafted(p, u, g, force, R)
        \/ \E n \in Nodes : Deliver(n)
        \/ \E r \in 11..12 : Probe("pay", r)
        \/ Reorg
        \/ \E n \in Nodes, kept \in BOOLEAN : Crash(n, kept)

Spec == Init /\ [][Next]_vars

---------------------------------------------------------------------------
(* design-level invariants *)

TypeOK == /\ \A n \in Nodes : /\ nd[n].ver \in 10..12 /\ nd[n].stored \in {0, 11, 12}
                              /\ hd[n] \in 0..Len(chain)
          /\ now \in 0..MaxT

\* nodes holding the same chain run the same consensus version (hence the same EnableUpgradeNN flags) and have stored it
SameChainSameVersion == \A m, n \in Nodes : hd[m] = hd[n] => (nd[m].ver = nd[n].ver /\ nd[m].stored = nd[n].stored)

\* ... and report the same genesis info; the old genesis may differ once the chain holds a second intermediate genesis
\* (OldGenesisAfterRestart)
NgCount(j) == Cardinality({x \in 1..j : chain[x].ng})
SameGenesisInfo == \A m, n \in Nodes : hd[m] = hd[n] =>
                      /\ nd[m].cur = nd[n].cur /\ nd[m].inter = nd[n].inter
                      /\ (nd[m].old = nd[n].old \/ NgCount(hd[m]) >= 2)

\* the version of a node is a function of the chain it holds: the base version plus the upgrade blocks
RECURSIVE VerAfter(_, _)
VerAfter(j, v) == IF j = 0 THEN v ELSE LET u == VerAfter(j - 1, v) IN IF Upgrades(Cfg, u, chain[j]) THEN Target(Cfg, u) ELSE u
VersionByChain == \A n \in Nodes : nd[n].ver = VerAfter(hd[n], w.base)

\* the genesis the node reports is the last NewGenesis block of its chain
LastNg(j) == IF \E x \in 1..j : chain[x].ng THEN (CHOOSE x \in 1..j : chain[x].ng /\ \A y \in x + 1..j : ~chain[y].ng) + 1 ELSE PreGen
GenesisByChain == \A n \in Nodes : nd[n].cur = LastNg(hd[n])

\* a NewGenesis block is exactly the block after a block with Upgrade bits, when the network generates geneses at all
NewGenesisExactlyAfterUpgrade == \A j \in 1..Len(chain) : chain[j].ng <=> (w.gen /\ BlockAt(j - 1).upg > 0)

\* without Byzantine committees and without the V11Always quirk the chain only upgrades through blocks that every
\* validator accepted with a quorum book inside the window
VersionMonotone == [][lab'.kind \in {"reorg:upgrade", "reorg:newgenesis", "reorg:plain", "reorg:bits-without-upgrade"}
                        \/ \A n \in Nodes : nd'[n].ver >= nd[n].ver /\ nd'[n].stored >= nd[n].stored]_vars

\* a restart changes nothing but the book (which falls back to its persisted copy) and - quirk - the old genesis
RestartNeutral == [][\A n \in Nodes : lab'.kind \in {"restart:at-upgrade", "restart:at-newgenesis", "restart:behind", "restart:upgraded", "restart:book-lost",
                                                      "restart:book-kept", "restart:plain", "restart:old-genesis-differs"} =>
                        /\ nd'[n].ver = nd[n].ver /\ nd'[n].stored = nd[n].stored /\ nd'[n].cur = nd[n].cur /\ nd'[n].inter = nd[n].inter
                        /\ (nd'[n].old = nd[n].old \/ lab'.kind = "restart:old-genesis-differs")]_vars

---------------------------------------------------------------------------
(* export: one schedule per interesting transition (sampled), the kind names the transition class *)
Boring == {"init", "tick", "vote", "persist", "plain", "deliver:plain", "restart:plain"}
Export == IF ExportOn /\ lab'.kind \notin Boring /\ RandomElement(1..SampleMod) = 1
          THEN PrintT(ToJson([kind |-> lab'.kind, base |-> w.base, gen |-> w.gen, vn |-> w.vn, steps |-> hist']))
          ELSE TRUE
\* simulation export: every step (the runner keeps the maximal walks)
ExportAll == IF ExportOn THEN PrintT(ToJson([kind |-> "walk", base |-> w.base, gen |-> w.gen, vn |-> w.vn, steps |-> hist'])) ELSE TRUE
=============================================================================
