------------------------------ MODULE ChainStore ------------------------------
(* C09 - crash part of the ChainStore specification: one node's DURABLE store and the VOLATILE     *)
(* process state, block insertion / ResetTo / start-up as the sequences of steps the code issues.   *)
(*                                                                                                  *)
(* Code mirrored (idena-go):                                                                        *)
(*   blockchain.go  AddBlock -> appState.CommitTrees -> insertBlock -> insertHeader                 *)
(*                  ResetTo, EnsureIntegrity, InitializeChain;  node.go start-up order              *)
(*   core/state     StateDB.CommitTree / IdentityStateDB.CommitTree (SaveVersionAt + pruning of the *)
(*                  versions beyond MaxSavedStatesCount), ResetTo = LoadVersionForOverwriting       *)
(*   database/repository.go   WriteBlockHeader, WriteHead, WriteCanonicalHash, SetHead, Remove...   *)
(*   iavl MutableTree.saveVersionImpl: an existing version with the same hash is a no-op, with a    *)
(*                  different hash an error                                                        *)
(*                                                                                                  *)
(* A STEP is either a durable write (tree commit = ONE atomic batch, every pruned version its own   *)
(* batch, header / head / canonical hash / identity diff / index entries separate puts, rollback of *)
(* a tree one batch, removals separate deletes) or a volatile step (validation, loading a tree,     *)
(* setting the in-memory head).  The process may die in front of any durable step: that write and   *)
(* everything after it is lost, the volatile part is dropped (Crash).  Start-up (Boot) is a step    *)
(* sequence too - InitChain, InitState (head version, fallback: latest), EnsureIntegrity whose      *)
(* ResetTo is again a write sequence - so crashes DURING recovery are behaviours of this module.    *)
(*                                                                                                  *)
(* The module is written as pure step generators (AddSteps, ResetSteps, BootSteps) and one effect   *)
(* function (Effect), so that MC_ChainStore can take one action per step and Trace_ChainStore can   *)
(* run the same definitions against a recorded execution of the real code.                         *)
EXTENDS Naturals, Integers, Sequences, FiniteSets, TLC

CONSTANTS
    Retain,                 \* state.MaxSavedStatesCount (100 in the code, small in the bounded model)
    HeadBeforeCanon,        \* TRUE: insertHeader writes the head BEFORE the canonical hash (code as is)
    KeepOrphanVersions,     \* TRUE: start-up loads the head's tree version and leaves higher versions
                            \*       in place; SaveVersionAt of an existing version with another hash fails (as is)
    PruneHidesCommitError   \* TRUE: CommitTree overwrites SaveVersionAt's error with DeleteVersion's (as is)

None == "none"
NoBlock == [h |-> 0, id |-> None, root |-> None, idr |-> None, par |-> None, kind |-> "plain", nidx |-> 0]

(* ---------------------------------------------------------------------------------------------- *)
(* partial functions                                                                              *)
Put(f, k, v) == [x \in (DOMAIN f) \cup {k} |-> IF x = k THEN v ELSE f[x]]
Drop(f, S)   == [x \in (DOMAIN f) \ S |-> f[x]]
Has(f, k)    == k \in DOMAIN f
MaxOf(S)     == CHOOSE x \in S : \A y \in S : y <= x
MinOf(S)     == CHOOSE x \in S : \A y \in S : x <= y
Empty        == [x \in {} |-> None]
Over(f, g)   == [x \in (DOMAIN f) \cup (DOMAIN g) |-> IF x \in DOMAIN f THEN f[x] ELSE g[x]]     \* f over g

RECURSIVE LowestN(_, _)
LowestN(S, n) == IF n <= 0 \/ S = {} THEN <<>> ELSE <<MinOf(S)>> \o LowestN(S \ {MinOf(S)}, n - 1)

RECURSIVE SeqOfRange(_, _)
SeqOfRange(a, b) == IF a > b THEN <<>> ELSE <<a>> \o SeqOfRange(a + 1, b)

(* ---------------------------------------------------------------------------------------------- *)
(* A block is a record [h, id, root, idr, par, kind, nidx]:                                        *)
(*   root / idr  state root and identity root in its header, par = parent id,                       *)
(*   kind "idupd" = non-empty identity diff (an identity-diff entry is written), nidx = number of  *)
(*   index entries its insertion writes (tx index, own-transaction index, receipts).                *)
(*                                                                                                  *)
(* The node:  durable  sv, iv   saved tree versions: height -> root of that version                *)
(*                     hdr      stored headers (set of blocks), head (block or None)               *)
(*                     canon    canonical index: height -> block id                                *)
(*                     diff     identity diffs: height -> block id                                 *)
(*                     nidx     number of index entries written (observational)                    *)
(*                     pv, pp   fast sync: preliminary identity tree (versions) and whether the    *)
(*                              preliminary prefix is registered; xsv imported snapshot (state tree *)
(*                              under another prefix); phead preliminary head                       *)
(*            volatile up, mhead (in-memory head), ms / mi (roots of the loaded working trees),     *)
(*                     mphead (in-memory preliminary head), mp (root of the loaded preliminary tree)*)
(*                     ph  "idle" | "busy" | "down" | "failed" | "rejected" | "hang"               *)
(*                     todo  remaining steps of the current operation, why (text of a failure)      *)

Durable(n) == [sv |-> n.sv, iv |-> n.iv, hdr |-> n.hdr, head |-> n.head, canon |-> n.canon, diff |-> n.diff, nidx |-> n.nidx,
               pv |-> n.pv, pp |-> n.pp, xsv |-> n.xsv, phead |-> n.phead]

Down(n) == [n EXCEPT !.up = FALSE, !.mhead = NoBlock, !.ms = None, !.mi = None, !.mphead = NoBlock, !.mp = None,
                     !.ph = "down", !.todo = <<>>]

Step(k, dur) == [k |-> k, dur |-> dur, b |-> NoBlock, v |-> 0, last |-> None]
StepB(k, dur, b) == [Step(k, dur) EXCEPT !.b = b]
StepV(k, dur, v) == [Step(k, dur) EXCEPT !.v = v]

(* ---------------------------------------------------------------------------------------------- *)
(* AddBlock                                                                                        *)

(* ValidateBlock runs on a fresh copy of the SAVED version of the head (ForCheck), AddBlock then   *)
(* applies the diff to the live trees and compares the roots.                                       *)
Valid(n, b) ==
    /\ n.mhead # NoBlock /\ b.par = n.mhead.id /\ b.h = n.mhead.h + 1
    /\ Has(n.sv, n.mhead.h) /\ n.sv[n.mhead.h] = n.mhead.root
    /\ Has(n.iv, n.mhead.h) /\ n.iv[n.mhead.h] = n.mhead.idr
    /\ n.ms = n.mhead.root /\ n.mi = n.mhead.idr

(* versions pruned after committing version h into a tree whose saved versions are vs *)
PruneList(vs, h) == IF h > Retain THEN LowestN(vs, Cardinality(vs) - Retain) ELSE <<>>

RECURSIVE PruneSteps(_, _)
PruneSteps(k, lst) == IF lst = <<>> THEN <<>> ELSE <<StepV(k, TRUE, Head(lst))>> \o PruneSteps(k, Tail(lst))

(* steps of committing one tree: t = "S" (state) or "I" (identity); returns <<steps, failed>> *)
TreeCommit(t, vers, h, root) ==
    LET after  == (DOMAIN vers) \cup {h}
        prune  == PruneSteps(t \o "Prune", PruneList(after, h))
    IN  IF ~Has(vers, h)       THEN <<<<StepB(t \o "Commit", TRUE, [NoBlock EXCEPT !.h = h, !.root = root])>> \o prune, FALSE>>
        ELSE IF vers[h] = root THEN <<<<StepB(t \o "CommitNoop", FALSE, [NoBlock EXCEPT !.h = h, !.root = root])>> \o prune, FALSE>>
        ELSE IF PruneHidesCommitError /\ prune # <<>>
                               THEN <<<<StepB(t \o "CommitLost", FALSE, [NoBlock EXCEPT !.h = h, !.root = root])>> \o prune, FALSE>>
        ELSE <<<<>>, TRUE>>

RECURSIVE Repeat(_, _)
Repeat(s, n) == IF n <= 0 THEN <<>> ELSE <<s>> \o Repeat(s, n - 1)

InsertSteps(b) ==
    (IF HeadBeforeCanon
     THEN <<StepB("Header", TRUE, b), StepB("Head", TRUE, b), StepB("Canon", TRUE, b)>>
     ELSE <<StepB("Header", TRUE, b), StepB("Canon", TRUE, b), StepB("Head", TRUE, b)>>)
    \o (IF b.kind = "idupd" THEN <<StepB("Diff", TRUE, b)>> ELSE <<>>)
    \o Repeat(StepB("Index", TRUE, b), b.nidx)
    \o <<StepB("SetHead", FALSE, b)>>

AddSteps(n, b) ==
    IF ~Valid(n, b) THEN <<[Step("Reject", FALSE) EXCEPT !.last = "validation"]>>
    ELSE LET s == TreeCommit("S", n.sv, b.h, b.root)
             i == TreeCommit("I", n.iv, b.h, b.idr)
         IN  IF s[2] THEN <<[Step("Reject", FALSE) EXCEPT !.last = "state version exists with another hash"]>>
             ELSE IF i[2] THEN s[1] \o <<[Step("Reject", FALSE) EXCEPT !.last = "identity version exists with another hash"]>>
             ELSE s[1] \o i[1] \o InsertSteps(b)
                  \* AddBlock ends with RemovePreliminaryHead when a preliminary head is known
                  \o (IF n.mphead # NoBlock THEN <<Step("DelPHead", TRUE)>> ELSE <<>>)

(* ---------------------------------------------------------------------------------------------- *)
(* ResetTo(t)                                                                                      *)

HeaderOf(n, id) == IF \E x \in n.hdr : x.id = id THEN CHOOSE x \in n.hdr : x.id = id ELSE NoBlock

RECURSIVE RemoveSteps(_, _)
RemoveSteps(n, hs) ==
    IF hs = <<>> THEN <<>>
    ELSE \* the identity diff of a reverted height is removed first, whether or not one was written (repaired code: C11)
         <<StepV("DelDiff", TRUE, Head(hs))>>
         \o (IF Has(n.canon, Head(hs))
          THEN <<[Step("DelHeader", TRUE) EXCEPT !.last = n.canon[Head(hs)]], StepV("DelCanon", TRUE, Head(hs))>>
          ELSE <<>>) \o RemoveSteps(n, Tail(hs))

ResetSteps(n, t) ==
    IF ~Has(n.sv, t) THEN <<[Step("Fail", FALSE) EXCEPT !.last = "state is corrupted"]>>
    ELSE
      <<StepV(IF \E v \in DOMAIN n.sv : v > t THEN "SRollback" ELSE "SRollbackNoop", \E v \in DOMAIN n.sv : v > t, t)>>
      \o (IF ~Has(n.iv, t) THEN <<[Step("Fail", FALSE) EXCEPT !.last = "target tree version doesn't exist"]>>
          ELSE <<StepV(IF \E v \in DOMAIN n.iv : v > t THEN "IRollback" ELSE "IRollbackNoop", \E v \in DOMAIN n.iv : v > t, t)>>
               \o (IF Has(n.canon, t) /\ HeaderOf(n, n.canon[t]) # NoBlock
                   THEN <<StepB("Head", TRUE, HeaderOf(n, n.canon[t]))>>     \* repo.SetHead
                   ELSE <<Step("HeadSkipped", FALSE)>>)                       \* canonical entry missing: head silently kept
               \o RemoveSteps(n, SeqOfRange(t + 1, n.mhead.h)))

(* ---------------------------------------------------------------------------------------------- *)
(* fast sync up to block H (protocol/fast.go preConsuming / applyDeferredBlocks / postConsuming,    *)
(* Blockchain.AddHeaderUnsafe, AtomicSwitchToPreliminary).  blk = [height -> block] of the chain.   *)
(*   fresh:  copy the identity database under a new prefix (many puts: PCopy), register the prefix   *)
(*           (PfxP, a batch)                                                                        *)
(*   resume: the preliminary head found at start-up says where to go on; the preliminary tree is    *)
(*           loaded at its highest version not above that head                                     *)
(*   per header: commit of the preliminary tree when the identity diff is not empty (PCommit),      *)
(*           header, canonical hash, preliminary head (three puts), identity diff                   *)
(*   then:   import of the state snapshot under a new prefix (SnapImport), forced version of the     *)
(*           preliminary tree at H, ONE batch that switches both prefixes, writes the head and       *)
(*           removes the preliminary head (Switch), deletion of the replaced databases (DropOld)     *)

SeqToSet(q) == {q[i] : i \in 1..Len(q)}

RECURSIVE HeaderSteps(_, _, _, _)
HeaderSteps(pv, blk, from, to) ==
    IF from > to THEN <<>>
    ELSE LET b == blk[from]
             c == IF b.kind = "idupd" THEN TreeCommit("P", pv, b.h, b.idr) ELSE <<<<>>, FALSE>>
             pv2 == IF b.kind = "idupd"
                    THEN Drop(Put(pv, b.h, b.idr), SeqToSet(PruneList((DOMAIN pv) \cup {b.h}, b.h)))
                    ELSE pv
         IN  IF c[2] THEN <<[Step("Fail", FALSE) EXCEPT !.last = "preliminary tree version exists with another hash"]>>
             ELSE c[1] \o <<StepB("Header", TRUE, b), StepB("Canon", TRUE, b), StepB("PHead", TRUE, b)>>
                  \o (IF b.kind = "idupd" THEN <<StepB("Diff", TRUE, b)>> ELSE <<>>)
                  \o HeaderSteps(pv2, blk, from + 1, to)

RECURSIVE PvAfter(_, _, _, _)
PvAfter(pv, blk, from, to) ==
    IF from > to THEN pv
    ELSE LET b == blk[from] IN
         PvAfter(IF b.kind = "idupd" THEN Drop(Put(pv, b.h, b.idr), SeqToSet(PruneList((DOMAIN pv) \cup {b.h}, b.h))) ELSE pv,
                 blk, from + 1, to)

FastSyncSteps(n, blk, H) ==
    LET fresh == n.mphead = NoBlock
        from  == IF fresh THEN n.mhead.h + 1 ELSE n.mphead.h + 1
        \* the copy does not clear its target: versions a previous attempt left there survive
        pv0   == IF fresh THEN Over(n.iv, n.pv) ELSE n.pv
        usable == {v \in DOMAIN pv0 : v < from}
        b     == blk[H]
        \* version of the preliminary tree after the headers: H when block H carried a diff (or was
        \* committed before the crash), otherwise a forced version is saved
        last  == IF \E h \in from..H : blk[h].kind = "idupd" THEN MaxOf({h \in from..H : blk[h].kind = "idupd"})
                 ELSE IF usable = {} THEN 0 ELSE MaxOf(usable)
    IN  IF ~fresh /\ (~n.pp \/ usable = {})
        THEN <<[Step("Fail", FALSE) EXCEPT !.last = "preliminary identity tree cannot be loaded"]>>
        ELSE (IF fresh THEN <<Step("InitPrelim", FALSE), Step("PCopy", TRUE), Step("PfxP", TRUE)>>
              ELSE <<StepV("LoadPrelim", FALSE, MaxOf(usable))>>)
             \o HeaderSteps(pv0, blk, from, H)
             \o (IF DOMAIN n.xsv # {} THEN <<StepV("DropOld", TRUE, 1)>> ELSE <<>>)    \* RecoverSnapshot2 clears the target first
             \o <<StepB("SnapImport", TRUE, b)>>
             \o (IF last = H THEN <<>> ELSE TreeCommit("P", PvAfter(pv0, blk, from, H), H, b.idr)[1])   \* SaveForcedVersion
             \o <<StepB("Switch", TRUE, b), Step("DropOld", TRUE), Step("Settled", FALSE)>>

(* ---------------------------------------------------------------------------------------------- *)
(* start-up                                                                                        *)

BootSteps == <<Step("InitChain", FALSE), Step("InitState", FALSE), Step("Integrity", FALSE)>>

RootsMatch(n) == n.mhead # NoBlock /\ n.ms = n.mhead.root /\ n.mi = n.mhead.idr

(* EnsureIntegrity looks at most Retain+1 heights below the head for a height saved in both trees *)
IntegrityCandidates(n) == {h \in 1..(n.mhead.h - 1) : h >= n.mhead.h - 1 - Retain /\ Has(n.sv, h) /\ Has(n.iv, h)}

(* ---------------------------------------------------------------------------------------------- *)
(* effect of one step                                                                              *)

Effect(n, s) ==
    LET rest == Tail(n.todo) IN
    CASE s.k = "Reject"  -> [n EXCEPT !.ph = "rejected", !.todo = <<>>, !.why = s.last,
                                      \* appState.Reset(): the working trees go back to their last saved version
                                      !.ms = IF n.mhead = NoBlock THEN None
                                             ELSE IF s.last = "identity version exists with another hash" THEN @ ELSE n.mhead.root,
                                      !.mi = IF n.mhead = NoBlock THEN None ELSE n.mhead.idr]
      [] s.k = "Fail"    -> [n EXCEPT !.ph = "failed", !.todo = <<>>, !.why = s.last]
      [] s.k = "SCommit" -> [n EXCEPT !.sv = Put(@, s.b.h, s.b.root), !.ms = s.b.root, !.todo = rest]
      [] s.k \in {"SCommitNoop", "SCommitLost"} -> [n EXCEPT !.ms = s.b.root, !.todo = rest]
      [] s.k = "ICommit" -> [n EXCEPT !.iv = Put(@, s.b.h, s.b.root), !.mi = s.b.root, !.todo = rest]
      [] s.k \in {"ICommitNoop", "ICommitLost"} -> [n EXCEPT !.mi = s.b.root, !.todo = rest]
      [] s.k = "SPrune"  -> [n EXCEPT !.sv = Drop(@, {s.v}), !.todo = rest]
      [] s.k = "IPrune"  -> [n EXCEPT !.iv = Drop(@, {s.v}), !.todo = rest]
      [] s.k = "Header"  -> [n EXCEPT !.hdr = @ \cup {s.b}, !.todo = rest]
      [] s.k = "Head"    -> [n EXCEPT !.head = s.b, !.todo = rest,
                                      \* ResetTo re-reads the head into memory right after writing it
                                      !.mhead = IF \E j \in 1..Len(rest) : rest[j].k = "SetHead" THEN @ ELSE s.b]
      [] s.k = "HeadSkipped" -> [n EXCEPT !.mhead = n.head, !.todo = rest]
      [] s.k = "Canon"   -> [n EXCEPT !.canon = Put(@, s.b.h, s.b.id), !.todo = rest]
      [] s.k = "Diff"    -> [n EXCEPT !.diff = Put(@, s.b.h, s.b.id), !.todo = rest]
      [] s.k = "Index"   -> [n EXCEPT !.nidx = @ + 1, !.todo = rest]
      [] s.k = "SetHead" -> [n EXCEPT !.mhead = s.b, !.todo = rest]
      [] s.k \in {"SRollback", "SRollbackNoop"} ->
             [n EXCEPT !.sv = Drop(@, {v \in DOMAIN n.sv : v > s.v}), !.ms = n.sv[s.v], !.todo = rest]
      [] s.k \in {"IRollback", "IRollbackNoop"} ->
             [n EXCEPT !.iv = Drop(@, {v \in DOMAIN n.iv : v > s.v}), !.mi = n.iv[s.v], !.todo = rest]
      [] s.k = "DelHeader" -> [n EXCEPT !.hdr = {x \in @ : x.id # s.last}, !.todo = rest]
      [] s.k = "DelCanon"  -> [n EXCEPT !.canon = Drop(@, {s.v}), !.todo = rest]
      [] s.k = "DelDiff"   -> [n EXCEPT !.diff = Drop(@, {s.v}), !.todo = rest]
      [] s.k = "InitPrelim" -> [n EXCEPT !.mphead = n.mhead, !.todo = rest]
      [] s.k = "LoadPrelim" -> [n EXCEPT !.mp = n.pv[s.v], !.todo = rest]
      [] s.k = "PCopy"      -> [n EXCEPT !.pv = Over(n.iv, n.pv), !.mp = n.mi, !.todo = rest]
      [] s.k = "PfxP"       -> [n EXCEPT !.pp = TRUE, !.todo = rest]
      [] s.k = "PCommit"    -> [n EXCEPT !.pv = Put(@, s.b.h, s.b.root), !.mp = s.b.root, !.todo = rest]
      [] s.k \in {"PCommitNoop", "PCommitLost"} -> [n EXCEPT !.mp = s.b.root, !.todo = rest]
      [] s.k = "PPrune"     -> [n EXCEPT !.pv = Drop(@, {s.v}), !.todo = rest]
      [] s.k = "PHead"      -> [n EXCEPT !.phead = s.b, !.mphead = s.b, !.todo = rest]
      [] s.k = "SnapImport" -> [n EXCEPT !.xsv = Put(Empty, s.b.h, s.b.root), !.todo = rest]
      [] s.k = "Switch"     -> [n EXCEPT !.sv = n.xsv, !.iv = n.pv, !.xsv = Empty, !.pv = Empty, !.pp = FALSE,
                                         !.head = s.b, !.phead = NoBlock, !.mhead = s.b, !.mphead = NoBlock,
                                         !.ms = n.xsv[s.b.h], !.mi = n.mp, !.mp = None, !.todo = rest]
      [] s.k \in {"DropOld", "Settled"} -> [n EXCEPT !.todo = rest, !.xsv = IF s.v = 1 THEN Empty ELSE @]
      [] s.k = "DelPHead"   -> [n EXCEPT !.phead = NoBlock, !.mphead = NoBlock, !.todo = rest]
      [] s.k = "InitChain" -> IF n.head = NoBlock
                              THEN [n EXCEPT !.ph = "failed", !.todo = <<>>, !.why = "no head (genesis generation is outside this module)"]
                              ELSE [n EXCEPT !.up = TRUE, !.mhead = n.head, !.mphead = n.phead, !.todo = rest]
      [] s.k = "InitState" ->
             IF Has(n.sv, n.mhead.h) /\ Has(n.iv, n.mhead.h)
             THEN IF ~KeepOrphanVersions /\ n.mhead.h > 0
                  THEN \* repaired code (AppState.Initialize): after loading the head's versions, both trees are reset to
                       \* the head height, which drops the versions above it (left by an interrupted insertion)
                       [n EXCEPT !.ms = n.sv[n.mhead.h], !.mi = n.iv[n.mhead.h],
                                 !.todo = <<StepV(IF \E v \in DOMAIN n.sv : v > n.mhead.h THEN "SRollback" ELSE "SRollbackNoop",
                                                  \E v \in DOMAIN n.sv : v > n.mhead.h, n.mhead.h),
                                            StepV(IF \E v \in DOMAIN n.iv : v > n.mhead.h THEN "IRollback" ELSE "IRollbackNoop",
                                                  \E v \in DOMAIN n.iv : v > n.mhead.h, n.mhead.h)>> \o rest]
                  ELSE [n EXCEPT !.ms = n.sv[n.mhead.h], !.mi = n.iv[n.mhead.h], !.todo = rest]
             ELSE IF DOMAIN n.sv = {} \/ DOMAIN n.iv = {}
                  THEN [n EXCEPT !.ph = "failed", !.todo = <<>>, !.why = "no tree version"]
                  ELSE [n EXCEPT !.ms = n.sv[MaxOf(DOMAIN n.sv)], !.mi = n.iv[MaxOf(DOMAIN n.iv)], !.todo = rest]  \* Initialize(0)
      [] s.k = "Integrity" ->
             IF RootsMatch(n)
             THEN [n EXCEPT !.ph = "idle", !.todo = <<>>]
             ELSE IF s.last = n.mhead.id
                  THEN [n EXCEPT !.ph = "hang", !.todo = <<>>, !.why = "EnsureIntegrity does not make progress"]
             ELSE IF IntegrityCandidates(n) = {}
                  THEN [n EXCEPT !.ph = "failed", !.todo = <<>>, !.why = "state db is corrupted"]
             ELSE [n EXCEPT !.todo = ResetSteps(n, MaxOf(IntegrityCandidates(n)))
                                     \o <<[Step("Integrity", FALSE) EXCEPT !.last = n.mhead.id]>>]
      [] OTHER -> n

(* a rollback that ends an operation leaves the node idle; ResetSteps never ends with SetHead *)
Settle(n) == IF n.todo = <<>> /\ n.ph = "busy" THEN [n EXCEPT !.ph = "idle"] ELSE n

Do(n) == Settle(Effect(n, Head(n.todo)))

(* run the pending steps.  cr says where the process dies: [mode |-> "none"], [mode |-> "idx", i]  *)
(* = in front of durable step number i of the phase, [mode |-> "kind", k, occ] = in front of the    *)
(* occ-th durable step of kind k.  w = kinds of the durable steps performed so far in the phase.    *)
CountOf(w, k) == Cardinality({j \in 1..Len(w) : w[j] = k})
NoCrash == [mode |-> "none", i |-> 0, k |-> "", occ |-> 0]
AtIndex(i) == [mode |-> "idx", i |-> i, k |-> "", occ |-> 0]
AtKind(k, occ) == [mode |-> "kind", i |-> 0, k |-> k, occ |-> occ]
DiesAt(cr, w, s) == \/ cr.mode = "idx" /\ Len(w) >= cr.i
                    \/ cr.mode = "kind" /\ s.k = cr.k /\ CountOf(w, s.k) + 1 = cr.occ

RECURSIVE RunX(_, _, _)
RunX(n, w, cr) ==
    IF n.todo = <<>> \/ n.ph \in {"failed", "rejected", "hang", "down"} THEN [n |-> n, w |-> w]
    ELSE LET s == Head(n.todo) IN
         IF s.dur /\ DiesAt(cr, w, s) THEN [n |-> Down(n), w |-> w]
         ELSE RunX(Do(n), IF s.dur THEN Append(w, s.k) ELSE w, cr)

Run(n, w, crashAt) == RunX(n, w, IF crashAt < 0 THEN NoCrash ELSE AtIndex(crashAt))

Begin(n, steps) == [n EXCEPT !.ph = "busy", !.todo = steps]
BootOf(n) == Begin([Down(n) EXCEPT !.ph = "busy"], BootSteps)

(* ---------------------------------------------------------------------------------------------- *)
(* the property (C09) as clauses over a node that has just completed start-up                      *)

BootOk(n) == n.ph = "idle" /\ n.up

HeadMatchesState(n) == RootsMatch(n)

(* head at the interrupted height or at a height that was retained below it, on a known chain *)
HeadInWindow(n, lo, hi, ids) == n.mhead # NoBlock /\ lo <= n.mhead.h /\ n.mhead.h <= hi /\ n.mhead.id \in ids

(* a consistent chain: the head is what the canonical index and the header store say at its height *)
HeadIndexed(n) == n.mhead # NoBlock /\ Has(n.canon, n.mhead.h) /\ n.canon[n.mhead.h] = n.mhead.id
                  /\ HeaderOf(n, n.mhead.id) # NoBlock /\ n.head = n.mhead

(* the saved versions at the head height are the head's *)
HeadSaved(n) == n.mhead # NoBlock /\ Has(n.sv, n.mhead.h) /\ n.sv[n.mhead.h] = n.mhead.root
                /\ Has(n.iv, n.mhead.h) /\ n.iv[n.mhead.h] = n.mhead.idr

RestartClauses(n, lo, hi, ids) ==
    IF ~BootOk(n) THEN {"BootOk"}
    ELSE (IF HeadMatchesState(n) /\ HeadSaved(n) THEN {} ELSE {"HeadMatchesState"})
         \cup (IF HeadInWindow(n, lo, hi, ids) THEN {} ELSE {"HeadInWindow"})
         \cup (IF HeadIndexed(n) THEN {} ELSE {"HeadIndexed"})
=============================================================================
