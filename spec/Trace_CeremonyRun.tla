------------------------- MODULE Trace_CeremonyRun -------------------------
(* Trace validation for C17 part (b).  The trace is what REAL nodes did in scripted validation ceremonies:  *)
(*   Scenario  start of a scenario (a population + the nodes that go through it)                            *)
(*   Chain     a built history (layout group grp, chain a | b | a2): per identity the facts that its BLOCKS   *)
(*             record before the block that finishes the validation (prior status, required flips done,      *)
(*             candidate of the lottery, its shard and position there, answers hash / short answers / long   *)
(*             answers / evidence included, number of evidence maps OF ITS OWN SHARD that confirm it (an      *)
(*             evidence map speaks about the candidates of its sender's shard, its bits are positions in     *)
(*             that shard), number of evidence maps of its shard)                                            *)
(*   Step      one action of one node's behaviour (Add, Restart, Validate, ValidateAlt, Propose, Switch,     *)
(*             Rollback), as exported by TLC from CeremonyRun                                                *)
(*   Eval      one call of the real ApplyNewEpoch: digest of the returned TotalValidationResult, per         *)
(*             identity (new status, birthday, number of scores, last score) read from the evaluated state,  *)
(*             and whether the ceremony treated it as having missed the validation (its own per-identity     *)
(*             record, published through the stats collector: 0 no, 1 yes, 2 not evaluated as a candidate)   *)
(*   Commit    the node after inserting the block that finishes the validation: verdict of AddBlock, roots,  *)
(*             committed statuses                                                                            *)
(* The first Eval / Commit of a chain comes from the node that built it (the proposer); it is the reference. *)
(* Verdict (property clauses on OBSERVED data, each reported once per variant class with its first line):    *)
(*   SameResult          every evaluation on a chain returns the reference result of that chain, every node  *)
(*                       accepts the block and reaches the reference roots, and the layout groups of a       *)
(*                       scenario (same transactions, other positions) have the same result                  *)
(*   AbsentNotValidated  an identity whose blocks record no short or no long answers, that no majority of    *)
(*                       the recorded evidence maps of its own shard confirms, that was no candidate or      *)
(*                       lacked required flips is not Newbie / Verified / Human afterwards                   *)
(*   PresentNotMissed    the converse: a candidate with its required flips whose blocks record short and     *)
(*                       long answers and whom a majority of its own shard's evidence maps confirms is not   *)
(*                       treated as having missed the validation                                             *)
(*   InviteKilled        an invitation that was not activated is terminated                                  *)
(*   DeadStaysDead       killed / undefined identities stay so                                               *)
(* Drift (reported, not a verdict): an evaluation whose observed class (result of chain a / of chain b /     *)
(* failed / other) differs from what the implementation-shaped model predicts for the node's behaviour.      *)
EXTENDS Naturals, Sequences, FiniteSets, TLC, Json, IOUtils

CONSTANTS Layouts, MaxRestarts, MaxEvals, WithForks, CacheByHeight

M == INSTANCE CeremonyRun WITH lay <- "l0", late <- FALSE, pos <- 0, chain <- "a", mem <- {}, disk <- {}, lot <- "none",
                               cache <- [on |-> FALSE, key |-> "", got |-> {}, failed |-> FALSE], done <- FALSE,
                               evals <- <<>>, hist <- <<>>, restarts <- 0

Trace == ndJsonDeserialize(IOEnv.TRACE_FILE)
ASSUME TLCSet(2, 0) /\ TLCSet(3, <<>>)

VARIABLES l,
          refs,    \* "grp/chain" -> reference evaluation [res, st, failed, count]
          crefs,   \* "grp/chain" -> reference commit [root, idroot, post]
          facts,   \* "grp/chain" -> sequence of per-identity facts
          nodes,   \* node name -> [st: model state, pred: predicted class of the pending evaluations]
          bad      \* clauses broken so far ("Clause:variant")
tvars == <<l, refs, crefs, facts, nodes, bad>>

Put(f, k, v) == [x \in DOMAIN f \cup {k} |-> IF x = k THEN v ELSE f[x]]
Empty == [x \in {} |-> 0]
Key(e) == e.grp \o "/" \o e.chain
R(e) == [res |-> e.res, st |-> e.st, failed |-> e.failed, count |-> e.count]
C(e) == [root |-> e.root, idroot |-> e.idroot, post |-> e.post]

Validated(s) == s \in {3, 7, 8}          \* Verified, Newbie, Human
Missed(f) == \/ ~f.cand \/ ~f.flipsDone
             \/ ~f.short \/ ~f.long
             \/ 2 * f.appr <= f.maps       \* not confirmed by a majority of the recorded evidence maps of its own shard

\* clauses broken by the per-identity statuses `s` (a sequence of statuses) under facts F
StatusClauses(F, s, killedGone) ==
    (IF \E k \in 1..Len(F) : Missed(F[k]) /\ Validated(s[k]) THEN {"AbsentNotValidated"} ELSE {})
    \cup (IF \E k \in 1..Len(F) : F[k].prev = 1 /\ s[k] # 5 /\ ~(killedGone /\ s[k] = 0) THEN {"InviteKilled"} ELSE {})
    \cup (IF \E k \in 1..Len(F) : F[k].prev \in {0, 5} /\ s[k] \notin {0, 5} THEN {"DeadStaysDead"} ELSE {})

\* ms[k]: 0 = evaluated and not treated as missed, 1 = treated as missed, 2 = not evaluated as a candidate
PresentClauses(F, ms) ==
    IF \E k \in 1..Len(F) : ~Missed(F[k]) /\ ms[k] # 0 THEN {"PresentNotMissed"} ELSE {}

Report(cs, e) ==
    LET new == {c \o ":" \o e.variant : c \in cs} \ bad
        RECURSIVE App(_, _)
        App(s, xs) == IF xs = {} THEN s ELSE LET x == CHOOSE y \in xs : TRUE IN App(Append(s, <<l, x>>), xs \ {x})
    IN /\ bad' = bad \cup new
       /\ IF new # {} THEN TLCSet(3, App(TLCGet(3), new)) ELSE TRUE

TraceInit == l = 1 /\ refs = Empty /\ crefs = Empty /\ facts = Empty /\ nodes = Empty /\ bad = {}

TScenario == /\ l <= Len(Trace) /\ Trace[l].ev = "Scenario" /\ l' = l + 1
             /\ refs' = Empty /\ crefs' = Empty /\ facts' = Empty /\ nodes' = Empty /\ bad' = bad

TChain == /\ l <= Len(Trace) /\ Trace[l].ev = "Chain" /\ l' = l + 1
          /\ facts' = Put(facts, Key(Trace[l]), Trace[l].facts)
          /\ UNCHANGED <<refs, crefs, nodes, bad>>

\* the model's prediction for a node's step
NodeSt(e) == IF e.node \in DOMAIN nodes THEN nodes[e.node].st ELSE M!InitSt(e.grp)
PredClass(st) == LET r == M!Evaluate(st) IN
                 IF r.failed THEN "failed" ELSE IF r.got = M!Data("a") THEN "a" ELSE IF r.got = M!Data("b") THEN "b" ELSE "other"
After(st, act) == CASE act = "Add" -> M!DoAdd(st)
                    [] act = "Restart" -> M!DoRestart(st)
                    [] act \in {"Validate", "ValidateAlt", "Propose"} -> M!DoEval(st)
                    [] act = "Switch" -> M!DoSwitch(st)
                    [] act = "Rollback" -> M!DoRollback(st)

TStep == /\ l <= Len(Trace) /\ Trace[l].ev = "Step" /\ l' = l + 1
         /\ LET e == Trace[l]
                st == NodeSt(e)
                evaluates == e.act \in {"Validate", "ValidateAlt", "Propose"} \/ (e.act = "Add" /\ e.slot = "Epoch")
            IN nodes' = Put(nodes, e.node, [st |-> After(st, e.act), pred |-> IF evaluates THEN PredClass(st) ELSE "none"])
         /\ UNCHANGED <<refs, crefs, facts, bad>>

ObsClass(e) == IF e.failed THEN "failed"
               ELSE IF (e.grp \o "/a") \in DOMAIN refs /\ R(e) = refs[e.grp \o "/a"] THEN "a"
               ELSE IF (e.grp \o "/b") \in DOMAIN refs /\ R(e) = refs[e.grp \o "/b"] THEN "b"
               ELSE "other"

\* another layout group of the scenario with a reference for the same chain
Others(e) == {k \in DOMAIN refs : k # Key(e) /\ \E g \in Layouts : k = g \o "/" \o e.chain}

TEval == /\ l <= Len(Trace) /\ Trace[l].ev = "Eval" /\ l' = l + 1
         /\ LET e == Trace[l]
                k == Key(e)
                isRef == k \notin DOMAIN refs
                F == facts[k]
                same == IF isRef THEN \A o \in Others(e) : refs[o] = R(e) ELSE refs[k] = R(e)
                \* the status clauses are judged on the reference result of a chain (an evaluation that differs from it
                \* is reported by SameResult)
                cl == (IF same THEN {} ELSE {"SameResult"})
                      \cup (IF isRef /\ ~e.failed THEN StatusClauses(F, [i \in 1..Len(e.st) |-> e.st[i][1]], FALSE) ELSE {})
                      \cup (IF isRef /\ ~e.failed /\ e.msok THEN PresentClauses(F, e.ms) ELSE {})
            IN /\ refs' = IF isRef THEN Put(refs, k, R(e)) ELSE refs
               /\ Report(cl, IF isRef /\ ~same THEN [e EXCEPT !.variant = "block-layout"] ELSE e)
               /\ IF e.node \in DOMAIN nodes /\ nodes[e.node].pred # ObsClass(e)
                  THEN TLCSet(2, TLCGet(2) + 1) /\ PrintT(<<"DRIFT_AT", l, nodes[e.node].pred, ObsClass(e)>>) ELSE TRUE
         /\ UNCHANGED <<crefs, facts, nodes>>

TCommit == /\ l <= Len(Trace) /\ Trace[l].ev = "Commit" /\ l' = l + 1
           /\ LET e == Trace[l]
                  k == Key(e)
                  isRef == k \notin DOMAIN crefs
                  fk == e.grp \o "/" \o (IF e.chain = "a2" THEN "a" ELSE e.chain)
                  same == e.verdict = "ok" /\ (isRef \/ crefs[k] = C(e))
                  cl == (IF same THEN {} ELSE {"SameResult"})
                        \cup (IF isRef /\ e.verdict = "ok" /\ ~refs[fk].failed THEN StatusClauses(facts[fk], e.post, TRUE) ELSE {})
              IN /\ crefs' = IF isRef THEN Put(crefs, k, C(e)) ELSE crefs
                 /\ Report(cl, e)
           /\ UNCHANGED <<refs, facts, nodes>>

TraceNext == TScenario \/ TChain \/ TStep \/ TEval \/ TCommit
TraceSpec == TraceInit /\ [][TraceNext]_tvars

TraceAccepted ==
    LET d == TLCGet("stats").diameter IN
    /\ PrintT(<<"DRIFT", TLCGet(2)>>)
    /\ IF d - 1 = Len(Trace) THEN TRUE ELSE Print(<<"TRACE_REJECTED_AT", d, Len(Trace)>>, FALSE)
    /\ \A i \in 1..Len(TLCGet(3)) : PrintT(<<"CLAUSE_BROKEN", TLCGet(3)[i][1], TLCGet(3)[i][2]>>)
    /\ TLCGet(3) = <<>>
=============================================================================
