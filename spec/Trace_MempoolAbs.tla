-------------------------- MODULE Trace_MempoolAbs --------------------------
(* Trace validation for C14.  Each line of the trace is one call on the real core/mempool.TxPool  *)
(* (attached to a real chain) with everything observable after it: the lookups (GetTx for every  *)
(* transaction of the scenario, GetPendingByAddress for every sender), the queues (snapshot      *)
(* shim), the committed ledger, the verdicts of the ledger's own transaction validation.         *)
(*                                                                                              *)
(*   - `bad`   collects the clauses of MempoolAbs.tla (the property) that some observed step      *)
(*             breaks, evaluated on OBSERVED pre/post states; each is reported once, with the    *)
(*             first trace line, by the postcondition: this is the verdict;                      *)
(*   - `drift` counts the steps whose observed queues differ from what the implementation-       *)
(*             shaped step function of Mempool.tla predicts from the observed pre-state          *)
(*             (reported in the evidence, not a verdict).                                        *)
EXTENDS Mempool, Json, IOUtils

Trace == ndJsonDeserialize(IOEnv.TRACE_FILE)
ASSUME TLCSet(2, 0) /\ TLCSet(3, <<>>) /\ TLCSet(4, <<>>)

VARIABLES l, ab, bad, drift
tvars == <<vars, l, ab, bad, drift>>

Has(e, f) == f \in DOMAIN e
SeqOr(e, f) == IF Has(e, f) THEN e[f] ELSE <<>>

URec(u) == [i \in 1..Len(u) |-> [s |-> u[i][1], n |-> u[i][2], e |-> u[i][3], k |-> u[i][4], g |-> u[i][5]]]

EmptySt(ns) == [ep |-> 0, per |-> 0, acc |-> [x \in 1..ns |-> <<0, 0>>], sync |-> FALSE,
                exec |-> [x \in 1..ns |-> <<>>], pend |-> [x \in 1..ns |-> {}], def |-> <<>>, incl |-> {}]
EmptyAb(ns) == [ep |-> 0, per |-> 0, acc |-> [x \in 1..ns |-> <<0, 0>>], sync |-> FALSE, pool |-> {}, any |-> {}, incl |-> {}]
NoLab == [ev |-> "Reset", tx |-> 0, res |-> "ok", txs |-> <<>>, cand |-> <<>>, inv |-> {}, cap |-> 0, op |-> [op |-> "Reset"]]

TraceInit == /\ l = 1 /\ bad = {} /\ drift = 0
             /\ st = EmptySt(1) /\ ab = EmptyAb(1) /\ vt = {} /\ headTxs = <<>> /\ lab = NoLab
             /\ cx = [u |-> <<>>, el |-> 0, pl |-> 0, qs |-> 0, es |-> 0, cb |-> 0, ric |-> FALSE, cap |-> 0, nofee |-> {}]

TReset == /\ l <= Len(Trace) /\ Trace[l].ev = "Reset" /\ l' = l + 1
          /\ LET e == Trace[l] IN
             /\ cx' = [u |-> URec(e.u), el |-> e.cfg.el, pl |-> e.cfg.pl, qs |-> e.cfg.qs, es |-> e.cfg.es, cb |-> e.cfg.cb,
                       ric |-> e.cfg.ric, cap |-> e.cap, nofee |-> {}]
             /\ st' = EmptySt(e.ns) /\ ab' = EmptyAb(e.ns)
          /\ lab' = NoLab /\ UNCHANGED <<vt, headTxs, bad, drift>>

(* the observation of a line *)
ByAll(o) == UNION {ToSet(o.by[x]) : x \in 1..Len(o.by)}
InvOf(o, c) == {o.inv[j][1] : j \in {k \in 1..Len(o.inv) : o.inv[k][2] = c}}

ObsAb(pre, e) == LET o == e.st IN
    [ep |-> o.ep, per |-> o.per, acc |-> o.acc, sync |-> o.sync,
     pool |-> ToSet(o.all) \cap ByAll(o), any |-> ToSet(o.all) \cup ByAll(o),
     incl |-> pre.incl \cup (IF e.ev = "Block" THEN ToSet(e.txs) ELSE {})]

ObsSt(pre, pred, e) == LET o == e.st IN
    [ep |-> o.ep, per |-> o.per, acc |-> o.acc, sync |-> o.sync,
     exec |-> o.exec, pend |-> [x \in 1..Len(o.pend) |-> ToSet(o.pend[x])],
     def |-> pred.def,      \* the order of the deferred queue is not observable: carried from the prediction
     incl |-> pre.incl \cup (IF e.ev = "Block" THEN ToSet(e.txs) ELSE {})]

Ledgered(pre, e) == [pre EXCEPT !.ep = e.st.ep, !.per = e.st.per, !.acc = e.st.acc, !.incl = @ \cup ToSet(e.txs)]

Predicted(pre, e, rev) ==
    CASE e.ev = "Add"       -> DoAdd(cx, pre, e.tx, e.own, e.valid).st
      [] e.ev = "Block"     -> IF pre.sync THEN Ledgered(pre, e)
                               ELSE DoReset(cx, Ledgered(pre, e), ToSet(e.txs), InvOf(e.st, 1), InvOf(e.st, 2), rev)
      [] e.ev = "StartSync" -> [pre EXCEPT !.sync = TRUE]
      [] e.ev = "StopSync"  -> DoStopSync(cx, pre, ToSet(e.txs), InvOf(e.st, 1), InvOf(e.st, 2), ToSet(e.dvalid), rev)
      [] OTHER              -> pre

(* does the observation agree with the implementation-shaped prediction? *)
SetGas(S) == LET RECURSIVE sum(_)
                 sum(T) == IF T = {} THEN 0 ELSE LET i == CHOOSE j \in T : TRUE IN cx.u[i].g + sum(T \ {i})
             IN sum(S)
Agrees(pre, pred, e) ==
    /\ pred.exec = e.st.exec
    /\ pred.pend = [x \in 1..Len(e.st.pend) |-> ToSet(e.st.pend[x])]
    /\ pred.sync = e.st.sync
    /\ {pred.def[j][1] : j \in 1..Len(pred.def)} = ToSet(e.st.def)
    /\ e.ev = "Add" => DoAdd(cx, pre, e.tx, e.own, e.valid).res = e.res
    /\ e.ev = "Build" => LET E == Eligible([cx EXCEPT !.nofee = ToSet(e.nofee)], pre) IN
                         IF SetGas(E) <= cx.cap THEN ToSet(e.cand) = E ELSE ToSet(e.cand) \subseteq E

Known(a) == a.any \subseteq 1..Len(cx.u)

TStep == /\ l <= Len(Trace) /\ Trace[l].ev \in {"Add", "Block", "Build", "StartSync", "StopSync"} /\ l' = l + 1
         /\ LET e    == Trace[l]
                pred == Predicted(st, e, FALSE)
                oa   == ObsAb(ab, e)
                ev   == [ev |-> e.ev, tx |-> IF Has(e, "tx") THEN e.tx ELSE 0, res |-> IF Has(e, "res") THEN e.res ELSE "ok",
                         txs |-> SeqOr(e, "txs"), cand |-> SeqOr(e, "cand"),
                         inv |-> InvOf(e.st, 1) \cup InvOf(e.st, 2), cap |-> cx.cap, op |-> [op |-> e.ev]]
                b    == IF ~Known(oa) THEN "UnknownTx" ELSE Abs!Broken(cx.u, ab, oa, ev)
                agree == Agrees(st, pred, e) \/ (e.ev \in {"Block", "StopSync"} /\ Agrees(st, Predicted(st, e, TRUE), e))
            IN /\ st' = ObsSt(st, pred, e) /\ ab' = oa /\ lab' = ev
               /\ bad' = IF b = "" THEN bad ELSE bad \cup {b}
               /\ drift' = drift + (IF agree THEN 0 ELSE 1)
               /\ TLCSet(2, drift')
               /\ IF b # "" /\ b \notin bad THEN TLCSet(3, Append(TLCGet(3), <<l, b>>)) ELSE TRUE
               /\ IF ~agree /\ Len(TLCGet(4)) < 8 THEN TLCSet(4, Append(TLCGet(4), l)) ELSE TRUE
         /\ UNCHANGED <<cx, vt, headTxs>>

(* a state observed at quiescence after a concurrent run: nothing is known about the steps that led here *)
TQuiesce == /\ l <= Len(Trace) /\ Trace[l].ev = "Quiesce" /\ l' = l + 1
            /\ LET e == Trace[l]
                   oa == [ObsAb(ab, e) EXCEPT !.incl = ToSet(e.incl)]
                   b == IF ~Known(oa) THEN "UnknownTx" ELSE IF ~Abs!WellFormed(oa) THEN "WellFormed" ELSE ""
               IN /\ st' = [ObsSt(st, st, e) EXCEPT !.incl = ToSet(e.incl), !.def = <<>>] /\ ab' = oa
                  /\ bad' = IF b = "" THEN bad ELSE bad \cup {b}
                  /\ IF b # "" /\ b \notin bad THEN TLCSet(3, Append(TLCGet(3), <<l, b>>)) ELSE TRUE
            /\ lab' = NoLab /\ UNCHANGED <<cx, vt, headTxs, drift>>

TraceNext == TReset \/ TStep \/ TQuiesce
TraceSpec == TraceInit /\ [][TraceNext]_tvars

TraceAccepted ==
    LET d == TLCGet("stats").diameter IN
    /\ PrintT(<<"DRIFT", TLCGet(2)>>)
    /\ \A i \in 1..Len(TLCGet(4)) : PrintT(<<"DRIFT_AT", TLCGet(4)[i]>>)
    /\ IF d - 1 = Len(Trace) THEN TRUE ELSE Print(<<"TRACE_REJECTED_AT", d, Len(Trace)>>, FALSE)
    /\ \A i \in 1..Len(TLCGet(3)) : PrintT(<<"CLAUSE_BROKEN", TLCGet(3)[i][1], TLCGet(3)[i][2]>>)
    /\ TLCGet(3) = <<>>
=============================================================================
