------------------------------- MODULE Rewards -------------------------------
(* Epoch reward distribution (growth module "REW" of C04): what blockchain/rewards.go does on the block that      *)
(* finishes a validation - rewardValidIdentities inside applyNewEpoch -, one definition per real step:            *)
(*   validation   addSuccessfulValidationReward: staking reward by stake weight, candidate reward (first          *)
(*                validation) - also builds the stake-weight table the later steps read                           *)
(*   flips        addFlipReward: basic reward by grade coefficient, extra reward (flips beyond the best three,    *)
(*                weighted by stake)                                                                              *)
(*   reports      addReportReward: one share per qualified report                                                 *)
(*   invitations  addInvitationReward: inviter part by invitee age, invitee part (stake only, locked)             *)
(*   foundation   addFoundationPayouts            zero   addZeroWalletFund                                        *)
(* The specification says WHO gets WHAT category and WHERE the balance part goes; amounts are never recomputed    *)
(* here (the conservation structure over the real amounts is judged on traces by Trace_Rewards with BigNat).      *)
(*                                                                                                                *)
(* A population is a function from identity keys to records                                                       *)
(*   [cand     took part in the ceremony (has an outcome); FALSE: the record just sits in the state               *)
(*    prev, new status before / after the validation (new = prev when ~cand)                                      *)
(*    missed   missed the validation                                                                              *)
(*    first    its birthday is the epoch that ends (validated for the first time now)                             *)
(*    stk      holds stake when the rewards are computed                                                          *)
(*    del      key of its delegatee (pool), None when it does not delegate                                        *)
(*    inviter  key of its inviter (inviter link in the state), None without                                       *)
(*    nage     age it has as an invitee after this validation (epoch - birthday + 1)                              *)
(*    good, rep, nq   its flips: qualified, qualified as REPORTED, not qualified                                   *)
(*    reports  keys of the authors whose reported flip it reported]                                               *)
(* God is the key of the god / foundation address, ZeroW the key of the zero wallet.                              *)
(*                                                                                                                *)
(* Quirks of the code kept on purpose (named): FailedAuthorPaid - flip rewards go to every author that did not    *)
(* miss the validation and was not penalised, validated or not (a killed author's stake part is minted and        *)
(* vanishes with its identity record); GodAlwaysPaysInviter - the god address earns invitation rewards whether    *)
(* or not it takes part in the ceremony.                                                                          *)
EXTENDS Integers, Sequences, FiniteSets, TLC

\* core/state identity statuses
Undefined == 0   Invite == 1   Candidate == 2   Verified == 3   Suspended == 4
Killed == 5      Zombie == 6   Newbie == 7      Human == 8
Validated(s) == s \in {Newbie, Verified, Human}

None == -1
God == 0
ZeroW == 9

Steps == <<"validation", "flips", "reports", "invitations", "foundation", "zero">>
StepCats(step) ==
    CASE step = "validation"  -> {"staking", "candidate"}
      [] step = "flips"       -> {"flipsBasic", "flipsExtra"}
      [] step = "reports"     -> {"reports"}
      [] step = "invitations" -> {"inviter1", "inviter2", "inviter3", "invitee1", "invitee2", "invitee3"}
      [] step = "foundation"  -> {"foundation"}
      [] step = "zero"        -> {"zero"}
AllCats == UNION {StepCats(Steps[i]) : i \in 1..Len(Steps)}
InviterCats == {"inviter1", "inviter2", "inviter3"}
InviteeCats == {"invitee1", "invitee2", "invitee3"}
AgeOfCat(c) == CASE c \in {"inviter1", "invitee1"} -> 1 [] c \in {"inviter2", "invitee2"} -> 2 [] OTHER -> 3

\* the pool a category draws from (config/consensus.go *Percent fields); before upgrade 10 all flip rewards are "basic"
\* and draw from FlipRewardPercent
ShareOf(upg, c) ==
    CASE c = "staking" -> "staking"   [] c = "candidate" -> "candidate"
      [] c = "flipsBasic" -> (IF upg >= 10 THEN "flipsBasic" ELSE "flips")
      [] c = "flipsExtra" -> "flipsExtra"
      [] c = "reports" -> "reports"
      [] c \in InviterCats \cup InviteeCats -> "invitations"
      [] c = "foundation" -> "foundation"   [] c = "zero" -> "zero"
\* per mille of the epoch pool, default configuration (the traces carry the real configuration's numbers)
DefaultPm == [staking |-> 180, candidate |-> 20, flips |-> 350, flipsBasic |-> 150, flipsExtra |-> 200,
              invitations |-> 180, reports |-> 150, foundation |-> 100, zero |-> 20]
SharesUsed(upg) == {ShareOf(upg, c) : c \in (IF upg >= 10 THEN AllCats ELSE (AllCats \ {"flipsExtra"}) \ InviteeCats)}

---------------------------------------------------------------------------
(* who is entitled *)

\* penalised = bad author: a flip qualified as reported, or flips of which none was qualified
Pen(P, i) == P[i].rep > 0 \/ (P[i].nq > 0 /\ P[i].good = 0)
Valid(P, i) == Validated(P[i].new)
\* identities of the stake-weight table built by the validation step: validated and not penalised; the god address always
InWeights(P, i) == i = God \/ (Valid(P, i) /\ ~Pen(P, i))
Weight(P, i) == InWeights(P, i) /\ P[i].stk

\* a successful invitation: the invitee has an inviter link, became / stays Newbie or became Verified, and is at most 3 old
Successful(P, j) == P[j].cand /\ P[j].inviter # None /\ P[j].new \in {Newbie, Verified} /\ P[j].nage \in 1..3
\* the inviter is paid: a ceremony participant must be validated and not penalised; GodAlwaysPaysInviter
PaysInviter(P, i) == IF i \in DOMAIN P /\ P[i].cand THEN Valid(P, i) /\ ~Pen(P, i) ELSE i = God
InviterWeight(P, upg, i) == PaysInviter(P, i) /\ (upg >= 10 => Weight(P, i))

\* May(...): the category MAY credit identity i (a credit to anybody else breaks OnlyEntitled);
\* Must(...): the published rules promise it (the quirk FailedAuthorPaid is in May \ Must)
May(P, upg, c, i) ==
    CASE c = "staking"    -> Valid(P, i) /\ ~Pen(P, i) /\ P[i].stk
      [] c = "candidate"  -> Valid(P, i) /\ ~Pen(P, i) /\ P[i].first
      [] c = "flipsBasic" -> P[i].cand /\ ~P[i].missed /\ ~Pen(P, i) /\ P[i].good >= 1
      [] c = "flipsExtra" -> upg >= 10 /\ P[i].cand /\ ~P[i].missed /\ ~Pen(P, i) /\ P[i].good > 3 /\ P[i].stk
      [] c = "reports"    -> P[i].cand /\ Valid(P, i) /\ ~Pen(P, i) /\ \E j \in P[i].reports : j \in DOMAIN P /\ P[j].rep > 0
      [] c \in InviterCats -> \E j \in DOMAIN P : /\ Successful(P, j) /\ P[j].inviter = i /\ P[j].nage = AgeOfCat(c)
                                                  /\ InviterWeight(P, upg, i)
      [] c \in InviteeCats -> /\ upg >= 10 /\ Successful(P, i) /\ P[i].nage = AgeOfCat(c) /\ ~Pen(P, i)
                              /\ InviterWeight(P, upg, P[i].inviter)
      [] c = "foundation" -> i = God
      [] c = "zero"       -> i = ZeroW
Must(P, upg, c, i) ==
    IF c \in {"flipsBasic", "flipsExtra"} THEN May(P, upg, c, i) /\ Valid(P, i) ELSE May(P, upg, c, i)

\* where the balance part of a credit goes: to the pool of a delegator; invitee rewards are stake only
Dest(P, c, i) == IF c \in InviteeCats \cup {"foundation", "zero"} \/ P[i].del = None THEN i ELSE P[i].del
\* which share of a reward is added to the stake: index into the configured <<StakeRewardRate, StakeRewardRateForNewbie>>
RateIdx(P, i) == IF i \in DOMAIN P /\ P[i].new = Newbie THEN 2 ELSE 1

\* what one real step credits: <<category, stake owner, balance destination>>
Keys(P) == DOMAIN P \cup {ZeroW}
PX(P) == [k \in Keys(P) |-> IF k \in DOMAIN P THEN P[k]
                            ELSE [cand |-> FALSE, prev |-> Undefined, new |-> Undefined, missed |-> FALSE, first |-> FALSE, stk |-> FALSE,
                                  del |-> None, inviter |-> None, nage |-> 0, good |-> 0, rep |-> 0, nq |-> 0, reports |-> {}]]
Pays(P, upg, step) == UNION {{<<c, i, Dest(PX(P), c, i)>> : i \in {k \in Keys(P) : May(PX(P), upg, c, k)}} : c \in StepCats(step)}

---------------------------------------------------------------------------
(* the distribution as a transition system: one action per real step, in the code's order *)
VARIABLES pop, upg, pc, paid

Distribute(step) ==
    /\ pc \in 1..Len(Steps) /\ Steps[pc] = step
    /\ paid' = paid \cup Pays(pop, upg, step)
    /\ pc' = pc + 1
    /\ UNCHANGED <<pop, upg>>
DistributeNext == \E i \in 1..Len(Steps) : Distribute(Steps[i])
Done == pc = Len(Steps) + 1

---------------------------------------------------------------------------
(* design-level invariants of the rules *)
Ident(cr) == cr[2] \in DOMAIN pop
PenalisedGetNothing == \A cr \in paid : Ident(cr) => ~Pen(pop, cr[2])
MissedGetNothing == \A cr \in paid : Ident(cr) => ~pop[cr[2]].missed
\* FailedAuthorPaid is the only way an identity that is not validated earns anything (the god address aside)
OnlyValidated == \A cr \in paid : (Ident(cr) /\ cr[2] # God) => (Valid(pop, cr[2]) \/ cr[1] \in {"flipsBasic", "flipsExtra"})
\* the balance part goes to the identity or to its pool, and to the pool whenever there is one
DestSelfOrPool == \A cr \in paid : /\ cr[3] \in {cr[2]} \cup (IF Ident(cr) THEN {pop[cr[2]].del} ELSE {})
                                  /\ (Ident(cr) /\ pop[cr[2]].del # None /\ cr[1] \notin InviteeCats \cup {"foundation", "zero"}) => cr[3] = pop[cr[2]].del
FoundationAndZeroAlways == Done => (<<"foundation", God, God>> \in paid /\ <<"zero", ZeroW, ZeroW>> \in paid)
\* an invitee part is only ever paid together with its inviter's part
InviteeWithInviter == \A cr \in paid : cr[1] \in InviteeCats =>
                          \E c2 \in paid : c2[1] \in InviterCats /\ AgeOfCat(c2[1]) = AgeOfCat(cr[1]) /\ c2[2] = pop[cr[2]].inviter
RECURSIVE SumPm(_)
SumPm(S) == IF S = {} THEN 0 ELSE LET x == CHOOSE y \in S : TRUE IN DefaultPm[x] + SumPm(S \ {x})
SharesWithinPool == SumPm(SharesUsed(upg)) <= 1000
=============================================================================
