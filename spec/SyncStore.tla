------------------------------ MODULE SyncStore ------------------------------
(* The per-height identity-diff store a node serves to fast-syncing peers (C11a):                 *)
(* blockchain.go insertBlock -> WriteIdentityStateDiff (written ONLY when the block's diff is     *)
(* non-empty), ResetTo (fork switch / integrity repair), GetIdentityDiff(h) (what is served).     *)
(*                                                                                              *)
(* A block is [id, diff] with diff in Diffs (0 = empty).  The follower replays store[h] for every *)
(* canonical height; it reproduces the canonical identity state iff the served diff of every      *)
(* canonical height is the diff of the canonical block at that height.                           *)
EXTENDS Integers, Sequences, FiniteSets, TLC

CONSTANTS Diffs,        \* set of non-empty diff values (positive integers); 0 = empty diff
          MaxHeight,
          DropOnReset,  \* TRUE: ResetTo removes the diffs of the reverted heights (repaired code)
          DiffFirst     \* TRUE: insertBlock writes the diff BEFORE the steps that can fail (content store); the code writes it
                        \* after them and after the head (FALSE)

VARIABLES chain,   \* sequence of diffs of the canonical blocks (index = height)
          store    \* [1..MaxHeight -> Diffs \cup {0}]: stored diff per height (0 = none stored)
vars == <<chain, store>>

Init == chain = <<>> /\ store = [h \in 1..MaxHeight |-> 0]

AddBlock(d) == /\ Len(chain) < MaxHeight
               /\ chain' = Append(chain, d)
               /\ store' = IF d # 0 THEN [store EXCEPT ![Len(chain) + 1] = d] ELSE store   \* written only when non-empty

ResetTo(h) == /\ h \in 0..(Len(chain) - 1)
              /\ chain' = SubSeq(chain, 1, h)
              /\ store' = IF DropOnReset THEN [x \in 1..MaxHeight |-> IF x > h THEN 0 ELSE store[x]] ELSE store

\* an insertion that FAILS (the content store refuses the body): the block is not inserted, the chain goes on with another
\* block at that height; nothing of the failed attempt may stay
FailedInsert(d) == /\ Len(chain) < MaxHeight /\ chain' = chain
                   /\ store' = IF DiffFirst /\ d # 0 THEN [store EXCEPT ![Len(chain) + 1] = d] ELSE store

Next == (\E d \in Diffs \cup {0} : AddBlock(d)) \/ (\E h \in 0..MaxHeight : ResetTo(h)) \/ (\E d \in Diffs : FailedInsert(d))

\* what a follower needs: the served diff of every canonical height is the canonical block's diff
FollowerRoot == \A h \in 1..Len(chain) : store[h] = chain[h]
=============================================================================
