CONSTANTS
  Nodes = {0, 1, 2}
  Bases = {11}
  Gens = {TRUE, FALSE}
  VNs = {3, 9}
  MaxT = 5
  VoteSets = {{0, 1, 2}, {0}, {0, 1}}
  Proposers = {0, 1}
  Crafters = {1}
  Laggers = {2}
  MaxVotes = 3
  MaxOdd = 1
  MaxBlocks = 3
  MaxRestarts = 0
  MaxPersists = 0
  MaxTicks = 2
  MaxCraft = 0
  MaxForce = 0
  MaxLag = 0
  MaxProbes = 0
  MaxReorg = 0
  MaxCrash = 0
  ExportOn = TRUE
  SampleMod = 20
INIT Init
NEXT Next
VIEW view
INVARIANTS TypeOK SameChainSameVersion SameGenesisInfo VersionByChain GenesisByChain NewGenesisExactlyAfterUpgrade
PROPERTIES VersionMonotone RestartNeutral
ACTION_CONSTRAINT Export
CHECK_DEADLOCK FALSE
