------------------------ MODULE Trace_ContractLedger ------------------------
(* The contract stratum of C04 and C05.  The chain histories that decide those properties carry no *)
(* contract transactions (contracts are driven by harness/cmd/d_contract, judged for C15 by         *)
(* Trace_ContractTx).  This specification reads the SAME kind of trace - blocks with contract       *)
(* transactions executed by the real node, the whole committed ledger read back after every block - *)
(* and evaluates the clauses of C04 and C05 on every such block, in their own words:                *)
(*                                                                                                  *)
(*   C04:NonNeg       no balance, stake or contract stake is negative after the block               *)
(*   C04:NoMint       what all addresses other than the block's proposer own together does not grow *)
(*                    across the block (transactions never increase the total; the block reward and *)
(*                    the fees go to the proposer, which is never a party here; no block of these   *)
(*                    runs finishes a validation)                                                   *)
(*   C05:OnlySigner   an address that signed no transaction of the block, is not the proposer and   *)
(*                    is not a contract (the named exception: a contract pays out of its own        *)
(*                    balance during a call; inviter / pool terminations do not occur here) owns    *)
(*                    no less balance, stake or contract stake after the block than before          *)
(*                                                                                                  *)
(* Lines: Reset / Other install an observed ledger (`st`); Plain and mid Tx lines are earlier        *)
(* transactions of a block (their signers are collected); a Tx line that is not mid ends its block   *)
(* and carries the ledger after it.                                                                  *)
EXTENDS BigNat, FiniteSets, TLC, Json, IOUtils

Trace == ndJsonDeserialize(IOEnv.TRACE_FILE)
ASSUME TLCSet(3, <<>>)

VARIABLES l, bpre, signers, prop, nblk,
          cred     \* plain transfers of the current block so far: <<recipient, amount>>
vars == <<l, bpre, signers, prop, nblk, cred>>

Zero == <<>>
Idx(L, a) == {i \in 1..Len(L) : L[i].a = a}
Has(L, a) == Idx(L, a) # {}
Acct(L, a) == L[CHOOSE i \in Idx(L, a) : TRUE]
Own(x) == Add(Add(x.bal, x.stake), x.cstake)
NonNegAcct(x) == ~IsNeg(x.bal) /\ ~IsNeg(x.stake) /\ ~IsNeg(x.cstake)
NonNeg(L) == \A i \in 1..Len(L) : NonNegAcct(L[i])
TotalBut(L, p) == SumSeq([i \in 1..Len(L) |-> IF L[i].a = p THEN Zero ELSE Own(L[i])])
NoMint(pre, post, p) == Leq(TotalBut(post, p), TotalBut(pre, p))
\* what plain transfers of the block credited to address a (no transaction of the block may lower a bystander's balance, and
\* a plain transfer raises the recipient's by exactly its amount: the bystander ends with at least start + credits)
Credited(cr, a) == SumSeq([j \in 1..Len(cr) |-> IF cr[j][1] = a THEN cr[j][2] ELSE Zero])
Keeps(x, post, cr) == /\ Has(post, x.a) \/ (x.bal = Zero /\ x.stake = Zero /\ x.cstake = Zero /\ Credited(cr, x.a) = Zero)
                      /\ Has(post, x.a) => LET y == Acct(post, x.a) IN
                                             Leq(Add(x.bal, Credited(cr, x.a)), y.bal) /\ Leq(x.stake, y.stake) /\ Leq(x.cstake, y.cstake)
OnlySigner(pre, post, S, p, cr) ==
    /\ \A i \in 1..Len(pre) : (pre[i].a \notin S /\ pre[i].a # p /\ ~pre[i].code) => Keeps(pre[i], post, cr)
    \* a recipient without an account before the block (it ends as a plain account: not a contract created in the block)
    /\ \A j \in 1..Len(cr) : LET a == cr[j][1] IN
          (a \notin S /\ a # p /\ ~Has(pre, a) /\ cr[j][2] # Zero) =>
              (Has(post, a) /\ (Acct(post, a).code \/ Leq(Credited(cr, a), Acct(post, a).bal)))

Clauses(pre, post, S, p, cr) ==
    IF ~NonNeg(post) THEN {"C04:NonNeg"}
    ELSE IF ~NonNeg(pre) THEN {}
    ELSE (IF NoMint(pre, post, p) THEN {} ELSE {"C04:NoMint"}) \cup (IF OnlySigner(pre, post, S, p, cr) THEN {} ELSE {"C05:OnlySigner"})

RECURSIVE Report(_, _)
Report(S, line) == IF S = {} THEN TRUE
                   ELSE LET c == CHOOSE x \in S : TRUE IN TLCSet(3, Append(TLCGet(3), <<line, c>>)) /\ Report(S \ {c}, line)

TraceInit == l = 1 /\ bpre = <<>> /\ signers = {} /\ prop = "" /\ nblk = 0 /\ cred = <<>>

TInstall == /\ l <= Len(Trace) /\ Trace[l].ev \in {"Reset", "Other"} /\ l' = l + 1
            /\ bpre' = Trace[l].st /\ signers' = {} /\ nblk' = nblk /\ cred' = <<>>
            /\ prop' = IF Trace[l].ev = "Reset" THEN Trace[l].p ELSE prop

TPlain == /\ l <= Len(Trace) /\ Trace[l].ev = "Plain" /\ l' = l + 1
          /\ signers' = signers \cup {Trace[l].from} /\ cred' = Append(cred, <<Trace[l].to, Trace[l].amount>>)
          /\ UNCHANGED <<bpre, prop, nblk>>

TTx == /\ l <= Len(Trace) /\ Trace[l].ev = "Tx" /\ l' = l + 1
       /\ LET e == Trace[l] IN
          IF e.mid THEN signers' = signers \cup {e.tx.from} /\ UNCHANGED <<bpre, nblk, cred>>
          ELSE /\ Report(Clauses(bpre, e.st, signers \cup {e.tx.from}, prop, cred), l)
               /\ bpre' = e.st /\ signers' = {} /\ nblk' = nblk + 1 /\ cred' = <<>>
       /\ UNCHANGED prop

TraceNext == TInstall \/ TPlain \/ TTx
TraceSpec == TraceInit /\ [][TraceNext]_vars

TraceAccepted ==
    LET d == TLCGet("stats").diameter IN
    /\ IF d - 1 = Len(Trace) THEN TRUE ELSE Print(<<"TRACE_REJECTED_AT", d, Len(Trace)>>, FALSE)
    /\ \A i \in 1..Len(TLCGet(3)) : PrintT(<<"CLAUSE_BROKEN", TLCGet(3)[i][1], TLCGet(3)[i][2]>>)
    /\ TLCGet(3) = <<>>
=============================================================================
