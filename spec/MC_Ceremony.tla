----------------------------- MODULE MC_Ceremony -----------------------------
(* Exhaustive run over the COMPLETE abstract input space of the decision table (every initial    *)
(* state is one abstract input, Evaluate computes the model's verdict) + export of the table:    *)
(* one JSON line per abstract case with its number, for concretisation and replay on the real    *)
(* determineNewIdentityState.                                                                    *)
EXTENDS Ceremony, Json, FiniteSets
CONSTANT ExportOn

Export == IF ExportOn
          THEN PrintT(ToJson([id |-> CaseId(inp), case |-> inp, expect |-> out']))
          ELSE TRUE

\* the published thresholds, for the concretisation (the driver takes them from here, not from the code)
Params == [minShort |-> F32_MinShortScore, minLong |-> F32_MinLongScore, minTotal |-> F32_MinTotalScore,
           minHuman |-> F32_MinHumanScore, flipsVerified |-> MinFlipsVerified, flipsHuman |-> MinFlipsHuman]
ASSUME ExportOn => PrintT(ToJson([params |-> Params]))

\* the numbering is a bijection onto 0..|Inputs|-1 (checked on every state: range; injectivity
\* follows from the mixed-radix form and is re-checked by the runner on the exported ids)
IdInRange == CaseId(inp) \in 0..(Cardinality(Inputs) - 1)
=============================================================================
