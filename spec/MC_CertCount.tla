---------------------------- MODULE MC_CertCount ----------------------------
(* Counting abstraction of Cert (C07) for registries that are too large to enumerate as shapes:  *)
(* a case is (registry size n, step class, u non-approved committee members, k distinct approved *)
(* signers, one optional deviating vote).  TLC walks all sizes 0..MaxN, checks the arithmetic of the threshold functions and   *)
(* exports the boundary cases (k = Required-1, Required, Required+1); the driver realises each on *)
(* the real code: n real identities, the REAL committee draw, u of its members discriminated, k   *)
(* approved members signing.  The verdict on those runs is Trace_Cert's (full model), not this    *)
(* abstraction's.                                                                                *)
EXTENDS Cert, Json

CONSTANTS MaxN, ExportNs, DevNs, ExportOn    \* sizes exported plain / with a deviating vote

DefaultParams == [pctN |-> 3000, pctF |-> 7000, agree |-> 6500, maxc |-> 100]   \* config/consensus.go

QuickNs    == 0..12 \cup {15, 16, 45, 85, 150}   \* 15, 45, 85: float rounding ties of 0.7 * n; 150: the committee cap (final)
QuickDevNs == 1..10
ThoroughNs == 0..130 \cup {142, 143, 150}           \* 143 * 0.7 is the first size above the cap of 100
ThoroughDevNs == 0..24 \cup {45, 85, 100}
\* the deviating vote: a byte / malleated / other-flag duplicate of a signer, a discriminated member, a stranger,
\* an approved member over another round / step / hash / parent, an unrecoverable signature
Devs == {"dup", "mall", "flag", "discr", "outsider", "round", "step", "hash", "parent", "forged"}

VARIABLES stage, n, final, u, k, pool, dev, front
vars == <<stage, n, final, u, k, pool, dev, front>>

Sizes(nn, f) == CommitteeSizes(nn, f)
\* admissible numbers of required votes when u of sz committee members are not approved
Reqs(nn, f, uu) == {t - s : t \in Thresholds(nn, f), s \in Rounds(uu, Params.agree)}
Us(sz) == {0, 1, 2, sz \div 3, sz \div 2, sz - 1, sz} \cap 0..sz

Init == stage = "start" /\ n = 0 /\ final = FALSE /\ u = 0 /\ k = 0 /\ pool = 0 /\ dev = "none" /\ front = FALSE
Pick == /\ stage = "start" /\ stage' = "case"
        /\ n' \in 0..MaxN /\ final' \in BOOLEAN
        /\ \E sz \in Sizes(n', final') :
             /\ u' \in Us(sz)
             /\ \E r \in Reqs(n', final', u') :
                  /\ k' \in {r - 1, r, r + 1} \cap 0..(sz - u')
                  /\ dev' \in {"none"} \cup (IF n' \in DevNs /\ k' \in {r - 1, r} THEN Devs ELSE {})
        /\ front' \in (IF dev' = "none" THEN {FALSE} ELSE BOOLEAN)
        /\ pool' \in (IF n' >= 6 THEN {0, 3} ELSE {0})
Next == Pick
Spec == Init /\ [][Next]_vars

IsCase == stage = "case"
\* the committee never exceeds the registry or the cap, and the non-final committee is not larger than the final one
SizeSane == IsCase => \A sz \in Sizes(n, final) : sz <= n /\ sz <= Params.maxc /\ (n > 0 => sz >= 1)
                                                  /\ \A s2 \in Sizes(n, TRUE) : final \/ sz <= s2
\* (Not an invariant, by design of the subtrahend: with u non-approved members the required number can exceed the
\*  approved members - n = 2, u = 2 needs 1 vote of 0 approved - or drop to 0 - n = 5, u = 4 - in which case the
\*  EMPTY certificate is a quorum.  Both are outside C07: accept-iff-quorum holds for whatever Required is.)
\* with everybody approved a majority of the committee is required (two certificates intersect)
Majority == IsCase => \A sz \in Sizes(n, final) : \A r \in Reqs(n, final, 0) : 2 * r > sz \/ sz = 0

Export == IF ExportOn /\ IsCase /\ n \in ExportNs
          THEN PrintT(ToJson([n |-> n, final |-> final, u |-> u, k |-> k, pool |-> pool, dev |-> dev, front |-> front]))
          ELSE TRUE
=============================================================================
