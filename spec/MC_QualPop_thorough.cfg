CONSTANTS
  MaxK = 4
  AllowN = 12
  BigAllow = {50}
  SimC = 6
  SimF = 6
  SampleMod = 3
  Seed = 1
  ExportOn = TRUE
INIT Init
NEXT Next
INVARIANTS InvDomain InvOnlyAssigned InvReportLimit InvRewardOnlyReported InvReportersRewarded InvGradeConsistent InvReportHonoured InvAnswerBacked InvConsensusHonoured InvCandidates InvPermutation
ACTION_CONSTRAINT Export
CHECK_DEADLOCK FALSE
