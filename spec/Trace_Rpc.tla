------------------------------ MODULE Trace_Rpc ------------------------------
(* Trace validation for C19.  Every line of the trace is one message that was sent to a REAL     *)
(* rpc.Server (over HTTP, WebSocket or a unix socket), with what really happened: the response   *)
(* class / error code per element and the probe service's invocation, subscription-create and    *)
(* subscription-cancel observations per element.                                                 *)
(*   - `bad`   collects the signatures clause/kind/key/position of the C19 clauses (Rpc!Broken)   *)
(*             that some observed message breaks; each signature is reported once, with the      *)
(*             first trace line, by the postcondition (the verdict);                             *)
(*   - `drift` counts the messages whose observation differs from the exact outcome of the       *)
(*             reference server (error codes the property does not fix; reported, not a verdict). *)
EXTENDS Rpc, Json, IOUtils

Trace == ndJsonDeserialize(IOEnv.TRACE_FILE)
ASSUME TLCSet(2, 0) /\ TLCSet(3, <<>>)

VARIABLES l, bad, drift
tvars == <<vars, l, bad, drift>>

RECURSIVE SeqOfSet(_)
SeqOfSet(S) == IF S = {} THEN <<>> ELSE LET x == CHOOSE y \in S : TRUE IN <<x>> \o SeqOfSet(S \ {x})

TraceInit == /\ l = 1 /\ bad = {} /\ drift = 0
             /\ msg = [el |-> <<>>, batch |-> FALSE, ks |-> FALSE, ps |-> FALSE]
             /\ pc = "done" /\ idx = 0 /\ gate = <<>> /\ out = <<>> /\ whole = 0

(* one message: the case is installed as the reference server's message, the OBSERVED outcome as *)
(* its final state (pc = "done"), and the verdict function is evaluated on the pair              *)
TMsg == /\ l <= Len(Trace) /\ Trace[l].ev = "Msg" /\ l' = l + 1
        /\ LET e == Trace[l]
               m == [el |-> e.el, batch |-> e.batch = 1, ks |-> e.ks = 1, ps |-> e.ps = 1]
               o == [whole |-> e.whole, ob |-> e.ob, extra |-> e.extra]
               b == Broken(m, o)
               new == b \ bad
           IN /\ msg' = m /\ pc' = "done" /\ idx' = 0 /\ gate' = <<>> /\ out' = o.ob /\ whole' = o.whole
              /\ bad' = bad \cup b
              /\ drift' = drift + (IF o # ModelOut(m) THEN 1 ELSE 0)
              /\ TLCSet(2, drift')
              /\ IF new # {} THEN TLCSet(3, TLCGet(3) \o [i \in 1..Cardinality(new) |-> <<l, SeqOfSet(new)[i]>>]) ELSE TRUE

TraceNext == TMsg
TraceSpec == TraceInit /\ [][TraceNext]_tvars

Sig(s) == s[1] \o "/" \o s[2] \o "/" \o s[3] \o "/" \o s[4]

TraceAccepted ==
    LET d == TLCGet("stats").diameter IN
    /\ PrintT(<<"DRIFT", TLCGet(2)>>)
    /\ IF d - 1 = Len(Trace) THEN TRUE ELSE Print(<<"TRACE_REJECTED_AT", d, Len(Trace)>>, FALSE)
    /\ \A i \in 1..Len(TLCGet(3)) : PrintT(<<"CLAUSE_BROKEN", TLCGet(3)[i][1], Sig(TLCGet(3)[i][2])>>)
    /\ TLCGet(3) = <<>>
=============================================================================
