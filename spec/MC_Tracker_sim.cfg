CONSTANTS
  Peers = {1, 2, 3, 4, 5}
  Hashes = {1, 2, 3, 11}
  D = 2
  MaxPar = 3
  MaxPend = 20000
  Horizon = 14
  HeadCheck = TRUE
  PlainBase = 10
  MaxHold = 2
  CritOn = FALSE
  ExportOn = TRUE
  SampleMod = 1
  MaxAnn = 16
INIT MInit
NEXT MNext
INVARIANTS TypeOK
PROPERTIES StepProps
ACTION_CONSTRAINT ExportAll
CHECK_DEADLOCK FALSE
