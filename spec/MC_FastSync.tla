---------------------------- MODULE MC_FastSync ----------------------------
(* Bounded model of FastSync: every chain shape of NN blocks x every placement of at most MaxFaults   *)
(* faults over the serving peers (block faults and a bad manifest) x every split of the range into    *)
(* batches, choice of the serving peer per batch and per reload, early postConsuming, restarts and    *)
(* resumed appliers.  The invariants of FastSync are checked in every state; scenarios (one concrete  *)
(* path per interesting transition) are exported for the driver that runs them on the real code.      *)
EXTENDS FastSync, Json

CONSTANTS NN,          \* blocks between the local head and the manifest height
          Peers,       \* serving peers
          Liars,       \* the peers that may carry a fault plan
          MaxFaults, MaxNew, MaxRestarts, ExportOn, SampleMod, RareMod,
          BlockFaults  \* the fault kinds placed on blocks

VARIABLES plan,   \* plan[p][h]: the fault peer p injects into block h ("none")
          mans,   \* mans[p]: the manifest peer p announces
          news, restarts,
          hist    \* the steps so far (not in the VIEW)

vars == <<ch, N, st, plan, mans, news, restarts, hist>>
view == <<ch, N, st, plan, mans, news, restarts>>

Rec(k, n, d, c) == [kind |-> k, need |-> n, diff |-> d, cert |-> c]
KindRec(k) == CASE k = "P" -> Rec("P", FALSE, FALSE, FALSE) [] k = "Pc" -> Rec("P", FALSE, FALSE, TRUE)
                [] k = "E" -> Rec("E", FALSE, FALSE, FALSE) [] k = "Ec" -> Rec("E", FALSE, FALSE, TRUE)
                [] k = "U" -> Rec("P", TRUE, TRUE, TRUE)    [] k = "F" -> Rec("P", TRUE, FALSE, TRUE)
Inner == {"P", "Pc", "E", "Ec", "U"}
LastKinds == {"U", "F"}         \* the manifest height carries the Snapshot flag

\* a fault is placed only where it changes what is on the wire
Effective(f, r) == CASE f \in {"diff-missing", "diff-stale", "diff-drop-entry"} -> r.diff
                     [] f = "cert-missing" -> r.cert
                     [] f = "hdr-seed" -> r.kind = "P"
                     [] OTHER -> TRUE
ManKinds == {"ok", "snap-otherheight", "snap-unavailable"}

\* fault placements: at most MaxFaults (<= 2) slots, each a block fault of a liar or a bad manifest of a liar
Slots == (Liars \X (1..NN) \X BlockFaults) \cup (Liars \X {0} \X (ManKinds \ {"ok"}))
SlotSets == {{}} \cup {{s} : s \in Slots}
            \cup (IF MaxFaults >= 2 THEN {{s, t} : s \in Slots, t \in Slots} ELSE {})
PlanOf(S) == [q \in Peers |-> [x \in 1..NN |-> IF \E s \in S : s[1] = q /\ s[2] = x THEN (CHOOSE s \in S : s[1] = q /\ s[2] = x)[3] ELSE "none"]]
MansOf(S) == [q \in Peers |-> IF \E s \in S : s[1] = q /\ s[2] = 0 THEN (CHOOSE s \in S : s[1] = q /\ s[2] = 0)[3] ELSE "ok"]
WellFormed(S) == \A s \in S, t \in S : (s[1] = t[1] /\ s[2] = t[2]) => s = t

MInit == /\ N = NN
         /\ \E sh \in [1..NN -> Inner \cup LastKinds] :
              /\ \A i \in 1..(NN - 1) : sh[i] \in Inner
              /\ sh[NN] \in LastKinds
              /\ ch = [i \in 1..NN |-> KindRec(sh[i])]
         /\ \E S \in SlotSets :
              /\ WellFormed(S)
              /\ \A s \in S : s[2] > 0 => Effective(s[3], ch[s[2]])
              /\ plan = PlanOf(S) /\ mans = MansOf(S)
         /\ st = InitState(Peers)
         /\ news = 0 /\ restarts = 0 /\ hist = <<>>

\* what peer p puts on the wire for from..to
RECURSIVE Served(_, _, _)
Served(p, h, to) ==
    IF h > to THEN <<>>
    ELSE LET f == plan[p][h] IN
         IF f = "trunc" THEN <<>>
         ELSE IF f = "hdr-gap" THEN Served(p, h + 1, to)
         ELSE <<[h |-> h, fault |-> f, peer |-> p]>> \o Served(p, h + 1, to)

\* Downloader.createBlockApplier + preConsuming: the best manifest is any announced, not invalidated one (all for height N)
New(p) == /\ st.pc = "idle" /\ news < MaxNew
          /\ p \in st.reg /\ mans[p] \notin st.inval
          /\ st' = PreConsume(st, mans[p])
          /\ news' = news + 1 /\ hist' = Append(hist, [op |-> "new", peer |-> p, n |-> 0])
          /\ UNCHANGED <<restarts>>

Request(p, n) == /\ st.pc = "ready" /\ p \in st.reg /\ st.cur <= N /\ st.cur + n - 1 <= N
                 /\ LET to == st.cur + n - 1 IN st' = Settle(Attempt([st EXCEPT !.att = 0], p, st.cur, to, Served(p, st.cur, to)))
                 /\ hist' = Append(hist, [op |-> "batch", peer |-> p, n |-> n])
                 /\ UNCHANGED <<news, restarts>>

Reload(p) == /\ st.pc = "reload" /\ p \in Candidates(st)
             /\ st' = Settle(Attempt(st, p, st.rfrom, st.bto, Served(p, st.rfrom, st.bto)))
             /\ hist' = hist          \* not a step of the driver: the real requestBatch picks the peer
             /\ UNCHANGED <<news, restarts>>

DoPost == /\ st.pc = "ready"
          /\ st' = Post(st)
          /\ hist' = Append(hist, [op |-> "post", peer |-> "", n |-> 0])
          /\ UNCHANGED <<news, restarts>>

Restart == /\ st.pc \in {"idle", "ready"} /\ restarts < MaxRestarts /\ st.ph > 0
           /\ st' = Reboot(st, Peers)
           /\ restarts' = restarts + 1 /\ hist' = Append(hist, [op |-> "restart", peer |-> "", n |-> 0])
           /\ UNCHANGED <<news>>

MNext == /\ \/ \E p \in Peers : New(p)
            \/ \E p \in Peers, n \in 1..NN : Request(p, n)
            \/ \E p \in Peers : Reload(p)
            \/ DoPost
            \/ Restart
         /\ UNCHANGED <<ch, N, plan, mans>>

------------------------------------------------------------------------------------------------
NoFaultAccepted == NoFaultAcceptedP(st)
CulpritSetAside == CulpritSetAsideP(st)
ArrivedEqualsApplied == st.pc = "switched" => ArrivedP(st)
Recoverable == st.pc # "switched" => ArrivedP(HonestFinish(st, "Hx"))
\* the canonical head and state change only in the switch, and then to exactly the manifest height
NoPartialSwitch == [][(st'.head # st.head \/ st'.good # st.good) => (st.pc = "ready" /\ st.ph = N /\ st'.pc = "switched" /\ st'.head = N /\ st'.good)]_vars
TypeOK == st.pc \in {"idle", "ready", "reload", "switched"} /\ st.ph \in -1..N /\ st.head \in {0, N}

------------------------------------------------------------------------------------------------
\* export: one concrete path per interesting transition (the driver appends an honest completion)
BlockKind(h) == IF ch[h].kind = "E" THEN (IF ch[h].cert THEN "Ec" ELSE "E") ELSE IF ch[h].diff THEN "U" ELSE IF ch[h].need THEN "F" ELSE IF ch[h].cert THEN "Pc" ELSE "P"
Shape == [i \in 1..NN |-> BlockKind(i)]
Resumed == news > 1 \/ restarts > 0
Refused == (st'.blamed \ st.blamed) # {}
\* transitions in which the code must refuse something (always exported)
ClassRare ==
    LET who == CHOOSE p \in st'.blamed \ st.blamed : TRUE IN
    IF Refused
    THEN "refuse/" \o st'.out \o "/def" \o (IF st.def = <<>> THEN "0" ELSE "1") \o "/att" \o (IF st'.att > 1 THEN "n" ELSE "1") \o (IF Resumed THEN "/resumed" ELSE "")
         \o "/" \o (IF \E h \in 1..NN : plan[who][h] # "none" THEN LET h == CHOOSE x \in 1..NN : plan[who][x] # "none" IN plan[who][h] \o "@" \o BlockKind(h) \o (IF h = NN THEN "$" ELSE "") ELSE "honest-blamed")
    ELSE IF st'.out = "badsnapshot" \/ st'.out = "nosnapshot" THEN "post/" \o st.man \o (IF Resumed THEN "/resumed" ELSE "")
    ELSE ""
\* frequent transitions (sampled)
ClassCommon ==
    IF st'.out = "lower" /\ st.pc = "ready" /\ st'.pc = "idle" THEN "post/early/def" \o (IF st.def = <<>> THEN "0" ELSE "1")
    ELSE IF st'.out = "switched" /\ st.pc = "ready" THEN "switch" \o (IF Resumed THEN "/resumed" ELSE "") \o (IF st.blamed # {} THEN "/after-refusal" ELSE "")
    ELSE IF hist' # hist /\ Last(hist').op = "restart" THEN "restart/def" \o (IF st.def = <<>> THEN "0" ELSE "1") \o "/" \o st.pc
    ELSE IF hist' # hist /\ Last(hist').op = "new" /\ st.ph > 0 THEN "resume/" \o (IF st.ph \in st.idv THEN "at-version" ELSE "between-versions")
    ELSE IF st'.out = "ok" /\ st'.def # <<>> /\ st.pc = "ready" /\ hist' # hist THEN "deferred-across-batches"
    ELSE ""
Line(c) == PrintT(ToJson([class |-> c, shape |-> Shape, plans |-> plan, mans |-> mans, steps |-> hist']))
Export == IF ~ExportOn THEN TRUE
          ELSE IF ClassRare # "" THEN (IF RandomElement(1..RareMod) = 1 THEN Line(ClassRare) ELSE TRUE)
          ELSE IF ClassCommon # "" /\ RandomElement(1..SampleMod) = 1 THEN Line(ClassCommon)
          ELSE TRUE
=============================================================================
