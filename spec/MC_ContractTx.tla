--------------------------- MODULE MC_ContractTx ---------------------------
(* Bounded model run of the contract-transaction envelope: every clause of C15 must hold on every  *)
(* completed transaction (ClausesHold), for every initial ledger, every transaction shape and      *)
(* every run the bounds allow.  Each completed transaction is exported as an abstract COVERAGE     *)
(* CLASS (kind, vm, pay amount, gas class, outcome, kinds of run steps); the check later compares  *)
(* the classes observed on the real code with this list.                                           *)
EXTENDS ContractTx, Json
CONSTANT ExportOn

GasClass == IF tx.gl = 0 THEN "zero" ELSE IF "outofgas" \in acts' THEN "small" ELSE "enough"
ActsSeq(S) == LET all == <<"send", "burn", "write", "stake", "subcall", "subdeploy", "subok", "subfail", "depth1", "depth2", "outofgas">>
              IN SelectSeq(all, LAMBDA x : x \in S)
Export == IF ExportOn /\ pc' = "done"
          THEN PrintT(ToJson([kind |-> tx.kind, wasm |-> tx.wasm, pay |-> tx.amount # Zero, gas |-> GasClass,
                              success |-> rc.success, acts |-> ActsSeq(acts'), escrow |-> Escrowed(tx)]))
          ELSE TRUE
view == <<led, pre0, pc, tx, rc, frames, gas, steps, eff, shok, acts>>
=============================================================================
