------------------------------ MODULE Lifecycle ------------------------------
(* The lifecycle of ONE identity x (growth module "LIFE" of the chain family, attached to C05).               *)
(*                                                                                                            *)
(* Cast: x the focus identity; g the god identity; i the identity that invites x (a Human that is not god);   *)
(* p an identity x can delegate to (a pool owner that never delegates itself); d a validated identity that    *)
(* can delegate to x (x then IS a pool); f a fresh funded key (the invitee of x, the target of x's            *)
(* activation-for-another-address); s a funded stranger without identity.                                     *)
(*                                                                                                            *)
(* The abstract state is a record `s` (below).  One operator per real step:                                   *)
(*   Adm(s, o)  what blockchain/validation/validation.go answers for the transaction of attempt o in the      *)
(*              situation s: .pool = a mempool admits it (ValidateTx with InboundTx, incl. the generic        *)
(*              "no ordinary transactions during flip lottery / short session" rule), .block = a block may    *)
(*              carry it (ValidateTx with InBlockTx in filterTxs / processTxs)                                 *)
(*   Eff(s, o)  what blockchain.go applyTxOnState does to the identity, followed - for the three terminating  *)
(*              types, which set the IdentityUpdate flag - by the block-level steps, followed by the commit    *)
(*              (a Killed record is deleted: Reap)                                                             *)
(*   StatusSwitchStep / DelayedPenaltyStep / DelegationSwitchStep / PoolOfflineStep                            *)
(*              applyStatusSwitch, applyDelayedOfflinePenalties, applyDelegationSwitch, switchPoolsToOffline   *)
(*              in the order applyBlockOnState runs them on an IdentityUpdate block (Flush)                    *)
(*   EpochEnd   the ValidationFinished block: Flush, then ceremony.applyOnState with an outcome out of the     *)
(*              successors the decision table (Ceremony.tla, transcribed from determineNewIdentityState)      *)
(*              allows for x's status, its required flips and its participation, then                         *)
(*              setNewIdentitiesAttributes                                                                    *)
(* Quirks of the code that the model keeps (named):                                                           *)
(*   Q1 a transaction of a terminating type flushes EVERY pending switch of everybody in its block            *)
(*   Q2 DelegateTx has no condition on the sender's status: an address without identity can delegate          *)
(*   Q3 ToggleDelegationAddress is no toggle: it overwrites the entry (delegate again while an undelegation   *)
(*      is pending = re-delegation; undelegate while a delegation is pending leaves an empty entry)           *)
(*   Q4 an OnlineStatusTx of either direction removes a delayed offline penalty instead of toggling           *)
(*   Q5 a terminated pool owner still counts as a pool (its delegators' entries stay): it may go online       *)
(*   Q6 committed state never shows status Killed: the record is deleted (status reads Undefined)             *)
(*   Q7 the link invitee -> inviter of a not yet activated invitation survives the inviter's termination      *)
(*   Q8 an offline penalty is served by time spent online (a long gap between two blocks serves it at once)   *)
EXTENDS Integers, Sequences, FiniteSets, TLC

Cer == INSTANCE Ceremony WITH inp <- "na", out <- "na"

Statuses == {"U", "I", "C", "N", "V", "H", "S", "Z", "K"}
Full(st) == CASE st = "U" -> "Undefined" [] st = "I" -> "Invite" [] st = "C" -> "Candidate" [] st = "N" -> "Newbie"
              [] st = "V" -> "Verified" [] st = "H" -> "Human" [] st = "S" -> "Suspended" [] st = "Z" -> "Zombie" [] st = "K" -> "Killed"
Abbr(full) == CHOOSE st \in Statuses : Full(st) = full

\* the successors the decision table allows (upgrades 10 and 12 on, as on the test chain), given whether the identity made
\* its required flips and whether it took part at all (no ceremony transaction = it missed the session)
SuccOf(st, done, part) ==
    {Abbr(Cer!Decide(i)) : i \in [prev : {Full(st)}, flipsDone : {done}, missed : IF part THEN BOOLEAN ELSE {TRUE},
                                  nqShort : BOOLEAN, nqLong : BOOLEAN, shortCnt : Cer!ShortCnts, shortCls : Cer!ShortCls,
                                  longOk : BOOLEAN, total : Cer!TotalCls, flips : Cer!FlipsCls,
                                  fix93 : {TRUE}, up10 : {TRUE}, up12 : {TRUE}]}
SuccTable == [st \in Statuses |-> [done \in BOOLEAN |-> [part \in BOOLEAN |-> SuccOf(st, done, part)]]]

ValidatedSt == {"N", "V", "H"}
VtxBits == {"hash", "short", "long", "evid"}

(* ---------------------------------------------------------------------------------------------------------- *)
(* the abstract state                                                                                          *)
StateType ==
    [st : Statuses,                 \* status of x (K = terminated in this history; the ledger shows Undefined, Q6)
     per : 0..4,                    \* validation period: None, FlipLottery, ShortSession, LongSession, AfterLongSession
     rv : BOOLEAN,                  \* x is registered as validated (identity state / validators cache)
     on : BOOLEAN,                  \* x is registered as online
     psw : BOOLEAN,                 \* a status switch of x is pending
     dg : BOOLEAN,                  \* x has an active delegatee (p)
     sw : {"no", "to", "empty"},    \* x's entry in the delegation switch: none / delegate to p / empty delegatee
     dnew : BOOLEAN,                \* x's delegation was switched on in the current epoch
     und : BOOLEAN,                 \* x undelegated within the last two epochs (it is discriminated for that)
     pen : {"none", "delayed", "active"},   \* offline penalty of x: none / awaiting the next identity update / seconds left
     lnk : BOOLEAN,                 \* x is linked to its inviter i
     stk : {"none", "some"}, lck : BOOLEAN, rep : BOOLEAN,     \* stake of x; part of it locked; part of it replenished
     nfl : 0..5, req : {0, 3},      \* flips x submitted / flips required of x
     vtx : SUBSET VtxBits,          \* ceremony transactions of x recorded in this epoch
     xinv : 0..2, xfz : BOOLEAN,    \* invitations x holds (xfz: "at least" - exploration bound only)
     iinv : 0..2, ifz : BOOLEAN,    \* invitations i holds
     fst : {"U", "I", "C"}, flnk : BOOLEAN,   \* status of f; f is linked to x as its inviter
     dd : {"none", "pend", "act"}, dst : {"val", "dead"},   \* delegation of d to x; d itself
     dq : BOOLEAN]                  \* d's entry precedes x's entry in the delegation switch

IsPool(s) == s.dd = "act" /\ s.dst = "val"
Dead(s) == s.st \in {"U", "K"}
Cand(s) == s.st \in {"C", "N", "V", "H", "S", "Z"} /\ s.nfl >= s.req          \* state.IsCeremonyCandidate
MaxFlips(s) == s.req + (IF s.st = "V" THEN 1 ELSE IF s.st = "H" THEN 2 ELSE 0)
Min(a, b) == IF a < b THEN a ELSE b

(* ---------------------------------------------------------------------------------------------------------- *)
(* attempts and steps                                                                                          *)
TxOps == {"Send", "ActivateSelf", "ActivateOther", "InviteF", "Kill", "KillInviteeF", "KillDelegatorD", "SubmitFlip", "DeleteFlip",
          "AnswersHash", "ShortAnswers", "LongAnswers", "Evidence", "GoOnline", "GoOffline", "ChangeGod", "Burn", "ChangeProfile",
          "Delegate", "Undelegate", "StoreToIpfs", "ReplenishSelf",
          "InviteX", "InviteXByS", "KillInviteeX", "KillInviteeXByG", "KillDelegatorX", "KillDelegatorXByG", "ReplenishX",
          "DelegateDX", "ActivateF"}
BlockOps == {"Flush", "NextPeriod", "Ceremony", "EpochEnd", "Penalty"}
Ceremonial == {"AnswersHash", "ShortAnswers", "LongAnswers", "Evidence"}
\* blockchain/types TxType of an attempt (coverage tables)
TxTypeOf(n) == CASE n = "Send" -> 0 [] n \in {"ActivateSelf", "ActivateOther", "ActivateF"} -> 1 [] n \in {"InviteF", "InviteX", "InviteXByS"} -> 2
                 [] n = "Kill" -> 3 [] n = "SubmitFlip" -> 4 [] n = "AnswersHash" -> 5 [] n = "ShortAnswers" -> 6 [] n = "LongAnswers" -> 7
                 [] n = "Evidence" -> 8 [] n \in {"GoOnline", "GoOffline"} -> 9 [] n \in {"KillInviteeF", "KillInviteeX", "KillInviteeXByG"} -> 10
                 [] n = "ChangeGod" -> 11 [] n = "Burn" -> 12 [] n = "ChangeProfile" -> 13 [] n = "DeleteFlip" -> 14
                 [] n \in {"Delegate", "DelegateDX"} -> 18 [] n = "Undelegate" -> 19
                 [] n \in {"KillDelegatorD", "KillDelegatorX", "KillDelegatorXByG"} -> 20 [] n = "StoreToIpfs" -> 21
                 [] n \in {"ReplenishSelf", "ReplenishX"} -> 22 [] OTHER -> -1
Signer(n) == CASE n \in {"InviteX", "KillInviteeX"} -> "i" [] n = "InviteXByS" -> "s" [] n \in {"KillInviteeXByG", "KillDelegatorXByG", "ReplenishX"} -> "g"
               [] n = "KillDelegatorX" -> "p" [] n = "DelegateDX" -> "d" [] n = "ActivateF" -> "f" [] OTHER -> "x"

Op(n) == [n |-> n, out |-> "", inv |-> 0, rw |-> FALSE]
EpochOp(out, inv, rw) == [n |-> "EpochEnd", out |-> out, inv |-> inv, rw |-> rw]

(* ---------------------------------------------------------------------------------------------------------- *)
(* admissibility: one clause per validator of validation.go                                                    *)
Both(c) == [pool |-> c, block |-> c]
OnlineBase(s) == s.per = 0 /\ (s.rv \/ IsPool(s)) /\ ~s.dg
Dup(s, b) == b \in s.vtx
\* Identity.IsDiscriminated (epochs <= 2: no discrimination of newbies as such yet)
Disc(s) == s.und \/ (s.st \in ValidatedSt /\ s.stk = "none")
Evid(s) == Cand(s) /\ s.st # "C" /\ ~s.dg /\ ~Disc(s) /\ ~Dup(s, "evid")

TypeRule(s, n) ==
    CASE n \in {"Send", "Burn", "ChangeProfile", "StoreToIpfs"} -> Both(TRUE)
      [] n \in {"ChangeGod", "InviteXByS", "KillInviteeXByG", "KillDelegatorXByG"} -> Both(FALSE)
      [] n = "ActivateSelf"   -> Both(s.st = "I" /\ s.per = 0)
      [] n = "ActivateOther"  -> Both(s.st = "I" /\ s.per = 0 /\ s.fst = "U")
      [] n = "ActivateF"      -> Both(s.fst = "I" /\ s.per = 0)
      [] n = "InviteF"        -> Both(s.xinv > 0 /\ s.per = 0 /\ s.fst = "U")
      [] n = "InviteX"        -> Both(s.iinv > 0 /\ s.per = 0 /\ Dead(s))
      [] n = "Kill"           -> Both(s.per = 0 /\ s.st \in {"V", "H", "S", "Z"})
      [] n = "KillInviteeF"   -> Both(s.per = 0 /\ s.flnk /\ s.fst \in {"I", "C"})
      [] n = "KillInviteeX"   -> Both(s.per = 0 /\ s.lnk /\ s.st \in {"I", "C"})
      [] n = "KillDelegatorD" -> Both(s.per = 0 /\ s.dd = "act")
      [] n = "KillDelegatorX" -> Both(s.per = 0 /\ s.dg)
      [] n = "SubmitFlip"     -> Both(s.per = 0 /\ s.st \in {"C", "N", "V", "H", "S", "Z"} /\ s.nfl < MaxFlips(s))
      [] n = "DeleteFlip"     -> Both(s.per = 0 /\ s.nfl > 0)
      [] n = "AnswersHash"    -> [pool |-> Cand(s) /\ ~Dup(s, "hash") /\ s.per >= 1, block |-> Cand(s) /\ ~Dup(s, "hash") /\ s.per >= 2]
      [] n = "ShortAnswers"   -> [pool |-> Cand(s) /\ ~Dup(s, "short") /\ s.per \in 1..3, block |-> Cand(s) /\ ~Dup(s, "short") /\ s.per >= 3]
      [] n = "LongAnswers"    -> [pool |-> Cand(s) /\ ~Dup(s, "long") /\ s.per \in 1..3, block |-> Cand(s) /\ ~Dup(s, "long") /\ s.per >= 2]
      [] n = "Evidence"       -> [pool |-> Evid(s) /\ s.per >= 1, block |-> Evid(s) /\ s.per >= 3]
      [] n = "GoOnline"       -> Both(OnlineBase(s) /\ ~((s.on /\ ~s.psw /\ s.pen # "delayed") \/ (~s.on /\ s.psw)))
      [] n = "GoOffline"      -> Both(OnlineBase(s) /\ ~((~s.on /\ ~s.psw) \/ (s.on /\ s.psw)))
      [] n = "Delegate"       -> Both(s.per = 0 /\ ~IsPool(s) /\ (IF s.dg THEN s.sw = "empty" ELSE s.sw # "to") /\ s.pen # "active")
      [] n = "Undelegate"     -> Both(s.per = 0 /\ (IF s.dg THEN s.sw # "empty" ELSE s.sw = "to") /\ ~s.dnew)
      [] n \in {"ReplenishSelf", "ReplenishX"} -> Both(s.per = 0 /\ ~Dead(s))
      [] n = "DelegateDX"     -> Both(s.per = 0 /\ ~s.dg /\ s.dd = "none")

\* ValidateTx: ordinary transactions are not taken by a mempool during flip lottery and short session (LateTx); a block may
\* carry whatever the per-type rule admits
Adm(s, o) ==
    LET r == TypeRule(s, o.n) IN
    [pool |-> r.pool /\ (o.n \in Ceremonial \/ s.per \notin {1, 2}), block |-> r.block]

(* ---------------------------------------------------------------------------------------------------------- *)
(* block-level steps of an IdentityUpdate block, in the order of applyBlockOnState                              *)
\* applyStatusSwitch (poolPre: the validators cache is the one of the previous block)
StatusSwitchStep(s, poolPre) ==
    IF ~s.psw THEN s
    ELSE IF s.on THEN [s EXCEPT !.on = FALSE, !.psw = FALSE]
    ELSE IF s.rv \/ poolPre THEN [s EXCEPT !.on = TRUE, !.psw = FALSE]
    ELSE [s EXCEPT !.psw = FALSE]

\* applyDelayedOfflinePenalties
DelayedPenaltyStep(s) == IF s.pen = "delayed" THEN [s EXCEPT !.pen = "active", !.on = FALSE] ELSE s

\* applyDelegationSwitch: x's entry ...
XEntry(s, poolPre, becamePool) ==
    CASE s.sw = "no"    -> s
      [] s.sw = "empty" -> [s EXCEPT !.sw = "no", !.dg = FALSE, !.dnew = IF s.dg THEN FALSE ELSE s.dnew, !.und = s.und \/ s.dg]
      [] s.sw = "to"    -> IF ~becamePool /\ ~poolPre /\ s.pen # "active"
                           THEN [s EXCEPT !.sw = "no", !.dg = TRUE, !.dnew = TRUE, !.on = FALSE]
                           ELSE [s EXCEPT !.sw = "no"]
\* ... and d's entry (x must not delegate itself)
DEntry(s) == IF s.dd # "pend" THEN s ELSE IF ~s.dg THEN [s EXCEPT !.dd = "act"] ELSE [s EXCEPT !.dd = "none"]
\* entries are processed in the order they were first written (the outcome depends on it when both are pending)
DelegationSwitchStep(s, poolPre) ==
    IF s.dq THEN LET s1 == DEntry(s) IN XEntry(s1, poolPre, s.dd = "pend" /\ s1.dd = "act")
    ELSE DEntry(XEntry(s, poolPre, FALSE))

\* switchPoolsToOffline: a pool that lost its last member goes offline (a validated owner counts as a member)
PoolOfflineStep(s, poolPre, lostD, rvPre) == IF lostD /\ poolPre /\ ~rvPre THEN [s EXCEPT !.on = FALSE] ELSE s

Flush(s, poolPre, lostD, rvPre) ==
    PoolOfflineStep(DelegationSwitchStep(DelayedPenaltyStep(StatusSwitchStep(s, poolPre)), poolPre), poolPre, lostD, rvPre)

\* commit: a record in status Killed is deleted (Q6); the identity update hook may keep a penalty
Reap(s, keepPen) ==
    IF s.st # "K" THEN s
    ELSE [s EXCEPT !.dg = FALSE, !.dnew = FALSE, !.und = FALSE, !.pen = IF keepPen THEN s.pen ELSE "none",
                   !.nfl = 0, !.req = 0, !.vtx = {}, !.xinv = 0, !.xfz = FALSE, !.lnk = FALSE,
                   !.stk = "none", !.lck = FALSE, !.rep = FALSE]

\* what the three terminating transaction types do to a terminated x before the block-level steps
\* (Q7: an invitee is entered in its inviter's list only when it activates the invitation; an invitee that has not done so
\* keeps pointing at a terminated inviter, which can still terminate it)
Terminate(s) == [s EXCEPT !.st = "K", !.rv = FALSE, !.on = FALSE, !.lnk = FALSE, !.flnk = s.flnk /\ s.fst # "C",
                          !.stk = "none", !.lck = FALSE, !.rep = FALSE]

(* ---------------------------------------------------------------------------------------------------------- *)
(* effects of an included transaction                                                                          *)
TxEff(s, n) ==
    CASE n \in {"Send", "Burn", "ChangeProfile", "StoreToIpfs", "ChangeGod", "InviteXByS", "KillInviteeXByG", "KillDelegatorXByG"} -> s
      [] n = "ActivateSelf"   -> [s EXCEPT !.st = "C"]
      [] n = "ActivateOther"  -> Reap([s EXCEPT !.st = "K", !.lnk = FALSE, !.fst = "C", !.flnk = FALSE], TRUE)
      [] n = "ActivateF"      -> [s EXCEPT !.fst = "C", !.flnk = s.flnk /\ s.st \in {"V", "H"}]
      [] n = "InviteF"        -> [s EXCEPT !.xinv = s.xinv - 1, !.fst = "I", !.flnk = TRUE]
      [] n = "InviteX"        -> [s EXCEPT !.st = "I", !.lnk = TRUE, !.iinv = s.iinv - 1]
      [] n = "Kill"           -> Reap(Flush(Terminate(s), IsPool(s), FALSE, s.rv), FALSE)
      [] n = "KillInviteeX"   -> Reap(Flush([Terminate(s) EXCEPT !.iinv = Min(s.iinv + 1, 2)], IsPool(s), FALSE, s.rv), TRUE)
      [] n = "KillDelegatorX" -> Reap(Flush(Terminate(s), IsPool(s), FALSE, s.rv), s.st \in {"U", "I", "C"})
      [] n = "KillInviteeF"   -> Flush([s EXCEPT !.fst = "U", !.flnk = FALSE, !.xinv = IF s.st \in {"V", "H"} THEN Min(s.xinv + 1, 2) ELSE s.xinv],
                                       IsPool(s), FALSE, s.rv)
      [] n = "KillDelegatorD" -> Flush([s EXCEPT !.dd = "none", !.dst = "dead"], IsPool(s), TRUE, s.rv)
      [] n = "SubmitFlip"     -> [s EXCEPT !.nfl = s.nfl + 1]
      [] n = "DeleteFlip"     -> [s EXCEPT !.nfl = s.nfl - 1]
      [] n = "AnswersHash"    -> [s EXCEPT !.vtx = s.vtx \cup {"hash"}]
      [] n = "ShortAnswers"   -> [s EXCEPT !.vtx = s.vtx \cup {"short"}]
      [] n = "LongAnswers"    -> [s EXCEPT !.vtx = s.vtx \cup {"long"}]
      [] n = "Evidence"       -> [s EXCEPT !.vtx = s.vtx \cup {"evid"}]
      [] n \in {"GoOnline", "GoOffline"} -> IF s.pen = "delayed" THEN [s EXCEPT !.pen = "none"] ELSE [s EXCEPT !.psw = ~s.psw]     \* Q4
      [] n = "Delegate"       -> [s EXCEPT !.sw = "to", !.dq = IF s.sw = "no" THEN s.dd = "pend" ELSE s.dq]                      \* Q3
      [] n = "Undelegate"     -> [s EXCEPT !.sw = "empty", !.dq = IF s.sw = "no" THEN s.dd = "pend" ELSE s.dq]
      [] n \in {"ReplenishSelf", "ReplenishX"} -> [s EXCEPT !.stk = "some", !.rep = TRUE]
      [] n = "DelegateDX"     -> [s EXCEPT !.dd = "pend", !.dq = FALSE]

(* ---------------------------------------------------------------------------------------------------------- *)
(* block-level steps as steps of their own                                                                     *)
Pending(s) == s.psw \/ s.pen = "delayed" \/ s.sw # "no" \/ s.dd = "pend"
NoPendingDelegation(s) == s.sw = "no" /\ s.dd # "pend"

\* the outcomes the decision table allows for x now
Outcomes(s) == SuccTable[s.st][s.nfl >= s.req][s.vtx # {}]

EpochEff(s, o) ==
    LET s1 == Flush(s, IsPool(s), FALSE, s.rv)
        val == o.out \in ValidatedSt
        s2 == [s1 EXCEPT !.st = o.out, !.rv = val, !.req = IF val THEN 3 ELSE 0,
                         !.on = IF val \/ IsPool(s1) THEN s1.on ELSE FALSE,
                         !.xinv = o.inv, !.xfz = o.inv > 0, !.iinv = 1, !.ifz = TRUE,
                         !.pen = "none", !.nfl = 0, !.vtx = {},
                         !.lnk = IF o.out \in {"V", "H", "K", "U"} THEN FALSE ELSE s1.lnk,
                         !.stk = IF o.rw THEN "some" ELSE s1.stk, !.rep = s1.rep \/ o.rw, !.lck = s1.lck \/ o.rw,
                         !.dnew = FALSE, !.fst = "U", !.flnk = FALSE, !.per = 0]
    IN Reap(s2, FALSE)

Enabled(s, o) ==
    CASE o.n = "Flush"      -> Pending(s) /\ s.per # 4
      [] o.n = "NextPeriod" -> s.per < 4 /\ (s.per = 3 => NoPendingDelegation(s))
      [] o.n = "Ceremony"   -> s.per = 0 /\ NoPendingDelegation(s)       \* the four period blocks in a row (a ceremony x does not attend)
      [] o.n = "Penalty"    -> s.per = 0 /\ s.on /\ s.pen = "none" /\ ~s.psw
      [] o.n = "EpochEnd"   -> /\ s.per = 4 /\ NoPendingDelegation(s)
                               /\ o.out \in Outcomes(s)
                               /\ o.inv = (IF o.out \in {"V", "H"} THEN 1 ELSE 0)      \* best score: it holds an invitation afterwards
                               /\ (o.rw => (s.st = "C" /\ o.out = "N" /\ s.lnk))
      [] OTHER -> TRUE

\* the block that starts the next validation period.  Q8: penalty seconds are served by the time an identity is online and
\* rewarded (member of the final committee); the flip lottery starts a day or more after anything a path did before, which
\* serves the whole penalty (8 hours) of an online identity
StartPeriod(s) == [s EXCEPT !.per = s.per + 1, !.pen = IF s.per = 0 /\ s.pen = "active" /\ s.on THEN "none" ELSE s.pen]

BlockEff(s, o) ==
    CASE o.n = "Flush"      -> Flush(s, IsPool(s), FALSE, s.rv)
      [] o.n = "NextPeriod" -> StartPeriod(s)
      [] o.n = "Ceremony"   -> StartPeriod(StartPeriod(StartPeriod(StartPeriod(s))))
      [] o.n = "Penalty"    -> [s EXCEPT !.pen = "delayed"]
      [] o.n = "EpochEnd"   -> EpochEff(s, o)

\* one step of the lifecycle: an attempt (effect iff a block may carry it) or a block-level step
Post(s, o) == IF o.n \in BlockOps THEN BlockEff(s, o)
              ELSE IF Adm(s, o).block THEN TxEff(s, o.n) ELSE s

(* ---------------------------------------------------------------------------------------------------------- *)
(* design-level properties                                                                                     *)
\* registered as validated iff the status is Newbie, Verified or Human
ValidatedIffStatus(s) == s.rv <=> s.st \in ValidatedSt
\* only validated identities or pools are online
OnlineOnlyValidatedOrPool(s) == s.on => (s.rv \/ IsPool(s))
\* a terminated / undefined identity owns no stake
DeadOwnsNothing(s) == Dead(s) => (s.stk = "none" /\ ~s.lck /\ ~s.rep)
\* locked and replenished stake are stake
StakeParts(s) == (s.lck \/ s.rep) => s.stk = "some"
\* an identity with an active delegatee is not online itself and is no pool
DelegatorQuiet(s) == s.dg => (~s.on /\ ~IsPool(s))
\* x dies only by its own hand, through the two named relationships, or at an epoch end
OnlyNamedRelationships(s, o, t) ==
    (~Dead(s) /\ Dead(t)) => \/ o.n \in {"Kill", "ActivateOther", "EpochEnd"}
                             \/ (o.n = "KillInviteeX" /\ s.lnk)
                             \/ (o.n = "KillDelegatorX" /\ s.dg)
\* a terminated identity comes back only through a new invitation
NoResurrection(s, o, t) == (Dead(s) /\ ~Dead(t)) => (o.n = "InviteX" /\ t.st = "I")
\* nothing but an epoch end moves a live identity between live statuses, except the activation of an invitation
StatusOnlyByEpoch(s, o, t) == (s.st # t.st /\ ~Dead(s) /\ ~Dead(t)) => (o.n = "EpochEnd" \/ (o.n = "ActivateSelf" /\ s.st = "I" /\ t.st = "C"))
=============================================================================
