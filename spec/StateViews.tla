----------------------------- MODULE StateViews -----------------------------
(* C13, layer between the copy-on-write store (OverlayDb) and the chain (Replicas): the state     *)
(* objects core/state.StateDB + IdentityStateDB and core/appstate.AppState, their speculative     *)
(* views (ForCheck, ForCheckWithOverwrite, Readonly) and the in-memory buffers none of them may   *)
(* share.                                                                                        *)
(*                                                                                               *)
(* One action per real call.  Every object (the canonical one and each view) owns                 *)
(*   pend : the writes buffered in its object caches / dirty sets / contract store + code buffers *)
(*          (Set*/Add*/Sub*/Toggle*/Deploy*... since the last Precommit),                         *)
(*   work : the batches already flushed into its working tree by Precommit / AddDiff and not yet  *)
(*          saved (dropped by Reset = Clear + Rollback),                                          *)
(* and the committed versions are a sequence of blocks (`store`, index = height) for the          *)
(* canonical database, `chain` for a view (the prefix it was loaded at + what it saved itself,    *)
(* in memory only).  A write is an abstract token [s, v] (slot, value): the conformance driver    *)
(* binds every slot to one concrete mutating method of a concrete KIND of buffer (account,        *)
(* identity, global, status switch, delegation switch, delayed penalties, burnt coins,            *)
(* discrimination switch, contract value, contract code, identity-state, ...); the specification  *)
(* is generic in the kind.  The CONTENT of an object is the history [chain, work, pend]: what     *)
(* the object returns is a function of its content and of nothing else - that is the property.    *)
EXTENDS Integers, Sequences, FiniteSets, TLC

CONSTANTS Slots,     \* abstract write slots (bound to concrete methods by the driver)
          Vals,      \* abstract arguments
          Views,     \* view identifiers (1..n)
          MaxTop,    \* bound on the number of committed versions
          MaxW,      \* bound on the writes an object buffers between two of its commits
          MaxOwn     \* bound on the versions a view saves itself (in memory)

VARIABLES store,     \* Seq(Block): the canonical database, store[h] = block committed at height h
          canon,     \* [work, pend, mid, ro, rog, ghost]: the canonical object (always loaded at Len(store))
          views,     \* [Views -> View]
          lab        \* label of the last step (export, action properties)

vars == <<store, canon, views, lab>>

Ctors == {"check", "overwrite", "readonly"}

Lab(ev, x, ctor, h, s, v, f) == [ev |-> ev, x |-> x, ctor |-> ctor, h |-> h, s |-> s, v |-> v, f |-> f]

\* a batch = the writes flushed by one Precommit; a block = the batches saved by one commit
GBlock(i) == << << [s |-> 0, v |-> i] >> >>
Genesis == <<GBlock(1), GBlock(2)>>          \* the driver builds two rich versions before every case

NoView == [st |-> "none", ctor |-> "", base |-> 0, head |-> 0, chain |-> <<>>, work |-> <<>>, pend |-> <<>>, own |-> 0, ghost |-> {}]

\* Besides its content the canonical object carries two pieces of bookkeeping that do not change what it returns:
\*   ro    : the height of the read-only state AppState.Readonly keeps cached (0 = none); dropped by ResetTo
\*   rog   : the heights whose cached read-only state ResetTo dropped (bookkeeping of the same kind as ghost)
\*   ghost : the slots of writes that were ABANDONED (Reset, ResetTo, a CommitTree that drops the object caches,
\*           ViewReset for a view).  The property says they are gone for good; keeping them in the state makes TLC
\*           explore what happens AFTER an abandonment separately from a history in which nothing was written.
Clean  == [work |-> <<>>, pend |-> <<>>, mid |-> FALSE, ro |-> 0, rog |-> {}, ghost |-> {}]
Cleaned(o) == [Clean EXCEPT !.ro = o.ro, !.rog = o.rog, !.ghost = o.ghost]

Top == Len(store)
Live(x) == views[x].st = "live"

RECURSIVE SlotsOf(_)
SlotsOf(w) == IF w = <<>> THEN {} ELSE {Head(w)[i].s : i \in 1..Len(Head(w))} \cup SlotsOf(Tail(w))
PendSlots(o) == {o.pend[i].s : i \in 1..Len(o.pend)}
Fl(c, t) == IF c THEN t ELSE ""
CF == Fl(canon.pend # <<>>, "p") \o Fl(canon.work # <<>>, "w") \o Fl(canon.mid, "m") \o Fl(canon.ghost # {}, "g")
VF(x) == Fl(views[x].pend # <<>>, "p") \o Fl(views[x].work # <<>>, "w") \o Fl(views[x].own > 0, "o") \o Fl(views[x].ghost # {}, "g")

RECURSIVE NBatch(_)
NBatch(w) == IF w = <<>> THEN 0 ELSE Len(Head(w)) + NBatch(Tail(w))
NWrites(o) == Len(o.pend) + NBatch(o.work)

Flush(o) == IF o.pend = <<>> THEN o.work ELSE Append(o.work, o.pend)

\* what an object returns is determined by this (root: chain + work; getters: + pend)
CanonContent == [chain |-> store, work |-> canon.work, pend |-> canon.pend]
ViewContent(x) == [chain |-> views[x].chain, work |-> views[x].work, pend |-> views[x].pend]

---------------------------------------------------------------------------
(* canonical object *)

\* StateDB.Set*/Add*/... , IdentityStateDB.Set*/Remove* on the canonical object
CanonWrite(w) ==
    /\ ~canon.mid /\ NWrites(canon) < MaxW
    /\ canon' = [canon EXCEPT !.pend = Append(@, w)]
    /\ lab' = Lab("CanonWrite", 0, "", 0, w.s, w.v, CF)
    /\ UNCHANGED <<store, views>>

\* AppState.Precommit / StateDB.Precommit(true) + IdentityStateDB.Precommit(true)
CanonPrecommit ==
    /\ ~canon.mid
    /\ canon' = [canon EXCEPT !.work = Flush(canon), !.pend = <<>>]
    /\ lab' = Lab("CanonPrecommit", 0, "", 0, 0, 0, CF)
    /\ UNCHANGED <<store, views>>

\* AppState.Commit(block) / StateDB.Commit(true): Precommit + SaveVersion + Clear
CanonCommit ==
    /\ ~canon.mid /\ Top < MaxTop
    /\ store' = Append(store, Flush(canon))
    /\ canon' = Cleaned(canon)
    /\ lab' = Lab("CanonCommit", 0, "", 0, 0, 0, CF)
    /\ UNCHANGED views

\* Blockchain.AddBlock, first half: the diffs the view's Precommit returned are applied to the
\* canonical trees (StateDB.AddDiff, IdentityStateDB.AddDiff); the object caches are bypassed
CanonAddDiff(x) ==
    /\ ~canon.mid /\ canon.work = <<>>
    /\ Live(x) /\ views[x].ctor \in {"check", "overwrite"}
    /\ views[x].chain = store /\ views[x].work # <<>> /\ Top < MaxTop
    /\ canon' = [canon EXCEPT !.work = views[x].work, !.mid = TRUE]
    /\ lab' = Lab("CanonAddDiff", x, "", 0, 0, 0, CF)
    /\ UNCHANGED <<store, views>>

\* second half: AppState.CommitTrees / CommitAt: SaveVersionAt(top+1) + Clear, NO Precommit:
\* whatever sits in the object caches is dropped, not flushed
CanonCommitTree ==
    /\ Top < MaxTop
    /\ store' = Append(store, canon.work)
    /\ canon' = [Cleaned(canon) EXCEPT !.ghost = @ \cup PendSlots(canon)]
    /\ lab' = Lab("CanonCommitTree", 0, "", 0, 0, 0, CF)
    /\ UNCHANGED views

\* AppState.Reset / StateDB.Reset: Clear + Rollback
CanonReset ==
    /\ canon' = [Cleaned(canon) EXCEPT !.ghost = @ \cup PendSlots(canon) \cup SlotsOf(canon.work)]
    /\ lab' = Lab("CanonReset", 0, "", 0, 0, 0, CF)
    /\ UNCHANGED <<store, views>>

\* AppState.ResetTo(h): Clear + LoadVersionForOverwriting(h) - the canonical versions above h are
\* deleted; a view loaded above h reads deleted nodes from then on and is dead (dropped here)
CanonResetTo(h) ==
    /\ ~canon.mid /\ h \in 1..(Top - 1)
    /\ store' = SubSeq(store, 1, h)
    /\ canon' = [Cleaned(canon) EXCEPT !.ro = 0, !.rog = IF canon.ro = 0 THEN @ ELSE @ \cup {canon.ro},
                                        !.ghost = @ \cup PendSlots(canon) \cup SlotsOf(canon.work)]
    /\ views' = [x \in Views |-> IF Live(x) /\ views[x].base > h THEN NoView ELSE views[x]]
    /\ lab' = Lab("CanonResetTo", 0, "", h, 0, 0, CF)

---------------------------------------------------------------------------
(* views *)

\* ForCheck(h) / ForCheckWithOverwrite(h) / Readonly(h)
MakeView(x, ctor, h) ==
    /\ ~Live(x) /\ h \in 1..Top
    /\ views' = [views EXCEPT ![x] = [st |-> "live", ctor |-> ctor, base |-> h, head |-> Top, chain |-> SubSeq(store, 1, h),
                                      work |-> <<>>, pend |-> <<>>, own |-> 0, ghost |-> {}]]
    /\ canon' = IF ctor = "readonly" THEN [canon EXCEPT !.ro = h] ELSE canon
    /\ lab' = Lab("MakeView", x, ctor, h, 0, 0,
                  "top-" \o ToString(Top - h) \o "." \o CF
                  \o (IF ctor # "readonly" THEN "" ELSE IF canon.ro = 0 THEN ".cold" ELSE ".cached" \o ToString(canon.ro - h))
                  \o (IF ctor = "readonly" /\ h \in canon.rog THEN ".dropped-before" ELSE ""))
    /\ UNCHANGED store

ViewWrite(x, w) ==
    /\ Live(x) /\ NWrites(views[x]) < MaxW
    /\ views' = [views EXCEPT ![x].pend = Append(@, w)]
    /\ lab' = Lab("ViewWrite", x, views[x].ctor, 0, w.s, w.v, VF(x))
    /\ UNCHANGED <<store, canon>>

\* a read-only view is never flushed by the node (its tree sits directly on the canonical database)
ViewPrecommit(x) ==
    /\ Live(x) /\ views[x].ctor # "readonly"
    /\ views' = [views EXCEPT ![x].work = Flush(views[x]), ![x].pend = <<>>]
    /\ lab' = Lab("ViewPrecommit", x, views[x].ctor, 0, 0, 0, VF(x))
    /\ UNCHANGED <<store, canon>>

\* checkState.Commit(block) while validating a sub-chain: saved into the view's overlay only
ViewCommit(x) ==
    /\ Live(x) /\ views[x].ctor # "readonly" /\ views[x].own < MaxOwn
    \* a ForCheck view is made at the head and saves version head+1: its tree took the list of canonical versions
    \* when it was loaded (`head`) and reads the latest canonical version through its overlay, so it cannot save a
    \* version the canonical database held then or holds now (ForCheckWithOverwrite hides the versions above its base)
    /\ (views[x].ctor = "check" => (views[x].head <= Len(views[x].chain) /\ Top <= Len(views[x].chain)))
    /\ views' = [views EXCEPT ![x].chain = Append(@, Flush(views[x])), ![x].work = <<>>, ![x].pend = <<>>,
                              ![x].own = @ + 1]
    /\ lab' = Lab("ViewCommit", x, views[x].ctor, 0, 0, 0, VF(x))
    /\ UNCHANGED <<store, canon>>

ViewReset(x) ==
    /\ Live(x) /\ views[x].ctor # "readonly"
    /\ views' = [views EXCEPT ![x].work = <<>>, ![x].pend = <<>>, ![x].ghost = @ \cup PendSlots(views[x]) \cup SlotsOf(views[x].work)]
    /\ lab' = Lab("ViewReset", x, views[x].ctor, 0, 0, 0, VF(x))
    /\ UNCHANGED <<store, canon>>

DropView(x) ==
    /\ Live(x)
    /\ views' = [views EXCEPT ![x] = NoView]
    /\ lab' = Lab("DropView", x, views[x].ctor, 0, 0, 0, VF(x))
    /\ UNCHANGED <<store, canon>>

\* the nonce cache an AppState shares with its views on purpose (mempool bookkeeping, backed by its own
\* read-only view): using it through any holder changes no state object
NonceTouch(x) ==
    /\ (IF x = 0 THEN TRUE ELSE Live(x))
    /\ lab' = Lab("NonceTouch", x, IF x = 0 THEN "" ELSE views[x].ctor, 0, 0, 0, "")
    /\ UNCHANGED <<store, canon, views>>

---------------------------------------------------------------------------
Writes == [s : Slots, v : Vals]

Next == \/ \E w \in Writes : CanonWrite(w)
        \/ CanonPrecommit \/ CanonCommit \/ CanonCommitTree \/ CanonReset
        \/ \E x \in Views : CanonAddDiff(x)
        \/ \E h \in 1..MaxTop : CanonResetTo(h)
        \/ \E x \in Views, c \in Ctors, h \in 1..MaxTop : MakeView(x, c, h)
        \/ \E x \in Views, w \in Writes : ViewWrite(x, w)
        \/ \E x \in Views : ViewPrecommit(x) \/ ViewCommit(x) \/ ViewReset(x) \/ DropView(x)
        \/ \E x \in Views \cup {0} : NonceTouch(x)

Init == /\ store = Genesis /\ canon = Clean /\ views = [x \in Views |-> NoView]
        /\ lab = Lab("Init", 0, "", 0, 0, 0, "")

Spec == Init /\ [][Next]_vars

---------------------------------------------------------------------------
(* the property, on the design *)

ViewEvs  == {"MakeView", "ViewWrite", "ViewPrecommit", "ViewCommit", "ViewReset", "DropView", "NonceTouch"}
CanonEvs == {"CanonWrite", "CanonPrecommit", "CanonCommit", "CanonAddDiff", "CanonCommitTree", "CanonReset", "CanonResetTo"}

\* whatever a view does, the canonical object, its buffers and its stored versions do not change
CanonUntouched == [][lab'.ev \in ViewEvs => (store' = store /\ [canon' EXCEPT !.ro = 0] = [canon EXCEPT !.ro = 0])]_vars   \* (ro: bookkeeping)

\* a view changes by its own steps only (a rollback of the canonical database below its base kills it)
ViewIsolated ==
    [][\A x \in Views : (Live(x) /\ (lab'.x # x \/ lab'.ev \in CanonEvs))
            => (views'[x] = views[x] \/ (lab'.ev = "CanonResetTo" /\ views[x].base > lab'.h /\ views'[x] = NoView))]_vars

\* the stored versions change only by a canonical commit (one more version, made of the canonical object's OWN
\* buffers: "commit of a different block") or a rollback (a prefix)
StoreSteps ==
    [][\/ store' = store
       \/ (lab'.ev = "CanonCommit" /\ store' = Append(store, Flush(canon)))
       \/ (lab'.ev = "CanonCommitTree" /\ store' = Append(store, canon.work))
       \/ (lab'.ev = "CanonResetTo" /\ store' = SubSeq(store, 1, lab'.h))]_vars

\* a view that wrote nothing is exactly the version it was loaded at; a view never holds more than its own writes
HistoricalExact ==
    \A x \in Views : Live(x) =>
        /\ SubSeq(views[x].chain, 1, views[x].base) = SubSeq(store, 1, views[x].base)
        /\ Len(views[x].chain) = views[x].base + views[x].own
        /\ (views[x].ctor = "readonly" => views[x].work = <<>> /\ views[x].own = 0)

TypeOK == /\ Top \in 1..MaxTop
          /\ canon.mid \in BOOLEAN
          /\ \A x \in Views : views[x].st \in {"none", "live"} /\ (Live(x) => views[x].ctor \in Ctors /\ views[x].base \in 1..Top)
=============================================================================
