CONSTANTS
  Kinds = {"ptx", "prc", "pnotx", "empty"}
  MixKinds = {"ptx", "prc", "pnotx"}
  PairKinds = {}
INIT TraceInit
NEXT TraceNext
POSTCONDITION TraceAccepted
CHECK_DEADLOCK FALSE
