CONSTANTS
  Layouts = {"l0", "l4"}
  MaxRestarts = 1
  MaxEvals = 2
  WithForks = TRUE
  CacheByHeight = FALSE
  ExportOn = FALSE
INIT Init
NEXT Next
INVARIANTS TypeOK PersistComplete StoreMatchesChain SameResult
CHECK_DEADLOCK FALSE
