---------------------------- MODULE Qualification ----------------------------
(* Growth module "QUAL" of C17: qualification of flips and of candidates.                                   *)
(*                                                                                                          *)
(* Real code: core/ceremony/qualification.go (qualifyOneFlip, qualifyFlips, qualifyCandidate,               *)
(* getFlipStatusForCandidate, getAnswersCount) and core/ceremony/reporters.go (the reporters book            *)
(* reportersToReward: addReport, deleteFlip, deleteReporter, setValidationResult; the grades book of         *)
(* upgrade 11).  This function family sits between the answers recorded in blocks and the inputs of the      *)
(* status decision table (Ceremony.tla).                                                                    *)
(*                                                                                                          *)
(* The module is a TRANSCRIPTION: one operator per real function, the case analysis of the code in the       *)
(* code's order, what the code really does (quirks named as such below).  Values are the byte values of the  *)
(* Go types so that traces need no translation.  Real numbers: the code compares float32 quotients of small  *)
(* integers with decimal constants; for integers below 2^20 such a comparison agrees with the exact rational *)
(* comparison (the constants 0.75, 0.66, 0.5, 0.34, 0.33 are hit exactly only by quotients that round to the *)
(* very float32 the constant rounds to), so the rules are written over integers: x/n >= p/q  <=>  x*q >= p*n. *)
(* A quotient with n = 0 is NaN (0/0: every comparison false) or +Inf (x/0, x > 0).                          *)
(*                                                                                                          *)
(* Quirks of the code, kept and named:                                                                      *)
(*   SilentWhenAllZero   a candidate whose long answer bits are all zero (every answer None, no grade)       *)
(*                       counts as "did not send long answers" in qualifyFlips: its None answers are NOT     *)
(*                       counted (a single grade, or any stray bit beyond the answer range, makes them count) *)
(*   BothBitsIsLeft      an answer with the Left and the Right bit set reads as Left                         *)
(*   HighGradeIsNone     grade bit patterns 6 and 7 read as GradeNone                                        *)
(*   ReportSetNotCount   the report allowance counts DISTINCT reported flips (a set in the book)             *)
(*   ApprovesSurvive10   before upgrade 11 a candidate over its report allowance loses its reports only;     *)
(*                       with upgrade 11 a candidate over the allowance, without any approval, or with more  *)
(*                       than one increased grade (C, B, A) loses ALL its grades, but its answers still count *)
(*   ExtraFlipsInOrder   the compensation for unanswered not-approved short flips is consumed in list order   *)
(*                                                                                                          *)
(* Design-level properties (checked by TLC on the model, and clause by clause on every recorded result of    *)
(* the real code by Trace_Qualification):                                                                   *)
(*   GradeConsistent, ReportHonoured, AnswerBacked, ConsensusHonoured       (one flip)                       *)
(*   OnlyAssigned, ReportLimit, RewardOnlyReported, ReportersRewarded + the four above  (a population)        *)
(*   NoAnswerNoPoint, ScoreInRange, PointJustified, QualifiedCounts, TestingFlips  (a candidate)             *)
(*   Deterministic, PermutationInvariant                                     (variants of one evaluation)     *)
(*   BookConsistent, BookOperation                                           (the reporters book)             *)
EXTENDS Integers, Sequences, FiniteSets

\* ---- encodings: the byte values of types.Answer, types.Grade, ceremony.FlipStatus ------------------------
None == 0   Left == 1   Right == 2
GNone == 0  GReported == 1  GD == 2  GC == 3  GB == 4  GA == 5
NotQualified == 0  Qualified == 1  WeaklyQualified == 2  QualifiedByNone == 3

\* types.Grade.Score
Score(g) == IF g = GReported THEN 0 ELSE IF g = GD THEN 2 ELSE IF g = GC THEN 4 ELSE IF g = GB THEN 6 ELSE IF g = GA THEN 8 ELSE 1

\* raw cell <<a, g>> of an answer bit vector: a in 0..3 (bit 0 = Left bit, bit 1 = Right bit), g in 0..7
DecA(a) == IF a = 3 THEN Left ELSE a              \* BothBitsIsLeft (types.Answers.Answer tests the Left bit first)
DecG(g) == IF g > GA THEN GNone ELSE g            \* HighGradeIsNone (types.Answers.determineGrade)

\* ---- published shares ----------------------------------------------------------------------------------------
AtLeast(x, n, p, q)  == n > 0 /\ x * q >= p * n                      \* float32(x)/float32(n) >= p/q ; NaN for n = 0
MoreThan(x, n, p, q) == IF n = 0 THEN x > 0 ELSE x * q > p * n       \* float32(x)/float32(n) >  p/q ; +Inf for x/0

\* reports needed in a report committee (reporters + approvers whose grades count)
ReportedRule(reports, size) ==
    IF size \in {0, 1} THEN FALSE
    ELSE IF size \in {2, 3} THEN reports >= size
    ELSE IF size = 4 THEN reports >= 3
    ELSE IF size = 5 THEN reports >= 4
    ELSE MoreThan(reports, size, 1, 2)
\* approvals needed for the flip's grade to be the committee's grade (upgrade 10 table / the old share)
GradedRule10(approve, size) ==
    IF size = 0 THEN FALSE
    ELSE IF size = 1 THEN approve = 1
    ELSE IF size \in {2, 3, 4} THEN approve >= 2
    ELSE IF size = 5 THEN approve >= 3
    ELSE MoreThan(approve, size, 33, 100)
GradedRuleOld(approve, size) == MoreThan(approve, size, 33, 100)
\* a candidate may report strictly less than 34 % of the flips it was given
OverAllowance(reported, flips) == flips > 0 /\ AtLeast(reported, flips, 34, 100)
\* math.Round(t / a) for t >= 0, a > 0 (half away from zero)
RoundDiv(t, a) == (2 * t + a) \div (2 * a)

(* ============================================================================================================ *)
(* qualifyOneFlip(answers, reportsCount, totalGradeScore, approveCnt, reportCommitteeSize,                       *)
(*                gradeScoreCommitteeSize) with the answers given by their counts (getAnswersCount).            *)
(* Result: status, answer, grade and the grade score as a fraction gsn / gsd (decimal in the code).             *)
(* Domain: u11 => u10 (the upgrades are sequential: no network version has upgrade 11 without upgrade 10).      *)
QualifyOneFlip(nl, nr, nn, rep, tg, ap, rcs, gcs, u10, u11) ==
    LET n        == nl + nr + nn
        reported == ReportedRule(rep, rcs)
        gsize    == IF u11 THEN gcs ELSE n
        graded   == IF u10 THEN GradedRule10(ap, gsize) ELSE GradedRuleOld(ap, gsize)
        gr       == IF reported THEN GReported
                    ELSE IF u11 THEN GNone
                    ELSE IF graded THEN RoundDiv(tg, ap) ELSE GD
        gs       == IF reported \/ ~u11 THEN <<0, 1>>
                    ELSE IF graded THEN <<tg, gcs>> ELSE <<Score(GD), 1>>
        sa       == IF AtLeast(nl, n, 3, 4) THEN <<Qualified, Left>>
                    ELSE IF AtLeast(nr, n, 3, 4) THEN <<Qualified, Right>>
                    ELSE IF AtLeast(nl, n, 66, 100) THEN <<WeaklyQualified, Left>>
                    ELSE IF AtLeast(nr, n, 66, 100) THEN <<WeaklyQualified, Right>>
                    ELSE IF AtLeast(nn, n, 66, 100) THEN <<QualifiedByNone, None>>
                    ELSE <<NotQualified, None>>
    IN [st |-> sa[1], an |-> sa[2], gr |-> gr, gsn |-> gs[1], gsd |-> gs[2]]

\* grade score in millionths, rounded down (what the traces carry)
Micro(gsn, gsd) == (gsn * 1000000) \div gsd

\* the consistent inputs of qualifyOneFlip (what qualifyFlips can hand over)
OneInDomain(c) ==
    /\ c.l >= 0 /\ c.r >= 0 /\ c.n >= 0 /\ c.rep >= 0 /\ c.ap >= 0 /\ c.tg >= 0
    /\ (c.u11 => c.u10)
    /\ c.rcs = c.rep + c.ap
    /\ IF c.u11 THEN c.gcs >= c.rep + c.ap /\ c.gcs <= c.l + c.r + c.n
                ELSE c.gcs = 0 /\ c.rep + c.ap <= c.l + c.r + c.n /\ c.tg >= 2 * c.ap /\ c.tg <= 5 * c.ap

\* ---- clauses over one flip: input counts + an OBSERVED result o = [st, an, gr, gs (millionths)] --------------
CountOf(an, nl, nr, nn) == IF an = Left THEN nl ELSE IF an = Right THEN nr ELSE nn
\* a flip is graded Reported only with the required share of its report committee, and then carries no grade score
OneGradeConsistent(rep, rcs, u11, o) ==
    /\ o.gr = GReported => (ReportedRule(rep, rcs) /\ o.gs = 0)
    /\ o.gr \in GNone..GA /\ o.gs >= 0 /\ o.gs <= 8000000
    /\ u11 => o.gr \in {GNone, GReported}
    /\ ~u11 => (o.gs = 0 /\ o.gr # GNone)
\* a flip reported by the required share of its report committee is graded Reported
OneReportHonoured(rep, rcs, o) == ReportedRule(rep, rcs) => o.gr = GReported
\* a status is given only with the required share of the answers
OneAnswerBacked(nl, nr, nn, o) ==
    LET n == nl + nr + nn IN
    /\ o.st \in {NotQualified, Qualified, WeaklyQualified, QualifiedByNone}
    /\ o.st = Qualified => (o.an \in {Left, Right} /\ AtLeast(CountOf(o.an, nl, nr, nn), n, 3, 4))
    /\ o.st = WeaklyQualified => (o.an \in {Left, Right} /\ AtLeast(CountOf(o.an, nl, nr, nn), n, 66, 100))
    /\ o.st = QualifiedByNone => (o.an = None /\ AtLeast(nn, n, 66, 100))
    /\ o.st = NotQualified => o.an = None
\* three quarters for one answer always qualify the flip for that answer, 66 % weakly; 66 % of None answers qualify it "by none"
OneConsensusHonoured(nl, nr, nn, o) ==
    LET n == nl + nr + nn IN
    /\ AtLeast(nl, n, 3, 4) => (o.st = Qualified /\ o.an = Left)
    /\ AtLeast(nr, n, 3, 4) => (o.st = Qualified /\ o.an = Right)
    /\ (AtLeast(nl, n, 66, 100) /\ ~AtLeast(nl, n, 3, 4)) => (o.st = WeaklyQualified /\ o.an = Left)
    /\ (AtLeast(nr, n, 66, 100) /\ ~AtLeast(nr, n, 3, 4)) => (o.st = WeaklyQualified /\ o.an = Right)
    /\ AtLeast(nn, n, 66, 100) => (o.st = QualifiedByNone /\ o.an = None)

(* ============================================================================================================ *)
(* qualifyFlips(totalFlipsCount, candidates, flipsPerCandidate) over a population                               *)
(*   P = [nf, u10, u11, cands], cands a sequence of [s, j, f, c]:                                               *)
(*     s = 1: the object holds a parsable long answer payload of the candidate (0: none, 2: one that does not parse) *)
(*     j = 1: the payload has a stray bit beyond the 5 * len(f) answer bits                                     *)
(*     f     : the flips (0-based indexes < nf, no duplicates) the candidate has to solve in the long session   *)
(*     c     : one raw cell <<a, g>> per entry of f                                                             *)
RECURSIVE SumOver(_, _)
SumOver(F, S) == IF S = {} THEN 0 ELSE LET x == CHOOSE y \in S : TRUE IN F[x] + SumOver(F, S \ {x})

NFl(c) == Len(c.f)
Ix(c) == 1..Len(c.f)
\* SilentWhenAllZero: attachment == nil || len(attachment.Answers) == 0
Counted(c) == c.s = 1 /\ (c.j = 1 \/ \E i \in Ix(c) : c.c[i] # <<0, 0>>)
RepFlips(c) == {c.f[i] : i \in {k \in Ix(c) : DecG(c.c[k][2]) = GReported}}          \* ReportSetNotCount
IgnoreReports(c) == OverAllowance(Cardinality(RepFlips(c)), NFl(c))
HasApprove(c) == \E i \in Ix(c) : DecG(c.c[i][2]) >= GD
Increased(c) == Cardinality({i \in Ix(c) : DecG(c.c[i][2]) > GD})
IgnoreGrades(c) == IgnoreReports(c) \/ ~HasApprove(c) \/ Increased(c) > 1
\* statsTypes.WrongGradeReason bits
Reason(c) == (IF IgnoreReports(c) THEN 1 ELSE 0) + (IF ~HasApprove(c) THEN 2 ELSE 0) + (IF Increased(c) > 1 THEN 4 ELSE 0)

Has(c, f) == \E i \in Ix(c) : c.f[i] = f
CellOf(c, f) == c.c[CHOOSE i \in Ix(c) : c.f[i] = f]
AnsOf(c, f) == DecA(CellOf(c, f)[1])
GradeOf(c, f) == DecG(CellOf(c, f)[2])

CandIx(P) == 1..Len(P.cands)
Assigned(P, f) == {k \in CandIx(P) : Has(P.cands[k], f)}
Senders(P, f)  == {k \in Assigned(P, f) : P.cands[k].s = 1}
\* who votes on flip f.  all = FALSE: what the code does (SilentWhenAllZero); all = TRUE: every candidate that sent a parsable
\* payload votes, an all-zero one with None answers (the reading of the published rule without the quirk; used by the clauses
\* only, which accept either reading)
Voters(P, f, all) == {k \in Assigned(P, f) : NFl(P.cands[k]) > 0 /\ (IF all THEN P.cands[k].s = 1 ELSE Counted(P.cands[k]))}
\* whose grades count for flip f, whose reports count for flip f
GradeVoters(P, f, all) == IF P.u11 THEN {k \in Voters(P, f, all) : ~IgnoreGrades(P.cands[k])} ELSE Voters(P, f, all)
Approvers(P, f, all) == {k \in GradeVoters(P, f, all) : GradeOf(P.cands[k], f) >= GD}
Reporters(P, f, all) == {k \in GradeVoters(P, f, all) : GradeOf(P.cands[k], f) = GReported
                                                   /\ (P.u11 \/ ~IgnoreReports(P.cands[k]))}        \* ApprovesSurvive10

FlipInput(P, f, all) ==
    LET V  == Voters(P, f, all)
        A  == Approvers(P, f, all)
        R  == Reporters(P, f, all)
        G  == GradeVoters(P, f, all)
        sc == [k \in CandIx(P) |-> IF k \in G THEN Score(GradeOf(P.cands[k], f)) ELSE 0]
        gv == [k \in CandIx(P) |-> IF k \in A THEN GradeOf(P.cands[k], f) ELSE 0]
    IN [l   |-> Cardinality({k \in V : AnsOf(P.cands[k], f) = Left}),
        r   |-> Cardinality({k \in V : AnsOf(P.cands[k], f) = Right}),
        n   |-> Cardinality({k \in V : AnsOf(P.cands[k], f) = None}),
        rep |-> Cardinality(R), ap |-> Cardinality(A), rcs |-> Cardinality(R) + Cardinality(A),
        tg  |-> IF P.u11 THEN SumOver(sc, G) ELSE SumOver(gv, A),
        gcs |-> IF P.u11 THEN Cardinality(G) ELSE 0]

FlipResult(P, f) == LET i == FlipInput(P, f, FALSE) IN QualifyOneFlip(i.l, i.r, i.n, i.rep, i.tg, i.ap, i.rcs, i.gcs, P.u10, P.u11)

\* result of qualifyFlips: fq[f + 1] per flip, rw[f + 1] = the reporters the book keeps for flip f,
\* wr[k] = wrong-grade reason of candidate k (-1: none recorded)
QualifyFlips(P) ==
    LET fq == [x \in 1..P.nf |-> FlipResult(P, x - 1)] IN
    [fq |-> fq,
     rw |-> [x \in 1..P.nf |-> IF fq[x].gr = GReported THEN Reporters(P, x - 1, FALSE) ELSE {}],
     wr |-> [k \in CandIx(P) |-> IF P.u11 /\ Counted(P.cands[k]) /\ NFl(P.cands[k]) > 0 /\ IgnoreGrades(P.cands[k])
                                 THEN Reason(P.cands[k]) ELSE -1]]

PopInDomain(P) ==
    /\ P.nf >= 0 /\ (P.u11 => P.u10)
    /\ \A k \in CandIx(P) : LET c == P.cands[k] IN
          /\ Len(c.c) = Len(c.f) /\ c.s \in {0, 1, 2} /\ c.j \in {0, 1}
          /\ \A i \in Ix(c) : c.f[i] \in 0..(P.nf - 1) /\ c.c[i][1] \in 0..3 /\ c.c[i][2] \in 0..7
          /\ \A i, i2 \in Ix(c) : i # i2 => c.f[i] # c.f[i2]

\* ---- clauses over a population P and an OBSERVED result o = [fq: seq of [st, an, gr, gs], rw: seq of sets, wr] --
\* answers and reports count only for the flips a candidate was given, and only if it sent long answers
PopOnlyAssigned(P, o) == \A x \in 1..P.nf : LET f == x - 1 IN
    /\ Senders(P, f) = {} => (o.fq[x].st = NotQualified /\ o.fq[x].an = None /\ o.fq[x].gr # GReported /\ o.rw[x] = {})
    /\ o.rw[x] \subseteq {k \in Senders(P, f) : GradeOf(P.cands[k], f) = GReported}
    /\ o.fq[x].st \in {Qualified, WeaklyQualified} =>
          (/\ o.fq[x].an \in {Left, Right}
           /\ 2 * Cardinality({k \in Senders(P, f) : AnsOf(P.cands[k], f) = o.fq[x].an}) > Cardinality(Voters(P, f, FALSE)))
    /\ o.fq[x].gr = GReported => Cardinality({k \in Senders(P, f) : GradeOf(P.cands[k], f) = GReported}) >= 2
\* a candidate that reports 34 % of its flips or more has all its reports ignored: they reward nobody and make no flip Reported
WithinAllowance(P, f) == {k \in Senders(P, f) : GradeOf(P.cands[k], f) = GReported /\ ~IgnoreReports(P.cands[k])}
PopReportLimit(P, o) == \A x \in 1..P.nf : LET f == x - 1 IN
    /\ \A k \in o.rw[x] : k \in CandIx(P) => ~IgnoreReports(P.cands[k])
    /\ o.fq[x].gr = GReported => Cardinality(WithinAllowance(P, f)) >= 2
\* the book rewards reporters of flips that ended up Reported only
PopRewardOnlyReported(P, o) == \A x \in 1..P.nf : o.rw[x] # {} => o.fq[x].gr = GReported
\* ... and then everybody whose report of that flip counted
PopReportersRewarded(P, o) == \E all \in BOOLEAN : \A x \in 1..P.nf : o.fq[x].gr = GReported => Reporters(P, x - 1, all) \subseteq o.rw[x]
\* every flip's result is backed by the committee the population gives it (under either reading of who votes)
PopGradeConsistent(P, o) == \E all \in BOOLEAN : \A x \in 1..P.nf :
    LET i == FlipInput(P, x - 1, all) IN OneGradeConsistent(i.rep, i.rcs, P.u11, o.fq[x])
PopReportHonoured(P, o) == \E all \in BOOLEAN : \A x \in 1..P.nf :
    LET i == FlipInput(P, x - 1, all) IN OneReportHonoured(i.rep, i.rcs, o.fq[x])
PopAnswerBacked(P, o) == \E all \in BOOLEAN : \A x \in 1..P.nf :
    LET i == FlipInput(P, x - 1, all) IN OneAnswerBacked(i.l, i.r, i.n, o.fq[x])
PopConsensusHonoured(P, o) == \E all \in BOOLEAN : \A x \in 1..P.nf :
    LET i == FlipInput(P, x - 1, all) IN OneConsensusHonoured(i.l, i.r, i.n, o.fq[x])

(* ============================================================================================================ *)
(* qualifyCandidate(candidate, flipQualificationMap, flipsToSolve, shortSession, notApprovedFlips)              *)
(*   C = [short, has, auth, fts, ans, na, fq]:                                                                  *)
(*     has  0: the object holds no payload of the candidate for the session, 1: a payload that does not parse,  *)
(*          2: a parsable payload                                                                               *)
(*     auth (long session only) 1: the long answers open the committed short answers (answer hash = hash of     *)
(*          short answers + salt, words rnd = the proof's), 0: they do not (no / other hash, other salt, no     *)
(*          short answers, other rnd)                                                                           *)
(*     fts  flips to solve (0-based flip indexes, no duplicates), ans: one raw cell <<a, g>> per entry          *)
(*     na   set of not approved flips; fq: sequence of [f, st, an, gr] (flips without entry: zero value)        *)
(* Result: p2 = twice the points, q = qualified flips, nq, noa, fanil (nil statistics map),                     *)
(*         fa = per entry of fts <<twice the point, considered (0/1)>>.                                         *)
ShortFlips == 6          \* common.ShortSessionFlips
ShortExtraFlips == 2     \* common.ShortSessionExtraFlips
Min(a, b) == IF a < b THEN a ELSE b

FqOf(C, f) == IF \E i \in 1..Len(C.fq) : C.fq[i][1] = f
              THEN LET e == C.fq[CHOOSE i \in 1..Len(C.fq) : C.fq[i][1] = f] IN [st |-> e[2], an |-> e[3], gr |-> e[4]]
              ELSE [st |-> NotQualified, an |-> None, gr |-> GNone]

\* getFlipStatusForCandidate
FlipStatusForCandidate(f, base, na, answer, short) ==
    IF ~short \/ base = NotQualified \/ f \notin na \/ base = QualifiedByNone THEN base
    ELSE IF answer = None THEN NotQualified ELSE base

\* compensation available for extra short flips: unanswered not-approved flips among the regular ones, at most two
AvailableExtra(C) ==
    IF ~C.short THEN 0
    ELSE Min(ShortExtraFlips, Cardinality({i \in 1..Min(ShortFlips, Len(C.fts)) : C.fts[i] \in C.na /\ DecA(C.ans[i][1]) = None}))

\* one iteration of the scoring loop: acc = [av, p2, q, fa]
CandStep(C, acc, i) ==
    LET f      == C.fts[i]
        qual   == FqOf(C, f)
        answer == DecA(C.ans[i][1])
        status == FlipStatusForCandidate(f, qual.st, C.na, answer, C.short)
        extra  == C.short /\ i > ShortFlips
        take   == extra /\ acc.av > 0 /\ answer # None                     \* ExtraFlipsInOrder
        skip   == extra /\ ~take
        scored == ~skip /\ (~C.short \/ qual.gr # GReported)
        pt2    == IF ~scored THEN 0
                  ELSE IF status = Qualified THEN (IF qual.an = answer THEN 2 ELSE 0)
                  ELSE IF status = WeaklyQualified THEN (IF qual.an = answer THEN 2 ELSE IF answer = None THEN 0 ELSE 1)
                  ELSE 0
        cons   == scored /\ status \in {Qualified, WeaklyQualified}
    IN [av |-> IF take THEN acc.av - 1 ELSE acc.av,
        p2 |-> acc.p2 + pt2,
        q  |-> acc.q + (IF cons THEN 1 ELSE 0),
        fa |-> Append(acc.fa, <<pt2, IF cons THEN 1 ELSE 0>>)]

RECURSIVE CandLoop(_, _, _)
CandLoop(C, acc, i) == IF i > Len(C.fts) THEN acc ELSE CandLoop(C, CandStep(C, acc, i), i + 1)

QualifyCandidate(C) ==
    LET len == Len(C.fts)
        cnt == IF C.short THEN Min(ShortFlips, len) ELSE len
        nop == [i \in 1..len |-> <<0, 0>>]
    IN IF C.has = 0 THEN [p2 |-> 0, q |-> 0, nq |-> FALSE, noa |-> TRUE, fanil |-> TRUE, fa |-> <<>>]
       ELSE IF C.has = 1 THEN [p2 |-> 0, q |-> cnt, nq |-> FALSE, noa |-> FALSE, fanil |-> TRUE, fa |-> <<>>]
       ELSE IF ~C.short /\ C.auth = 0 THEN [p2 |-> 0, q |-> cnt, nq |-> FALSE, noa |-> FALSE, fanil |-> FALSE, fa |-> nop]
       ELSE LET r == CandLoop(C, [av |-> AvailableExtra(C), p2 |-> 0, q |-> 0, fa |-> <<>>], 1)
            IN [p2 |-> r.p2, q |-> r.q, nq |-> r.q = 0, noa |-> FALSE, fanil |-> FALSE, fa |-> r.fa]

CandInDomain(C) ==
    /\ C.has \in 0..2 /\ C.auth \in 0..1 /\ Len(C.ans) = Len(C.fts)
    /\ \A i \in 1..Len(C.fts) : C.fts[i] >= 0 /\ C.ans[i][1] \in 0..3 /\ C.ans[i][2] \in 0..7
    /\ \A i, i2 \in 1..Len(C.fts) : i # i2 => C.fts[i] # C.fts[i2]
    /\ \A i \in 1..Len(C.fq) : /\ C.fq[i][2] \in 0..3 /\ C.fq[i][3] \in 0..2 /\ C.fq[i][4] \in 0..5
                                /\ (C.fq[i][2] \in {Qualified, WeaklyQualified} <=> C.fq[i][3] \in {Left, Right})

\* ---- clauses over a candidate context C and an OBSERVED result o = [p2, q, nq, noa, fanil, fa] --------------
Evaluated(C) == C.has = 2 /\ (C.short \/ C.auth = 1)
\* no answer, no point: a candidate without a payload is flagged (and only such a candidate), gets no point and no
\* qualified flip; an unanswered flip never gives a point
CandNoAnswerNoPoint(C, o) ==
    /\ o.noa <=> C.has = 0
    /\ C.has = 0 => (o.p2 = 0 /\ o.q = 0)
    /\ ~Evaluated(C) => o.p2 = 0
    /\ ~o.fanil => (Len(o.fa) = Len(C.fts) /\ \A i \in 1..Len(C.fts) : DecA(C.ans[i][1]) = None => o.fa[i][1] = 0)
\* points never exceed the qualified flips, qualified flips never exceed the flips that can count
CandScoreInRange(C, o) ==
    /\ o.p2 >= 0 /\ o.q >= 0 /\ o.p2 <= 2 * o.q
    /\ o.q <= (IF C.short THEN Min(Len(C.fts), ShortFlips + ShortExtraFlips) ELSE Len(C.fts))
    /\ ~o.fanil => (/\ \A i \in 1..Len(o.fa) : o.fa[i][1] \in {0, 1, 2} /\ o.fa[i][2] \in {0, 1}
                    /\ SumOver([i \in 1..Len(o.fa) |-> o.fa[i][1]], 1..Len(o.fa)) = o.p2
                    /\ (Evaluated(C) => SumOver([i \in 1..Len(o.fa) |-> o.fa[i][2]], 1..Len(o.fa)) = o.q))
    /\ Evaluated(C) => (o.nq <=> o.q = 0)
\* a full point only for the qualified answer, half a point only for a wrong answer on a weakly qualified flip,
\* nothing for a flip that was reported (short session) or that is not qualified
CandPointJustified(C, o) == (~o.fanil /\ Len(o.fa) = Len(C.fts)) => \A i \in 1..Len(C.fts) :
    LET qual == FqOf(C, C.fts[i])
        a    == DecA(C.ans[i][1])
    IN /\ o.fa[i][1] = 2 => (qual.st \in {Qualified, WeaklyQualified} /\ qual.an = a)
       /\ o.fa[i][1] = 1 => (qual.st = WeaklyQualified /\ a # None /\ a # qual.an)
       /\ o.fa[i][1] > 0 => o.fa[i][2] = 1
       /\ o.fa[i][2] = 1 => qual.st \in {Qualified, WeaklyQualified}
       /\ (C.short /\ qual.gr = GReported) => (o.fa[i][1] = 0 /\ o.fa[i][2] = 0)
\* every qualified flip counts, whatever the candidate answered: all of the list in the long session; in the short session the
\* regular ones that were not reported, except a not-approved flip the candidate left unanswered
CandQualifiedCounts(C, o) ==
    /\ (Evaluated(C) /\ ~C.short) =>
          o.q = Cardinality({i \in 1..Len(C.fts) : FqOf(C, C.fts[i]).st \in {Qualified, WeaklyQualified}})
    /\ (Evaluated(C) /\ C.short /\ ~o.fanil /\ Len(o.fa) = Len(C.fts)) =>
          \A i \in 1..Min(ShortFlips, Len(C.fts)) :
              LET qual == FqOf(C, C.fts[i]) IN
              (/\ qual.st \in {Qualified, WeaklyQualified} /\ qual.gr # GReported
               /\ ~(C.fts[i] \in C.na /\ DecA(C.ans[i][1]) = None)) => o.fa[i][2] = 1
\* short session: extra flips count only as compensation for unanswered not-approved regular flips (at most two),
\* and only when answered; an unanswered not-approved flip does not count against the candidate
CandTestingFlips(C, o) == (C.short /\ Evaluated(C) /\ ~o.fanil /\ Len(o.fa) = Len(C.fts)) =>
    /\ Cardinality({i \in 1..Len(C.fts) : i > ShortFlips /\ o.fa[i][2] = 1}) <= AvailableExtra(C)
    /\ \A i \in 1..Len(C.fts) : (i > ShortFlips /\ o.fa[i][2] = 1) => DecA(C.ans[i][1]) # None
    /\ \A i \in 1..Len(C.fts) : (C.fts[i] \in C.na /\ DecA(C.ans[i][1]) = None) => o.fa[i][2] = 0

(* ============================================================================================================ *)
(* The reporters book (reporters.go): three indexes over the same relation "reporter r reported flip f".        *)
(*   B = [bf, br, ba]: bf = set of <<f, r>> (reportersByFlip, published), br = set of <<r, f>>                   *)
(*   (reportedFlipsByReporter), ba = function reporter -> new identity state over the reporters the per-address  *)
(*   index holds (reportersByAddr; 0 = not set).  One action per method.                                        *)
EmptyBook == [bf |-> {}, br |-> {}, ba |-> <<>>]
BookReporters(B) == DOMAIN B.ba
Restrict(fn, S) == [x \in S |-> fn[x]]

BookAddReport(B, f, r) ==
    [bf |-> B.bf \cup {<<f, r>>}, br |-> B.br \cup {<<r, f>>},
     ba |-> IF r \in DOMAIN B.ba THEN B.ba ELSE [x \in DOMAIN B.ba \cup {r} |-> IF x = r THEN 0 ELSE B.ba[x]]]
BookDeleteFlip(B, f) ==
    LET rs   == {p[2] : p \in {q \in B.bf : q[1] = f}}
        br2  == {p \in B.br : ~(p[2] = f /\ p[1] \in rs)}
        gone == {r \in rs : ~\E p \in br2 : p[1] = r}
    IN [bf |-> {p \in B.bf : p[1] # f}, br |-> br2, ba |-> Restrict(B.ba, DOMAIN B.ba \ gone)]
BookDeleteReporter(B, r) ==
    LET fs == {p[2] : p \in {q \in B.br : q[1] = r}} IN
    [bf |-> {p \in B.bf : ~(p[2] = r /\ p[1] \in fs)}, br |-> {p \in B.br : p[1] # r}, ba |-> Restrict(B.ba, DOMAIN B.ba \ {r})]
RECURSIVE BookDeleteFlips(_, _)
BookDeleteFlips(B, fs) == IF fs = <<>> THEN B ELSE BookDeleteFlips(BookDeleteFlip(B, Head(fs)), Tail(fs))
\* setValidationResult(address, newState, missed, flipsByAuthor, cfg): ok = newState.NewbieOrBetter(), st = uint8(newState),
\* af = flipsByAuthor[address], any = cfg.ReportsRewardPercent > 0
BookSetResult(B, r, ok, st, missed, af, any) ==
    LET B1 == IF ~ok THEN BookDeleteReporter(B, r)
              ELSE IF r \in DOMAIN B.ba THEN [B EXCEPT !.ba[r] = st] ELSE B
    IN IF missed /\ ~any THEN BookDeleteFlips(B1, af) ELSE B1

\* the three indexes describe one relation, nothing empty is kept
BookConsistent(B) ==
    /\ \A p \in B.bf : <<p[2], p[1]>> \in B.br
    /\ \A p \in B.br : <<p[2], p[1]>> \in B.bf
    /\ DOMAIN B.ba = {p[1] : p \in B.br}
=============================================================================
