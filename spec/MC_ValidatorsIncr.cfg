CONSTANTS
  Addr = {1, 2, 3}
  WithDiscr = FALSE
INIT Init
NEXT Next
INVARIANT IncrEqLoad
CHECK_DEADLOCK FALSE
