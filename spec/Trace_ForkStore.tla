--------------------------- MODULE Trace_ForkStore ---------------------------
(* Trace validation for C08.  A trace is a sequence of CASES; each case is what really happened   *)
(* when a fork was offered to the real ForkResolver of an adopter node:                          *)
(*   Offer     the realised shape (own branch, offered bundles with the validity / certificate   *)
(*             class each was fabricated with, the seed relation) and the adopter's store summary*)
(*   CheckSize the real checkForkSize on the bundles (probe)                                     *)
(*   Process   the real processBlocks: fork remembered as applicable or refused; store summary   *)
(*   Apply     the real ApplyFork: error / panic, reverted transactions, store summary           *)
(*   Sync      a reference replica that inserted the fork blocks from the ancestor: summary      *)
(*   Extend    the next honest block of the fork's chain inserted into both                     *)
(* ForkStore decides.  A step the specification cannot explain (the fork was remembered although *)
(* AdoptFork is not enabled: weight rule, validity, certificates) or a property clause that fails*)
(* on the OBSERVED summaries is recorded in `bad` with a signature and the trace line; the       *)
(* postcondition prints them (the verdict).  Disagreements that do not break the property        *)
(* (an acceptable fork refused, the probe of the weight rule differing from the model, the       *)
(* refusal stage differing) are counted as drift.                                                *)
EXTENDS ForkStore, Json, IOUtils

Trace == ndJsonDeserialize(IOEnv.TRACE_FILE)
ASSUME TLCSet(2, 0) /\ TLCSet(3, <<>>) /\ TLCSet(4, <<>>)

VARIABLES l,      \* next trace line
          bad,    \* signatures of the clauses broken so far (every occurrence is kept in TLC register 3)
          obs     \* observed summaries of the current case [pre, post]
tvars == <<vars, l, bad, obs>>

Blk(r) == [empty |-> r.empty, idupd |-> r.idupd, v |-> r.v, c |-> r.c, txs |-> r.txs, hash |-> r.hash]
Blks(rs) == [i \in 1..Len(rs) |-> Blk(rs[i])]
Range(s) == {s[i] : i \in 1..Len(s)}

\* record every broken clause (signature) with the current line
Note(sigs) == /\ bad' = bad \cup (sigs \ {""})
              /\ \A s \in sigs \ {""} : TLCSet(3, Append(TLCGet(3), <<l, s>>))
Drift(what) == IF what = "" THEN TRUE ELSE TLCSet(2, TLCGet(2) + 1) /\ TLCSet(4, IF Len(TLCGet(4)) < 20 THEN Append(TLCGet(4), <<l, what>>) ELSE TLCGet(4))

\* the canonical index proper (height -> hash -> header, body) without the certificate column
Idx(canon) == [i \in 1..Len(canon) |-> [h |-> canon[i].h, hash |-> canon[i].hash, header |-> canon[i].header, body |-> canon[i].body]]
\* first group of a store summary in which two observations differ
\* blocks that the abandoned branch and the fork have in common (two empty blocks on the same parent are the SAME block):
\* the real common ancestor is the last of them, and the adopter legitimately keeps the certificate it already held for it
SharedHashes == {own[i].hash : i \in 1..Len(own)} \cap {fork[i].hash : i \in 1..Len(fork)}
Certs(canon, sh) == [i \in 1..Len(canon) |-> IF canon[i].hash \in sh THEN 0 ELSE canon[i].cert]
DiffGroupSh(a, b, sh) ==
    IF a.head # b.head THEN "head"
    ELSE IF <<a.state.liveroot, a.state.idlive>> # <<b.state.liveroot, b.state.idlive>> THEN "state"
    ELSE IF a.vals.live # b.vals.live THEN "validators"
    ELSE IF Idx(a.canon) # Idx(b.canon) THEN "canonical-index"
    ELSE IF Certs(a.canon, sh) # Certs(b.canon, sh) THEN "certificates"
    ELSE IF a.state # b.state \/ a.vals.load # b.vals.load THEN "readonly-view"
    ELSE ""
DiffGroup(a, b) == DiffGroupSh(a, b, {})

\* the canonical index of an observed summary against the model's store (heights relative to the ancestor;
\* the summary probes heights ancestor .. top, entry 1 is the ancestor itself)
CanonIs(sum, chain, blocks) ==
    /\ \A i \in 1..Len(chain) :
          /\ i + 1 <= Len(sum.canon)
          /\ sum.canon[i + 1].hash = chain[i] /\ sum.canon[i + 1].header = chain[i]
          /\ sum.canon[i + 1].body = Len(blocks[i].txs)
    /\ \A j \in (Len(chain) + 2)..Len(sum.canon) : sum.canon[j].hash = "" /\ sum.canon[j].header = ""
HeadIs(sum, ancH, chain) == /\ sum.head.height = ancH + Len(chain)
                            /\ (chain # <<>> => sum.head.hash = chain[Len(chain)])

\* reverted transactions: those of the abandoned blocks, in order; the ones the fork includes itself may be left out
RevertedOk(rev, o, f) ==
    LET want == TxsOf(o)  inFork == Range(TxsOf(f)) IN
    /\ SelectSeq(want, LAMBDA t : t \in Range(rev)) = rev
    /\ \A i \in 1..Len(want) : want[i] \notin inFork => want[i] \in Range(rev)

NoObs == [pre |-> <<>>, post |-> <<>>, anc |-> 0]
TraceInit == Init /\ l = 1 /\ bad = {} /\ obs = NoObs

Ev(e) == l <= Len(Trace) /\ Trace[l].ev = e /\ l' = l + 1

TOffer ==
    /\ Ev("Offer") /\ pc \in {"idle", "refused", "done", "crashed"}
    /\ LET e == Trace[l]  o == Blks(e.own)  f == Blks(e.fork) IN
       /\ own' = o /\ fork' = f /\ seed' = e.seed
       /\ A' = StoreOf(o) /\ pre' = StoreOf(o) /\ R' = EmptyStore
       /\ pc' = "offered" /\ vi' = 0 /\ ai' = 0 /\ sub' = "add" /\ reverted' = <<>> /\ why' = ""
       /\ obs' = [pre |-> e.pre, post |-> e.pre, anc |-> e.anc]
       \* the adopter really lives on `own` (harness consistency, not a property clause)
       /\ Note({IF CanonIs(e.pre, Hashes(o), o) /\ HeadIs(e.pre, e.anc, Hashes(o)) /\ e.head = e.anc + Len(o)
                THEN "" ELSE "HARNESS:adopter-not-on-own-branch"})

TCheckSize ==
    /\ Ev("CheckSize") /\ pc = "offered"
    /\ Drift(IF Trace[l].ok = SizeOk(own, fork, seed) THEN "" ELSE "weight-rule-probe")
    /\ UNCHANGED <<vars, bad, obs>>

\* processBlocks = CheckForkSize ; ValidateBlock* ; ValidateTip (the specification's steps, composed)
TProcess ==
    /\ Ev("Process") /\ pc = "offered"
    /\ LET e == Trace[l]  acc == Acceptable(own, fork, seed) IN
       IF e.panic # "" THEN
            /\ pc' = "crashed" /\ Note({"RefusedCleanly:process-panic"})
            /\ UNCHANGED <<own, fork, seed, vi, ai, sub, A, R, pre, reverted, why, obs>>
       ELSE IF e.loaded THEN
            \* explained only by the specification's path to "loaded", i.e. an acceptable fork
            /\ pc' = "loaded" /\ Note({AdoptDefect(own, fork, seed)})
            /\ UNCHANGED <<own, fork, seed, vi, ai, sub, A, R, pre, reverted, why, obs>>
       ELSE
            /\ pc' = "refused"
            /\ Note({IF DiffGroup(obs.pre, e.st) = "" THEN "" ELSE "RefusedUnchanged:" \o DiffGroup(obs.pre, e.st)})
            /\ Drift(IF acc THEN "acceptable-fork-refused" ELSE "")
            /\ UNCHANGED <<own, fork, seed, vi, ai, sub, A, R, pre, reverted, why, obs>>

\* applyFork = ResetTo ; (AddBlock ; WriteCert)* ; Finish
TApply ==
    /\ Ev("Apply") /\ pc = "loaded"
    /\ LET e == Trace[l]  hasNil == \E i \in 1..Len(fork) : fork[i].c = "nil" IN
       IF e.panic # "" \/ e.err # "" THEN
            /\ pc' = "crashed"
            /\ Note({"AdoptionCompletes:" \o (IF e.panic # "" THEN "panic" ELSE "error") \o (IF hasNil THEN "-nil-cert" ELSE "")})
            /\ UNCHANGED <<own, fork, seed, vi, ai, sub, A, R, pre, reverted, why, obs>>
       ELSE
            /\ pc' = "adopted" /\ A' = Adopted(A, own, fork) /\ reverted' = e.reverted
            /\ obs' = [obs EXCEPT !.post = e.st]
            /\ Note({IF RevertedOk(e.reverted, own, fork) THEN "" ELSE "RevertedReturned",
                     IF HeadIs(e.st, obs.anc, Adopted(A, own, fork).chain) THEN "" ELSE "AdoptionEqualsSync:head-not-fork-tip",
                     IF CanonIs(e.st, Adopted(A, own, fork).chain, fork) THEN "" ELSE "AdoptionEqualsSync:canonical-index-not-fork",
                     IF e.still THEN "AdoptionCompletes:fork-still-pending" ELSE ""})
            /\ UNCHANGED <<own, fork, seed, vi, ai, sub, R, pre, why>>

OneOne == Len(own) = 1 /\ Len(fork) = 1
TSync ==
    /\ Ev("Sync") /\ pc \in {"adopted", "crashed"}
    /\ LET e == Trace[l] IN
       IF pc = "crashed" THEN UNCHANGED <<vars, bad, obs>>
       ELSE /\ pc' = "done" /\ R' = Followed(fork)
            /\ Note({IF e.err # "" THEN "AdoptionEqualsSync:reference-rejects-fork"
                     ELSE IF DiffGroupSh(obs.post, e.st, SharedHashes) = "" THEN ""
                     ELSE "AdoptionEqualsSync:" \o DiffGroupSh(obs.post, e.st, SharedHashes) \o (IF OneOne THEN ":1v1" ELSE "")})
            /\ UNCHANGED <<own, fork, seed, vi, ai, sub, A, pre, reverted, why, obs>>

TExtend ==
    /\ Ev("Extend") /\ pc = "done"
    /\ LET e == Trace[l] IN
       Note({IF e.aerr = "" /\ e.rerr = "" /\ DiffGroupSh(e.a, e.r, SharedHashes) = "" THEN ""
             ELSE IF e.aerr # e.rerr THEN "AdoptionEqualsSync:next-block-verdict"
             ELSE "AdoptionEqualsSync:next-block-" \o DiffGroupSh(e.a, e.r, SharedHashes)})
    /\ UNCHANGED <<vars, obs>>

TraceNext == TOffer \/ TCheckSize \/ TProcess \/ TApply \/ TSync \/ TExtend
TraceSpec == TraceInit /\ [][TraceNext]_tvars

TraceAccepted ==
    LET d == TLCGet("stats").diameter IN
    /\ PrintT(<<"DRIFT", TLCGet(2)>>)
    /\ \A i \in 1..Len(TLCGet(4)) : PrintT(<<"DRIFT_AT", TLCGet(4)[i][1], TLCGet(4)[i][2]>>)
    /\ \A i \in 1..Len(TLCGet(3)) : PrintT(<<"CLAUSE_BROKEN", TLCGet(3)[i][1], TLCGet(3)[i][2]>>)
    /\ IF d - 1 = Len(Trace) THEN TRUE ELSE Print(<<"TRACE_REJECTED_AT", d, Len(Trace)>>, FALSE)
    /\ TLCGet(3) = <<>>
=============================================================================
