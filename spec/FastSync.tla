------------------------------ MODULE FastSync ------------------------------
(* Fast sync of idena-go (protocol/fast.go, protocol/downloader.go, blockchain.AddHeaderUnsafe /   *)
(* AtomicSwitchToPreliminary, state.CreatePreliminaryCopy / LoadPreliminary / SwitchToPreliminary, *)
(* StateDB.RecoverSnapshot2 / CommitSnapshot, SnapshotManager.DownloadSnapshot), written to be     *)
(* bound: one operator per step of the code, composed exactly as processBatch composes them.       *)
(*                                                                                                *)
(* Heights are relative to the local head L of the syncing node: 0 = L, N = manifest height S.      *)
(* ch[h] describes canonical block h: kind "P" (proposed) / "E" (empty), need (IdentityUpdate |     *)
(* Snapshot | NewGenesis flag: a certificate is mandatory), diff (non-empty identity diff), cert    *)
(* (the honest serving node holds a certificate).                                                  *)
(*                                                                                                *)
(* Contents are abstracted by "content ids": the identity state after applying all diffs up to and  *)
(* including height u is u itself when ch[u].diff, so the identity root of header h is LastU(h);     *)
(* Bad is any other content (a diff that was altered, stale or incomplete went in).                *)
(*                                                                                                *)
(* A served block is [h, fault, peer]; the faults a serving peer can inject:                        *)
(*   diff-wrong / diff-stale / diff-drop-entry   another non-empty diff than the block's             *)
(*   diff-missing                                no diff although the block has one                 *)
(*   hdr-parent   parent hash altered            hdr-time   time not after the parent's             *)
(*   hdr-seed     seed of a proposed header altered (VRF proof no longer matches)                   *)
(*   hdr-forged   a header altered so that it stays self-consistent (identity root of a proposed    *)
(*                header, any field of an empty header): only its hash changes                      *)
(*   hdr-gap      the block is left out          trunc      the answer stops before this block      *)
(*   cert-missing no certificate                 cert-outsider / cert-few / cert-otherblock forged   *)
(* and at the snapshot: a manifest whose content is not the state at N (snap-otherheight,           *)
(* snap-truncated, snap-garbled) or cannot be fetched (snap-unavailable).                           *)
(*                                                                                                *)
(* Properties (as invariants of the bounded model; Trace_FastSync evaluates their observable form   *)
(* on executions of the real code):                                                                *)
(*   NoFaultAccepted       everything accepted into the preliminary chain is canonical              *)
(*   CulpritSetAside       the peer whose altered block was looked at is banned / set aside          *)
(*   ArrivedEqualsApplied  after the switch the node is what applying every block gives: head,      *)
(*                         state, identity state, validator view, stored diffs, canonical index,    *)
(*                         certificates of the certificate-mandatory blocks, identity version N     *)
(*   NoPartialSwitch       head / state change only in the atomic switch (and then to exactly N)    *)
(*   Recoverable           from every reachable state an honest peer completes the sync             *)
(*                                                                                                *)
(* Deliberate deviations / what the model says because the CODE does it (all confirmed on traces): *)
(*  * A block is applied only when a later (or its own) certificate arrives; header checks run at    *)
(*    receive time, the identity-root check at application time, so the peer blamed for a bad diff   *)
(*    may be the peer of an EARLIER batch (blockPeer.peerId), the reload then ignores the CURRENT one. *)
(*  * A self-consistent forged header without certificate (hdr-forged) is not detected where it is   *)
(*    served: it waits in deferredHeaders and makes the NEXT block fail its parent-hash check; the     *)
(*    peer of that next batch - possibly an honest one - lands in potentialForkedPeers and the forger  *)
(*    is not banned.  The forged block is never applied (NoFaultAccepted holds); the blame is wrong.   *)
(*    HeaderVerdict models this ("forked" when the previous deferred header is forged).              *)
(*  * A truncated answer (nil block) bans the peer and fails the batch without reload.               *)
(*  * Withholding a non-mandatory certificate is harmless (Harmless): it only delays application.    *)
(*  * The manifest's Root field is ignored by the code (the preliminary head's root is used).        *)
(* Not modelled: upgrade / NewGenesis blocks, silent peers (20 s time-outs), crashes between the      *)
(* writes of one step (C09), the 10-attempt limit is modelled but not reached by the bounds.         *)
(* Known limit of the protocol, not judged: an identity diff is bound to the header only through the  *)
(* resulting root, so entries that do not change the tree (deletion of an absent key) pass; honest    *)
(* diffs contain such entries too (an object created and emptied in one block).                      *)
EXTENDS Integers, Sequences, FiniteSets, TLC

CONSTANTS MaxAttempts      \* MaxAttemptsCountPerBatch

VARIABLES ch,    \* the canonical chain above the local head: sequence of [kind, need, diff, cert]
          N,     \* manifest height
          st     \* the syncing node (record, see InitState)

Bad == -1
DiffAltered == {"diff-wrong", "diff-stale", "diff-drop-entry"}
CertForged == {"cert-outsider", "cert-few", "cert-otherblock"}
MaxManifestTimeouts == 5

LastU(h) == LET S == {u \in 1..h : ch[u].diff} IN IF S = {} THEN 0 ELSE CHOOSE u \in S : \A v \in S : v <= u
Last(s) == s[Len(s)]
Max(S) == CHOOSE x \in S : \A y \in S : y <= x

\* what is on the wire for a served block
SCert(b) == CASE b.fault = "cert-missing" -> FALSE
              [] b.fault \in CertForged -> TRUE
              [] OTHER -> ch[b.h].cert
SDiff(b) == CASE b.fault = "diff-missing" -> FALSE
              [] b.fault \in DiffAltered -> TRUE
              [] OTHER -> ch[b.h].diff
\* identity content after AddDiff of the served diff
AfterDiff(c, b) == IF ~SDiff(b) THEN c ELSE IF b.fault \in DiffAltered THEN Bad ELSE b.h

InitState(peers) ==
    [head |-> 0, good |-> TRUE,
     ph |-> -1,                 \* preliminary head (-1: none)
     idv |-> {},                \* saved versions of the preliminary identity tree
     idc |-> 0, vv |-> 0,       \* content of the applier's preliminary identity tree / validator view
     acc |-> <<>>,              \* faults of the served blocks that were applied (index = height)
     diffs |-> {}, certs |-> {},\* heights with a stored identity diff / certificate
     def |-> <<>>,              \* validated, not yet applied (deferredHeaders)
     banned |-> {}, forked |-> {}, reg |-> peers,
     pc |-> "idle",             \* idle (no applier) | ready | reload (inside processBatch, a reload is pending) | switched
     cur |-> 1,                 \* next height Downloader.Load requests
     bp |-> "", bfrom |-> 0, bto |-> 0, att |-> 0, rfrom |-> 0, out |-> "", fail |-> 0,
     man |-> "", inval |-> {}, tmo |-> 0,
     blamed |-> {}]             \* peers whose altered block was looked at and refused

------------------------------------------------------------------------------------------------
\* fastSync.preConsuming (m: the manifest createBlockApplier picked)
PreConsume(s, m) ==
    IF s.ph = -1
    THEN [s EXCEPT !.ph = s.head, !.idv = {s.head}, !.idc = LastU(s.head), !.vv = LastU(s.head), !.acc = <<>>,
                   !.def = <<>>, !.pc = "ready", !.cur = s.head + 1, !.man = m, !.out = "", !.att = 0]
    ELSE LET v == Max({x \in s.idv : x <= s.ph}) IN      \* LoadPreliminary: the newest saved version not above the preliminary head
         [s EXCEPT !.idc = LastU(v), !.vv = LastU(v), !.def = <<>>, !.pc = "ready", !.cur = s.ph + 1, !.man = m, !.out = "", !.att = 0]

\* fastSync.validateHeader for the next received block
HeaderVerdict(s, b) ==
    LET prev == IF s.def # <<>> THEN Last(s.def) ELSE [h |-> s.ph, fault |-> "none", peer |-> ""] IN
    IF b.h # prev.h + 1 THEN "ban"                                                      \* "Height is invalid"
    ELSE IF b.fault = "hdr-parent" \/ prev.fault = "hdr-forged" THEN "forked"            \* ParentHashIsInvalid
    ELSE IF b.fault \in {"hdr-time", "hdr-seed"} THEN "ban"
    ELSE IF ch[b.h].need /\ ~SCert(b) THEN "ban"                                        \* BlockCertIsMissing
    ELSE IF SCert(b) /\ (b.fault \in CertForged \/ b.fault = "hdr-forged" \/ s.vv # LastU(b.h - 1)) THEN "ban"   \* ValidateBlockCert on the preliminary validator view
    ELSE "ok"

\* fastSync.applyDeferredBlocks: validateIdentityState (AddDiff, root = header's identity root) -> CommitTree if the diff is
\* non-empty -> AddHeaderUnsafe -> validator view update -> WriteIdentityStateDiff -> WriteCertificate
RECURSIVE Apply(_, _)
Apply(s, i) ==
    IF i > Len(s.def) THEN [s EXCEPT !.def = <<>>, !.fail = 0]
    ELSE LET b == s.def[i]
             c2 == AfterDiff(s.idc, b) IN
         IF c2 # LastU(b.h)
         THEN [s EXCEPT !.def = <<>>, !.fail = b.h, !.banned = @ \cup {b.peer}, !.reg = @ \ {b.peer}, !.blamed = @ \cup {b.peer}]
         ELSE Apply([s EXCEPT !.idc = c2, !.vv = IF SDiff(b) THEN c2 ELSE @,
                              !.idv = IF SDiff(b) THEN @ \cup {b.h} ELSE @,
                              !.ph = b.h, !.acc = Append(@, b.fault),
                              !.diffs = IF SDiff(b) THEN @ \cup {b.h} ELSE @,
                              !.certs = IF SCert(b) THEN @ \cup {b.h} ELSE @], i + 1)

\* the loop of fastSync.processBatch over one answer bs (the blocks a peer delivered for bfrom..bto)
RECURSIVE Recv(_, _, _)
Recv(s, bs, i) ==
    IF i > Len(bs)
    THEN IF Len(bs) < s.bto - s.bfrom + 1
         THEN [s EXCEPT !.out = "fail", !.banned = @ \cup {s.bp}, !.reg = @ \ {s.bp}, !.blamed = @ \cup {s.bp}]   \* nil block: "failed to load block header", no reload
         ELSE [s EXCEPT !.out = "ok"]
    ELSE LET b == bs[i]
             v == HeaderVerdict(s, b) IN
         CASE v = "forked" -> [s EXCEPT !.out = "forked", !.forked = @ \cup {s.bp}, !.blamed = @ \cup {s.bp}]
           [] v = "ban" -> [s EXCEPT !.out = "reload", !.rfrom = s.bfrom + i - 1, !.banned = @ \cup {s.bp}, !.reg = @ \ {s.bp}, !.blamed = @ \cup {s.bp}]
           [] OTHER -> LET s1 == [s EXCEPT !.def = Append(@, b)] IN
                       IF SCert(b)
                       THEN LET s2 == Apply(s1, 1) IN
                            IF s2.fail # 0 THEN [s2 EXCEPT !.out = "reload", !.rfrom = s2.fail] ELSE Recv(s2, bs, i + 1)
                       ELSE Recv(s1, bs, i + 1)

\* a processBatch attempt: answer bs of peer p for from..to
Attempt(s, p, from, to, bs) == Recv([s EXCEPT !.bp = p, !.bfrom = from, !.bto = to, !.att = @ + 1, !.fail = 0, !.out = ""], bs, 1)

\* requestBatch(pm, from, to, ignoredPeer): who may be asked for the reload
Candidates(s) == {p \in s.reg : p # s.bp \/ Cardinality(s.reg) = 1}

\* after an attempt: where the applier is
Settle(s) == CASE s.out = "ok" -> [s EXCEPT !.pc = "ready", !.cur = s.bto + 1]
               [] s.out = "reload" -> IF s.att >= MaxAttempts \/ Candidates(s) = {} THEN [s EXCEPT !.pc = "idle", !.out = "fail"] ELSE [s EXCEPT !.pc = "reload"]
               [] OTHER -> [s EXCEPT !.pc = "idle"]       \* fail / forked: consumeBlocks stops, the applier is dropped

\* fastSync.postConsuming
Post(s) ==
    IF s.ph # N THEN [s EXCEPT !.pc = "idle", !.out = "lower"]
    ELSE CASE s.man = "ok" ->   \* RecoverSnapshot2 (root = preliminary head's root) -> SaveForcedVersion -> AtomicSwitchToPreliminary
                [s EXCEPT !.pc = "switched", !.out = "switched", !.head = N, !.good = (s.idc = LastU(N)), !.idv = @ \cup {N}, !.ph = -1, !.def = <<>>]
           [] s.man = "snap-unavailable" ->
                [s EXCEPT !.pc = "idle", !.out = "nosnapshot", !.tmo = @ + 1, !.inval = IF s.tmo + 1 >= MaxManifestTimeouts THEN @ \cup {s.man} ELSE @]
           [] OTHER -> [s EXCEPT !.pc = "idle", !.out = "badsnapshot", !.inval = @ \cup {s.man}]

\* process restart: everything volatile is gone (a preliminary head that is still the local head was never written), peers reconnect
Reboot(s, peers) == [s EXCEPT !.pc = "idle", !.def = <<>>, !.banned = {}, !.forked = {}, !.reg = peers, !.out = "", !.blamed = {},
                              !.ph = IF s.ph <= s.head THEN -1 ELSE s.ph]

------------------------------------------------------------------------------------------------
\* properties as state predicates over a node state

\* withholding a certificate that is not mandatory only delays the application of the block
Harmless(f, h) == f = "none" \/ (f = "cert-missing" /\ ~ch[h].need)
NoFaultAcceptedP(s) == \A i \in 1..Len(s.acc) : Harmless(s.acc[i], i)
CulpritSetAsideP(s) == s.blamed \subseteq (s.banned \cup s.forked)
ArrivedP(s) == /\ s.head = N /\ s.good
               /\ s.idc = LastU(N) /\ s.vv = LastU(N)
               /\ s.diffs = {h \in 1..N : ch[h].diff}
               /\ {h \in 1..N : ch[h].need} \subseteq s.certs
               /\ N \in s.idv
               /\ Len(s.acc) = N /\ NoFaultAcceptedP(s)
RECURSIVE Honest(_, _, _)
Honest(p, h, to) == IF h > to THEN <<>> ELSE <<[h |-> h, fault |-> "none", peer |-> p]>> \o Honest(p, h + 1, to)
\* an honest peer hp (never seen before) and an honest manifest complete the sync from s
HonestFinish(s, hp) ==
    LET s0 == [s EXCEPT !.reg = @ \cup {hp}]
        s1 == PreConsume(s0, "ok")
        s2 == IF s1.cur > N THEN s1 ELSE Settle(Attempt(s1, hp, s1.cur, N, Honest(hp, s1.cur, N)))
    IN IF s2.pc = "ready" THEN Post(s2) ELSE s2
=============================================================================
