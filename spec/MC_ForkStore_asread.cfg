CONSTANTS
  AsRead = TRUE
  MaxOwn = 1
  MaxFork = 2
  OwnSpecial = 1
  Valids = {"valid"}
  CertKinds = {"nil", "empty", "valid"}
  ExportOn = FALSE
  SampleMod = 1
INIT MInit
NEXT MNext
INVARIANTS TypeOK AdoptOnlyCertified
CHECK_DEADLOCK FALSE
