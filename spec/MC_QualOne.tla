----------------------------- MODULE MC_QualOne -----------------------------
(* Case table of qualifyOneFlip: every successor of a seed state is one input of the consistent input space (OneInDomain)   *)
(* up to the bounds below, `Evaluate` computes the model's result, the clauses are checked on it and the case   *)
(* is exported together with the result for replay on the REAL qualifyOneFlip.                                   *)
(*                                                                                                              *)
(* The result factorises (status / answer depend on the answer counts only; grade / grade score on the          *)
(* committee numbers - and, before upgrade 11, on the number of answers), so the table is the union of          *)
(*   family A: EVERY split of up to MaxAnswers answers into left / right / none (every threshold 3/4, 66 %       *)
(*             exactly on / below / above), each with a few committee contexts,                                  *)
(*   family B: EVERY committee (reports, approvals, grade sum, silent graders) up to MaxCommittee members,       *)
(*             each with three answer splits (all left, split, all none),                                        *)
(*   family C: big flips (BigSizes answers) next to the thresholds, where 66 % is hit exactly (33 of 50) and      *)
(*             the float32 quotient of the code has to agree with the published share.                           *)
EXTENDS Qualification, Json, TLC
CONSTANTS MaxAnswers, MaxCommittee, BigSizes, ExportOn

VARIABLES inp, out
vars == <<inp, out>>

Flags == {<<FALSE, FALSE>>, <<TRUE, FALSE>>, <<TRUE, TRUE>>}       \* <<upgrade 10, upgrade 11>>

Case(l, r, n, rep, ap, tg, gcs, fl) ==
    [l |-> l, r |-> r, n |-> n, rep |-> rep, ap |-> ap, tg |-> tg, rcs |-> rep + ap, gcs |-> gcs, u10 |-> fl[1], u11 |-> fl[2]]

\* committee contexts for a flip with `tot` answers
\* grade sums: before upgrade 11 the sum of the approvers' grade values (2..5 each); with upgrade 11 the sum of the
\* scores of everybody whose grades count (approvers 2, 4, 6, 8; silent graders 1; reporters 0)
GradeSums(ap, silent, u11) == IF u11 THEN {silent + 2 * k : k \in ap..(4 * ap)} ELSE (2 * ap)..(5 * ap)
Committees(tot, maxc, fl) ==
    UNION {UNION {UNION {{<<rep, ap, tg, IF fl[2] THEN rep + ap + silent ELSE 0>> : tg \in GradeSums(ap, silent, fl[2])}
                         : silent \in (IF fl[2] THEN 0..Min(2, tot - rep - ap) ELSE {0})}
                  : ap \in 0..(Min(maxc, tot) - rep)}
           : rep \in 0..Min(maxc, tot)}

\* a few committee contexts for family A
FewCommittees(tot, fl) ==
    {c \in Committees(tot, 3, fl) : c[3] \in {0, 2 * c[2], 5 * c[2], 8 * c[2]} /\ (fl[2] => c[4] = c[1] + c[2])}

AllSplits(tot) == {<<l, r, tot - l - r>> : <<l, r>> \in {p \in (0..tot) \X (0..tot) : p[1] + p[2] <= tot}}
ThreeSplits(tot) == {<<tot, 0, 0>>, <<(tot + 1) \div 2, tot \div 2, 0>>, <<0, 0, tot>>}

Near(x) == {y \in (x - 1)..(x + 1) : y >= 0}
BigSplits(tot) ==
    LET marks == Near((3 * tot) \div 4) \cup Near((66 * tot) \div 100) \cup Near((2 * tot) \div 3) IN
    {<<a, tot - a, 0>> : a \in {m \in marks : m <= tot}} \cup {<<tot - a, a, 0>> : a \in {m \in marks : m <= tot}}
    \cup {<<0, tot - a, a>> : a \in {m \in marks : m <= tot}} \cup {<<tot - a, 0, a>> : a \in {m \in marks : m <= tot}}

\* the table is enumerated seed by seed (a seed = family, flags, number of answers), so that TLC's workers share the work
CasesOf(fam, fl, tot) ==
    IF fam = "A" THEN {Case(s[1], s[2], s[3], c[1], c[2], c[3], c[4], fl) : s \in AllSplits(tot), c \in FewCommittees(tot, fl)}
    ELSE IF fam = "B" THEN {Case(s[1], s[2], s[3], c[1], c[2], c[3], c[4], fl) : s \in ThreeSplits(tot), c \in Committees(tot, MaxCommittee, fl)}
    ELSE {Case(s[1], s[2], s[3], c[1], c[2], c[3], c[4], fl) : s \in BigSplits(tot),
          c \in {<<0, 0, 0, 0>>, <<tot \div 2, tot \div 2, 2 * (tot \div 2), IF fl[2] THEN 2 * (tot \div 2) ELSE 0>>,
                 <<(tot \div 2) + 1, (tot \div 2) - 1, 2 * ((tot \div 2) - 1), IF fl[2] THEN 2 * (tot \div 2) ELSE 0>>,
                 <<0, (33 * tot) \div 100, 2 * ((33 * tot) \div 100), IF fl[2] THEN tot ELSE 0>>,
                 <<0, ((33 * tot) \div 100) + 1, 2 * (((33 * tot) \div 100) + 1), IF fl[2] THEN tot ELSE 0>>}}
Seeds == ({"A"} \X Flags \X (0..MaxAnswers)) \cup ({"B"} \X Flags \X (0..(MaxCommittee + 2))) \cup ({"C"} \X Flags \X BigSizes)

Init == inp \in Seeds /\ out = <<>>
Evaluate == /\ out = <<>>
            /\ \E c \in {x \in CasesOf(inp[1], inp[2], inp[3]) : OneInDomain(x)} :
                  /\ inp' = c
                  /\ out' = QualifyOneFlip(c.l, c.r, c.n, c.rep, c.tg, c.ap, c.rcs, c.gcs, c.u10, c.u11)
Next == Evaluate

Obs(o) == [st |-> o.st, an |-> o.an, gr |-> o.gr, gs |-> Micro(o.gsn, o.gsd)]

Export == IF ExportOn THEN PrintT(ToJson([case |-> inp', expect |-> Obs(out')])) ELSE TRUE

\* the clauses hold on the model's own result (the one-directional clauses are consequences of the transcription)
InvGradeConsistent   == out # <<>> => OneGradeConsistent(inp.rep, inp.rcs, inp.u11, Obs(out))
InvReportHonoured    == out # <<>> => OneReportHonoured(inp.rep, inp.rcs, Obs(out))
InvAnswerBacked      == out # <<>> => OneAnswerBacked(inp.l, inp.r, inp.n, Obs(out))
InvConsensusHonoured == out # <<>> => OneConsensusHonoured(inp.l, inp.r, inp.n, Obs(out))
\* left / right symmetry of the published rule
InvSymmetric == out # <<>> =>
    LET m == QualifyOneFlip(inp.r, inp.l, inp.n, inp.rep, inp.tg, inp.ap, inp.rcs, inp.gcs, inp.u10, inp.u11)
    IN /\ m.st = out.st /\ m.gr = out.gr /\ m.gsn = out.gsn /\ m.gsd = out.gsd
       /\ m.an = (IF out.an = Left THEN Right ELSE IF out.an = Right THEN Left ELSE None)
\* more reports (one approver turned reporter) never un-report a flip
InvMonotone == (out # <<>> /\ out.gr = GReported /\ inp.ap > 0) =>
    ReportedRule(inp.rep + 1, inp.rcs)
=============================================================================
