CONSTANTS
  Params <- DefaultParams
  MaxN = 150
  ExportNs <- ThoroughNs
  DevNs <- ThoroughDevNs
  ExportOn = TRUE
INIT Init
NEXT Next
INVARIANTS SizeSane Majority Export
CHECK_DEADLOCK FALSE
