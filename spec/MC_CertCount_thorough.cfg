CONSTANTS
  Params <- DefaultParams
  MaxN = 130
  ExportNs <- ThoroughNs
  DevNs <- ThoroughDevNs
  ExportOn = TRUE
INIT Init
NEXT Next
INVARIANTS SizeSane Majority Export
CHECK_DEADLOCK FALSE
