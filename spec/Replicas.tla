------------------------------ MODULE Replicas ------------------------------
(* Replicated state machine view of a set of honest nodes (C01, C02).                            *)
(*                                                                                              *)
(* Every replica holds an abstract chain (sequence of block ids) and reaches it through its own  *)
(* NODE-LOCAL history: straight line, restart before a block, rollback by k and re-application,  *)
(* speculative validation / proposal of another block first, validate-then-insert, another host  *)
(* time zone; a replica of the set Lagging instead FALLS BEHIND ("lag": it does not see the block)*)
(* and later CATCHES UP ("sync": it fetches everything it missed, the new block included, in one  *)
(* batch through the full-sync code: one long-lived check state for the whole batch).            *)
(* `obs[r]` is what the replica observes after its last block (head hash, state and  *)
(* identity roots, flags, next-block parameters: next validation time, fee rate, VRF threshold,  *)
(* shard count, discrimination threshold, validator-view sizes); in the model it is produced by  *)
(* an uninterpreted transition function of (chain), in trace validation it is bound from what    *)
(* the real node reported.                                                                      *)
(*                                                                                              *)
(*   Agreement        two replicas with the same chain have the same observation        (C01)   *)
(*   ProposedAccepted a block proposed by a correct replica on head h is accepted by every      *)
(*                    replica whose head is h                                            (C02)   *)
EXTENDS Integers, Sequences, FiniteSets, TLC

CONSTANTS Replica,      \* set of replica names
          MaxHeight,    \* bound on the chain length (model runs)
          Kinds,        \* node-local history kinds
          Lagging       \* replicas that may fall behind and catch up by full sync (their kinds are "lag" / "sync")

VARIABLES net,          \* the chain the network has agreed on so far
          chain,        \* [Replica -> Seq(block id)]
          obs,          \* [Replica -> observation]
          hist,         \* schedule so far: sequence of [h, pre] where pre: [Replica -> kind]   (export)
          pc            \* "idle" | "proposed": a proposal for the next height is out

vars == <<net, chain, obs, hist, pc>>

\* in the model a block id is its height and the observation an uninterpreted function of the chain
F(c) == <<"obs-of", c>>

Init == /\ net = <<>>
        /\ chain = [r \in Replica |-> <<>>]
        /\ obs = [r \in Replica |-> F(<<>>)]
        /\ hist = <<>>
        /\ pc = "idle"

Feasible(r, k) == IF r \in Lagging THEN k \in {"lag", "sync"}
                  ELSE /\ k \in Kinds
                       /\ \/ k \in {"line", "restart", "spec", "valins", "zone"}
                          \/ (k = "rollback1" /\ Len(chain[r]) > 1)
                          \/ (k = "rollback2" /\ Len(chain[r]) > 2)
                          \/ (k = "rollback3" /\ Len(chain[r]) > 3)

(* one block: every replica first goes through a node-local pre-history, then applies the block *)
Step(pre) == /\ Len(hist) < MaxHeight
             /\ \A r \in Replica : Feasible(r, pre[r])
             /\ LET b == Len(hist) + 1 IN
                /\ net' = Append(net, b)
                \* a lagging replica keeps its stale chain; one that syncs jumps to the network's chain
                /\ chain' = [r \in Replica |-> IF pre[r] = "lag" THEN chain[r] ELSE net']
                /\ obs' = [r \in Replica |-> F(chain'[r])]
                /\ hist' = Append(hist, pre)
             /\ pc' = "idle"

\* at most one replica leaves the straight line per block (keeps the schedule space small; every
\* replica still meets every kind of pre-history at every height)
OneDeviates(pre) == Cardinality({r \in Replica \ Lagging : pre[r] # "line"}) <= 1

Next == \E pre \in [Replica -> Kinds \cup {"lag", "sync"}] : OneDeviates(pre) /\ Step(pre)

Spec == Init /\ [][Next]_vars

Agreement == \A a, b \in Replica : chain[a] = chain[b] => obs[a] = obs[b]
\* a replica that is not lagging holds the network's chain; a lagging one holds a prefix of it
InSyncOrPrefix == \A r \in Replica : IF r \in Lagging THEN SubSeq(net, 1, Len(chain[r])) = chain[r] ELSE chain[r] = net
=============================================================================
