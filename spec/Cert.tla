-------------------------------- MODULE Cert --------------------------------
(* Block certificates (C07).                                                                      *)
(*                                                                                                *)
(* What is modelled, one operator per piece of code:                                              *)
(*   Sorted / PoolDiscr / ...   core/validators/validators.go  loadValidNodes (the registry a     *)
(*                              ValidatorsCache derives from the identity state)                  *)
(*   ValidatorsOf / ApprovedOf  determineValidators (delegators collapse into their pool; a pool  *)
(*                              is approved iff one of its members is validated and not            *)
(*                              discriminated)                                                    *)
(*   CommitteeSize / Threshold  blockchain.GetCommitteeSize / GetCommitteeVotesThreshold           *)
(*   Subtrahend / Required      StepValidators.VotesCountSubtrahend and the expression in          *)
(*                              ValidateBlockCert / countVotes                                    *)
(*   Compress                   types.FullBlockCert.Compress (header of the FIRST vote)            *)
(*   RecAddr                    Vote.VoterAddr on the vote RECONSTRUCTED by ValidateBlockCert      *)
(*   Accept                     blockchain.ValidateBlockCert (nil / shared signer cache)           *)
(*   Admit                      pengings.Votes.AddVote                                            *)
(*   CountEmits / CountCerts    consensus.Engine.countVotes                                       *)
(* and the property-shaped reference predicate                                                    *)
(*   Quorum                     number of DISTINCT approved committee members with a genuine       *)
(*                              signature over this block hash / parent / round / step >= Required *)
(*   NoForeign                  every signature in the certificate is such a signature            *)
(* Property:  Accept => Quorum ;  Quorum /\ NoForeign => Accept ;  every certificate the counter   *)
(* can emit satisfies Accept and Quorum.                                                          *)
(*                                                                                                *)
(* The committee draw (a seeded permutation of the sorted registry) is NOT modelled: the          *)
(* committee is an input (`comm`) constrained by WellFormedCommittee; for registries of at most   *)
(* 8 validators the code takes the whole registry, which the model predicts.                      *)
(*                                                                                                *)
(* Identities are 1..N (each has a key, whether or not it has an entry in the identity state);    *)
(* 0 is the god key when god is not one of the identities; N+1.. are keys of strangers.           *)
(* Header fields of votes are CODES relative to the block being certified:                        *)
(*   round  0 = the block's height H, 1 = H-1, 2 = H+40, 3 = H-5                                  *)
(*   hash   0 / 1 = the two candidate blocks of the round (proposed / empty), 9 = zero hash        *)
(*   parent 0 = hash of the previous block, other = another hash                                  *)
(*   step   the real step number (1, 2, ..., 255 = Final)                                         *)
(*   flag   the per-signature fields that are signed too: 0 none, 1 TurnOffline, 2 Upgrade          *)
EXTENDS Integers, Sequences, FiniteSets, TLC

CONSTANT Params   \* [pctN, pctF, agree : 1/10000 units, maxc : Nat]  (config/consensus.go: 3000, 7000, 6500, 100)

God     == 0
NoOne   == -1     \* signer of a signature from which no key can be recovered (zero address)
Garbage == -2     \* signer recovered from a signature made over other bytes: nobody's address
Final   == 255
ZeroRound == 9    \* Round 0 of an empty BlockCert (never a block height here)
ZeroHash  == 9

ToSet(s) == {s[i] : i \in 1..Len(s)}
\* math.Round(float64(x) * p) for x >= 0.  The code multiplies in float64: where x * p is exactly k + 1/2 in
\* decimal the binary product can land on either side (0.7 is stored slightly below 0.7: 85 * 0.7 -> 59, but
\* 15 * 0.7 -> 11), so at such ties - and only there - both roundings are admissible.
RoundP(x, p)  == (x * p + 5000) \div 10000                 \* half away from zero
Rounds(x, p)  == IF (x * p) % 10000 = 5000 THEN {(x * p) \div 10000, RoundP(x, p)} ELSE {RoundP(x, p)}
Min(a, b)     == IF a < b THEN a ELSE b

-----------------------------------------------------------------------------
(* registry derived from the identity state: loadValidNodes *)
N(S)            == Len(S.ids)
Entry(S, i)     == S.ids[i].v \/ S.ids[i].o                 \* empty objects are deleted from the identity state
Del(S, i)       == IF Entry(S, i) THEN S.ids[i].del ELSE 0
OnlineSet(S)    == {i \in 1..N(S) : S.ids[i].o}
IsDiscr(S, i)   == Entry(S, i) /\ S.ids[i].d
DiscrSet(S)     == {i \in 1..N(S) : IsDiscr(S, i)}
Delegators(S, p) == {i \in 1..N(S) : Del(S, i) = p}
MemberApproved(S, i) == i \in 1..N(S) /\ S.ids[i].v /\ ~S.ids[i].d
PoolDiscr(S, p) == \A i \in Delegators(S, p) \cup {p} : ~MemberApproved(S, i)
\* online validated identities, and every delegator of an online pool (the pool address itself only if validated)
Sorted(S)       == {i \in 1..N(S) : (S.ids[i].o /\ S.ids[i].v) \/ (Del(S, i) # 0 /\ S.ids[Del(S, i)].o)}
Cnt(S)          == Cardinality(Sorted(S))
GodMode(S)      == OnlineSet(S) = {}

(* committee size and thresholds: blockchain.go; the *s operators give the admissible values (see Rounds) *)
CommitteeSizes(c, final) ==
    IF c <= 8 THEN {c}
    ELSE {Min(s, Params.maxc) : s \in Rounds(c, IF final THEN Params.pctF ELSE Params.pctN)}
CommitteeSize(c, final) == CHOOSE s \in CommitteeSizes(c, final) : \A t \in CommitteeSizes(c, final) : t <= s
Table(c) == CASE c \in {0, 1} -> 1
              [] c \in {2, 3} -> 2
              [] c \in {4, 5} -> 3
              [] c \in {6, 7} -> 4
              [] OTHER       -> 5        \* c = 8
Thresholds(c, final) ==
    IF c <= 8 THEN {Table(c)}
    ELSE UNION {Rounds(s, Params.agree) : s \in CommitteeSizes(c, final)}

(* the committee `comm` (StepValidators.Original) is an input *)
WellFormedCommittee(S, comm, final) ==
    \/ GodMode(S)
    \/ (comm \subseteq Sorted(S) /\ Cardinality(comm) \in CommitteeSizes(Cnt(S), final))

(* determineValidators *)
OriginalOf(S, comm)   == IF GodMode(S) THEN {S.god} ELSE comm
ValidatorsOf(S, comm) == IF GodMode(S) THEN {S.god}
                         ELSE {IF Del(S, i) # 0 THEN Del(S, i) ELSE i : i \in comm}
ApprovedOf(S, comm)   == IF GodMode(S) THEN {S.god}
                         ELSE {Del(S, i) : i \in {j \in comm : Del(S, j) # 0 /\ ~PoolDiscr(S, Del(S, j))}}
                              \cup {i \in comm : Del(S, i) = 0 /\ ~IsDiscr(S, i)}
\* the admissible numbers of required votes (a single value except at rounding ties) for a registry of cnt
\* validators, a committee of nOrig members of which nAppr distinct addresses are approved
RequiredsN(cnt, nOrig, nAppr, final) == {t - u : t \in Thresholds(cnt, final), u \in Rounds(nOrig - nAppr, Params.agree)}
Requireds(S, comm, final) == RequiredsN(Cnt(S), Cardinality(OriginalOf(S, comm)), Cardinality(ApprovedOf(S, comm)), final)
Required(S, comm, final)  == CHOOSE r \in Requireds(S, comm, final) : \A q \in Requireds(S, comm, final) : q <= r

-----------------------------------------------------------------------------
(* votes and certificates *)
Compress(votes) ==
    IF votes = <<>> THEN [round |-> ZeroRound, step |-> 0, hash |-> ZeroHash]
    ELSE [round |-> votes[1].round, step |-> votes[1].step, hash |-> votes[1].hash]

\* ValidateBlockCert rebuilds every vote from the certificate header, the previous block's hash and the
\* per-signature flags, then recovers the signer: a signature made over other bytes yields a stranger.
RecAddr(c, v) ==
    IF v.sig = "forged" THEN NoOne
    ELSE IF <<v.round, v.step, v.hash>> = <<c.round, c.step, c.hash>> /\ v.parent = 0 THEN v.voter
    ELSE Garbage

\* ValidateBlockCert(prev, block, Compress(votes), cache) = nil, for the block with hash code bh;
\* A = the approved committee members, req = the required number of votes for the certificate's step
AcceptA(A, votes, cached, bh, req) ==
    LET c      == Compress(votes)
        idx    == {i \in 1..Len(votes) : ~(cached /\ votes[i].sig = "forged")}   \* with a cache an unrecoverable signature is skipped
        voters == {RecAddr(c, votes[i]) : i \in idx}
    IN /\ \A i \in idx : /\ RecAddr(c, votes[i]) \in A        \* "invalid voter"
                         /\ c.round = 0                        \* "invalid vote header"
                         /\ c.hash = bh                        \* "invalid voted hash"
       /\ Cardinality(voters) >= req
Accept(S, comm, votes, cached, bh, req) == AcceptA(ApprovedOf(S, comm), votes, cached, bh, req)

(* reference predicate *)
Genuine(c, v, bh) == /\ v.sig # "forged"
                     /\ <<v.round, v.hash, v.parent>> = <<0, bh, 0>>
                     /\ v.step = c.step /\ c.round = 0 /\ c.hash = bh
QuorumA(A, votes, bh, req) ==
    LET c == Compress(votes)
        g == {votes[i].voter : i \in {j \in 1..Len(votes) : Genuine(c, votes[j], bh)}}
    IN Cardinality(g \cap A) >= req
NoForeignA(A, votes, bh) ==
    LET c == Compress(votes)
    IN \A i \in 1..Len(votes) : Genuine(c, votes[i], bh) /\ votes[i].voter \in A
Quorum(S, comm, votes, bh, req) == QuorumA(ApprovedOf(S, comm), votes, bh, req)
NoForeign(S, comm, votes, bh)   == NoForeignA(ApprovedOf(S, comm), votes, bh)

-----------------------------------------------------------------------------
(* vote pool and vote counter *)
VotesLag == 3
FutureRounds == 30
\* the vote's own identity: header hash + signer (signature bytes are not part of it)
VoteKey(v) == <<v.round, v.step, v.hash, v.parent, v.flag, IF v.sig = "forged" THEN NoOne ELSE v.voter>>
\* real round of a round code, for a block of height H:  0 = H, 1 = H-1, 2 = far future, 3 = too old
RealRound(code, H) == CASE code = 0 -> H [] code = 1 -> H - 1 [] code = 2 -> H + 40 [] OTHER -> H - 5
\* AddVote(pool[k]) after pool[1..k-1] were offered, head = the block before the one voted on
Admit(S, pool, k, H) ==
    LET v == pool[k]
        hd == H - 1
        r == RealRound(v.round, H)
        signer == IF v.sig = "forged" THEN NoOne ELSE v.voter
    IN /\ ~(hd > VotesLag /\ r < hd - VotesLag)
       /\ ~(hd < r /\ r - hd > FutureRounds)
       /\ \A j \in 1..(k - 1) : VoteKey(pool[j]) # VoteKey(v)     \* known vote (an equal vote offered earlier was admitted, or refused for the same reason)
       /\ (GodMode(S) \/ signer \in OnlineSet(S))

\* voters countVotes(round, step, parent) can collect for hash h from the admitted votes
EligibleA(A, pool, adm, step, h) ==
    {pool[k].voter : k \in {j \in 1..Len(pool) : /\ adm[j] /\ pool[j].sig # "forged"
                                               /\ pool[j].round = 0 /\ pool[j].step = step
                                               /\ pool[j].parent = 0 /\ pool[j].hash = h
                                               /\ pool[j].voter \in A}}
\* size of an emitted certificate: exactly req votes, or one vote if req <= 0
EmitSize(req) == IF req <= 0 THEN 1 ELSE req
CountEmitsA(A, pool, adm, step, h, req) == Cardinality(EligibleA(A, pool, adm, step, h)) >= EmitSize(req)
CountEmits(S, comm, pool, adm, step, h, req) == CountEmitsA(ApprovedOf(S, comm), pool, adm, step, h, req)
=============================================================================
