------------------------------- MODULE Lottery -------------------------------
(* Flip lottery and key packages (C16): core/ceremony/lottery.go (GetAuthorsDistribution,        *)
(* GetFlipsDistribution), core/ceremony/ceremony.go (calculateCeremonyCandidates,                *)
(* PrivateEncryptionKeyCandidates, getPrivateKeyPackageIndex, GetFlipKeys, Get*FlipsToSolve),     *)
(* core/mempool/keyspool.go (EncryptPrivateKeysPackage, getEncryptedKeyFromPackage,              *)
(* GetEncryptedPrivateFlipKey).                                                                  *)
(*                                                                                              *)
(* Property-shaped: a RELATION.  The Go PRNG and the queue rotation are NOT modelled; the        *)
(* specification says what any admissible outcome of the lottery looks like for a given shard    *)
(* layout, and what the key packages built from it must deliver.  One action per real step:      *)
(*   Evaluate(lay, q, seed, o)  one run of the lottery for one shard (authors distribution +     *)
(*                              flips distribution); enabled iff `o` is admissible for `lay`     *)
(*                              and equal to every earlier outcome for the same (lay, q, seed);  *)
(*   Package(a, has, recips, ext, pub, size)  author a builds its key package (recipient list,   *)
(*                              encryption, extraction of single entries, publication);          *)
(*   Solve(c, ss, sl, tries)    candidate c asks for its flips and for the key of every flip.    *)
(* The clause operators return the set of NAMES of broken clauses, so the trace specification    *)
(* can evaluate them on OBSERVED outputs and report which clause the real code broke.            *)
(*                                                                                              *)
(* All indices are the real 0-based ones; sequences are 1-based, hence the `+ 1`s.               *)
(*   lay = [n, k, fo, fa, kl, tag] n candidates; k[c+1] flips authored by candidate c (0 = not an *)
(*                                author); fo[c+1] = the (global) indices of c's flips;          *)
(*                                fa[f+1] = author of flip f (Len(fa) = number of flips);        *)
(*                                kl[c+1] = 0: the state holds a usable public key of c,         *)
(*                                1: no public key (only an activation sets it), 2: malformed    *)
(*                                bytes -- a KEY-LESS candidate: nothing can be encrypted for it *)
(*                                tag = identity of the concrete candidates/flips (addresses,    *)
(*                                cids) behind the layout                                        *)
(*   o   = [apc, cpa, short, long]  per candidate (position c+1): authorsPerCandidate[c],        *)
(*                                candidatesPerAuthor[c] (<<>> if absent), short and long flip   *)
(*                                index lists                                                    *)
EXTENDS Integers, Sequences, FiniteSets, TLC

ToSet(s) == {s[i] : i \in 1..Len(s)}
NoDupSeq(s) == Cardinality(ToSet(s)) = Len(s)

---------------------------------------------------------------------------
(* layout *)
Cands(lay) == 0..(lay.n - 1)
K(lay, c) == lay.k[c + 1]
NF(lay) == Len(lay.fa)
FlipIds(lay) == 0..(NF(lay) - 1)
Author(lay, f) == lay.fa[f + 1]
IsAuthor(lay, c) == K(lay, c) > 0
FlipsOf(lay, a) == ToSet(lay.fo[a + 1])
Keyless(lay, c) == lay.kl[c + 1] # 0
\* how a recipient can be recognised from the public key handed to the packager: candidates without
\* any key are indistinguishable from each other (all written -2)
NoKey == -2
Canon(lay, c) == IF c \in Cands(lay) /\ lay.kl[c + 1] = 1 THEN NoKey ELSE c

\* fo and fa are inverse to each other
LayoutOK(lay) ==
    /\ lay.n >= 0 /\ Len(lay.k) = lay.n /\ Len(lay.fo) = lay.n
    /\ Len(lay.kl) = lay.n /\ \A c \in 1..lay.n : lay.kl[c] \in {0, 1, 2}
    /\ \A c \in 1..lay.n : /\ lay.k[c] >= 0 /\ Len(lay.fo[c]) = lay.k[c] /\ NoDupSeq(lay.fo[c])
                            /\ \A i \in 1..Len(lay.fo[c]) : lay.fo[c][i] \in FlipIds(lay) /\ lay.fa[lay.fo[c][i] + 1] = c - 1
    /\ \A f \in 1..Len(lay.fa) : lay.fa[f] \in Cands(lay) /\ (f - 1) \in ToSet(lay.fo[lay.fa[f] + 1])

(* the layout as the code's own structures describe it agrees with the identities and flips that *)
(* exist: s.n candidates, s.auth = IsAuthor flags, s.fpa = flipsPerAuthor (as flip indices),       *)
(* s.fam = flipAuthorMap (author per flip), s.cids = the flip list is exactly the set of flips of  *)
(* the shard's candidates, s.kl = what the candidates' PubKey fields hold (0 the identity's key,  *)
(* 1 nothing, 2 the malformed bytes of the state, 3 anything else)                               *)
LayoutSeen(lay, s) ==
    /\ s.n = lay.n /\ s.cids = TRUE /\ s.fam = lay.fa /\ s.kl = lay.kl
    /\ Len(s.auth) = lay.n /\ \A i \in 1..Len(s.auth) : s.auth[i] = (lay.k[i] > 0)
    /\ Len(s.fpa) = lay.n /\ \A i \in 1..Len(s.fpa) : Len(s.fpa[i]) = lay.k[i] /\ ToSet(s.fpa[i]) = ToSet(lay.fo[i])

---------------------------------------------------------------------------
(* outputs of one lottery run *)
Shape(lay, o) == Len(o.apc) = lay.n /\ Len(o.cpa) = lay.n /\ Len(o.short) = lay.n /\ Len(o.long) = lay.n

AuthSet(o, c) == ToSet(o.apc[c + 1])     \* authors whose flips candidate c may get
RecSet(o, a) == ToSet(o.cpa[a + 1])      \* recipients of author a's key package

\* every flip of the list exists and is authored by one of c's authors
ProperSeq(lay, o, c, s) == LET A == AuthSet(o, c) IN \A i \in 1..Len(s) : s[i] \in FlipIds(lay) /\ Author(lay, s[i]) \in A
\* the short list already contains every flip of every author of c (nothing is left for the long list)
AllUsedInShort(lay, o, c) == LET S == ToSet(o.short[c + 1]) IN
                             \A a \in AuthSet(o, c) : a \in Cands(lay) => \A f \in FlipsOf(lay, a) : f \in S

(* only existing flips / candidates; authors are authors *)
InRange(lay, o) ==
    \A c \in Cands(lay) :
        /\ NF(lay) > 0 => /\ \A i \in 1..Len(o.short[c + 1]) : o.short[c + 1][i] \in FlipIds(lay)
                          /\ \A i \in 1..Len(o.long[c + 1]) : o.long[c + 1][i] \in FlipIds(lay)
        /\ \A i \in 1..Len(o.apc[c + 1]) : o.apc[c + 1][i] \in Cands(lay) /\ IsAuthor(lay, o.apc[c + 1][i])
        /\ \A i \in 1..Len(o.cpa[c + 1]) : o.cpa[c + 1][i] \in Cands(lay)
        /\ o.cpa[c + 1] # <<>> => IsAuthor(lay, c)

(* a shard without flips assigns nothing *)
NoneWhenNoFlips(lay, o) ==
    NF(lay) = 0 => \A c \in Cands(lay) : o.short[c + 1] = <<>> /\ o.long[c + 1] = <<>>

\* the one way the repository is known to break it: only the long-session placeholder (flip 0) is handed out
FliplessPlaceholderOnly(lay, o) ==
    NF(lay) = 0 /\ \A c \in Cands(lay) : o.short[c + 1] = <<>> /\ o.long[c + 1] \in {<<>>, <<0>>}

(* no flip twice in one list *)
NoDup(lay, o) == \A c \in Cands(lay) : NoDupSeq(o.short[c + 1]) /\ NoDupSeq(o.long[c + 1])

(* short-session quota *)
Quota(lay, q, o) == \A c \in Cands(lay) : Len(o.short[c + 1]) <= q

(* every candidate has something to solve in the long session whenever the shard has flips *)
LongNonEmpty(lay, o) == NF(lay) > 0 => \A c \in Cands(lay) : o.long[c + 1] # <<>>

(* a long list that is not made of flips of c's authors is the placeholder: a single flip, and   *)
(* only when the long list would otherwise be empty (all flips of c's authors are in the short   *)
(* list already)                                                                                 *)
Placeholder(lay, o) ==
    NF(lay) > 0 => \A c \in Cands(lay) :
        ~ProperSeq(lay, o, c, o.long[c + 1]) => Len(o.long[c + 1]) = 1 /\ AllUsedInShort(lay, o, c)

(* c in candidatesPerAuthor[a]  <=>  a in authorsPerCandidate[c] *)
Symmetric(lay, o) ==
    \A c \in Cands(lay) :
        /\ \A a \in AuthSet(o, c) : a \in Cands(lay) => c \in RecSet(o, a)
        /\ \A d \in RecSet(o, c) : d \in Cands(lay) => c \in AuthSet(o, d)

(* every assigned flip, apart from the single placeholder, is authored by one of c's authors *)
AssignedImpliesRecipient(lay, o) ==
    \A c \in Cands(lay) :
        /\ ProperSeq(lay, o, c, o.short[c + 1])
        /\ Len(o.long[c + 1]) > 1 => ProperSeq(lay, o, c, o.long[c + 1])

(* ... and vice versa: a recipient of author a's key is assigned at least one flip of a *)
RecipientImpliesAssigned(lay, o) ==
    NF(lay) > 0 => \A c \in Cands(lay) :
        LET S == ToSet(o.short[c + 1]) \cup ToSet(o.long[c + 1]) IN
        \A a \in AuthSet(o, c) : (a \in Cands(lay) /\ IsAuthor(lay, a)) => \E f \in FlipsOf(lay, a) : f \in S

If(b, name) == IF b THEN {} ELSE {name}

Verdict(lay, q, o) ==
    IF ~Shape(lay, o) THEN {"Shape"}
    ELSE If(InRange(lay, o), "InRange") \cup If(NoneWhenNoFlips(lay, o), IF FliplessPlaceholderOnly(lay, o) THEN "NoneWhenNoFlips:long-placeholder-in-flipless-shard"
                                                                                         ELSE "NoneWhenNoFlips")
         \cup If(NoDup(lay, o), "NoDup") \cup If(Quota(lay, q, o), "Quota")
         \cup If(LongNonEmpty(lay, o), "LongNonEmpty") \cup If(Placeholder(lay, o), "Placeholder")
         \cup If(Symmetric(lay, o), "Symmetric")
         \cup If(AssignedImpliesRecipient(lay, o), "AssignedImpliesRecipient")
         \cup If(RecipientImpliesAssigned(lay, o), "RecipientImpliesAssigned")

Admissible(lay, q, o) == Verdict(lay, q, o) = {}

(* determinism: the outcome is a function of (layout, quota, seed) *)
Deterministic(mem, lay, q, seed, o) ==
    \A m \in mem : (m.lay = lay /\ m.q = q /\ m.seed = seed) => m.out = o

---------------------------------------------------------------------------
(* key package of author a.                                                                     *)
(*   has    : the author obtained a recipient list (PrivateEncryptionKeyCandidates)               *)
(*   recips : candidate behind every public key of that list, in package order (NoKey for an     *)
(*            empty key)                                                                        *)
(*   ext    : set of [idx, who, res]: entry idx extracted from the encrypted package and         *)
(*            decrypted with candidate who's key: "ok" (the author's private flip key came out), *)
(*            "fail" (an entry came out, who cannot decrypt it), "err" (no such entry)           *)
(*   pub    : the key pool accepted the author's public flip key and key package (nobody can     *)
(*            extract anything from a package the pool refuses); size = bytes of the package     *)
(* Entry i of the package belongs to recipient i of the list WHATEVER the keys of the earlier    *)
(* recipients look like: a key-less recipient keeps its position (its entry decrypts for nobody) *)
(* and every other recipient finds an entry it can decrypt at its own position.                  *)
MaxPackageSize == 1024 * 100   \* mempool.maxPrivateKeysPackageDataSize; only used to NAME the way pub fails
PackageVerdict(lay, o, a, has, recips, ext, pub, size) ==
    If(has = (o.cpa[a + 1] # <<>>) /\ (has => ToSet(recips) = {Canon(lay, c) : c \in RecSet(o, a)}), "Recipients")
    \cup If(\A e \in ext : LET inr == e.idx >= 0 /\ e.idx < Len(recips) IN
                           /\ (e.res = "ok") = (inr /\ recips[e.idx + 1] = e.who /\ e.who \in Cands(lay) /\ ~Keyless(lay, e.who))
                           /\ (e.res = "err") = ~inr, "PackageEntry")
    \cup If(has => pub, IF size > MaxPackageSize THEN "PackagePublished:over-size-limit" ELSE "PackagePublished")

(* candidate c as a solver.                                                                     *)
(*   ss, sl : flip indices behind the cids handed out by GetShortFlipsToSolve/GetLongFlipsToSolve *)
(*   tries  : set of [f, idx, at, res]: for flip f, idx = index of c in the package of f's       *)
(*            author (-1 = none), at = candidate whose key sits at that index, res = "ok" iff c  *)
(*            obtained the author's private flip key                                            *)
(* A key-less candidate cannot decrypt anything (nothing was encrypted for it): it is exempt     *)
(* from KeyReach / AssignedDecrypts; its index is still defined iff it is a recipient.           *)
(*   skip   : authors whose package the pool refused (reported by PackagePublished); the reach  *)
(*            clauses are not evaluated for their flips                                          *)
SolveVerdict(lay, o, c, ss, sl, tries, skip) ==
    LET inR(t) == c \in RecSet(o, Author(lay, t.f))
        assigned == ToSet(o.short[c + 1]) \cup ToSet(o.long[c + 1])
    IN
    If(IF NF(lay) = 0 THEN ss = <<>> /\ sl = <<>> ELSE ss = o.short[c + 1] /\ sl = o.long[c + 1], "SolveMatches")
    \cup If(\A t \in tries : t.f \in FlipIds(lay), "TryRange")
    \cup (IF \E t \in tries : t.f \notin FlipIds(lay) THEN {} ELSE
          If(\A t \in tries : (t.idx # -1) = inR(t) /\ (t.idx # -1 => t.at = Canon(lay, c)), "PkgIndex")
          \cup If(\A t \in tries : (inR(t) /\ Author(lay, t.f) \notin skip /\ ~Keyless(lay, c)) => t.res = "ok", "KeyReach")
          \cup If(\A t \in tries : (~inR(t) \/ Keyless(lay, c)) => t.res # "ok", "KeyLeak")
          \cup If(\A f \in assigned : (f \in FlipIds(lay) /\ Author(lay, f) \in AuthSet(o, c) /\ Author(lay, f) \notin skip /\ ~Keyless(lay, c))
                                        => \E t \in tries : t.f = f /\ t.res = "ok", "AssignedDecrypts"))

---------------------------------------------------------------------------
(* which corners of the relation a run exercises (vacuity control of the conformance runs) *)
EvalCover(lay, q, o) ==
    LET authors == {c \in Cands(lay) : IsAuthor(lay, c)} IN
    (IF NF(lay) = 0 THEN {"eval_noflips"} ELSE {"eval_flips"})
    \cup (IF Cardinality(authors) > 7 THEN {"authors_gt7"} ELSE {})
    \cup (IF authors # {} /\ Cardinality(authors) <= 7 THEN {"authors_le7"} ELSE {})
    \cup (IF NF(lay) > 0 /\ \E c \in Cands(lay) : ~ProperSeq(lay, o, c, o.long[c + 1]) THEN {"placeholder"} ELSE {})
    \cup (IF \E c \in Cands(lay) : Cardinality(AuthSet(o, c)) >= q THEN {"authors_ge_quota"} ELSE {})
    \cup (IF \E c \in Cands(lay) : AuthSet(o, c) # {} /\ Cardinality(AuthSet(o, c)) < q THEN {"authors_lt_quota"} ELSE {})
    \cup (IF \E c \in Cands(lay) : c \in AuthSet(o, c) THEN {"own_flip"} ELSE {})
    \cup (IF \E c \in Cands(lay) : ~NoDupSeq(o.cpa[c + 1]) THEN {"repeated_recipient"} ELSE {})
    \cup (IF \E c \in Cands(lay) : Len(o.cpa[c + 1]) >= 13 /\ NoDupSeq(o.cpa[c + 1]) THEN {"topped_up"} ELSE {})
\* where the key-less recipients sit in a recipient list
PackageCover(lay, recips) ==
    LET kp == {i \in 1..Len(recips) : recips[i] = NoKey \/ (recips[i] \in Cands(lay) /\ Keyless(lay, recips[i]))}
        vp == (1..Len(recips)) \ kp
    IN (IF kp # {} /\ vp # {} /\ 1 \in kp THEN {"pkg_keyless_first"} ELSE {})
       \cup (IF \E i \in kp : (\E j \in vp : j < i) /\ (\E j \in vp : j > i) THEN {"pkg_keyless_middle"} ELSE {})
       \cup (IF kp # {} /\ vp # {} /\ Len(recips) \in kp THEN {"pkg_keyless_last"} ELSE {})
       \cup (IF vp # {} /\ Cardinality({recips[i] : i \in kp}) >= 2 THEN {"pkg_keyless_several"} ELSE {})
       \cup (IF \E i \in kp : recips[i] = NoKey THEN {"pkg_keyless_empty"} ELSE {})
       \cup (IF \E i \in kp : recips[i] # NoKey THEN {"pkg_keyless_malformed"} ELSE {})
SolveCover(lay, o, c, tries) ==
    (IF Keyless(lay, c) /\ tries # {} THEN {"solve_keyless"} ELSE {}) \cup
    (IF \E t \in tries : t.f \in FlipIds(lay) /\ c \in RecSet(o, Author(lay, t.f)) THEN {"try_recipient"} ELSE {})
    \cup (IF \E t \in tries : t.f \in FlipIds(lay) /\ c \notin RecSet(o, Author(lay, t.f)) THEN {"try_non_recipient"} ELSE {})

---------------------------------------------------------------------------
(* the specification proper: guarded actions *)
VARIABLES cur,     \* the last lottery run [lay, q, seed, out], or NoRun
          memo     \* set of runs seen so far (determinism)
lvars == <<cur, memo>>
NoRun == [lay |-> [n |-> 0, k |-> <<>>, fo |-> <<>>, fa |-> <<>>, kl |-> <<>>, tag |-> ""], q |-> 0, seed |-> "",
          out |-> [apc |-> <<>>, cpa |-> <<>>, short |-> <<>>, long |-> <<>>]]

LInit == cur = NoRun /\ memo = {}

Evaluate(lay, q, seed, o) ==
    /\ LayoutOK(lay)
    /\ Admissible(lay, q, o)
    /\ Deterministic(memo, lay, q, seed, o)
    /\ cur' = [lay |-> lay, q |-> q, seed |-> seed, out |-> o]
    /\ memo' = memo \cup {cur'}

Package(a, has, recips, ext, pub, size) ==
    /\ a \in Cands(cur.lay)
    /\ PackageVerdict(cur.lay, cur.out, a, has, recips, ext, pub, size) = {}
    /\ UNCHANGED lvars

Solve(c, ss, sl, tries) ==
    /\ c \in Cands(cur.lay)
    /\ SolveVerdict(cur.lay, cur.out, c, ss, sl, tries, {}) = {}
    /\ UNCHANGED lvars

Forget == cur' = NoRun /\ memo' = {}
=============================================================================
