--------------------------------- MODULE BA ---------------------------------
(* One round of the agreement protocol that PRODUCES block certificates (growth module of C07).     *)
(*                                                                                                  *)
(* Implementation-shaped: per node the step machine of consensus/engine.go loop(), one action per   *)
(* real step, in the order loop() sequences them:                                                    *)
(*   Start         GetProposerSortition; a proposer runs proposeBlock (ProposeBlock, gossip of the   *)
(*                 proof and the block, AddProposedBlock / AddProposeProof on its own pool)           *)
(*   SortDone      getHighestProposerPubKey returns after its sleep: proposals.GetProposerPubKey     *)
(*   GotBlock /    waitForBlock: proposals.GetProposedBlock finds the block of the selected proposer  *)
(*   BlockTimeout  or runs into WaitBlockDelay (the empty block is taken)                            *)
(*   Cast          engine.vote: sign, gossip (SendVote), add to the own vote pool                    *)
(*   CountOK /     engine.countVotes: some hash has the required number of votes of the step in the   *)
(*   CountTimeout  node's pool, or the step timer fires ("votes for step is not received")           *)
(*                 - followed by what reduction() / binaryBa() / loop() do with the result           *)
(*   CommitNow / Fetch / FetchTimeout                                                                *)
(*                 the tail of loop(): count of the final step, AddBlock, WriteFinalConsensus,        *)
(*                 WriteCertificate; getBlockByHash when the block is not among the stored proposals *)
(*   DeliverProof / DeliverBlock / DeliverVote                                                      *)
(*                 the network: every message ever sent may reach any node at any time, any number   *)
(*                 of nodes, in any order, or never (delay, reordering and loss are all "not yet"). *)
(*                 pengings.Proposals keeps only proposals at least as good as the best proof it has *)
(*                 seen (compareWithBestHash); pengings.Votes keeps every vote of the round.          *)
(* Timers are node-local and unconstrained against each other (full asynchrony); a timeout is an     *)
(* explicit action, enabled exactly when the poll finds nothing.                                     *)
(*                                                                                                  *)
(* binaryBa as the code has it (NOT Algorand's three-step pattern):                                  *)
(*   - two steps per iteration; there is no common-coin step;                                       *)
(*   - odd step:  a quorum for a non-empty hash ends BA with that hash (votes for the next two steps,*)
(*                and for Final when it is step 1); time-out => the value for the even step is the    *)
(*                reduction result; a quorum for the empty hash => empty;                            *)
(*   - even step: a quorum for the empty hash ends BA with the empty block (votes for the next two    *)
(*                steps); anything else goes on;                                                     *)
(*   - the vote of every ODD step is for the reduction result `blockHash`: inside the loop `hash` is  *)
(*     re-declared (hash, cert, err := countVotes(..)), so what the even step computed is dropped     *)
(*     at the end of each iteration.  The model follows the code (bh is voted, ih is dead).           *)
(*                                                                                                  *)
(* Nodes are honest (one vote per step, the code's rule), except the members in cf.Byz: they do not  *)
(* run the protocol and may sign any vote of the round, different ones for different receivers       *)
(* (ByzVote).  Votes that no member cast for this round and head (other round, other parent, a        *)
(* stranger's key, ...) are outside `sent`: the trace specification checks that the real counter      *)
(* never counts them.                                                                                *)
(*                                                                                                  *)
(* Properties (invariants, all nodes honest, T and TF majorities of the committee):                  *)
(*   Agreement        no two nodes commit different blocks in the round - FINAL or TENTATIVE, empty    *)
(*                    or not.  (Derived, and checked by TLC: a node ends BA with a non-empty hash h    *)
(*                    only on a quorum that voted h in an odd step; every member of that quorum holds  *)
(*                    bh = h or ended BA with h, so it never votes the empty hash in a later step, so   *)
(*                    the empty hash never reaches a quorum - and vice versa.  The reduction leaves at  *)
(*                    most one non-empty candidate.  The argument is quorum intersection in an honest   *)
(*                    node, so with f equivocating members it needs 2T - N > f: TLC confirms it for N = 4, *)
(*                    T = 3, one equivocator, and finds the disagreement for N = 3, T = 2, one equivocator *)
(*                    (the table of GetCommitteeVotesThreshold is not Byzantine-safe below 4 validators). *)
(*                    It also DEPENDS on the odd steps voting bh: with Algorand's running     *)
(*                    value and no common coin two tentative commits can differ - a build of the real    *)
(*                    engine changed that way was caught committing a block and the empty block.)        *)
(*   CertifiedCommit  every committed block carries a certificate that Cert!AcceptA accepts on every   *)
(*                    node's validator view: >= Thr distinct committee members, genuine votes of this  *)
(*                    round, one step, this block; Final step iff the commit is marked final.         *)
(*   Validity         a committed non-empty block was proposed by a node whose sortition passed.       *)
(*   EmptyOnTimeout   a vote for a non-empty hash is always backed: R1 by the stored block of the        *)
(*                    selected proposer, R2 / step 1 by a quorum of the previous count; a count that    *)
(*                    timed out in the reduction yields the empty hash.                              *)
(* Liveness is not checked.  (Observation, reproducible as the hand case "split-after-R2" of the      *)
(* check: when two of four nodes leave reduction two with the block and two with the empty hash, no     *)
(* step of binaryBa reaches a quorum any more even on a perfect network - the 2:2 split is re-voted in    *)
(* every odd step - and the round ends with "No consensus" after MaxSteps.)                              *)
EXTENDS Integers, Sequences, FiniteSets, TLC

VARIABLES cf,      \* [N, T, TF, MaxSteps, Byz]: committee size (= number of nodes, registry <= 8 so every validator is in every
                   \*   committee), votes required in a non-final / the final step, cfg.Consensus.MaxSteps, and the members
                   \*   that do not run the protocol but may sign any vote, different ones for different receivers (ByzVote)
          props,   \* nodes whose proposer sortition passes; a higher id is a better VRF value
          pc, step,
          best,    \* proposals.bestProofs[round]: best proposer a proof or block was accepted from (0 = none)
          blocks,  \* proposals.blocksByRound[round]: proposers whose block is stored
          sel,     \* the proposer getHighestProposerPubKey returned
          bh,      \* result of reduction() = `blockHash` / outer `hash` of binaryBa
          ih,      \* inner `hash` of the binaryBa loop (dead at the end of an iteration)
          ba,      \* what binaryBa returned: [v, s, voters] (hash, step and voters of its certificate)
          pend,    \* what the tail of loop() is about to commit: [v, final, cs, cv, voters]
          pool,    \* pengings.Votes of the node for this round (own votes and delivered ones)
          due,     \* votes the node casts next, in program order
          sent,    \* every message sent so far
          fetched, \* blocks obtained through getBlockByHash
          commit,  \* [v, final, cs, cv, voters] once the node added a block, else NoCommit
          endk     \* why a node left the round without a block ("" while running or committed)

vars == <<cf, props, pc, step, best, blocks, sel, bh, ih, ba, pend, pool, due, sent, fetched, commit, endk>>

Nodes == 1..cf.N
Honest == Nodes \ cf.Byz
Empty == 0          \* the empty block of the round; p \in Nodes = the block proposed by p
NoVal == -1         \* countVotes found nothing before its timer fired
R1    == 253
R2    == 254
Final == 255
Values == {Empty} \cup Nodes
Thr(s) == IF s = Final THEN cf.TF ELSE cf.T

NoCommit == [v |-> NoVal, final |-> FALSE, cs |-> 0, cv |-> NoVal, voters |-> {}]

D(s, v) == [s |-> s, v |-> v]
VoteMsg(w, s, v) == [t |-> "vote", p |-> 0, w |-> w, s |-> s, v |-> v]
ProofMsg(p) == [t |-> "proof", p |-> p, w |-> 0, s |-> 0, v |-> 0]
BlockMsg(p) == [t |-> "block", p |-> p, w |-> 0, s |-> 0, v |-> 0]

Voters(n, s, v) == {m.w : m \in {x \in pool[n] : x.t = "vote" /\ x.s = s /\ x.v = v}}
Quorum(n, s, v) == Cardinality(Voters(n, s, v)) >= Thr(s)
\* countVotes puts exactly the required number of votes into the certificate it returns
CertOf(n, s, v) == CHOOSE S \in SUBSET Voters(n, s, v) : Cardinality(S) = Thr(s)

InitWith(c, ps) ==
    /\ cf = c /\ props = ps
    /\ pc = [n \in 1..c.N |-> IF n \in c.Byz THEN "done" ELSE "idle"] /\ step = [n \in 1..c.N |-> 0]
    /\ best = [n \in 1..c.N |-> 0] /\ blocks = [n \in 1..c.N |-> {}] /\ sel = [n \in 1..c.N |-> 0]
    /\ bh = [n \in 1..c.N |-> NoVal] /\ ih = [n \in 1..c.N |-> NoVal]
    /\ ba = [n \in 1..c.N |-> NoCommit] /\ pend = [n \in 1..c.N |-> NoCommit]
    /\ pool = [n \in 1..c.N |-> {}] /\ due = [n \in 1..c.N |-> <<>>] /\ sent = {}
    /\ fetched = [n \in 1..c.N |-> {}] /\ commit = [n \in 1..c.N |-> NoCommit]
    /\ endk = [n \in 1..c.N |-> IF n \in c.Byz THEN "byzantine" ELSE ""]

-----------------------------------------------------------------------------
(* proposer sortition, proposal, selection of the block to vote for *)

\* what proposeBlock leaves in the proposer's own pool: its block and proof are kept unless a better proof is known already
StartStores(n) == n \in props /\ n >= best[n]

Start(n) ==
    /\ pc[n] = "idle"
    /\ pc' = [pc EXCEPT ![n] = "sortwait"]
    /\ sent' = IF n \in props THEN sent \cup {ProofMsg(n), BlockMsg(n)} ELSE sent
    /\ blocks' = IF StartStores(n) THEN [blocks EXCEPT ![n] = @ \cup {n}] ELSE blocks
    /\ best' = IF StartStores(n) THEN [best EXCEPT ![n] = n] ELSE best
    /\ UNCHANGED <<cf, props, step, sel, bh, ih, ba, pend, pool, due, fetched, commit, endk>>

ProofAccepted(p, n) == p >= best[n]
DeliverProof(p, n) ==
    /\ ProofMsg(p) \in sent /\ p # n /\ pc[n] # "done"
    /\ best' = IF ProofAccepted(p, n) THEN [best EXCEPT ![n] = p] ELSE best
    /\ UNCHANGED <<cf, props, pc, step, blocks, sel, bh, ih, ba, pend, pool, due, sent, fetched, commit, endk>>

BlockAccepted(p, n) == p >= best[n]
DeliverBlock(p, n) ==
    /\ BlockMsg(p) \in sent /\ p # n /\ pc[n] # "done"
    /\ blocks' = IF BlockAccepted(p, n) THEN [blocks EXCEPT ![n] = @ \cup {p}] ELSE blocks
    /\ best' = IF BlockAccepted(p, n) THEN [best EXCEPT ![n] = p] ELSE best
    /\ UNCHANGED <<cf, props, pc, step, sel, bh, ih, ba, pend, pool, due, sent, fetched, commit, endk>>

\* no proof known: the empty block is taken at once and reduction one waits longer
SortDone(n) ==
    /\ pc[n] = "sortwait"
    /\ sel' = [sel EXCEPT ![n] = best[n]]
    /\ IF best[n] = 0
       THEN /\ pc' = [pc EXCEPT ![n] = "count"] /\ step' = [step EXCEPT ![n] = R1]
            /\ due' = [due EXCEPT ![n] = <<D(R1, Empty)>>]
       ELSE /\ pc' = [pc EXCEPT ![n] = "waitblock"] /\ UNCHANGED <<step, due>>
    /\ UNCHANGED <<cf, props, best, blocks, bh, ih, ba, pend, pool, sent, fetched, commit, endk>>

ToReductionOne(n, v) ==
    /\ pc' = [pc EXCEPT ![n] = "count"] /\ step' = [step EXCEPT ![n] = R1]
    /\ due' = [due EXCEPT ![n] = <<D(R1, v)>>]
    /\ UNCHANGED <<cf, props, best, blocks, sel, bh, ih, ba, pend, pool, sent, fetched, commit, endk>>

GotBlock(n)     == pc[n] = "waitblock" /\ sel[n] \in blocks[n] /\ ToReductionOne(n, sel[n])
BlockTimeout(n) == pc[n] = "waitblock" /\ sel[n] \notin blocks[n] /\ ToReductionOne(n, Empty)

-----------------------------------------------------------------------------
(* votes *)

Cast(n) ==
    /\ due[n] # <<>>
    /\ LET m == VoteMsg(n, Head(due[n]).s, Head(due[n]).v)
       IN /\ pool' = [pool EXCEPT ![n] = @ \cup {m}]
          /\ sent' = sent \cup {m}
    /\ due' = [due EXCEPT ![n] = Tail(@)]
    /\ UNCHANGED <<cf, props, pc, step, best, blocks, sel, bh, ih, ba, pend, fetched, commit, endk>>

DeliverVote(m, n) ==
    /\ m \in sent /\ m.t = "vote" /\ m.w # n
    /\ pool' = [pool EXCEPT ![n] = @ \cup {m}]
    /\ UNCHANGED <<cf, props, pc, step, best, blocks, sel, bh, ih, ba, pend, due, sent, fetched, commit, endk>>

\* an equivocating member signs whatever it likes, whenever it likes
ByzVote(z, s, v) ==
    /\ z \in cf.Byz
    /\ sent' = sent \cup {VoteMsg(z, s, v)}
    /\ UNCHANGED <<cf, props, pc, step, best, blocks, sel, bh, ih, ba, pend, pool, due, fetched, commit, endk>>

IsBaStep(s) == s >= 1 /\ s < R1

\* what reduction() / binaryBa() / the tail of loop() do with the result `res` of countVotes for step[n];
\* vs = the voters of the certificate countVotes returned ({} on a time-out)
AfterCount(n, res, vs) ==
    LET s == step[n]
        h == IF res = NoVal THEN Empty ELSE res IN
    /\ CASE s = R1 ->
              /\ step' = [step EXCEPT ![n] = R2] /\ due' = [due EXCEPT ![n] = <<D(R2, h)>>]
              /\ UNCHANGED <<pc, bh, ih, ba, pend, endk>>
         [] s = R2 ->
              /\ bh' = [bh EXCEPT ![n] = h]
              /\ IF 1 < cf.MaxSteps
                 THEN /\ step' = [step EXCEPT ![n] = 1] /\ due' = [due EXCEPT ![n] = <<D(1, h)>>] /\ UNCHANGED <<pc, endk>>
                 ELSE /\ pc' = [pc EXCEPT ![n] = "done"] /\ endk' = [endk EXCEPT ![n] = "noconsensus"] /\ UNCHANGED <<step, due>>
              /\ UNCHANGED <<ih, ba, pend>>
         [] IsBaStep(s) /\ s % 2 = 1 ->
              IF res # NoVal /\ res # Empty
              THEN \* binaryBa returns res with the certificate of this step; loop() counts the final step next
                   /\ ba' = [ba EXCEPT ![n] = [v |-> res, final |-> FALSE, cs |-> s, cv |-> res, voters |-> vs]]
                   /\ due' = [due EXCEPT ![n] = <<D(s + 1, res), D(s + 2, res)>> \o (IF s = 1 THEN <<D(Final, res)>> ELSE <<>>)]
                   /\ step' = [step EXCEPT ![n] = Final]
                   /\ UNCHANGED <<pc, bh, ih, pend, endk>>
              ELSE /\ ih' = [ih EXCEPT ![n] = IF res = NoVal THEN bh[n] ELSE Empty]
                   /\ step' = [step EXCEPT ![n] = s + 1]
                   /\ due' = [due EXCEPT ![n] = <<D(s + 1, IF res = NoVal THEN bh[n] ELSE Empty)>>]
                   /\ UNCHANGED <<pc, bh, ba, pend, endk>>
         [] IsBaStep(s) /\ s % 2 = 0 ->
              IF res = Empty
              THEN \* binaryBa returns the empty hash: no final count, the empty block is added with this certificate
                   /\ due' = [due EXCEPT ![n] = <<D(s + 1, Empty), D(s + 2, Empty)>>]
                   /\ pend' = [pend EXCEPT ![n] = [v |-> Empty, final |-> FALSE, cs |-> s, cv |-> Empty, voters |-> vs]]
                   /\ pc' = [pc EXCEPT ![n] = "commit"]
                   /\ UNCHANGED <<step, bh, ih, ba, endk>>
              ELSE /\ ih' = [ih EXCEPT ![n] = h]
                   /\ IF s + 1 < cf.MaxSteps
                      THEN \* next iteration: the OUTER hash (= blockHash) is voted
                           /\ step' = [step EXCEPT ![n] = s + 1] /\ due' = [due EXCEPT ![n] = <<D(s + 1, bh[n])>>]
                           /\ UNCHANGED <<pc, endk>>
                      ELSE /\ pc' = [pc EXCEPT ![n] = "done"] /\ endk' = [endk EXCEPT ![n] = "noconsensus"]
                           /\ UNCHANGED <<step, due>>
                   /\ UNCHANGED <<bh, ba, pend>>
         [] s = Final ->
              \* loop() goes straight on to getBlockByHash: whether the block is among the stored proposals is decided now
              LET np == IF res # NoVal THEN [v |-> res, final |-> TRUE, cs |-> Final, cv |-> res, voters |-> vs] ELSE ba[n]
              IN /\ pend' = [pend EXCEPT ![n] = np]
                 /\ pc' = [pc EXCEPT ![n] = IF np.v = Empty \/ np.v \in blocks[n] THEN "commit" ELSE "getblock"]
                 /\ UNCHANGED <<step, due, bh, ih, ba, endk>>
    /\ UNCHANGED <<cf, props, best, blocks, sel, fetched, commit>>     \* pool and sent: left to the caller

Counting(n) == pc[n] = "count" /\ due[n] = <<>>
CountOK(n, v)   == Counting(n) /\ Quorum(n, step[n], v) /\ AfterCount(n, v, CertOf(n, step[n], v)) /\ UNCHANGED <<pool, sent>>
CountTimeout(n) == Counting(n) /\ (\A v \in Values : ~Quorum(n, step[n], v)) /\ AfterCount(n, NoVal, {}) /\ UNCHANGED <<pool, sent>>

-----------------------------------------------------------------------------
(* the tail of loop(): add the block, write the certificate *)

DoCommit(n) ==
    /\ commit' = [commit EXCEPT ![n] = pend[n]]
    /\ pc' = [pc EXCEPT ![n] = "done"]
    /\ UNCHANGED <<cf, props, step, best, blocks, sel, bh, ih, ba, pend, pool, due, sent, fetched, endk>>

CommitNow(n) == pc[n] = "commit" /\ due[n] = <<>> /\ DoCommit(n)

\* pc = "getblock": the agreed block was not among the stored proposals (ApproveBlock + RequestBlockByHash, then the block
\* cache is polled; a proposal that arrives now is stored but not looked at any more)
HasBlock(n, v) == v = Empty \/ v \in blocks[n]

\* a peer answers GetBlockByHash from its chain: only a node that has added the block can
CanServe(m, v) == commit[m].v = v
Fetch(n, m) ==
    /\ pc[n] = "getblock" /\ m # n /\ CanServe(m, pend[n].v)
    /\ fetched' = [fetched EXCEPT ![n] = @ \cup {pend[n].v}]
    /\ commit' = [commit EXCEPT ![n] = pend[n]]
    /\ pc' = [pc EXCEPT ![n] = "done"]
    /\ UNCHANGED <<cf, props, step, best, blocks, sel, bh, ih, ba, pend, pool, due, sent, endk>>

FetchTimeout(n) ==
    /\ pc[n] = "getblock"
    /\ pc' = [pc EXCEPT ![n] = "done"] /\ endk' = [endk EXCEPT ![n] = "notfound"]
    /\ UNCHANGED <<cf, props, step, best, blocks, sel, bh, ih, ba, pend, pool, due, sent, fetched, commit>>

-----------------------------------------------------------------------------
Next ==
    \/ \E n \in Nodes : \/ Start(n) \/ SortDone(n) \/ GotBlock(n) \/ BlockTimeout(n) \/ Cast(n)
                        \/ CountTimeout(n) \/ (\E v \in Values : CountOK(n, v))
                        \/ CommitNow(n) \/ FetchTimeout(n) \/ (\E m \in Nodes : Fetch(n, m))
                        \/ (\E p \in Nodes : DeliverProof(p, n) \/ DeliverBlock(p, n))
                        \/ (\E m \in sent : DeliverVote(m, n))
                        \/ (\E s \in {R1, R2, Final} \cup 1..(cf.MaxSteps + 2), v \in Values : ByzVote(n, s, v))

-----------------------------------------------------------------------------
(* properties *)

Committed(n) == commit[n].v # NoVal

Agreement == \A m, n \in Nodes : Committed(m) /\ Committed(n) => commit[m].v = commit[n].v
FinalAgreement == \A m, n \in Nodes : Committed(m) /\ Committed(n) /\ commit[m].final => commit[m].v = commit[n].v

\* the certificate as ValidateBlockCert sees it on ANY node (every node derives the same committee): Cert!AcceptA
Cert == INSTANCE Cert WITH Params <- [pctN |-> 3000, pctF |-> 7000, agree |-> 6500, maxc |-> 100]
RECURSIVE SetToSeq(_)
SetToSeq(S) == IF S = {} THEN <<>> ELSE LET x == CHOOSE y \in S : \A z \in S : y <= z IN <<x>> \o SetToSeq(S \ {x})
\* votes of a certificate in Cert's vocabulary: round 0 = this round, parent 0 = the head, hash = the value code
CertVotes(voters, s, v) == [i \in 1..Len(SetToSeq(voters)) |->
                              [voter |-> SetToSeq(voters)[i], round |-> 0, step |-> s, hash |-> v, parent |-> 0, flag |-> 0, sig |-> "good"]]
CertAccepted(c) == Cert!AcceptA(Nodes, CertVotes(c.voters, c.cs, c.cv), FALSE, c.v, Thr(c.cs))
CertGenuine(c)  == \A w \in c.voters : VoteMsg(w, c.cs, c.cv) \in sent
CertifiedCommit == \A n \in Nodes : Committed(n) =>
                       /\ CertAccepted(commit[n]) /\ CertGenuine(commit[n])
                       /\ (commit[n].final <=> commit[n].cs = Final)

Validity == \A n \in Nodes : Committed(n) /\ commit[n].v # Empty => commit[n].v \in props /\ BlockMsg(commit[n].v) \in sent

\* a non-empty vote is backed
EmptyOnTimeout ==
    \A m \in sent : m.t = "vote" /\ m.v # Empty /\ m.w \in Honest =>
        /\ m.s = R1 => m.v = sel[m.w] /\ m.v \in blocks[m.w]
        /\ m.s = R2 => Quorum(m.w, R1, m.v)
        /\ m.s = 1  => Quorum(m.w, R2, m.v)
\* and a non-empty block is committed only if quorums voted for it in both reduction steps
BackedCommit == \A n \in Nodes : Committed(n) /\ commit[n].v # Empty =>
                    /\ Cardinality({m.w : m \in {x \in sent : x.t = "vote" /\ x.s = R1 /\ x.v = commit[n].v}}) >= cf.T
                    /\ Cardinality({m.w : m \in {x \in sent : x.t = "vote" /\ x.s = R2 /\ x.v = commit[n].v}}) >= cf.T

OneVotePerStep == \A m1, m2 \in sent : m1.t = "vote" /\ m2.t = "vote" /\ m1.w = m2.w /\ m1.w \in Honest /\ m1.s = m2.s => m1.v = m2.v

TypeOK == /\ \A n \in Nodes : pc[n] \in {"idle", "sortwait", "waitblock", "count", "commit", "getblock", "done"}
          /\ \A n \in Nodes : best[n] \in 0..cf.N /\ blocks[n] \subseteq props
=============================================================================
