CONSTANTS
  MaxN = 6
  MaxK = 3
  Qs = {1, 2, 3, 8}
  Rots = {0, 1, 3}
  ExportOn = TRUE
INIT MInit
NEXT MNext
INVARIANTS RefAdmissible EndToEnd ExportInv
CHECK_DEADLOCK FALSE
