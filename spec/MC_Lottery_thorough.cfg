CONSTANTS
  MaxN = 6
  MaxK = 3
  Qs = {1, 2, 3, 8}
  Rots = {0, 1, 3}
  ExportOn = TRUE
  MaxKL = 2
  KLFullN = 4
  KLSamples = 2
  KLMaxN = 6
INIT MInit
NEXT MNext
INVARIANTS RefAdmissible EndToEnd SkipRejected ExportInv
CHECK_DEADLOCK FALSE
