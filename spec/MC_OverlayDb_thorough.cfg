CONSTANTS
  Keys = {2, 4}
  Vals = {1, 2}
  Borders = {1, 2, 3, 4, 5}
  MaxOps = 4
  MaxBatch = 2
  ExportOn = TRUE
INIT Init
NEXT Next
VIEW view
INVARIANTS TypeOK Refines BaseUnchanged
ACTION_CONSTRAINT Export
CHECK_DEADLOCK FALSE
