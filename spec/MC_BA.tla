------------------------------- MODULE MC_BA -------------------------------
(* Bounded exhaustive exploration of BA + export of schedules for replay on N real engines.          *)
(*                                                                                                  *)
(* MNext explores a REDUCED set of interleavings that still contains, for every behaviour of BA, a   *)
(* behaviour in which every node takes the same steps with the same results:                         *)
(*   - a node's pending votes are cast before anything else happens (Cast is local, always enabled    *)
(*     and commutes with every action of the other nodes);                                          *)
(*   - slowest first: a node takes a protocol step only when no other node is in an earlier phase of  *)
(*     the round.  What a count sees depends only on which votes of its step are in the pool; a vote  *)
(*     of step s is cast by a node on entering s or, ahead of time, on leaving s-1 / s-2, so under    *)
(*     this order every vote that is ever cast for a step exists before the step is counted anywhere, *)
(*     and "the vote did not arrive in time" is simply "not delivered";                              *)
(*   - votes are delivered only to a node that counts their step, and only as a whole quorum right   *)
(*     before the count succeeds (one canonical quorum: the node's own vote first, then the smallest  *)
(*     ids); votes that do not complete a quorum change nothing;                                     *)
(*   - a proof is delivered only while it can still change the best proof before the node has its     *)
(*     block; a block only then, or while the node counts the final step;                             *)
(*   - the proposers are the top ids (non-proposers are interchangeable, proposers are ranked by id); *)
(*   - an equivocating member (MByz) never runs; whatever vote of it completes a quorum is taken as   *)
(*     sent and delivered at that moment (it can sign anything for anybody), after the honest votes.  *)
(* SNext is the unreduced Next of BA with the schedule recorded, for random simulation.               *)
EXTENDS BA, Json

CONSTANTS MN, MT, MTF, MMaxSteps,   \* the instance
          ExportOn, SampleMod,       \* export 1/SampleMod of the transitions that end a node's round
          Ks,                        \* numbers of proposers to explore
          MByz,                      \* equivocating members (they never run; any vote of theirs is available on demand)
          TimeoutOdds                \* simulation: a timer fires with probability 1/TimeoutOdds when it is looked at

VARIABLE hist
mvars == <<vars, hist>>

\* VIEW: two states are the same for the exploration when they agree on everything a later step can read.  Votes of
\* steps that no running node will count any more (in `sent`), votes of steps a node has passed (in its pool), the
\* dead inner hash and the schedule are left out.  Properties that talk about such history are therefore stated as
\* ACTION properties (StepProps below): TLC evaluates them on every explored transition with the full states.
StepOrd(s) == IF s = R1 THEN 1 ELSE IF s = R2 THEN 2 ELSE IF s = Final THEN 1000 ELSE 2 + s
NodeOrd(n) == IF pc[n] \in {"idle", "sortwait", "waitblock"} THEN 0
              ELSE IF pc[n] = "count" THEN StepOrd(step[n]) ELSE 2000
MinOrd == CHOOSE o \in {NodeOrd(n) : n \in Nodes} : \A n \in Nodes : NodeOrd(n) >= o
LiveSent == {m \in sent : m.t # "vote" \/ StepOrd(m.s) >= MinOrd}
LivePool == [n \in Nodes |-> {m \in pool[n] : StepOrd(m.s) >= NodeOrd(n)}]
view == <<cf, props, pc, step, best, blocks, sel, bh, ba, pend, LivePool, due, LiveSent, fetched, commit, endk>>

Lab(a, n, t, p, w, s, v, m) == [a |-> a, n |-> n, t |-> t, p |-> p, w |-> w, s |-> s, v |-> v, m |-> m]
L0(a, n) == Lab(a, n, "", 0, 0, 0, 0, 0)

MInit == /\ \E k \in Ks : InitWith([N |-> MN, T |-> MT, TF |-> MTF, MaxSteps |-> MMaxSteps, Byz |-> MByz], (MN - k + 1)..MN)
         /\ hist = <<>>

SomeDue == \E n \in Nodes : due[n] # <<>>
FirstDue == CHOOSE n \in Nodes : due[n] # <<>> /\ \A m \in Nodes : due[m] # <<>> => n <= m

Phase(n) == CASE pc[n] = "idle" -> 0
              [] pc[n] = "sortwait" -> 1
              [] pc[n] = "waitblock" -> 2
              [] pc[n] = "count" -> (IF step[n] = R1 THEN 3 ELSE IF step[n] = R2 THEN 4 ELSE IF step[n] = Final THEN 1000 ELSE 4 + step[n])
              [] pc[n] = "commit" -> 1001
              [] pc[n] = "getblock" -> 1002
              [] OTHER -> 2000
Slowest(n) == \A m \in Nodes : Phase(m) >= Phase(n)

EarlyPc(n) == pc[n] \in {"idle", "sortwait", "waitblock"}
NeedsProof(p, n) == EarlyPc(n) /\ p > best[n]
NeedsBlock(p, n) == /\ p \notin blocks[n] /\ p >= best[n]
                    /\ \/ EarlyPc(n)
                       \/ (pc[n] = "count" /\ step[n] = Final /\ due[n] = <<>> /\ ba[n].v = p)

\* the canonical quorum for (step[n], v) among the votes sent so far: own vote first, then the smallest ids
Avail(n, v) == {m.w : m \in {x \in sent : x.t = "vote" /\ x.s = step[n] /\ x.v = v}} \cup cf.Byz
RECURSIVE Smallest(_, _)
Smallest(S, k) == IF k = 0 \/ S = {} THEN {} ELSE LET x == CHOOSE y \in S : \A z \in S : y <= z IN {x} \cup Smallest(S \ {x}, k - 1)
\* honest votes first (own vote first of all), an equivocator's vote only to fill up
HonestAvail(n, v) == Avail(n, v) \ cf.Byz
OwnFirst(n, v) == IF n \in HonestAvail(n, v) THEN {n} ELSE {}
QuorumSet(n, v) == LET h == OwnFirst(n, v) \cup Smallest(HonestAvail(n, v) \ {n}, Thr(step[n]) - Cardinality(OwnFirst(n, v)))
                   IN h \cup Smallest(cf.Byz, Thr(step[n]) - Cardinality(h))
DeliverLabs(n, S, s, v) == [i \in 1..Len(SetToSeq(S)) |-> Lab("Deliver", n, "vote", 0, SetToSeq(S)[i], s, v, 0)]
CountOKd(n, v) ==
    /\ Counting(n) /\ Cardinality(Avail(n, v)) >= Thr(step[n])
    /\ LET Q == QuorumSet(n, v)
       IN /\ pool' = [pool EXCEPT ![n] = @ \cup {VoteMsg(w, step[n], v) : w \in Q}]
          /\ sent' = sent \cup {VoteMsg(w, step[n], v) : w \in Q \cap cf.Byz}
          /\ AfterCount(n, v, Q)
          /\ hist' = hist \o DeliverLabs(n, Q \ {n}, step[n], v) \o <<Lab("CountOK", n, "", 0, 0, step[n], v, 0)>>

MNext ==
    IF SomeDue
    THEN Cast(FirstDue) /\ hist' = Append(hist, L0("Cast", FirstDue))
    ELSE \E n \in Nodes :
           \/ /\ Slowest(n)
              /\ \/ Start(n) /\ hist' = Append(hist, L0("Start", n))
                 \/ SortDone(n) /\ hist' = Append(hist, L0("SortDone", n))
                 \/ GotBlock(n) /\ hist' = Append(hist, L0("GotBlock", n))
                 \/ BlockTimeout(n) /\ hist' = Append(hist, L0("BlockTimeout", n))
                 \/ CountTimeout(n) /\ hist' = Append(hist, Lab("CountTimeout", n, "", 0, 0, step[n], 0, 0))
                 \/ \E v \in Values : CountOKd(n, v)
                 \/ CommitNow(n) /\ hist' = Append(hist, L0("Commit", n))
                 \/ FetchTimeout(n) /\ hist' = Append(hist, L0("FetchTimeout", n))
                 \/ \E m \in Nodes : Fetch(n, m) /\ hist' = Append(hist, Lab("Fetch", n, "", 0, 0, 0, 0, m))
           \/ \E p \in props : NeedsProof(p, n) /\ DeliverProof(p, n) /\ hist' = Append(hist, Lab("Deliver", n, "proof", p, 0, 0, 0, 0))
           \/ \E p \in props : NeedsBlock(p, n) /\ DeliverBlock(p, n) /\ hist' = Append(hist, Lab("Deliver", n, "block", p, 0, 0, 0, 0))

\* unreduced, for simulation (a vote is not delivered twice, a proposal not to a node that has it or ended)
SNext ==
    \E n \in Nodes :
       \/ Start(n) /\ hist' = Append(hist, L0("Start", n))
       \/ SortDone(n) /\ hist' = Append(hist, L0("SortDone", n))
       \/ GotBlock(n) /\ hist' = Append(hist, L0("GotBlock", n))
       \/ BlockTimeout(n) /\ RandomElement(1..TimeoutOdds) = 1 /\ hist' = Append(hist, L0("BlockTimeout", n))
       \/ Cast(n) /\ hist' = Append(hist, L0("Cast", n))
       \/ CountTimeout(n) /\ RandomElement(1..TimeoutOdds) = 1 /\ hist' = Append(hist, Lab("CountTimeout", n, "", 0, 0, step[n], 0, 0))
       \/ \E v \in Values : CountOK(n, v) /\ hist' = Append(hist, Lab("CountOK", n, "", 0, 0, step[n], v, 0))
       \/ CommitNow(n) /\ hist' = Append(hist, L0("Commit", n))
       \/ FetchTimeout(n) /\ hist' = Append(hist, L0("FetchTimeout", n))
       \/ \E m \in Nodes : Fetch(n, m) /\ hist' = Append(hist, Lab("Fetch", n, "", 0, 0, 0, 0, m))
       \/ \E p \in props : pc[n] # "done" /\ p > best[n] /\ DeliverProof(p, n) /\ hist' = Append(hist, Lab("Deliver", n, "proof", p, 0, 0, 0, 0))
       \/ \E p \in props : pc[n] # "done" /\ p \notin blocks[n] /\ DeliverBlock(p, n) /\ hist' = Append(hist, Lab("Deliver", n, "block", p, 0, 0, 0, 0))
       \/ \E m \in sent : pc[n] # "done" /\ m \notin pool[n] /\ DeliverVote(m, n) /\ hist' = Append(hist, Lab("Deliver", n, "vote", 0, m.w, m.s, m.v, 0))
       \/ \E o \in Honest, v \in Values :        \* an equivocator signs a vote of the step some honest node is counting
             /\ pc[o] = "count" /\ VoteMsg(n, step[o], v) \notin sent /\ RandomElement(1..TimeoutOdds) = 1
             /\ ByzVote(n, step[o], v) /\ hist' = Append(hist, L0("ByzVote", n))

-----------------------------------------------------------------------------
(* the history-dependent properties as action properties (see VIEW) *)
QuorumP(n, s, v) == Cardinality({m.w : m \in {x \in pool'[n] : x.t = "vote" /\ x.s = s /\ x.v = v}}) >= Thr(s)
NewDue(n) == IF due'[n] # due[n] /\ Len(due'[n]) >= Len(due[n]) THEN {due'[n][i] : i \in 1..Len(due'[n])} ELSE {}
EmptyOnTimeoutStep ==
    \A n \in Nodes : \A d \in NewDue(n) : d.v # Empty =>
        /\ d.s = R1 => d.v = sel'[n] /\ d.v \in blocks'[n]
        /\ d.s = R2 => QuorumP(n, R1, d.v)
        /\ d.s = 1  => QuorumP(n, R2, d.v)
SentVoters(s, v) == {m.w : m \in {x \in sent' : x.t = "vote" /\ x.s = s /\ x.v = v}}
BackedCommitStep ==
    \A n \in Nodes : commit'[n] # commit[n] /\ commit'[n].v # Empty =>
        Cardinality(SentVoters(R1, commit'[n].v)) >= cf.T /\ Cardinality(SentVoters(R2, commit'[n].v)) >= cf.T
CertGenuineStep ==
    \A n \in Nodes : /\ ba'[n] # ba[n] => \A w \in ba'[n].voters : VoteMsg(w, ba'[n].cs, ba'[n].cv) \in sent'
                      /\ pend'[n] # pend[n] => \A u \in pend'[n].voters : VoteMsg(u, pend'[n].cs, pend'[n].cv) \in sent'
OneVotePerStepStep ==
    \A m \in sent' \ sent : m.t = "vote" /\ m.w \in Honest => \A x \in sent : x.t = "vote" /\ x.w = m.w /\ x.s = m.s => x.v = m.v
StepProps == [][EmptyOnTimeoutStep /\ BackedCommitStep /\ CertGenuineStep /\ OneVotePerStepStep]_mvars
\* the state invariants that only read what the VIEW keeps
CertifiedCommitV == \A n \in Nodes : Committed(n) => CertAccepted(commit[n]) /\ (commit[n].final <=> commit[n].cs = Final)

-----------------------------------------------------------------------------
(* export: one schedule for (a sample of) the transitions in which a node's round ends; the kind tells what ended how *)
Ended(n) == pc[n] # "done" /\ pc'[n] = "done"
NDone == Cardinality({n \in Nodes : pc'[n] = "done"})
KindOf(n) ==
    "n" \o ToString(cf.N) \o "k" \o ToString(Cardinality(props)) \o (IF cf.Byz # {} THEN "z" ELSE "") \o ":" \o
    (IF commit'[n].v = NoVal THEN endk'[n]
     ELSE (IF commit'[n].v = Empty THEN "empty" ELSE IF commit'[n].final THEN "final" ELSE "tentative")
          \o "@" \o ToString(commit'[n].cs)
          \o (IF fetched'[n] # {} THEN "+fetched" ELSE ""))
    \o ":done" \o ToString(NDone)
Rec(n) == [kind |-> KindOf(n), n |-> cf.N, k |-> Cardinality(props), maxsteps |-> cf.MaxSteps, byz |-> SetToSeq(cf.Byz), sched |-> hist']
Export ==
    IF ExportOn /\ (\E n \in Nodes : Ended(n)) /\ RandomElement(1..SampleMod) = 1
    THEN PrintT(ToJson(Rec(CHOOSE x \in Nodes : Ended(x))))
    ELSE TRUE
\* simulation: export the behaviour when the last node ends
ExportEnd ==
    IF ExportOn /\ (\E n \in Nodes : Ended(n)) /\ NDone = cf.N
    THEN PrintT(ToJson(Rec(CHOOSE x \in Nodes : Ended(x))))
    ELSE TRUE
=============================================================================
