------------------------------- MODULE KeysPool -------------------------------
(* Publication and delivery of flip keys through the key pools (growth module "KEYS" of C16).                *)
(*                                                                                                          *)
(* What is modelled (one definition per real step; written over explicit records so that the bounded model   *)
(* MC_KeysPool and the trace specification Trace_KeysPool share them):                                       *)
(*   core/mempool/keyspool.go   putPublicFlipKey / putPrivateFlipKeysPackage  -> CodeOf, Admit, AdmitAll      *)
(*                              (sender recovered from the signature; "already published" is looked up       *)
(*                              BEFORE validation; validateFlipKey / validateFlipKeysPackage / validateKey:  *)
(*                              size, signature, epoch of the pool's head state, author has flips there)     *)
(*                              GetFlipKeysForSync / GetFlipPackagesHashesForSync / GetPriority...           *)
(*                              -> OfferK, OfferP, PrioK, PrioP, AfterSync   (sync-time rules: stopSync,     *)
(*                              per-entry offer counters, own = high priority entries go to the priority     *)
(*                              list only, shard filter)                                                    *)
(*                              Clear  -> EmptyPool      Initialize over the epoch database -> RestartPool   *)
(*   core/ceremony/ceremony.go  handleFlipLotteryPeriod / asyncFlipLotteryCalculations /                     *)
(*                              tryToBroadcastFlipKeysPackage / delayedFlipPackageBroadcast /                *)
(*                              handleShortSessionPeriod / startShortSession (block and timer) /             *)
(*                              handleLongSessionPeriod / handleAfterLongSessionPeriod / completeEpoch /     *)
(*                              restoreState -> Attempts, StopAfter, ArmedAfterRestart ...                   *)
(*                                                                                                          *)
(* A message is a record [id, kd, snd, ep, c]:                                                              *)
(*   kd   0 = public flip key, 1 = private keys package                                                     *)
(*   snd  the identity the signature recovers to (NoSender: no address recoverable, Stranger: nobody known) *)
(*   ep   the epoch written in the message (covered by the signature)                                       *)
(*   c    content class: "g" genuine (made by the author's own ceremony), "x" another well-formed public     *)
(*        key, "e" a package equivalent to the genuine one (same keys for the same recipients, encrypted      *)
(*        again: a second machine of the same identity), "s" a package with too few entries, "len" a key    *)
(*        that is not 32 bytes, "big" a package above the size limit; everything else is a label only       *)
(* Pools hold message ids; tab maps an id to its record.                                                    *)
(* A pool is [keys, pkgs : [U -> id], own : SUBSET id, stop : BOOLEAN, kcnt, pcnt : [U -> Nat]]              *)
(* (own = entries published by the node's own ceremony: high priority; kcnt / pcnt = how often the entry of  *)
(* the sender was offered to a syncing peer).  A node's view of the chain is [ep, au]: the epoch of its head *)
(* state and the identities that have flips there.                                                          *)
(*                                                                                                          *)
(* Chain positions of a node (segments of one fixed chain, see harness/cmd/d_keys):                          *)
(*   0 Ready (flips in the state, period None)   1 Lot (FlipLotteryStarted, V-280)   2 LotLate (V-100)       *)
(*   3 Short (ShortSessionStarted, V+1)   4 Long (V+121)   5 LongLate (V+400)   6 After (V+721)              *)
(*   7 Epoch (ValidationFinished: next epoch, no flips)   8 Ready2 (new flips)   9 Lot2   10 LotLate2        *)
(*   11 Short2                                                                                              *)
(* clk = the furthest segment that exists (time has passed up to it); a node adds segments one by one.       *)
EXTENDS Integers, Sequences, FiniteSets, TLC

None == 0
NoSender == -1
Stranger == -2

RelPos(p) == IF p >= 8 THEN p - 8 ELSE p
RoundOf(p) == IF p >= 7 THEN 2 ELSE 1
LotteryAt(p) == RelPos(p) \in 1..6             \* the node's lottery is computed (and not yet dropped)
\* time-dependent rules of the ceremony, for a node at position p when the clock is at segment c
PkgWindow(p, c) == c >= (IF p >= 7 THEN 10 ELSE 2)    \* less than lotteryDuration - 120 s to the validation time
AfterV(p, c) == c >= (IF p >= 7 THEN 11 ELSE 3)       \* validation time has passed
StopTime(p, c) == p <= 6 /\ c >= 5                    \* validation time + 240 s has passed

---------------------------------------------------------------------------
(* admission *)

SizeOk(m) == (m.kd = 0 => m.c # "len") /\ (m.kd = 1 => m.c # "big")

\* validateFlipKey / validateFlipKeysPackage -> validateKey, in the code's order
Reason(view, m) ==
    IF ~SizeOk(m) THEN (IF m.kd = 0 THEN "len" ELSE "big")
    ELSE IF m.snd = NoSender THEN "sig"
    ELSE IF m.ep # view.ep THEN "epoch"
    ELSE IF m.snd \notin view.au THEN "flips"
    ELSE "ok"

HeldFor(U, pool, m) == IF m.snd \in U THEN (IF m.kd = 0 THEN pool.keys[m.snd] ELSE pool.pkgs[m.snd]) ELSE None

EpOf(tab, h) == IF h \in DOMAIN tab THEN tab[h].ep ELSE -1      \* (an entry the scenario does not know: never "already")

\* the answer of AddPublicFlipKey / AddPrivateKeysPackage
CodeOf(tab, U, pool, view, m) ==
    LET h == HeldFor(U, pool, m)
    IN IF h # None /\ EpOf(tab, h) >= m.ep THEN "already" ELSE Reason(view, m)

Admit(tab, U, pool, view, m, own) ==
    IF CodeOf(tab, U, pool, view, m) # "ok" THEN pool
    ELSE IF m.kd = 0 THEN [pool EXCEPT !.keys[m.snd] = m.id, !.own = IF own THEN @ \cup {m.id} ELSE @]
         ELSE [pool EXCEPT !.pkgs[m.snd] = m.id, !.own = IF own THEN @ \cup {m.id} ELSE @]

RECURSIVE AdmitAll(_, _, _, _, _)
AdmitAll(tab, U, pool, view, ms) ==
    IF ms = <<>> THEN pool ELSE AdmitAll(tab, U, Admit(tab, U, pool, view, Head(ms), FALSE), view, Tail(ms))

EmptyPool(U) == [keys |-> [a \in U |-> None], pkgs |-> [a \in U |-> None], own |-> {}, stop |-> FALSE,
                 kcnt |-> [a \in U |-> 0], pcnt |-> [a \in U |-> 0]]

\* a restarted node reads the persisted keys and packages of the running epoch back (every admitted entry was persisted);
\* priority flags, offer counters and the decrypted-array cache are process state
RestartPool(U, pool, stopNow) == [pool EXCEPT !.own = {}, !.stop = stopNow, !.kcnt = [a \in U |-> 0], !.pcnt = [a \in U |-> 0]]

HeldIds(U, pool) == ({pool.keys[a] : a \in U} \cup {pool.pkgs[a] : a \in U}) \ {None}

---------------------------------------------------------------------------
(* what a syncing peer is offered (sh = 0: a peer of every shard) *)

PrioK(U, pool) == IF pool.stop THEN {} ELSE {a \in U : pool.keys[a] # None /\ pool.keys[a] \in pool.own}
PrioP(U, pool) == IF pool.stop THEN {} ELSE {a \in U : pool.pkgs[a] # None /\ pool.pkgs[a] \in pool.own}
OfferK(U, pool, shardOf, sh, nf, max) ==
    IF pool.stop THEN {}
    ELSE {a \in U : /\ pool.keys[a] # None /\ pool.keys[a] \notin pool.own
                    /\ (sh = 0 \/ shardOf[a] = sh) /\ (nf \/ pool.kcnt[a] <= max)}
OfferP(U, pool, shardOf, sh, nf, max) ==
    IF pool.stop THEN {}
    ELSE {a \in U : /\ pool.pkgs[a] # None /\ pool.pkgs[a] \notin pool.own
                    /\ (sh = 0 \/ shardOf[a] = sh) /\ (nf \/ pool.pcnt[a] <= max)}
AfterSync(U, pool, kshard, pshard, sh, nf, max) ==
    [pool EXCEPT !.kcnt = [a \in U |-> IF a \in OfferK(U, pool, kshard, sh, nf, max) THEN @[a] + 1 ELSE @[a]],
                 !.pcnt = [a \in U |-> IF a \in OfferP(U, pool, pshard, sh, nf, max) THEN @[a] + 1 ELSE @[a]]]

---------------------------------------------------------------------------
(* the ceremony of a node: what it tries to publish when it has reached position p (by adding the block, or by        *)
(* restarting there: Initialize runs the period's block handler on the head block again) with the clock at segment c  *)

Attempts(p, c) ==
    CASE RelPos(p) = 1 -> IF PkgWindow(p, c) THEN <<1>> ELSE <<>>     \* after the lottery: tryToBroadcastFlipKeysPackage
      [] RelPos(p) = 2 -> IF PkgWindow(p, c) THEN <<1>> ELSE <<>>     \* handleFlipLotteryPeriod
      [] RelPos(p) = 3 -> <<0, 1>>                                    \* handleShortSessionPeriod: startShortSession, package, key
      [] RelPos(p) \in {4, 5} -> <<0>>                                \* handleLongSessionPeriod
      [] OTHER -> <<>>

StopAfter(p, c, stop) == IF p = 7 THEN FALSE ELSE stop \/ RelPos(p) = 6 \/ (RelPos(p) \in {4, 5} /\ StopTime(p, c))
StopAfterRestart(p, c) == StopTime(p, c) \/ (p <= 6 /\ RelPos(p) = 6)
DelayedAfter(p) == RelPos(p) = 1        \* asyncFlipLotteryCalculations started the delayed broadcast
ArmedAfterRestart(p, c) == ~AfterV(p, c)  \* startValidationShortSessionTimer: only before the validation time
=============================================================================
