---------------------------- MODULE MC_OfflineThr ----------------------------
(* Case table for the committee rule of verifyOfflineProposing (heights above 3634300): every combination of    *)
(*   n      validators in the union of the round's vote steps                                                   *)
(*   k      of them voted TurnOffline,  f of them voted WITHOUT the flag,  x outsiders voted TurnOffline         *)
(*   steps  vote steps whose validators were recorded (3 = one missing)                                         *)
(* with the model's verdict; d_offline -thr replays each on a real OfflineDetector.                              *)
EXTENDS Offline, Json
CONSTANTS MaxN
VARIABLE cs
Cases == {q \in [n : 1..MaxN, k : 0..MaxN, f : 0..1, x : 0..1, steps : {3, 4}] : q.k + q.f <= q.n}
Init == cs \in Cases
Next == UNCHANGED cs
Export == PrintT(ToJson([cs |-> cs, expect |-> CommitteeThr(cs.n, cs.k, cs.steps, cs.k + cs.x > 0)]))
\* sanity of the rule itself: a majority below three quarters never suffices, everybody always does
Sane == /\ (cs.steps = 4 /\ cs.k = cs.n) => CommitteeThr(cs.n, cs.k, cs.steps, TRUE)
        /\ (2 * cs.k <= cs.n) => ~CommitteeThr(cs.n, cs.k, cs.steps, TRUE)
=============================================================================
