CONSTANTS
  NS = 2
  MaxNonce = 3
  MaxEpoch = 1
  NK = 2
  EL = 0
  PL = 0
  QS = 0
  ES = 0
  CB = 0
  RIC = FALSE
  GasCap = 2
  InitEpochs = {0}
  InitPers = {0, 1, 4}
  ForeignMax = 1
  ExportOn = TRUE
  MaxOps = 4
  SampleMod = 40
  ImportantMod = 4
INIT MInit
NEXT MNext
VIEW view
INVARIANTS TypeOK
PROPERTIES Refines
ACTION_CONSTRAINT Export
CHECK_DEADLOCK FALSE
