-------------------------------- MODULE Wire --------------------------------
(* C12 - no message from the network can crash the node.                                          *)
(*                                                                                                *)
(* Property-shaped table model of the peer read path (protocol/peer.go ReadMsg + Decode,          *)
(* protocol/gossip.go handle(), and what handle() dispatches to: message decoders, IsValid gates, *)
(* Proposals / Votes / TxPool / KeysPool / Flipper / PushPullManager, block and transaction       *)
(* validation).  The state of the model is ONE received object, described by its SHAPE:           *)
(*                                                                                                *)
(*   layer "frame" : msgio length prefix x compression tag x declared length x envelope           *)
(*   layer "raw"   : compression x message code (every code of handle(), the handshake, unknown   *)
(*                   codes) x raw payload class (empty / garbage / truncated / padded / confused  *)
(*                   / mutated)                                                                   *)
(*   layer "msg"   : per message code, the presence lattice of its optional parts and the classes *)
(*                   of its counts, lengths, signatures, rounds                                   *)
(*   layer "tx"    : 23 transaction types (+ an unknown one) x recipient presence/role x payload  *)
(*                   class x amount presence x sender role x entry (ValidateTx in the three        *)
(*                   validation modes, pool over the wire, inside a block)                         *)
(*   layer "block" : a block assembled from individually decodable parts: header kind x body x    *)
(*                   a set of at most MaxDev hostile deviations (flags without their address,     *)
(*                   absent fee, foreign key, ...) x entry (ValidateBlock, AddBlock,               *)
(*                   ValidateSubChain, full sync over the wire)                                    *)
(*                                                                                                *)
(* each against the state classes of the receiving node.  One action, Handle, maps the shape to   *)
(* the set of verdicts the design admits; the properties are                                      *)
(*                                                                                                *)
(*   Total         : Handle ends in a verdict from {accept, rejectDecode, rejectValidation,        *)
(*                   ignore} for EVERY shape - there is no shape on which it does not return      *)
(*   Proportionate : what Handle allocates is bounded by Cmul * |frame| + Cadd                    *)
(*                                                                                                *)
(* TLC enumerates the whole table (Init chooses the shape), checks both invariants on the model   *)
(* and exports every shape; the Go driver instantiates each shape with seeded filler bytes and    *)
(* pushes it through the real entry points; Trace_Wire judges what really happened.               *)
(* What is exhaustive is the SHAPE lattice; bytes inside a shape are sampled.                     *)
EXTENDS Integers, Sequences, FiniteSets, TLC

CONSTANTS
    States,         \* state classes of the receiving node: "empty" (fresh genesis), "populated" (identities in
                    \* several states, online validator, pool, invite, flip, contract; no ceremony running),
                    \* "lottery" / "short" / "long" / "afterlong" (populated, inside that validation period)
    TxTos,          \* recipient classes of the transaction lattice
    TxPayloads,     \* payload classes
    TxAmounts,      \* amount classes
    TxSenders,      \* sender roles
    MaxDev,         \* depth of the block deviation lattice (number of simultaneous deviations)
    Enumerate,      \* TRUE in model runs (the deviation lattice is enumerated for Init); FALSE in trace
                    \* validation, which only needs the membership predicates (IsDevSeq, IsPBCase, ...)
    Cmul, Cadd,     \* Proportionate: alloc <= Cmul * frame + Cadd   (bytes)
    BoundedDecode   \* TRUE : the decompressor refuses a declared length out of proportion to the
                    \*        frame before allocating (the property-shaped design)
                    \* FALSE: transcription of peer.go Decode -> s2.Decode(nil, ..): the declared
                    \*        length is allocated first, checked afterwards

Verdicts == {"accept", "rejectDecode", "rejectValidation", "ignore"}

---------------------------------------------------------------------------
(* message codes (protocol/codes.go) *)
Handshake == 1   ProposeBlock == 2      ProposeProof == 3   Vote == 4
NewTx == 5       GetBlockByHash == 6    GetBlocksRange == 7 BlocksRange == 8
FlipBody == 9    FlipKey == 10          SnapshotManifest == 11
GetForkBlockRange == 12                 FlipKeysPackage == 13
Push == 14       Pull == 15             Block == 16         UpdateShardId == 17
BatchPush == 18  BatchFlipKey == 19     Disconnect == 20
KnownCodes == 1..20
HandledCodes == 2..20                 \* the cases of the handle() switch
UnknownCodes == {0, 21, 1000000}
Codes == KnownCodes \cup UnknownCodes
Gated == {ProposeBlock, Vote, BlocksRange, FlipBody, Push, BatchPush, Pull, Block}   \* codes with an IsValid gate

---------------------------------------------------------------------------
(* layer "frame" *)
Prefixes == {"ok", "zero", "short", "max", "overmax"}   \* msgio length prefix vs. stream content (max = the 8 MiB limit)
Comps    == {"none", "s2", "unknown"}                   \* first byte of the frame
Dlens    == {"ok", "larger", "huge", "badvarint"}       \* declared decompressed length vs. content
Envs     == {"ok", "empty", "garbage", "trunc"}         \* the ProtoMsg envelope

FrameCases ==
    {c \in [layer : {"frame"}, prefix : Prefixes, comp : Comps, dlen : Dlens, env : Envs, state : States] :
        /\ (c.comp # "s2" => c.dlen = "ok")
        /\ (c.prefix # "ok" => (c.comp = "none" /\ c.env = "ok"))}

(* symbolic sizes (bytes): the inner message of a frame case is a 24-byte Push *)
SmallFrame == 32
Declared(c) == CASE c.dlen = "ok" -> SmallFrame [] c.dlen = "larger" -> SmallFrame + 65536
                 [] c.dlen = "huge" -> 1073741824 [] OTHER -> 0
FrameSize(c) == IF c.layer = "frame" THEN (IF c.prefix = "overmax" THEN 4 ELSE SmallFrame) ELSE 1024
\* msgio allocates the prefix length (capped at 8 MiB) before reading; s2 allocates the declared length
ModelAlloc(c) ==
    IF c.layer # "frame" THEN 1024
    ELSE IF c.prefix # "ok" THEN (CASE c.prefix = "short" -> SmallFrame [] c.prefix = "max" -> 8388608 [] OTHER -> 0)
    ELSE IF c.comp = "s2"
         THEN IF BoundedDecode /\ Declared(c) > Cmul * FrameSize(c) + Cadd THEN FrameSize(c)
              ELSE Declared(c) + FrameSize(c)
         ELSE FrameSize(c)

FrameExpect(c) ==
    IF c.prefix # "ok" \/ c.comp = "unknown" \/ (c.comp = "s2" /\ c.dlen # "ok") \/ c.env \in {"garbage", "trunc"}
    THEN {"rejectDecode"}
    ELSE IF c.env = "empty" THEN {"ignore"}      \* an empty envelope is code 0: no case of the switch
    ELSE {"accept", "ignore"}

---------------------------------------------------------------------------
(* layer "raw": any code with an unstructured payload *)
\* empty / random bytes / a well-formed payload cut short / padded with a large unknown field / the payload of
\* another code / a well-formed payload with a few bytes flipped, dropped, repeated or length fields changed
Raws == {"empty", "garbage", "trunc", "padded", "confused", "mutated"}
RawCases == [layer : {"raw"}, comp : {"none", "s2"}, code : Codes, raw : Raws, state : States]

RawExpect(c) ==
    IF c.code \notin KnownCodes \/ c.code = Handshake THEN {"ignore"}    \* handle() has no case for them
    ELSE Verdicts

---------------------------------------------------------------------------
(* layer "msg": structured payloads, one record family per code.  "-" = not applicable.            *)

\* --- deviations of an otherwise well-formed proposed block (shared with layer "block") ---
Devs == {<<"flags", "offcommit">>, <<"flags", "offpropose">>, <<"flags", "idupdate">>, <<"flags", "newgenesis">>,
         <<"flags", "snapshot">>, <<"flags", "allbits">>,
         <<"flags", "offcommit_addr">>, <<"flags", "offpropose_addr">>,   \* the flag together with an offline address
         <<"offaddr", "set">>,                                            \* an offline address without any flag
         <<"pubkey", "empty">>, <<"pubkey", "garbage">>, <<"pubkey", "stranger">>,
         <<"seedproof", "empty">>, <<"seedproof", "garbage">>,
         <<"seed", "wrong">>,
         <<"fee", "nil">>, <<"fee", "zero">>, <<"fee", "wrong">>,
         <<"parent", "wrong">>,
         <<"height", "plus">>, <<"height", "zero">>, <<"height", "max">>,
         <<"time", "past">>, <<"time", "future">>, <<"time", "min">>, <<"time", "max">>,
         <<"upgrade", "one">>, <<"upgrade", "max">>,
         <<"txhash", "stale">>,
         <<"bloom", "garbage">>, <<"bloom", "long">>,
         <<"roots", "wrong">>,
         <<"ipfs", "garbage">>, <<"ipfs", "empty">>,
         <<"receipts", "garbage">>}
DevSets1 == {{d} : d \in Devs}
DevSets2 == IF Enumerate /\ MaxDev >= 2 THEN UNION {{{d1, d2} : d2 \in {d \in Devs : d[1] # d1[1]}} : d1 \in Devs} ELSE {}
DevSets3 == IF Enumerate /\ MaxDev >= 3 THEN UNION {{s \cup {d3} : d3 \in {d \in Devs : \A e \in s : e[1] # d[1]}} : s \in DevSets2} ELSE {}
DevSets == IF ~Enumerate THEN {{}}
           ELSE {{}} \cup (IF MaxDev >= 1 THEN DevSets1 ELSE {}) \cup DevSets2 \cup DevSets3
\* a deviation set is exported as a sequence of <<dimension, value>> pairs (sorted by TLC)
RECURSIVE SetToSeq(_)
SetToSeq(S) == IF S = {} THEN <<>> ELSE LET x == CHOOSE y \in S : TRUE IN <<x>> \o SetToSeq(S \ {x})
SeqToSet(s) == {s[i] : i \in 1..Len(s)}
DevSeqs == {SetToSeq(S) : S \in DevSets}
IsDevSeq(s) == /\ \A i \in 1..Len(s) : s[i] \in Devs
               /\ Len(s) <= MaxDev
               /\ \A i, j \in 1..Len(s) : i # j => s[i][1] # s[j][1]

Bodies == {"nil", "empty", "txs", "hostile"}      \* hostile = one transaction without its recipient

\* --- ProposeBlock ---
PBBase == [layer : {"msg"}, code : {ProposeBlock}, state : States,
           data : {"present"}, hdr : {"none", "proposed", "empty", "both"}, body : Bodies,
           sig : {"none", "garbage", "proposer", "other"}, proof : {"none", "garbage", "valid"},
           height : {"round", "future", "far", "past"}, devs : {<<>>}]
PBCases ==
    [layer : {"msg"}, code : {ProposeBlock}, state : States, data : {"absent"}, hdr : {"-"}, body : {"-"},
     sig : {"none", "garbage"}, proof : {"-"}, height : {"-"}, devs : {<<>>}]
    \cup {c \in PBBase : c.hdr = "none" => c.height = "round"}
    \cup [layer : {"msg"}, code : {ProposeBlock}, state : States, data : {"present"}, hdr : {"proposed"}, body : Bodies,
          sig : {"proposer"}, proof : {"valid"}, height : {"round"}, devs : DevSeqs \ {<<>>}]
\* membership without enumerating the deviation lattice (used by trace validation)
IsPBCase(c) ==
    \/ c \in [layer : {"msg"}, code : {ProposeBlock}, state : States, data : {"absent"}, hdr : {"-"}, body : {"-"},
               sig : {"none", "garbage"}, proof : {"-"}, height : {"-"}, devs : {<<>>}]
    \/ (c \in PBBase /\ (c.hdr = "none" => c.height = "round"))
    \/ /\ DOMAIN c = {"layer", "code", "state", "data", "hdr", "body", "sig", "proof", "height", "devs"}
       /\ c.layer = "msg" /\ c.code = ProposeBlock /\ c.state \in States /\ c.data = "present" /\ c.hdr = "proposed"
       /\ c.body \in Bodies /\ c.sig = "proposer" /\ c.proof = "valid" /\ c.height = "round"
       /\ c.devs # <<>> /\ IsDevSeq(c.devs)
PBExpect(c) ==
    IF c.data = "absent" \/ c.hdr # "proposed" \/ c.body = "nil" \/ c.sig # "proposer"
       \/ (\E i \in 1..Len(c.devs) : c.devs[i][1] = "pubkey")
    THEN {"rejectValidation"}                     \* BlockProposal.IsValid
    ELSE {"accept", "ignore", "rejectValidation"}

\* --- ProposeProof ---
PPCases ==
    [layer : {"msg"}, code : {ProposeProof}, state : States, data : {"absent"}, proof : {"-"}, sig : {"none", "garbage"}, round : {"-"}]
    \cup [layer : {"msg"}, code : {ProposeProof}, state : States, data : {"present"},
          proof : {"none", "short", "garbage", "valid"}, sig : {"none", "garbage", "proposer", "other"},
          round : {"round", "future", "far", "past"}]
PPExpect(c) == {"accept", "ignore"}               \* no IsValid gate: bad proofs are dropped silently

\* --- Vote ---
VoteCases ==
    [layer : {"msg"}, code : {Vote}, state : States, hdr : {"absent"}, sig : {"none", "garbage", "validator"},
     round : {"-"}, step : {"-"}, off : {"-"}, upg : {"-"}]
    \cup [layer : {"msg"}, code : {Vote}, state : States, hdr : {"present"},
          sig : {"none", "garbage", "validator", "stranger"}, round : {"round", "lag", "future", "far"},
          step : {"final", "reduction", "zero"}, off : {"no", "yes"}, upg : {"zero", "one"}]
VoteExpect(c) == IF c.hdr = "absent" THEN {"rejectValidation"} ELSE {"accept", "ignore"}

\* --- requests ---
GBHCases == [layer : {"msg"}, code : {GetBlockByHash}, state : States, hash : {"absent", "short", "known", "unknown", "long"}]
GBRCases == [layer : {"msg"}, code : {GetBlocksRange}, state : States, range : {"zero", "normal", "inverted", "all", "beyond"}]
GFRCases == [layer : {"msg"}, code : {GetForkBlockRange}, state : States, blocks : {"none", "unknown", "known", "short", "many"}]
ReqExpect(c) == {"accept", "ignore"}

\* --- BlocksRange (answer to a pending batch; consumed by full sync / fork validation) ---
BRItems == [hdr : {"none", "proposed", "empty", "both"}, cert : {"nil", "empty", "garbage", "valid"}, diff : {"nil", "empty", "garbage"}]
BRCases ==
    [layer : {"msg"}, code : {BlocksRange}, state : States, batch : {"unknown"}, n : {"zero", "one"},
     hdr : {"none", "proposed"}, cert : {"nil"}, diff : {"nil"}, consumer : {"none"}]
    \cup [layer : {"msg"}, code : {BlocksRange}, state : States, batch : {"pending"}, n : {"zero"},
          hdr : {"-"}, cert : {"-"}, diff : {"-"}, consumer : {"none", "fullsync"}]
    \cup {c \in [layer : {"msg"}, code : {BlocksRange}, state : States, batch : {"pending"}, n : {"one", "exact", "over"},
                 hdr : {"none", "proposed", "empty", "both"}, cert : {"nil", "empty", "garbage", "valid"},
                 diff : {"nil", "empty", "garbage"}, consumer : {"none", "fullsync", "subchain"}] :
             \* an over-long answer is only combined with plain items (each costs a watchdog period if it hangs)
             c.n = "over" => (c.hdr \in {"proposed", "empty"} /\ c.cert = "nil" /\ c.diff = "nil" /\ c.consumer # "subchain")}
BRExpect(c) == IF c.n # "zero" /\ c.hdr \in {"none", "both"} THEN {"rejectValidation"}
               ELSE {"accept", "ignore", "rejectValidation"}

\* --- flips and flip keys ---
FlipCases ==
    [layer : {"msg"}, code : {FlipBody}, state : States, tx : {"absent"}, ftype : {"-"}, to : {"-"}, attach : {"-"},
     pub : {"empty", "small"}, sender : {"-"}]
    \cup [layer : {"msg"}, code : {FlipBody}, state : States, tx : {"present"},
          ftype : {"flip", "activation", "send", "unknown"}, to : {"absent", "known"},
          attach : {"match", "mismatch", "garbage", "empty"}, pub : {"empty", "small", "big"},
          sender : {"author", "funded", "unfunded", "nosig"}]
FlipExpect(c) == IF c.tx = "absent" THEN {"rejectValidation"} ELSE {"accept", "ignore"}

KeyCases(code) ==
    [layer : {"msg"}, code : {code}, state : States, data : {"absent"}, size : {"-"}, sig : {"none", "garbage"}, epoch : {"-"}]
    \cup [layer : {"msg"}, code : {code}, state : States, data : {"present"}, size : {"zero", "ok", "long"},
          sig : {"none", "garbage", "author", "stranger"}, epoch : {"current", "other"}]
    \* a key of the right LENGTH that is no valid secret scalar of the curve (all zero bytes, the group order itself, all
    \* one bits): whoever turns the bytes into a key object gets nothing back
    \cup (IF code = FlipKey
          THEN [layer : {"msg"}, code : {code}, state : States, data : {"present"}, size : {"zeroscalar", "order", "allones"},
                sig : {"author", "stranger"}, epoch : {"current", "other"}]
          ELSE {})
KeyExpect(c) == {"accept", "ignore"}

\* --- batches ---
BatchCases(code) ==
    [layer : {"msg"}, code : {code}, state : States, items : {"zero"}, item : {"-"}]
    \cup [layer : {"msg"}, code : {code}, state : States, items : {"one", "many"},
          item : {"valid", "garbage", "empty", "badtype", "mixed"}]
BatchExpect(c) == Verdicts

\* --- push / pull hashes ---
PTypes == {0, 1, 2, 3, 4, 5, 6, 7, 255, 257, 2147483647}
PushCases(code) == [layer : {"msg"}, code : {code}, state : States, ptype : PTypes,
                    hash : {"absent", "short", "unknown", "known", "long"}]
PushExpect(c) == IF (c.ptype % 256) \in 1..6 THEN {"accept", "ignore"} ELSE {"rejectValidation"}

\* --- Block (answer to a block-by-hash request) ---
BlockMsgCases == [layer : {"msg"}, code : {Block}, state : States, hdr : {"none", "proposed", "empty", "both"},
                  body : {"nil", "empty", "txs"}, approved : {"no", "yes"}]
BlockMsgExpect(c) == IF c.hdr \in {"none", "both"} \/ c.body = "nil" THEN {"rejectValidation"} ELSE {"accept", "ignore"}

\* --- small ones ---
ManifestCases == [layer : {"msg"}, code : {SnapshotManifest}, state : States, root : {"absent", "ok", "long"},
                  cid : {"absent", "garbage", "valid"}, height : {"zero", "mid", "max"}]
ShardCases == [layer : {"msg"}, code : {UpdateShardId}, state : States, shard : {"zero", "one", "max"}]
DiscCases == [layer : {"msg"}, code : {Disconnect}, state : States, reason : {"empty", "short", "long"}]
SmallExpect(c) == {"accept", "ignore"}

\* --- handshake (read by readStatus before the read loop starts) ---
\* intgen: whether the RECEIVING node has an intermediate genesis (GenesisInfo.OldGenesis # nil: it inserted a NewGenesis
\* block, was fast-synced over one, or was started with a predefined intermediate genesis) - a state class of its own,
\* because GenesisInfo.EqualAny compares the peer's optional old genesis with the node's optional old genesis.
\* genesis / oldgen: "ok" = the node's current genesis resp. a random well-formed hash; "owngen" / "ownold" = the node's
\* current / old genesis hash in the old-genesis field (what an upgraded peer really sends); "zero" = 32 zero bytes.
HsCases == {c \in [layer : {"msg"}, code : {Handshake}, state : States, intgen : {"none", "has"}, net : {"ok", "other"},
                   genesis : {"absent", "short", "ok", "wrong", "ownold"},
                   oldgen : {"absent", "ok", "long", "owngen", "ownold", "zero"},
                   ts : {"now", "skewed", "min", "max"}, ver : {"empty", "ok", "garbage", "long"}] :
               c.intgen = "none" => (c.genesis # "ownold" /\ c.oldgen # "ownold")}
\* a handshake WITHOUT a genesis hash (or with an all-zero old genesis) passes the genesis check of a node that has no old
\* genesis (GenesisInfo.EqualAny compares with the zero hash of the absent old genesis): modelled as the code does it
HsGenesisMatch(c) == \/ c.genesis = "ok"
                     \/ c.oldgen = "owngen"
                     \/ (c.intgen = "has" /\ (c.oldgen = "ownold" \/ c.genesis = "ownold"))
                     \/ (c.intgen = "none" /\ (c.genesis = "absent" \/ c.oldgen = "zero"))
HsExpect(c) == IF c.ver = "garbage" THEN {"rejectDecode"}        \* invalid UTF-8 in a proto3 string
               ELSE IF c.net = "ok" /\ HsGenesisMatch(c) /\ c.ts = "now" THEN {"accept"}
               ELSE {"rejectValidation"}

MsgCases == PBCases \cup PPCases \cup VoteCases \cup GBHCases \cup GBRCases \cup GFRCases \cup BRCases
            \cup FlipCases \cup KeyCases(FlipKey) \cup KeyCases(FlipKeysPackage)
            \cup BatchCases(BatchPush) \cup BatchCases(BatchFlipKey)
            \cup PushCases(Push) \cup PushCases(Pull) \cup BlockMsgCases
            \cup ManifestCases \cup ShardCases \cup DiscCases \cup HsCases

MsgCasesOf(code) ==
    CASE code = ProposeBlock -> PBCases [] code = ProposeProof -> PPCases [] code = Vote -> VoteCases
      [] code = GetBlockByHash -> GBHCases [] code = GetBlocksRange -> GBRCases [] code = GetForkBlockRange -> GFRCases
      [] code = BlocksRange -> BRCases [] code = FlipBody -> FlipCases
      [] code = FlipKey -> KeyCases(FlipKey) [] code = FlipKeysPackage -> KeyCases(FlipKeysPackage)
      [] code = BatchPush -> BatchCases(BatchPush) [] code = BatchFlipKey -> BatchCases(BatchFlipKey)
      [] code = Push -> PushCases(Push) [] code = Pull -> PushCases(Pull) [] code = Block -> BlockMsgCases
      [] code = SnapshotManifest -> ManifestCases [] code = UpdateShardId -> ShardCases
      [] code = Disconnect -> DiscCases [] code = Handshake -> HsCases
      [] OTHER -> {}

MsgExpect(c) ==
    CASE c.code = ProposeBlock -> PBExpect(c) [] c.code = ProposeProof -> PPExpect(c) [] c.code = Vote -> VoteExpect(c)
      [] c.code \in {GetBlockByHash, GetBlocksRange, GetForkBlockRange} -> ReqExpect(c)
      [] c.code = BlocksRange -> BRExpect(c) [] c.code = FlipBody -> FlipExpect(c)
      [] c.code \in {FlipKey, FlipKeysPackage} -> KeyExpect(c)
      [] c.code \in {BatchPush, BatchFlipKey} -> BatchExpect(c)
      [] c.code \in {Push, Pull} -> PushExpect(c) [] c.code = Block -> BlockMsgExpect(c)
      [] c.code = Handshake -> HsExpect(c)
      [] OTHER -> SmallExpect(c)

---------------------------------------------------------------------------
(* layer "tx": the transaction lattice *)
TxTypes == 0..23                                   \* 0..22 = the 23 types of types.go, 23 = unknown
NeedsTo == {0, 1, 2, 10, 11, 16, 17, 18, 20, 22}   \* Send Activation Invite KillInvitee ChangeGod Call Terminate Delegate KillDelegator Replenish
TxShapes == [type : TxTypes, to : TxTos, payload : TxPayloads, amount : TxAmounts, sender : TxSenders, sig : {"valid"}]
            \cup [type : TxTypes, to : {"known"}, payload : {"valid"}, amount : {"zero"}, sender : {"verified"}, sig : {"none", "garbage", "rlp"}]
TxEntries == {<<"validate", "inblock">>, <<"validate", "mempool">>, <<"validate", "inbound">>,
              <<"wire", "-">>, <<"block", "-">>}
TxCases == {[layer |-> "tx", entry |-> e[1], mode |-> e[2], type |-> s.type, to |-> s.to, payload |-> s.payload,
             amount |-> s.amount, sender |-> s.sender, sig |-> s.sig, state |-> st] :
               e \in TxEntries, s \in TxShapes, st \in States}
IsTxCase(c) ==
    /\ DOMAIN c = {"layer", "entry", "mode", "type", "to", "payload", "amount", "sender", "sig", "state"}
    /\ <<c.entry, c.mode>> \in TxEntries /\ c.state \in States
    /\ [type |-> c.type, to |-> c.to, payload |-> c.payload, amount |-> c.amount, sender |-> c.sender, sig |-> c.sig] \in TxShapes
TxExpect(c) ==
    IF c.sig \in {"none", "garbage"} \/ c.type = 23 \/ c.sender = "unfunded"
       \/ (c.type \in NeedsTo /\ c.to = "absent") \/ (c.type \notin NeedsTo /\ c.type # 23 /\ c.to # "absent")
    THEN (IF c.entry = "wire" THEN {"accept", "ignore"} ELSE {"rejectValidation"})
    ELSE {"accept", "ignore", "rejectValidation"}

---------------------------------------------------------------------------
(* layer "block": blocks assembled from individually decodable parts *)
BlockEntries == {"validate", "add", "subchain", "fullsync"}
Certs == {"nil", "empty", "garbage", "valid"}
EmptyHdrDevs == {<<>>} \cup {<<d>> : d \in {e \in Devs : e[1] \in {"flags", "parent", "height", "time", "roots", "seed"}}}
ShallowDevSeqs == {s \in DevSeqs : Len(s) <= 1}
\* the certificate only matters where certificates are read: fork validation and full sync
CertsOf(entry) == IF entry \in {"subchain", "fullsync"} THEN Certs ELSE {"nil"}
DevSeqsOf(entry) == IF entry \in {"subchain", "fullsync"} THEN ShallowDevSeqs ELSE DevSeqs
BlockCases ==
    UNION {[layer : {"block"}, entry : {en}, hdr : {"proposed"}, body : Bodies, devs : DevSeqsOf(en),
            cert : CertsOf(en), state : States] : en \in BlockEntries}
    \cup UNION {[layer : {"block"}, entry : {en}, hdr : {"empty"}, body : {"nil", "empty", "txs"}, devs : EmptyHdrDevs,
                 cert : CertsOf(en), state : States] : en \in BlockEntries}
    \cup [layer : {"block"}, entry : BlockEntries, hdr : {"none", "both"}, body : {"nil", "empty"}, devs : {<<>>},
          cert : {"nil"}, state : States]
IsBlockCase(c) ==
    /\ DOMAIN c = {"layer", "entry", "hdr", "body", "devs", "cert", "state"}
    /\ c.entry \in BlockEntries /\ c.state \in States /\ c.cert \in CertsOf(c.entry)
    /\ \/ (c.hdr = "proposed" /\ c.body \in Bodies /\ IsDevSeq(c.devs)
           /\ (c.entry \in {"subchain", "fullsync"} => Len(c.devs) <= 1))
       \/ (c.hdr = "empty" /\ c.body \in {"nil", "empty", "txs"} /\ c.devs \in EmptyHdrDevs)
       \/ (c.hdr \in {"none", "both"} /\ c.body \in {"nil", "empty"} /\ c.devs = <<>> /\ c.cert = "nil")
\* in full sync only the header (and certificate) travels; the body is fetched by its cid
BlockExpect(c) ==
    IF c.hdr \in {"none", "both"} \/ c.body = "hostile" \/ (c.body = "nil" /\ c.entry # "fullsync") THEN {"rejectValidation"}
    ELSE {"accept", "ignore", "rejectValidation"}

---------------------------------------------------------------------------
AllCases == FrameCases \cup RawCases \cup MsgCases \cup TxCases \cup BlockCases

IsCase(c) ==
    CASE c.layer = "frame" -> c \in FrameCases
      [] c.layer = "raw"   -> c \in RawCases
      [] c.layer = "msg"   -> IF c.code = ProposeBlock THEN IsPBCase(c) ELSE c \in MsgCasesOf(c.code)
      [] c.layer = "tx"    -> IsTxCase(c)
      [] c.layer = "block" -> IsBlockCase(c)
      [] OTHER -> FALSE

Expect(c) ==
    CASE c.layer = "frame" -> FrameExpect(c)
      [] c.layer = "raw"   -> RawExpect(c)
      [] c.layer = "msg"   -> MsgExpect(c)
      [] c.layer = "tx"    -> TxExpect(c)
      [] c.layer = "block" -> BlockExpect(c)

---------------------------------------------------------------------------
VARIABLES case,      \* the received object (its shape)
          pc,        \* "recv" -> "done"
          verdict,   \* the set of verdicts the design admits for the shape ({} before Handle)
          alloc,     \* model allocation (bytes, symbolic sizes)
          frame      \* model frame size
vars == <<case, pc, verdict, alloc, frame>>

Init == /\ case \in AllCases
        /\ pc = "recv" /\ verdict = {} /\ alloc = 0 /\ frame = 0

Handle == /\ pc = "recv"
          /\ pc' = "done"
          /\ verdict' = Expect(case)
          /\ alloc' = ModelAlloc(case)
          /\ frame' = FrameSize(case)
          /\ UNCHANGED case

Next == Handle
Spec == Init /\ [][Next]_vars

(* the property *)
TotalOn(v) == v # {} /\ v \subseteq Verdicts
Total == pc = "done" => TotalOn(verdict)
Bound(a, f) == a <= Cmul * f + Cadd
Proportionate == pc = "done" => Bound(alloc, frame)
TypeOK == pc \in {"recv", "done"} /\ IsCase(case)
=============================================================================
