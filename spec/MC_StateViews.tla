--------------------------- MODULE MC_StateViews ---------------------------
(* Bounded model run of StateViews + export of action sequences for replay on the real StateDB /  *)
(* IdentityStateDB / AppState.  `hist` (the path so far) is hidden from the VIEW, so TLC explores *)
(* every distinct abstract state once and every explored transition is printed with one concrete  *)
(* path reaching it, subject to the stratification below.                                        *)
EXTENDS StateViews, Json
CONSTANTS MaxSteps,    \* bound on the length of a behaviour
          ExportMode,  \* "strata": the first path of every stratum; "all": every transition; "walk": simulation; "none"
          Acts,        \* the calls explored by this configuration
          CtorsOn,     \* the view constructors explored by this configuration
          HeadOnly     \* TRUE: views are made at the canonical head only (the block-adoption flow of the node)

VARIABLE hist
mvars == <<vars, hist>>
view == <<store, canon, views>>

MInit == Init /\ hist = <<>>
MNext == /\ Len(hist) < MaxSteps
         /\ Next
         /\ lab'.ev \in Acts
         /\ (lab'.ev = "MakeView" => (lab'.ctor \in CtorsOn /\ (HeadOnly => lab'.h = Top)))
         /\ hist' = Append(hist, lab')

\* a step is classed by WHO did WHAT through WHICH kind of view
Plain(lb) == lb.ev \o (IF lb.ctor = "" THEN "" ELSE "." \o lb.ctor)
\* ... and, for the step under consideration, in WHICH situation (lab.f: the actor's pre-state - pending / flushed /
\* saved-own / abandoned writes; for a new view the distance of its height from the head, the canonical object's
\* pre-state, the read-only cache relative to the height asked for, and whether the same view was made before)
Again == lab'.ev = "MakeView" /\ \E i \in 1..Len(hist) : hist[i].ev = "MakeView" /\ hist[i].ctor = lab'.ctor /\ hist[i].h = lab'.h
Code(lb) == Plain(lb) \o (IF lb.f = "" THEN "" ELSE "/" \o lb.f) \o (IF Again THEN "/again" ELSE "")
\* stratum of a transition: the classes of the steps that came before (as a set) x the situated class of this step
\* x whether somebody else wrote before (a leak needs a second party)
OtherWrote(lb) == \E i \in 1..Len(hist) : hist[i].ev \in {"CanonWrite", "ViewWrite"} /\ hist[i].x # lb.x
\* x the classes of the two steps just before, in order
Prev(k) == IF Len(hist) >= k THEN Plain(hist[Len(hist) + 1 - k]) ELSE ""
Stratum == <<{Plain(hist[i]) : i \in 1..Len(hist)}, Prev(2), Prev(1), Code(lab'), OtherWrote(lab')>>

ASSUME TLCSet(7, {})
Export ==
    CASE ExportMode = "all"    -> PrintT(ToJson([path |-> hist']))
      [] ExportMode = "walk"   -> PrintT(ToJson([path |-> hist']))
      [] ExportMode = "strata" ->
            IF Stratum \in TLCGet(7) THEN TRUE
            ELSE /\ TLCSet(7, TLCGet(7) \cup {Stratum})
                 /\ PrintT(ToJson([path |-> hist']))
      [] OTHER -> TRUE
=============================================================================
