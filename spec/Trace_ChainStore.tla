--------------------------- MODULE Trace_ChainStore ---------------------------
(* Trace validation for C09.  The trace is the log of crash runs on the REAL node (harness/cmd/    *)
(* d_chainstore): per run                                                                          *)
(*    Reset   scenario, operation under test, observed pre-state, crash schedule, reference node    *)
(*    W*      every durable write the operation issued before it died (kind, versions, ids)         *)
(*    Crash | OpEnd                                                                                  *)
(*    W* (ph = "rec")  writes of the start-up sequence,  Crash (ph = "rec") when it died again,      *)
(*    Restart observation of the node after the normal start-up sequence                            *)
(*    Plan, W* (ph = "cont"), Apply*   the interrupted and following blocks + rollback probe         *)
(*    Crash (ph = "cont") -> Restart ... | Final   observation at the end, compared with reference   *)
(*                                                                                                  *)
(* VERDICT (`bad`, reported by the postcondition): the C09 clauses of ChainStore evaluated on the   *)
(* OBSERVED state: BootOk, HeadMatchesState, HeadInWindow, HeadIndexed after every start-up,         *)
(* CleanRestartStutter after a clean stop, ContinuationAccepted for every applied step,              *)
(* ReachesReference / IndexMatchesReference at the end.                                             *)
(* CONFORMANCE (`drift`, reported, not a verdict): the specification is run on the observed state - *)
(* the kinds of the durable writes of every phase must be the step list ChainStore generates        *)
(* (AddSteps / ResetSteps / BootSteps), the store obtained by applying the observed writes with the *)
(* specification's effects must be the observed store, the head ChainStore's start-up reaches must  *)
(* be the observed head, and the outcome of the continuation must be the predicted one.             *)
EXTENDS ChainStore, Json, IOUtils

Trace == ndJsonDeserialize(IOEnv.TRACE_FILE)
ASSUME TLCSet(2, 0) /\ TLCSet(3, <<>>) /\ TLCSet(4, <<>>)

VARIABLES l,      \* next trace line
          ctx,    \* the Reset record of the current run
          st,     \* durable store tracked by applying the observed writes (ChainStore effects)
          mn,     \* the node the specification starts the current phase from
          ph,     \* current phase: "op" | "rec" | "cont"
          pend,   \* kinds of the durable writes observed in the current phase
          plan,   \* macro steps of the current continuation
          apps,   \* outcomes of the applied steps of the current continuation
          win,    \* [lo, hi] for the head after the next start-up
          clean,  \* observation at the clean stop (or the empty record)
          ci,     \* number of crashes consumed in this run
          bad,    \* clauses broken in this run
          drift   \* number of conformance disagreements

tvars == <<l, ctx, st, mn, ph, pend, plan, apps, win, clean, ci, bad, drift>>

ToSet(s) == {s[i] : i \in 1..Len(s)}
Strip(b) == [h |-> b.h, id |-> b.id, root |-> b.root, idr |-> b.idr, par |-> b.par, kind |-> "plain", nidx |-> 0]

Chain(c) == ToSet(c.chainOld) \cup ToSet(c.chainNew)
BlkById(c, id) == IF \E b \in Chain(c) : b.id = id THEN Strip(CHOOSE b \in Chain(c) : b.id = id)
                  ELSE [NoBlock EXCEPT !.id = id]
OfHead(c, o) == IF o.h = 0 THEN NoBlock
                ELSE [h |-> o.h, id |-> o.id, root |-> o.root, idr |-> o.idr, par |-> o.par, kind |-> "plain", nidx |-> 0]

Unknown == "?"
VersFn(all, pairs) == [h \in all |-> IF \E j \in 1..Len(pairs) : pairs[j].h = h
                                    THEN pairs[CHOOSE j \in 1..Len(pairs) : pairs[j].h = h].r ELSE Unknown]

(* the observed node as a ChainStore node; `all` = saved versions outside the window when known *)
ObsNode(c, o, sall, iall) ==
    [sv |-> VersFn(sall \cup {o.svr[j].h : j \in 1..Len(o.svr)}, o.svr),
     iv |-> VersFn(iall \cup {o.ivr[j].h : j \in 1..Len(o.ivr)}, o.ivr),
     hdr |-> {BlkById(c, o.canon[j].id) : j \in {x \in 1..Len(o.canon) : o.canon[x].hdr}},
     head |-> OfHead(c, o.dhead),
     canon |-> [h \in {o.canon[j].h : j \in 1..Len(o.canon)} |-> o.canon[CHOOSE j \in 1..Len(o.canon) : o.canon[j].h = h].id],
     diff |-> Empty, nidx |-> 0,
     pv |-> Empty, pp |-> o.phead.h # 0, xsv |-> Empty, phead |-> OfHead(c, o.phead),
     up |-> TRUE, mhead |-> OfHead(c, o.head), ms |-> o.lives, mi |-> o.livei, mphead |-> OfHead(c, o.phead), mp |-> None,
     ph |-> "idle", todo |-> <<>>, why |-> ""]

(* the preliminary identity tree and the imported snapshot are not observed: carried from the tracked store *)
WithHidden(nd, s) == [nd EXCEPT !.pv = s.pv, !.pp = s.pp, !.xsv = s.xsv]

(* effect of one OBSERVED durable write on the tracked store *)
EffectW(c, s, w) ==
    CASE w.k = "SCommit"   -> [s EXCEPT !.sv = Put(Drop(@, ToSet(w.del)), w.set[1], w.root)]
      [] w.k \in {"SPrune", "SRollback"} -> [s EXCEPT !.sv = Drop(@, ToSet(w.del))]
      [] w.k = "ICommit"   -> [s EXCEPT !.iv = Put(Drop(@, ToSet(w.del)), w.set[1], w.root)]
      [] w.k \in {"IPrune", "IRollback"} -> [s EXCEPT !.iv = Drop(@, ToSet(w.del))]
      [] w.k = "Header"    -> [s EXCEPT !.hdr = @ \cup {BlkById(c, w.id)}]
      [] w.k = "DelHeader" -> [s EXCEPT !.hdr = {x \in @ : x.id # w.id}]
      [] w.k = "Head"      -> [s EXCEPT !.head = BlkById(c, w.id)]
      [] w.k = "Canon"     -> [s EXCEPT !.canon = Put(@, w.h, w.id)]
      [] w.k = "DelCanon"  -> [s EXCEPT !.canon = Drop(@, {w.h})]
      [] w.k = "Diff"      -> [s EXCEPT !.diff = Put(@, w.h, "")]
      [] w.k = "DelDiff"   -> [s EXCEPT !.diff = Drop(@, {w.h})]
      [] w.k = "Index"     -> [s EXCEPT !.nidx = @ + 1]
      [] w.k = "PCopy"     -> [s EXCEPT !.pv = Over(s.iv, s.pv)]
      [] w.k = "PfxP"      -> [s EXCEPT !.pp = TRUE]
      [] w.k = "PCommit"   -> [s EXCEPT !.pv = Put(Drop(@, ToSet(w.del)), w.set[1], w.root)]
      [] w.k \in {"PPrune", "PRollback"} -> [s EXCEPT !.pv = Drop(@, ToSet(w.del))]
      [] w.k = "PHead"     -> [s EXCEPT !.phead = BlkById(c, w.id)]
      [] w.k = "DelPHead"  -> [s EXCEPT !.phead = NoBlock]
      [] w.k = "SnapImport" -> [s EXCEPT !.xsv = Put(Empty, w.set[1], w.root)]
      [] w.k = "SnapImport" /\ w.set = <<>> -> [s EXCEPT !.xsv = Put(Empty, 0, "partial")]   \* importer flushed without the root
      [] w.k = "Switch"    -> [s EXCEPT !.sv = s.xsv, !.iv = s.pv, !.xsv = Empty, !.pv = Empty, !.pp = FALSE,
                                        !.head = BlkById(c, w.id), !.phead = NoBlock]
      [] OTHER             -> s

(* does the tracked store agree with an observation (inside the observed window)? *)
StoreDiff(s, o) ==
    <<s.head.id = o.dhead.id, s.phead.id = o.phead.id, Cardinality(DOMAIN s.sv), o.ns, Cardinality(DOMAIN s.iv), o.ni,
      {h \in o.lo..o.hi : Has(s.sv, h) # (\E j \in 1..Len(o.svr) : o.svr[j].h = h)},
      {h \in o.lo..o.hi : Has(s.iv, h) # (\E j \in 1..Len(o.ivr) : o.ivr[j].h = h)},
      {h \in o.lo..o.hi : Has(s.canon, h) # (\E j \in 1..Len(o.canon) : o.canon[j].h = h)}>>
StoreAgrees(s, o) ==
    /\ s.head.id = o.dhead.id
    /\ s.phead.id = o.phead.id
    /\ \A h \in o.lo..o.hi :
          /\ Has(s.sv, h) = (\E j \in 1..Len(o.svr) : o.svr[j].h = h)
          /\ Has(s.iv, h) = (\E j \in 1..Len(o.ivr) : o.ivr[j].h = h)
          /\ Has(s.canon, h) = (\E j \in 1..Len(o.canon) : o.canon[j].h = h)
    /\ \A j \in 1..Len(o.svr) : Has(s.sv, o.svr[j].h) => s.sv[o.svr[j].h] \in {o.svr[j].r, Unknown}
    /\ \A j \in 1..Len(o.ivr) : Has(s.iv, o.ivr[j].h) => s.iv[o.ivr[j].h] \in {o.ivr[j].r, Unknown}
    /\ \A j \in 1..Len(o.canon) : Has(s.canon, o.canon[j].h) => s.canon[o.canon[j].h] = o.canon[j].id
    /\ Cardinality(DOMAIN s.sv) = o.ns /\ Cardinality(DOMAIN s.iv) = o.ni

(* macro steps *)
BlkFn(c) == [h \in {b.h : b \in ToSet(c.chainNew)} |-> CHOOSE b \in ToSet(c.chainNew) : b.h = h]
Expand(c, nd, m) == CASE m.what = "Add" -> AddSteps(nd, m.b)
                      [] m.what = "ResetTo" -> ResetSteps(nd, m.to)
                      [] m.what = "FastSync" -> FastSyncSteps(nd, BlkFn(c), m.b.h)
RECURSIVE RunMacros(_, _, _, _, _)
RunMacros(c, nd, ms, w, cr) ==
    IF ms = <<>> \/ nd.ph # "idle" THEN [n |-> nd, w |-> w]
    ELSE LET r == RunX(Begin(nd, Expand(c, nd, Head(ms))), w, cr) IN RunMacros(c, r.n, Tail(ms), r.w, cr)

CrashSpec(c, i, phase) ==
    IF i > Len(c.crashes) \/ c.crashes[i].ph # phase THEN NoCrash
    ELSE IF c.crashes[i].k = "clean" THEN NoCrash
    ELSE IF c.crashes[i].k = "" THEN AtIndex(c.crashes[i].i)
    ELSE AtKind(c.crashes[i].k, c.crashes[i].occ)

LowestRetained(o) == IF o.mins > o.mini THEN o.mins ELSE o.mini
MaxOpHeight(c) == LET hs == {c.ops[i].b.h : i \in 1..Len(c.ops)} \cup {c.pre.head.h} IN MaxOf(hs)
KnownIds(c) == {b.id : b \in Chain(c)} \cup {c.pre.head.id}

Note(line, clause) == IF clause \in bad THEN TRUE ELSE TLCSet(3, Append(TLCGet(3), <<line, clause>>))
RECURSIVE NoteAll(_, _)
NoteAll(line, S) == IF S = {} THEN TRUE
                    ELSE LET x == CHOOSE y \in S : TRUE IN Note(line, x) /\ NoteAll(line, S \ {x})
Drift(line, what) == TLCSet(4, IF Len(TLCGet(4)) < 40 THEN Append(TLCGet(4), <<line, what>>) ELSE TLCGet(4))

NoObs == [h |-> 0]

Ev(e) == l <= Len(Trace) /\ Trace[l].ev = e /\ l' = l + 1

TraceInit == /\ l = 1 /\ ctx = [run |-> 0] /\ st = [h |-> 0] /\ mn = [h |-> 0] /\ ph = "op" /\ pend = <<>> /\ plan = <<>> /\ apps = <<>>
             /\ win = [lo |-> 0, hi |-> 0] /\ clean = NoObs /\ ci = 1 /\ bad = {} /\ drift = 0

TReset == /\ Ev("Reset")
          /\ LET e == Trace[l]
                 nd == ObsNode(e, e.pre, ToSet(e.pre.sall), ToSet(e.pre.iall)) IN
             /\ ctx' = e /\ st' = nd /\ mn' = nd
             /\ win' = [lo |-> LowestRetained(e.pre), hi |-> MaxOpHeight(e)]
          /\ ph' = "op" /\ pend' = <<>> /\ plan' = <<>> /\ apps' = <<>> /\ clean' = NoObs /\ ci' = 1 /\ bad' = {}
          /\ UNCHANGED drift

TWrite == /\ Ev("W")
          /\ st' = EffectW(ctx, st, Trace[l])
          /\ pend' = Append(pend, Trace[l].k)
          /\ UNCHANGED <<ctx, mn, ph, plan, apps, win, clean, ci, bad, drift>>

(* prediction of the current phase by the specification; cr = where the process died (NoCrash when *)
(* the phase ran to its end), taken from the observation: the kind of the lost write and how many   *)
(* writes of that kind the phase had completed                                                      *)
PredictedWith(cr) == IF ph = "op" THEN RunMacros(ctx, mn, ctx.ops, <<>>, cr)
                     ELSE IF ph = "rec" THEN RunX(BootOf(mn), <<>>, cr)
                     ELSE RunMacros(ctx, mn, plan, <<>>, cr)
Predicted == PredictedWith(NoCrash)

(* copying / deleting a whole database is ONE step of the specification and many writes of the code: *)
(* runs of the bulk kinds are compared as one                                                      *)
Bulk == {"PCopy", "DropOld"}
RECURSIVE Squeeze(_)
Squeeze(w) == IF Len(w) <= 1 THEN w
              ELSE IF w[1] \in Bulk /\ w[2] = w[1] THEN Squeeze(Tail(w)) ELSE <<w[1]>> \o Squeeze(Tail(w))
KindsAgree(p) == Squeeze(p.w) = Squeeze(pend)

TOpEnd == /\ Ev("OpEnd") /\ ph = "op"
          /\ LET e == Trace[l]
                 p == Predicted
                 d1 == IF KindsAgree(p) THEN 0 ELSE 1
                 d2 == IF StoreAgrees(st, e.obs) THEN 0 ELSE 1
                 d3 == IF (p.n.ph = "idle") = e.ok THEN 0 ELSE 1 IN
             /\ drift' = drift + d1 + d2 + d3
             /\ (IF d1 = 0 THEN TRUE ELSE Drift(l, <<"write kinds of the operation", Squeeze(pend), Squeeze(p.w)>>))
             /\ (IF d2 = 0 THEN TRUE ELSE Drift(l, <<"tracked store differs from the observed store after the operation", StoreDiff(st, e.obs)>>))
             /\ (IF d3 = 0 THEN TRUE ELSE Drift(l, "outcome of the operation differs from the prediction"))
             /\ bad' = IF e.ok THEN bad ELSE bad \cup {"OperationAccepted"}
             /\ (IF e.ok THEN TRUE ELSE Note(l, "OperationAccepted"))
             /\ clean' = e.obs
             /\ mn' = WithHidden(ObsNode(ctx, e.obs, DOMAIN st.sv, DOMAIN st.iv), st)
             /\ ph' = "cont" /\ pend' = <<>>
          /\ UNCHANGED <<ctx, st, plan, apps, win, ci>>

TCrash == /\ Ev("Crash")
          /\ LET e == Trace[l]
                 p == PredictedWith(IF e.clean THEN NoCrash ELSE AtKind(e.lost, CountOf(pend, e.lost) + 1))
                 \* died in the middle of a bulk copy / deletion: not a step boundary of the specification
                 midBulk == e.lost \in Bulk /\ pend # <<>> /\ pend[Len(pend)] = e.lost
                 d1 == IF e.clean \/ midBulk \/ (KindsAgree(p) /\ p.n.ph = "down") THEN 0 ELSE 1 IN
             /\ drift' = drift + d1
             /\ (IF d1 = 0 THEN TRUE ELSE Drift(l, <<"write kinds up to the crash", e.ph, Squeeze(pend), Squeeze(p.w), p.n.ph>>))
             /\ win' = IF e.clean THEN [lo |-> clean.head.h, hi |-> clean.head.h]
                       ELSE IF e.ph = "op" THEN win
                       ELSE [lo |-> win.lo, hi |-> IF ctx.end > win.hi THEN ctx.end ELSE win.hi]
             /\ clean' = IF e.clean THEN clean ELSE NoObs
          \* the process died inside the snapshot import: the clearing of the import target in front of it was complete
          /\ st' = IF Trace[l].lost = "SnapImport" /\ pend # <<>> /\ pend[Len(pend)] = "DropOld" THEN [st EXCEPT !.xsv = Empty] ELSE st
          /\ mn' = Down(st')
          /\ ph' = "rec" /\ pend' = <<>> /\ plan' = <<>> /\ apps' = <<>> /\ ci' = ci + 1
          /\ UNCHANGED <<ctx, bad>>

SameObservables(a, b) == /\ a.head = b.head /\ a.dhead = b.dhead /\ a.lives = b.lives /\ a.livei = b.livei
                         /\ a.svr = b.svr /\ a.ivr = b.ivr /\ a.canon = b.canon /\ a.ns = b.ns /\ a.ni = b.ni

TRestart == /\ Ev("Restart") /\ ph = "rec"
            /\ LET e == Trace[l]
                   p == Predicted
                   on == IF e.ok THEN WithHidden(ObsNode(ctx, e.obs, DOMAIN st.sv, DOMAIN st.iv), st)
                         ELSE [Down(st) EXCEPT !.ph = "failed"]
                   broken == RestartClauses(on, win.lo, win.hi, KnownIds(ctx))
                             \cup (IF e.ok /\ clean # NoObs /\ ~SameObservables(clean, e.obs) THEN {"CleanRestartStutter"} ELSE {})
                   d1 == IF KindsAgree(p) THEN 0 ELSE 1
                   d2 == IF e.ok /\ ~StoreAgrees(st, e.obs) THEN 1 ELSE 0
                   d3 == IF (p.n.ph = "idle") = e.ok /\ (e.ok => p.n.mhead.id = e.obs.head.id) THEN 0 ELSE 1 IN
               /\ bad' = bad \cup broken
               /\ NoteAll(l, broken)
               /\ drift' = drift + d1 + d2 + d3
               /\ (IF d1 = 0 THEN TRUE ELSE Drift(l, <<"write kinds of the start-up sequence", pend, p.w>>))
               /\ (IF d2 = 0 THEN TRUE ELSE Drift(l, <<"tracked store differs from the observed store after start-up", StoreDiff(st, e.obs)>>))
               /\ (IF d3 = 0 THEN TRUE ELSE Drift(l, <<"start-up outcome differs from the prediction", p.n.ph, p.n.mhead.id>>))
               /\ mn' = on
               /\ win' = IF e.ok THEN [lo |-> LowestRetained(e.obs), hi |-> IF e.obs.head.h > ctx.end THEN e.obs.head.h ELSE ctx.end]
                         ELSE win
            /\ ph' = "cont" /\ pend' = <<>> /\ clean' = NoObs
            /\ UNCHANGED <<ctx, st, plan, apps, ci>>

TPlan == /\ Ev("Plan") /\ ph = "cont"
         /\ plan' = Trace[l].steps /\ apps' = <<>>
         /\ UNCHANGED <<ctx, st, mn, ph, pend, win, clean, ci, bad, drift>>

TApply == /\ Ev("Apply") /\ ph = "cont"
          /\ apps' = Append(apps, Trace[l].ok)
          /\ bad' = IF Trace[l].ok THEN bad ELSE bad \cup {"ContinuationAccepted"}
          /\ (IF Trace[l].ok THEN TRUE ELSE Note(l, "ContinuationAccepted"))
          /\ UNCHANGED <<ctx, st, mn, ph, pend, plan, win, clean, ci, drift>>

(* the canonical index up to the head (entries an interrupted ResetTo left ABOVE the head are overwritten by the   *)
(* next blocks and are not part of the chain)                                                               *)
CanonUpToHead(o) == {o.canon[j] : j \in {x \in 1..Len(o.canon) : o.canon[x].h <= o.head.h}}
SameIndex(a, b) == CanonUpToHead(a) = CanonUpToHead(b)

TFinal == /\ Ev("Final")
          /\ LET e == Trace[l]
                 p == IF ph = "cont" THEN Predicted ELSE [n |-> mn, w |-> pend]
                 allOk == \A j \in 1..Len(apps) : apps[j]
                 reachedRef == /\ e.reached /\ e.obs.head.id = ctx.ref.head.id /\ e.obs.head.root = ctx.ref.head.root
                               /\ e.obs.head.idr = ctx.ref.head.idr /\ e.obs.lives = ctx.ref.lives /\ e.obs.livei = ctx.ref.livei
                               /\ e.ledger = ctx.refLedger
                 broken == IF ~e.reached THEN (IF bad = {} THEN {"ReachesReference"} ELSE {})
                           ELSE (IF reachedRef THEN {} ELSE {"ReachesReference"})
                                \cup (IF reachedRef /\ ~SameIndex(e.obs, ctx.ref) THEN {"IndexMatchesReference"} ELSE {})
                 d1 == IF ph # "cont" \/ KindsAgree(p) THEN 0 ELSE 1
                 d2 == IF ph # "cont" \/ plan = <<>> \/ (p.n.ph = "idle") = allOk THEN 0 ELSE 1
                 d3 == IF e.reached /\ ~StoreAgrees(st, e.obs) THEN 1 ELSE 0 IN
             /\ bad' = bad \cup broken
             /\ NoteAll(l, broken)
             /\ drift' = drift + d1 + d2 + d3
             /\ (IF d1 = 0 THEN TRUE ELSE Drift(l, <<"write kinds of the continuation", Squeeze(pend), Squeeze(p.w), p.n.ph, p.n.why>>))
             /\ (IF d2 = 0 THEN TRUE ELSE Drift(l, <<"outcome of the continuation differs from the prediction", p.n.ph, p.n.why>>))
             /\ (IF d3 = 0 THEN TRUE ELSE Drift(l, <<"tracked store differs from the observed store at the end", StoreDiff(st, e.obs)>>))
             /\ TLCSet(2, drift')
          /\ ph' = "op" /\ pend' = <<>> /\ plan' = <<>> /\ apps' = <<>>
          /\ UNCHANGED <<ctx, st, mn, win, clean, ci>>

TraceNext == TReset \/ TWrite \/ TOpEnd \/ TCrash \/ TRestart \/ TPlan \/ TApply \/ TFinal
TraceSpec == TraceInit /\ [][TraceNext]_tvars

(* The verdict is delivered by the postcondition: every broken clause with its trace line. *)
TraceAccepted ==
    LET d == TLCGet("stats").diameter IN
    /\ PrintT(<<"DRIFT", TLCGet(2)>>)
    /\ \A i \in 1..Len(TLCGet(4)) : PrintT(<<"DRIFT_AT", TLCGet(4)[i][1], TLCGet(4)[i][2]>>)
    /\ IF d - 1 = Len(Trace) THEN TRUE ELSE Print(<<"TRACE_REJECTED_AT", d, Len(Trace)>>, FALSE)
    /\ \A i \in 1..Len(TLCGet(3)) : PrintT(<<"CLAUSE_BROKEN", TLCGet(3)[i][1], TLCGet(3)[i][2]>>)
    /\ TLCGet(3) = <<>>
=============================================================================
