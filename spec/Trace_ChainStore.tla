--------------------------- MODULE Trace_ChainStore ---------------------------
(* Trace validation for C09.  The trace is the log of crash runs on the REAL node (harness/cmd/    *)
(* d_chainstore): per run                                                                          *)
(*    Reset   scenario, operation under test, observed pre-state, crash schedule, reference node    *)
(*    W*      every durable write the operation issued before it died (kind, versions, ids)         *)
(*    Crash | OpEnd                                                                                  *)
(*    W* (ph = "rec")  writes of the start-up sequence,  Crash (ph = "rec") when it died again,      *)
(*    Restart observation of the node after the normal start-up sequence                            *)
(*    Plan, W* (ph = "cont"), Apply*   the interrupted and following blocks + rollback probe         *)
(*    Crash (ph = "cont") -> Restart ... | Final   observation at the end, compared with reference   *)
(*                                                                                                  *)
(* VERDICT (`bad`, reported by the postcondition): the C09 clauses of ChainStore evaluated on the   *)
(* OBSERVED state: BootOk, HeadMatchesState, HeadInWindow, HeadIndexed after every start-up,         *)
(* CleanRestartStutter after a clean stop, ContinuationAccepted for every applied step,              *)
(* ReachesReference / IndexMatchesReference at the end.                                             *)
(* CONFORMANCE (`drift`, reported, not a verdict): the specification is run on the observed state - *)
(* the kinds of the durable writes of every phase must be the step list ChainStore generates        *)
(* (AddSteps / ResetSteps / BootSteps), the store obtained by applying the observed writes with the *)
(* specification's effects must be the observed store, the head ChainStore's start-up reaches must  *)
(* be the observed head, and the outcome of the continuation must be the predicted one.             *)
EXTENDS ChainStore, Json, IOUtils

Trace == ndJsonDeserialize(IOEnv.TRACE_FILE)
ASSUME TLCSet(2, 0) /\ TLCSet(3, <<>>) /\ TLCSet(4, <<>>)

VARIABLES l,      \* next trace line
          ctx,    \* the Reset record of the current run
          st,     \* durable store tracked by applying the observed writes (ChainStore effects)
          mn,     \* the node the specification starts the current phase from
          ph,     \* current phase: "op" | "rec" | "cont"
          pend,   \* kinds of the durable writes observed in the current phase
          plan,   \* macro steps of the current continuation
          apps,   \* outcomes of the applied steps of the current continuation
          win,    \* [lo, hi] for the head after the next start-up
          clean,  \* observation at the clean stop (or the empty record)
          ci,     \* number of crashes consumed in this run
          bad,    \* clauses broken in this run
          drift   \* number of conformance disagreements

tvars == <<l, ctx, st, mn, ph, pend, plan, apps, win, clean, ci, bad, drift>>

ToSet(s) == {s[i] : i \in 1..Len(s)}
Strip(b) == [h |-> b.h, id |-> b.id, root |-> b.root, idr |-> b.idr, par |-> b.par, kind |-> "plain", nidx |-> 0]

Chain(c) == ToSet(c.chainOld) \cup ToSet(c.chainNew)
BlkById(c, id) == IF \E b \in Chain(c) : b.id = id THEN Strip(CHOOSE b \in Chain(c) : b.id = id)
                  ELSE [NoBlock EXCEPT !.id = id]
OfHead(c, o) == IF o.h = 0 THEN NoBlock
                ELSE [h |-> o.h, id |-> o.id, root |-> o.root, idr |-> o.idr, par |-> o.par, kind |-> "plain", nidx |-> 0]

Unknown == "?"
VersFn(all, pairs) == [h \in all |-> IF \E j \in 1..Len(pairs) : pairs[j].h = h
                                    THEN pairs[CHOOSE j \in 1..Len(pairs) : pairs[j].h = h].r ELSE Unknown]

(* the observed node as a ChainStore node; `all` = saved versions outside the window when known *)
ObsNode(c, o, sall, iall) ==
    [sv |-> VersFn(sall \cup {o.svr[j].h : j \in 1..Len(o.svr)}, o.svr),
     iv |-> VersFn(iall \cup {o.ivr[j].h : j \in 1..Len(o.ivr)}, o.ivr),
     hdr |-> {BlkById(c, o.canon[j].id) : j \in {x \in 1..Len(o.canon) : o.canon[x].hdr}},
     head |-> OfHead(c, o.dhead),
     canon |-> [h \in {o.canon[j].h : j \in 1..Len(o.canon)} |-> o.canon[CHOOSE j \in 1..Len(o.canon) : o.canon[j].h = h].id],
     diff |-> Empty, nidx |-> 0,
     up |-> TRUE, mhead |-> OfHead(c, o.head), ms |-> o.lives, mi |-> o.livei, ph |-> "idle", todo |-> <<>>, why |-> ""]

(* effect of one OBSERVED durable write on the tracked store *)
EffectW(c, s, w) ==
    CASE w.k = "SCommit"   -> [s EXCEPT !.sv = Put(Drop(@, ToSet(w.del)), w.set[1], w.root)]
      [] w.k \in {"SPrune", "SRollback"} -> [s EXCEPT !.sv = Drop(@, ToSet(w.del))]
      [] w.k = "ICommit"   -> [s EXCEPT !.iv = Put(Drop(@, ToSet(w.del)), w.set[1], w.root)]
      [] w.k \in {"IPrune", "IRollback"} -> [s EXCEPT !.iv = Drop(@, ToSet(w.del))]
      [] w.k = "Header"    -> [s EXCEPT !.hdr = @ \cup {BlkById(c, w.id)}]
      [] w.k = "DelHeader" -> [s EXCEPT !.hdr = {x \in @ : x.id # w.id}]
      [] w.k = "Head"      -> [s EXCEPT !.head = BlkById(c, w.id)]
      [] w.k = "Canon"     -> [s EXCEPT !.canon = Put(@, w.h, w.id)]
      [] w.k = "DelCanon"  -> [s EXCEPT !.canon = Drop(@, {w.h})]
      [] w.k = "Diff"      -> [s EXCEPT !.diff = Put(@, w.h, "")]
      [] w.k = "Index"     -> [s EXCEPT !.nidx = @ + 1]
      [] OTHER             -> s

(* does the tracked store agree with an observation (inside the observed window)? *)
StoreAgrees(s, o) ==
    /\ s.head.id = o.dhead.id
    /\ \A h \in o.lo..o.hi :
          /\ Has(s.sv, h) = (\E j \in 1..Len(o.svr) : o.svr[j].h = h)
          /\ Has(s.iv, h) = (\E j \in 1..Len(o.ivr) : o.ivr[j].h = h)
          /\ Has(s.canon, h) = (\E j \in 1..Len(o.canon) : o.canon[j].h = h)
    /\ \A j \in 1..Len(o.svr) : Has(s.sv, o.svr[j].h) => s.sv[o.svr[j].h] \in {o.svr[j].r, Unknown}
    /\ \A j \in 1..Len(o.ivr) : Has(s.iv, o.ivr[j].h) => s.iv[o.ivr[j].h] \in {o.ivr[j].r, Unknown}
    /\ \A j \in 1..Len(o.canon) : Has(s.canon, o.canon[j].h) => s.canon[o.canon[j].h] = o.canon[j].id
    /\ Cardinality(DOMAIN s.sv) = o.ns /\ Cardinality(DOMAIN s.iv) = o.ni

(* macro steps *)
Expand(nd, m) == IF m.what = "Add" THEN AddSteps(nd, m.b) ELSE ResetSteps(nd, m.to)
RECURSIVE RunMacros(_, _, _, _)
RunMacros(nd, ms, w, cr) ==
    IF ms = <<>> \/ nd.ph # "idle" THEN [n |-> nd, w |-> w]
    ELSE LET r == RunX(Begin(nd, Expand(nd, Head(ms))), w, cr) IN RunMacros(r.n, Tail(ms), r.w, cr)

CrashSpec(c, i, phase) ==
    IF i > Len(c.crashes) \/ c.crashes[i].ph # phase THEN NoCrash
    ELSE IF c.crashes[i].k = "clean" THEN NoCrash
    ELSE IF c.crashes[i].k = "" THEN AtIndex(c.crashes[i].i)
    ELSE AtKind(c.crashes[i].k, c.crashes[i].occ)

LowestRetained(o) == IF o.mins > o.mini THEN o.mins ELSE o.mini
MaxOpHeight(c) == LET hs == {c.ops[i].b.h : i \in 1..Len(c.ops)} \cup {c.pre.head.h} IN MaxOf(hs)
KnownIds(c) == {b.id : b \in Chain(c)} \cup {c.pre.head.id}

Note(line, clause) == IF clause \in bad THEN TRUE ELSE TLCSet(3, Append(TLCGet(3), <<line, clause>>))
RECURSIVE NoteAll(_, _)
NoteAll(line, S) == IF S = {} THEN TRUE
                    ELSE LET x == CHOOSE y \in S : TRUE IN Note(line, x) /\ NoteAll(line, S \ {x})
Drift(line, what) == TLCSet(4, IF Len(TLCGet(4)) < 40 THEN Append(TLCGet(4), <<line, what>>) ELSE TLCGet(4))

NoObs == [h |-> 0]

Ev(e) == l <= Len(Trace) /\ Trace[l].ev = e /\ l' = l + 1

TraceInit == /\ l = 1 /\ ctx = [run |-> 0] /\ st = [h |-> 0] /\ mn = [h |-> 0] /\ ph = "op" /\ pend = <<>> /\ plan = <<>> /\ apps = <<>>
             /\ win = [lo |-> 0, hi |-> 0] /\ clean = NoObs /\ ci = 1 /\ bad = {} /\ drift = 0

TReset == /\ Ev("Reset")
          /\ LET e == Trace[l]
                 nd == ObsNode(e, e.pre, ToSet(e.pre.sall), ToSet(e.pre.iall)) IN
             /\ ctx' = e /\ st' = nd /\ mn' = nd
             /\ win' = [lo |-> LowestRetained(e.pre), hi |-> MaxOpHeight(e)]
          /\ ph' = "op" /\ pend' = <<>> /\ plan' = <<>> /\ apps' = <<>> /\ clean' = NoObs /\ ci' = 1 /\ bad' = {}
          /\ UNCHANGED drift

TWrite == /\ Ev("W")
          /\ st' = EffectW(ctx, st, Trace[l])
          /\ pend' = Append(pend, Trace[l].k)
          /\ UNCHANGED <<ctx, mn, ph, plan, apps, win, clean, ci, bad, drift>>

(* prediction of the current phase by the specification *)
Predicted == IF ph = "op" THEN RunMacros(mn, ctx.ops, <<>>, CrashSpec(ctx, ci, "op"))
             ELSE IF ph = "rec" THEN RunX(BootOf(mn), <<>>, CrashSpec(ctx, ci, "rec"))
             ELSE RunMacros(mn, plan, <<>>, CrashSpec(ctx, ci, "cont"))

KindsAgree(p) == p.w = pend

TOpEnd == /\ Ev("OpEnd") /\ ph = "op"
          /\ LET e == Trace[l]
                 p == Predicted
                 d1 == IF KindsAgree(p) THEN 0 ELSE 1
                 d2 == IF StoreAgrees(st, e.obs) THEN 0 ELSE 1
                 d3 == IF (p.n.ph = "idle") = e.ok THEN 0 ELSE 1 IN
             /\ drift' = drift + d1 + d2 + d3
             /\ (IF d1 = 0 THEN TRUE ELSE Drift(l, <<"write kinds of the operation", pend, p.w>>))
             /\ (IF d2 = 0 THEN TRUE ELSE Drift(l, "tracked store differs from the observed store after the operation"))
             /\ (IF d3 = 0 THEN TRUE ELSE Drift(l, "outcome of the operation differs from the prediction"))
             /\ bad' = IF e.ok THEN bad ELSE bad \cup {"OperationAccepted"}
             /\ (IF e.ok THEN TRUE ELSE Note(l, "OperationAccepted"))
             /\ clean' = e.obs
             /\ mn' = ObsNode(ctx, e.obs, DOMAIN st.sv, DOMAIN st.iv)
             /\ ph' = "cont" /\ pend' = <<>>
          /\ UNCHANGED <<ctx, st, plan, apps, win, ci>>

TCrash == /\ Ev("Crash")
          /\ LET e == Trace[l]
                 p == Predicted
                 d1 == IF e.clean \/ (KindsAgree(p) /\ p.n.ph = "down") THEN 0 ELSE 1 IN
             /\ drift' = drift + d1
             /\ (IF d1 = 0 THEN TRUE ELSE Drift(l, <<"write kinds up to the crash", e.ph, pend, p.w, p.n.ph>>))
             /\ win' = IF e.clean THEN [lo |-> clean.head.h, hi |-> clean.head.h]
                       ELSE IF e.ph = "op" THEN win
                       ELSE [lo |-> win.lo, hi |-> IF ctx.end > win.hi THEN ctx.end ELSE win.hi]
             /\ clean' = IF e.clean THEN clean ELSE NoObs
          /\ mn' = Down(st)
          /\ ph' = "rec" /\ pend' = <<>> /\ plan' = <<>> /\ apps' = <<>> /\ ci' = ci + 1
          /\ UNCHANGED <<ctx, st, bad>>

SameObservables(a, b) == /\ a.head = b.head /\ a.dhead = b.dhead /\ a.lives = b.lives /\ a.livei = b.livei
                         /\ a.svr = b.svr /\ a.ivr = b.ivr /\ a.canon = b.canon /\ a.ns = b.ns /\ a.ni = b.ni

TRestart == /\ Ev("Restart") /\ ph = "rec"
            /\ LET e == Trace[l]
                   p == Predicted
                   on == IF e.ok THEN ObsNode(ctx, e.obs, DOMAIN st.sv, DOMAIN st.iv)
                         ELSE [Down(st) EXCEPT !.ph = "failed"]
                   broken == RestartClauses(on, win.lo, win.hi, KnownIds(ctx))
                             \cup (IF e.ok /\ clean # NoObs /\ ~SameObservables(clean, e.obs) THEN {"CleanRestartStutter"} ELSE {})
                   d1 == IF KindsAgree(p) THEN 0 ELSE 1
                   d2 == IF e.ok /\ ~StoreAgrees(st, e.obs) THEN 1 ELSE 0
                   d3 == IF (p.n.ph = "idle") = e.ok /\ (e.ok => p.n.mhead.id = e.obs.head.id) THEN 0 ELSE 1 IN
               /\ bad' = bad \cup broken
               /\ NoteAll(l, broken)
               /\ drift' = drift + d1 + d2 + d3
               /\ (IF d1 = 0 THEN TRUE ELSE Drift(l, <<"write kinds of the start-up sequence", pend, p.w>>))
               /\ (IF d2 = 0 THEN TRUE ELSE Drift(l, "tracked store differs from the observed store after start-up"))
               /\ (IF d3 = 0 THEN TRUE ELSE Drift(l, <<"start-up outcome differs from the prediction", p.n.ph, p.n.mhead.id>>))
               /\ mn' = on
               /\ win' = IF e.ok THEN [lo |-> LowestRetained(e.obs), hi |-> ctx.end] ELSE win
            /\ ph' = "cont" /\ pend' = <<>> /\ clean' = NoObs
            /\ UNCHANGED <<ctx, st, plan, apps, ci>>

TPlan == /\ Ev("Plan") /\ ph = "cont"
         /\ plan' = Trace[l].steps /\ apps' = <<>>
         /\ UNCHANGED <<ctx, st, mn, ph, pend, win, clean, ci, bad, drift>>

TApply == /\ Ev("Apply") /\ ph = "cont"
          /\ apps' = Append(apps, Trace[l].ok)
          /\ bad' = IF Trace[l].ok THEN bad ELSE bad \cup {"ContinuationAccepted"}
          /\ (IF Trace[l].ok THEN TRUE ELSE Note(l, "ContinuationAccepted"))
          /\ UNCHANGED <<ctx, st, mn, ph, pend, plan, win, clean, ci, drift>>

SameIndex(a, b) == a.canon = b.canon

TFinal == /\ Ev("Final")
          /\ LET e == Trace[l]
                 p == IF ph = "cont" THEN Predicted ELSE [n |-> mn, w |-> pend]
                 allOk == \A j \in 1..Len(apps) : apps[j]
                 reachedRef == /\ e.reached /\ e.obs.head.id = ctx.ref.head.id /\ e.obs.head.root = ctx.ref.head.root
                               /\ e.obs.head.idr = ctx.ref.head.idr /\ e.obs.lives = ctx.ref.lives /\ e.obs.livei = ctx.ref.livei
                               /\ e.ledger = ctx.refLedger
                 broken == IF ~e.reached THEN (IF bad = {} THEN {"ReachesReference"} ELSE {})
                           ELSE (IF reachedRef THEN {} ELSE {"ReachesReference"})
                                \cup (IF reachedRef /\ ~SameIndex(e.obs, ctx.ref) THEN {"IndexMatchesReference"} ELSE {})
                 d1 == IF ph # "cont" \/ KindsAgree(p) THEN 0 ELSE 1
                 d2 == IF ph # "cont" \/ plan = <<>> \/ (p.n.ph = "idle") = allOk THEN 0 ELSE 1
                 d3 == IF e.reached /\ ~StoreAgrees(st, e.obs) THEN 1 ELSE 0 IN
             /\ bad' = bad \cup broken
             /\ NoteAll(l, broken)
             /\ drift' = drift + d1 + d2 + d3
             /\ (IF d1 = 0 THEN TRUE ELSE Drift(l, <<"write kinds of the continuation", pend, p.w>>))
             /\ (IF d2 = 0 THEN TRUE ELSE Drift(l, <<"outcome of the continuation differs from the prediction", p.n.ph, p.n.why>>))
             /\ (IF d3 = 0 THEN TRUE ELSE Drift(l, "tracked store differs from the observed store at the end"))
             /\ TLCSet(2, drift')
          /\ ph' = "op" /\ pend' = <<>> /\ plan' = <<>> /\ apps' = <<>>
          /\ UNCHANGED <<ctx, st, mn, win, clean, ci>>

TraceNext == TReset \/ TWrite \/ TOpEnd \/ TCrash \/ TRestart \/ TPlan \/ TApply \/ TFinal
TraceSpec == TraceInit /\ [][TraceNext]_tvars

(* The verdict is delivered by the postcondition: every broken clause with its trace line. *)
TraceAccepted ==
    LET d == TLCGet("stats").diameter IN
    /\ PrintT(<<"DRIFT", TLCGet(2)>>)
    /\ \A i \in 1..Len(TLCGet(4)) : PrintT(<<"DRIFT_AT", TLCGet(4)[i][1], TLCGet(4)[i][2]>>)
    /\ IF d - 1 = Len(Trace) THEN TRUE ELSE Print(<<"TRACE_REJECTED_AT", d, Len(Trace)>>, FALSE)
    /\ \A i \in 1..Len(TLCGet(3)) : PrintT(<<"CLAUSE_BROKEN", TLCGet(3)[i][1], TLCGet(3)[i][2]>>)
    /\ TLCGet(3) = <<>>
=============================================================================
