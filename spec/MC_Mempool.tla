----------------------------- MODULE MC_Mempool -----------------------------
(* Bounded model run of Mempool (refinement of MempoolAbs checked on every transition) and export *)
(* of operation sequences for replay on the real pool.                                           *)
EXTENDS Mempool, Json
CONSTANTS ExportOn, MaxOps,   \* MaxOps bounds the length of a behaviour
          SampleMod,         \* 1/SampleMod of the frequent kinds of transitions are exported (the runner stratifies by kind)
          ImportantMod       \* 1/ImportantMod of the others

VARIABLE hist               \* the operations so far (not in the VIEW)
mvars == <<vars, hist>>
view == <<st, vt, headTxs, Len(hist)>>

MInit == Init /\ hist = <<[op |-> "Init", ep |-> st.ep, per |-> st.per]>>
MNext == Len(hist) <= MaxOps /\ Next /\ hist' = Append(hist, lab'.op)

(* what kind of transition this is (for the stratified choice of the scenarios to replay) *)
Moved == PendIds(st) \cap ExecIds(st')                                  \* promoted
Gone == PoolIds(st) \ (PoolIds(st') \cup SeqToSet(lab'.txs))              \* pruned (not by inclusion in this block)
F(b, s) == IF b THEN s ELSE ""
Kind ==
    LET e == lab'.ev IN
    IF e = "Add" THEN
        LET i == lab'.tx IN
        "Add" \o F(lab'.op.own, "-own") \o F(st.sync, "-sync") \o F(cx.u[i].k > 0, "-pri")
        \o (IF lab'.res = "err" THEN
                (IF i \in PoolIds(st) THEN "-dup" ELSE IF ~LimitsOk(cx, st, cx.u[i]) THEN "-limit"
                 ELSE IF ~MValid(st, vt, cx.u[i]) THEN "-invalid" ELSE "-full")
            ELSE IF i \in ExecIds(st') /\ i \notin ExecIds(st) THEN "-exec"
            ELSE IF i \in PendIds(st') /\ i \notin PendIds(st) THEN "-pend"
            ELSE IF Len(st'.def) > Len(st.def) THEN "-deferred" ELSE "-noop")
    ELSE IF e = "Block" THEN
        "Block" \o F(lab'.op.foreign, "-foreign") \o F(lab'.op.adv, "-adv") \o F(st.sync, "-sync")
        \o F(lab'.txs # <<>>, "-txs") \o F(Moved # {}, "-promote") \o F(Gone # {}, "-prune")
        \* a pruned transaction whose sender keeps a later one in the pool (the prune must not cascade)
        \o F(\E i \in Gone : \E j \in PoolIds(st') : cx.u[j].s = cx.u[i].s /\ cx.u[j].n > cx.u[i].n, "-keepsucc")
        \* ... or keeps a transaction of a LATER EPOCH (the cascade is about the current epoch's sequence only)
        \o F(\E i \in Gone : \E j \in PoolIds(st') : cx.u[j].s = cx.u[i].s /\ cx.u[j].e > cx.u[i].e, "-keepnextepoch")
        \o F(st'.ep # st.ep, "-epoch") \o F(SeqToSet(lab'.txs) \ PoolIds(st) # {}, "-unknown")
    ELSE IF e = "Build" THEN
        "Build" \o F(lab'.cand # <<>>, "-some") \o F(\E j \in 1..Len(lab'.cand) : cx.u[lab'.cand[j]].k > 0, "-pri")
        \o F(SeqToSet(lab'.cand) # Eligible(cx, st), "-cut") \o F(ExecIds(st) \ Eligible(cx, st) # {}, "-skip")
        \o F(st.sync, "-sync")
    ELSE IF e = "StopSync" THEN
        "StopSync" \o F(st.def # <<>>, "-deferred") \o F(PoolIds(st') \ PoolIds(st) # {}, "-added") \o F(Gone # {}, "-prune")
    ELSE e

(* the frequent kinds (plain submissions, foreign blocks that change nothing) are sampled, the others always exported *)
Important == \/ lab'.ev \in {"Build", "StopSync"}
             \/ (lab'.ev = "Block" /\ (Moved # {} \/ Gone # {} \/ st'.ep # st.ep))
Export == IF ExportOn /\ RandomElement(1..(IF Important THEN ImportantMod ELSE SampleMod)) = 1
          THEN PrintT(ToJson([kind |-> Kind, ns |-> NS, gcap |-> GasCap,
                                cfg |-> [el |-> EL, pl |-> PL, qs |-> QS, es |-> ES, cb |-> CB, ric |-> RIC], ops |-> hist']))
          ELSE TRUE
=============================================================================
