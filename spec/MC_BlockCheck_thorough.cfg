CONSTANTS
  Kinds = {"ptx", "prc", "pnotx", "empty"}
  MixKinds = {"ptx", "prc", "pnotx"}
  PairKinds = {"ptx", "prc", "pnotx", "empty"}
INIT Init
NEXT Next
INVARIANTS TypeOK AcceptedConsistent VerdictMatchesTable TableSound FirstInFailSet Export
CHECK_DEADLOCK FALSE
