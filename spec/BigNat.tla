------------------------------- MODULE BigNat -------------------------------
(* Exact arithmetic on non-negative integers of arbitrary size (TLC integers are 32 bit; coin     *)
(* amounts are 10^18..10^24).  A number is a sequence of base-10^4 limbs, least significant       *)
(* first, without most-significant zero limbs (<<>> = 0).  <<-1>> marks a negative amount read    *)
(* from the implementation (never legal).                                                        *)
EXTENDS Integers, Sequences

Base == 10000
IsNeg(a) == a = <<-1>>

RECURSIVE Norm(_)
Norm(a) == IF a = <<>> THEN <<>>
           ELSE IF a[Len(a)] = 0 THEN Norm(SubSeq(a, 1, Len(a) - 1)) ELSE a

H(a) == IF a = <<>> THEN 0 ELSE Head(a)
T(a) == IF a = <<>> THEN <<>> ELSE Tail(a)

RECURSIVE AddC(_, _, _)
AddC(a, b, c) == IF a = <<>> /\ b = <<>> THEN (IF c = 0 THEN <<>> ELSE <<c>>)
                 ELSE LET x == H(a) + H(b) + c IN <<x % Base>> \o AddC(T(a), T(b), x \div Base)
Add(a, b) == AddC(a, b, 0)

\* -1 / 0 / 1
RECURSIVE CmpMS(_, _, _)
CmpMS(a, b, i) == IF i = 0 THEN 0
                  ELSE IF a[i] < b[i] THEN -1 ELSE IF a[i] > b[i] THEN 1 ELSE CmpMS(a, b, i - 1)
Cmp(a, b) == IF Len(a) < Len(b) THEN -1 ELSE IF Len(a) > Len(b) THEN 1 ELSE CmpMS(a, b, Len(a))
Leq(a, b) == Cmp(a, b) <= 0
Lt(a, b) == Cmp(a, b) < 0

\* a - b for a >= b
RECURSIVE SubB(_, _, _)
SubB(a, b, br) == IF a = <<>> THEN <<>>
                  ELSE LET x == H(a) - H(b) - br IN
                       IF x < 0 THEN <<x + Base>> \o SubB(T(a), T(b), 1) ELSE <<x>> \o SubB(T(a), T(b), 0)
Sub(a, b) == Norm(SubB(a, b, 0))

\* a * n for a small natural n (limb * n must fit 31 bits: n <= 200000)
RECURSIVE MulC(_, _, _)
MulC(a, n, c) == IF a = <<>> THEN (IF c = 0 THEN <<>> ELSE IF c < Base THEN <<c>> ELSE <<c % Base>> \o MulC(<<>>, n, c \div Base))
                 ELSE LET x == Head(a) * n + c IN <<x % Base>> \o MulC(Tail(a), n, x \div Base)
MulSmall(a, n) == Norm(MulC(a, n, 0))

RECURSIVE SumSeq(_)
SumSeq(s) == IF s = <<>> THEN <<>> ELSE Add(Head(s), SumSeq(Tail(s)))
=============================================================================
