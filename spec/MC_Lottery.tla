----------------------------- MODULE MC_Lottery -----------------------------
(* Bounded model run for C16.                                                                    *)
(*  - enumerates every shard layout with 0..MaxN candidates, any author subset and 1..MaxK flips *)
(*    per author (the "exhaustively for small sizes" of the property's quantifier) and exports   *)
(*    each layout as a case for the Go driver (one JSON line per layout);                        *)
(*  - runs a REFERENCE lottery (a deliberately simple abstract assignment, parameterised by a    *)
(*    rotation standing for the seed) through the guarded actions of Lottery.tla and checks      *)
(*      RefAdmissible : the relation is satisfiable for every layout, quota and rotation,        *)
(*                      including the placeholder and single-author corner cases (the relation   *)
(*                      is not contradictory, the actions are not vacuously disabled);           *)
(*      EndToEnd      : for every admissible outcome, packages built from candidatesPerAuthor    *)
(*                      give every candidate the key of every non-placeholder flip it is         *)
(*                      assigned, give nothing to non-recipients, and the package index is       *)
(*                      defined iff the candidate is a recipient (the clauses imply the          *)
(*                      user-level statement of the property).                                   *)
(*  - after the lottery, a set of KEY-LESS candidates (no / malformed public key in the state)   *)
(*    is chosen (layouts of at most KLMaxN candidates): every subset of at most MaxKL            *)
(*    candidates for layouts of at most KLFullN                                                  *)
(*    candidates, KLSamples layout-dependent subsets (a singleton or a pair, alternating with    *)
(*    the layout) above; EndToEnd is                                                             *)
(*    checked again with a packager that keeps a (useless) entry for a key-less recipient, and   *)
(*    every (layout, key-less assignment) is exported as a case for the ceremony-level runs.     *)
EXTENDS Lottery, Json
CONSTANTS MaxN, MaxK, Qs, Rots, ExportOn,
          MaxKL, KLFullN, KLSamples, KLMaxN

VARIABLES phase      \* "layout" (a layout was chosen) | "eval" (the reference lottery ran) | "keys" (key-less candidates chosen)
VARIABLES lay0       \* the layout of this behaviour
mvars == <<lvars, phase, lay0>>

RECURSIVE SumTo(_, _)
SumTo(k, i) == IF i = 0 THEN 0 ELSE SumTo(k, i - 1) + k[i]
RECURSIVE FaOf(_, _)
FaOf(k, i) == IF i > Len(k) THEN <<>> ELSE [j \in 1..k[i] |-> i - 1] \o FaOf(k, i + 1)
MkLayout(k) == [n |-> Len(k), k |-> k, fo |-> [i \in 1..Len(k) |-> [j \in 1..k[i] |-> SumTo(k, i - 1) + j - 1]], fa |-> FaOf(k, 1),
                kl |-> [i \in 1..Len(k) |-> 0], tag |-> "model"]
Off(lay, c) == lay.fo[c + 1][1]      \* first flip of author c

RECURSIVE SortAsc(_)
SortAsc(S) == IF S = {} THEN <<>> ELSE LET m == CHOOSE x \in S : \A y \in S : x <= y IN <<m>> \o SortAsc(S \ {m})
RECURSIVE Dedupe(_)
Dedupe(s) == IF s = <<>> THEN <<>>
             ELSE LET r == Dedupe(SubSeq(s, 1, Len(s) - 1)) x == s[Len(s)] IN IF x \in ToSet(r) THEN r ELSE Append(r, x)

---------------------------------------------------------------------------
(* reference lottery: candidate c takes q consecutive authors from the rotated author list; its  *)
(* j-th short flip is the next unused flip of the j-th author; the long list is what is left of  *)
(* its authors' flips (everything, if it has fewer than q distinct authors), or one placeholder  *)
AuthorsSeq(lay) == SortAsc({c \in Cands(lay) : IsAuthor(lay, c)})
RefApc(lay, q, r, c) == LET A == AuthorsSeq(lay) IN [j \in 1..q |-> A[((c * q + (j - 1) + r) % Len(A)) + 1]]
Occ(s, j) == Cardinality({i \in 1..(j - 1) : s[i] = s[j]})
RefShort(lay, q, r, c) == LET ap == RefApc(lay, q, r, c) IN
                          Dedupe([j \in 1..q |-> Off(lay, ap[j]) + (Occ(ap, j) % K(lay, ap[j]))])
RefLong(lay, q, r, c) == LET D == ToSet(RefApc(lay, q, r, c))
                             all == UNION {FlipsOf(lay, a) : a \in D}
                             rest == IF Cardinality(D) >= q THEN all \ ToSet(RefShort(lay, q, r, c)) ELSE all
                         IN IF rest = {} THEN <<r % NF(lay)>> ELSE SortAsc(rest)
RefCpa(lay, q, r, a) == SortAsc({c \in Cands(lay) : a \in ToSet(RefApc(lay, q, r, c))})
Empty(lay) == [c \in 1..lay.n |-> <<>>]
RefOut(lay, q, r) ==
    IF AuthorsSeq(lay) = <<>> THEN [apc |-> Empty(lay), cpa |-> Empty(lay), short |-> Empty(lay), long |-> Empty(lay)]
    ELSE [apc |-> [c \in 1..lay.n |-> RefApc(lay, q, r, c - 1)],
          cpa |-> [c \in 1..lay.n |-> RefCpa(lay, q, r, c - 1)],
          short |-> [c \in 1..lay.n |-> RefShort(lay, q, r, c - 1)],
          long |-> [c \in 1..lay.n |-> RefLong(lay, q, r, c - 1)]]

(* faithful packaging: the package of a is candidatesPerAuthor[a], one entry per position (an    *)
(* entry nobody can decrypt for a key-less recipient); c finds its entry by position             *)
IdxOf(s, c) == IF c \in ToSet(s) THEN (CHOOSE i \in 1..Len(s) : s[i] = c /\ \A j \in 1..(i - 1) : s[j] # c) - 1 ELSE -1
ModelRecips(lay, o, a) == [i \in 1..Len(o.cpa[a + 1]) |-> Canon(lay, o.cpa[a + 1][i])]
ModelTries(lay, o, c) ==
    {[f |-> f, idx |-> IdxOf(o.cpa[Author(lay, f) + 1], c),
      at |-> IF IdxOf(o.cpa[Author(lay, f) + 1], c) = -1 THEN -1 ELSE Canon(lay, c),
      res |-> IF IdxOf(o.cpa[Author(lay, f) + 1], c) = -1 \/ Keyless(lay, c) THEN "nokey" ELSE "ok"] : f \in FlipIds(lay)}
ModelExt(lay, o, a) ==
    {[idx |-> i, who |-> w, res |-> IF i < Len(o.cpa[a + 1]) THEN (IF o.cpa[a + 1][i + 1] = w /\ ~Keyless(lay, w) THEN "ok" ELSE "fail") ELSE "err"]
        : i \in 0..Len(o.cpa[a + 1]), w \in Cands(lay)}

(* key-less assignments of a layout.  Kinds: the smallest key-less candidate has no key (1) or a *)
(* malformed one (2) depending on the layout, the others alternate: a pair always has both.      *)
Hash(lay) == SumTo([i \in 1..lay.n |-> lay.k[i] * i], lay.n) + lay.n
Sampled(lay, j) == LET n == lay.n  h == Hash(lay) + j
                       a == h % n
                       b == (a + 1 + ((h \div n) % (n - 1))) % n
                   IN IF h % 2 = 1 \/ n < 2 THEN {a} ELSE {a, b}
KLSets(lay) == IF lay.n = 0 \/ lay.n > KLMaxN THEN {}
               ELSE IF lay.n <= KLFullN THEN {S \in SUBSET Cands(lay) : S # {} /\ Cardinality(S) <= MaxKL}
               ELSE {Sampled(lay, j) : j \in 1..KLSamples}
Rank(S, c) == Cardinality({d \in S : d < c})
KlOf(lay, S) == [i \in 1..lay.n |-> IF (i - 1) \in S THEN 1 + ((Hash(lay) + Rank(S, i - 1)) % 2) ELSE 0]

---------------------------------------------------------------------------
MInit == /\ LInit /\ phase = "layout"
         /\ \E n \in 0..MaxN : \E k \in [1..n -> 0..MaxK] : lay0 = MkLayout(k)

MinOf(S) == CHOOSE x \in S : \A y \in S : x <= y
MNext == \/ /\ phase = "layout" /\ phase' = "eval" /\ lay0' = lay0
            /\ \E q \in Qs, r \in Rots : Evaluate(lay0, q, r, RefOut(lay0, q, r))
         \/ /\ phase = "eval" /\ cur.seed = MinOf(Rots) /\ phase' = "keys" /\ lay0' = lay0
            /\ \E S \in KLSets(lay0) : cur' = [cur EXCEPT !.lay.kl = KlOf(lay0, S)]
            /\ memo' = memo

RefAdmissible == phase = "layout" => /\ LayoutOK(lay0)
                                     /\ \A q \in Qs, r \in Rots : Admissible(lay0, q, RefOut(lay0, q, r))
EndToEnd == phase \in {"eval", "keys"} =>
    /\ LayoutOK(cur.lay)
    /\ \A a \in Cands(cur.lay) : PackageVerdict(cur.lay, cur.out, a, cur.out.cpa[a + 1] # <<>>, ModelRecips(cur.lay, cur.out, a), ModelExt(cur.lay, cur.out, a), TRUE, 0) = {}
    /\ \A c \in Cands(cur.lay) : SolveVerdict(cur.lay, cur.out, c,
                                              IF NF(cur.lay) = 0 THEN <<>> ELSE cur.out.short[c + 1],
                                              IF NF(cur.lay) = 0 THEN <<>> ELSE cur.out.long[c + 1],
                                              ModelTries(cur.lay, cur.out, c), {}) = {}

\* one case per layout and one per (layout, key-less assignment)
ExportInv ==
    /\ (ExportOn /\ phase = "layout") =>
          PrintT(ToJson([n |-> lay0.n, k |-> lay0.k, kl |-> lay0.kl, flips |-> NF(lay0),
                         authors |-> Cardinality({c \in Cands(lay0) : IsAuthor(lay0, c)})]))
    /\ (ExportOn /\ phase = "keys" /\ cur.q = MinOf(Qs)) =>
          PrintT(ToJson([n |-> lay0.n, k |-> lay0.k, kl |-> cur.lay.kl, flips |-> NF(lay0),
                         authors |-> Cardinality({c \in Cands(lay0) : IsAuthor(lay0, c)})]))

\* a packager that SKIPS key-less recipients (entries shift) is rejected by the clauses: sanity of PackageEntry
SkipExt(lay, o, a) ==
    LET kept == SelectSeq(o.cpa[a + 1], LAMBDA c : ~Keyless(lay, c)) IN
    {[idx |-> i, who |-> w, res |-> IF i < Len(kept) THEN (IF kept[i + 1] = w THEN "ok" ELSE "fail") ELSE "err"]
        : i \in 0..Len(o.cpa[a + 1]), w \in Cands(lay)}
SkipRejected == phase = "keys" =>
    \A a \in Cands(cur.lay) :
        (\E i \in 1..Len(cur.out.cpa[a + 1]) : Keyless(cur.lay, cur.out.cpa[a + 1][i]))
        => "PackageEntry" \in PackageVerdict(cur.lay, cur.out, a, TRUE, ModelRecips(cur.lay, cur.out, a), SkipExt(cur.lay, cur.out, a), TRUE, 0)
=============================================================================
