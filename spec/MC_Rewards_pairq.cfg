CONSTANTS
  N = 2
  Upgs = {9, 12}
  Gods = {"V"}
  Pools = {0}
  PrevSet = {2, 3, 7}
  OutSet = {3, 4, 5, 6, 7, 8}
  GoodSet = {0}
  RepSet = {0, 1}
  NqSet = {0}
  StakeSet = {2}
  DelegSet = {FALSE}
  RelOn = TRUE
  PerPat = 0
  SampleMod = 1
INIT MCInit
NEXT MCNext
INVARIANTS Inv Export
CHECK_DEADLOCK FALSE
