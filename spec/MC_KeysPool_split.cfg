CONSTANTS
  NN = 2
  Authors = {1, 2}
  ForgeFor = {1}
  FClasses = {1}
  MaxPos = 3
  MaxLag = 1
  MaxDlv = 2
  MaxRst = 0
  MaxSyn = 0
  MaxBatch = 0
  Acts = {}
  SyncCap = 1
  ExportOn = FALSE
  SampleMod = 40
  WalkEvery = 10
INIT Init
NEXT Next
VIEW view
INVARIANTS TypeOK NoSplit

ACTION_CONSTRAINT Export
CHECK_DEADLOCK FALSE
