------------------------------ MODULE EpochLoop ------------------------------
(* The loop of ceremony.ApplyNewEpoch that applies the per-identity validation results            *)
(* (core/ceremony/ceremony.go: `for addr, value := range <map>` -> applyOnState).                 *)
(* applyOnState(i) reads ANOTHER identity's record: when i becomes validated out of Candidate /  *)
(* Suspended / Zombie and delegates to d, and d itself currently has a delegatee, the            *)
(* (transitive) delegation of i is removed.  The loop order is Go's map iteration order, i.e.    *)
(* arbitrary and different on every node; C01 needs the result to be independent of it.          *)
(*                                                                                              *)
(* The model runs the loop in every order over every delegation graph of a few identities and    *)
(* `Confluent` says the final delegation map does not depend on the order.  It does not hold for *)
(* an arbitrary order (TLC exports the order-sensitive graphs, which become real scenarios);    *)
(* it holds trivially when the loop runs in one canonical (address) order, which is what the    *)
(* repaired code does.                                                                           *)
EXTENDS Integers, Sequences, FiniteSets, TLC, Json

CONSTANTS Ids,            \* set of positive integers (identities that get validated out of Candidate)
          CanonicalOrder  \* TRUE: the loop visits identities in address order (repaired code)

None == 0
Graphs == {d \in [Ids -> Ids \cup {None}] : \A i \in Ids : d[i] # i}

\* applyOnState for identity i on delegation map d
Apply(d, i) == IF d[i] # None /\ d[d[i]] # None THEN [d EXCEPT ![i] = None] ELSE d

RECURSIVE Run(_, _)
Run(d, order) == IF order = <<>> THEN d ELSE Run(Apply(d, Head(order)), Tail(order))

Perms == {p \in [1..Cardinality(Ids) -> Ids] : \A i, j \in 1..Cardinality(Ids) : i # j => p[i] # p[j]}
RECURSIVE SortAsc(_)
SortAsc(S) == IF S = {} THEN <<>> ELSE LET m == CHOOSE x \in S : \A y \in S : x <= y IN <<m>> \o SortAsc(S \ {m})
Orders == IF CanonicalOrder THEN {SortAsc(Ids)} ELSE Perms

\* graphs that block application can build: a delegation d[i] = j is only switched on while j has no delegatee
\* itself, so chains grow from their tail end; cycles cannot be built
RECURSIVE Depth(_, _, _)
Depth(d, i, n) == IF d[i] = None \/ n = 0 THEN 0 ELSE 1 + Depth(d, d[i], n - 1)
Acyclic(d) == \A i \in Ids : Depth(d, i, Cardinality(Ids) + 1) <= Cardinality(Ids)

VARIABLE g
Init == g \in Graphs /\ Acyclic(g)
Next == UNCHANGED g

Confluent == \A p, q \in Orders : Run(g, p) = Run(g, q)

\* export of the order-sensitive graphs (edges delegator -> delegatee) with two orders that disagree
Sensitive == \E p, q \in Perms : Run(g, p) # Run(g, q)
Edges(d) == LET s == SortAsc({i \in Ids : d[i] # None}) IN [k \in 1..Len(s) |-> <<s[k], d[s[k]]>>]
ExportSensitive == IF Sensitive THEN PrintT(ToJson([graph |-> Edges(g)])) ELSE TRUE
=============================================================================
