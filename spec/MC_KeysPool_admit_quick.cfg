CONSTANTS
  NN = 2
  Authors = {1, 2}
  ForgeFor = {1}
  FClasses = {1, 2, 3, 4, 5, 6, 7}
  MaxPos = 3
  MaxLag = 1
  MaxDlv = 3
  MaxRst = 0
  MaxSyn = 0
  MaxBatch = 0
  Acts = {}
  SyncCap = 1
  ExportOn = TRUE
  SampleMod = 40
  WalkEvery = 10
INIT Init
NEXT Next
VIEW view
INVARIANTS TypeOK Admission HonestAgreement OrderIndependent FirstWins ClearedAtEpoch OwnIsOwn PublishedBySession NoEarlyReveal PkgAfterLottery
PROPERTY OnePerAuthorEpoch
ACTION_CONSTRAINT Export
CHECK_DEADLOCK FALSE
