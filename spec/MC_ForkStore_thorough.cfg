CONSTANTS
  AsRead = FALSE
  MaxOwn = 3
  MaxFork = 3
  OwnSpecial = 1
  Valids = {"valid", "badroot", "badtx", "badflags"}
  CertKinds = {"nil", "empty", "under", "forged", "valid"}
  ExportOn = TRUE
  SampleMod = 12
INIT MInit
NEXT MNext
INVARIANTS TypeOK AdoptOnlyCertified AdoptionCompletes AdoptionEqualsSync RevertedReturned RefusedUnchanged RefuseIffUnacceptable
ACTION_CONSTRAINT Export
CHECK_DEADLOCK FALSE
