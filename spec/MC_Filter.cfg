CONSTANTS
  MaxFollow = 2
  Bug = "none"
  ExportOn = TRUE
INIT Init
NEXT Next
INVARIANTS TypeOK FilterLeavesNoTrace IncludedValid
ACTION_CONSTRAINT Export
CHECK_DEADLOCK FALSE
