------------------------------ MODULE OverlayDb ------------------------------
(* Copy-on-write store of database/backed_mem_db.go + backed_mem_batch.go (C13).            *)
(* Implementation-shaped: a private inner store, a `touched` set, reads routed by `touched`, *)
(* and the merged iterator transcribed step by step.  The property-shaped target is `ref`,  *)
(* an ordinary store pre-loaded with the base content; `Refines` says the two are           *)
(* indistinguishable through Get / Has / forward and reverse range iteration, and           *)
(* `BaseUnchanged` says the underlying store is never written.                              *)
EXTENDS Integers, Sequences, FiniteSets, TLC

CONSTANTS Keys,      \* set of integers (ordered keys); borders range over Borders
          Vals,      \* set of positive integers (values); 0 = absent
          Borders,   \* set of integers used as range borders; 0 = no bound
          MaxOps,    \* bound on the number of mutating operations per behaviour
          MaxBatch   \* bound on the length of a batch

Nil == 0
VARIABLES base,      \* [Keys -> Vals \cup {Nil}]   the permanent (underlying) store
          inner,     \* [Keys -> Vals \cup {Nil}]   the overlay's private store
          touched,   \* SUBSET Keys                 keys ever written/deleted through the overlay
          ref,       \* [Keys -> Vals \cup {Nil}]   reference: ordinary store pre-loaded with base
          base0,     \* base content at creation of the overlay (for BaseUnchanged)
          bopen,     \* a batch object (backedMemBatch) is open ...
          bops,      \* ... with these operations queued in it (nothing of them is visible before Write)
          hist       \* sequence of operations applied so far (scenario export only; not in VIEW)

vars == <<base, inner, touched, ref, base0, bopen, bops, hist>>
view == <<base, inner, touched, ref, base0, bopen, bops>>

Store == [Keys -> Vals \cup {Nil}]

---------------------------------------------------------------------------
(* sorted key sequences *)
RECURSIVE SortAsc(_)
SortAsc(S) == IF S = {} THEN <<>>
              ELSE LET m == CHOOSE x \in S : \A y \in S : x <= y IN <<m>> \o SortAsc(S \ {m})
RECURSIVE Rev(_)
Rev(s) == IF s = <<>> THEN <<>> ELSE Rev(Tail(s)) \o <<Head(s)>>

InRange(k, s, e) == (s = Nil \/ k >= s) /\ (e = Nil \/ k < e)   \* [s, e) ; Nil = unbounded

KeysOf(st, s, e, rev) ==
    LET asc == SortAsc({k \in Keys : st[k] # Nil /\ InRange(k, s, e)})
    IN IF rev THEN Rev(asc) ELSE asc

---------------------------------------------------------------------------
(* implementation: reads *)
ImplGet(k) == IF k \in touched THEN inner[k] ELSE base[k]
ImplHas(k) == ImplGet(k) # Nil

(* implementation: iterator.  innerKeys = snapshot of the inner store's keys in the range,        *)
(* permanent iterator = the base store's keys in the range; Next() merges them (iterator.Next).  *)
Cmp(a, b, rev) == IF rev THEN a >= b ELSE a <= b

RECURSIVE Merge(_, _, _)
Merge(ik, pk, rev) ==
    IF pk # <<>> THEN
        IF ik # <<>> /\ Cmp(ik[1], pk[1], rev) THEN
            \* inner key comes first (or equal: the permanent entry is shadowed and skipped)
            <<<<ik[1], ImplGet(ik[1])>>>> \o Merge(Tail(ik), IF ik[1] = pk[1] THEN Tail(pk) ELSE pk, rev)
        ELSE IF pk[1] \in touched THEN
            \* permanent key that was overwritten or deleted through the overlay: skipped
            Merge(ik, Tail(pk), rev)
        ELSE <<<<pk[1], base[pk[1]]>>>> \o Merge(ik, Tail(pk), rev)
    ELSE IF ik # <<>> THEN <<<<ik[1], ImplGet(ik[1])>>>> \o Merge(Tail(ik), pk, rev)
    ELSE <<>>

ImplIter(s, e, rev) == Merge(KeysOf(inner, s, e, rev), KeysOf(base, s, e, rev), rev)

(* reference: ordinary store *)
RefIter(s, e, rev) == LET ks == KeysOf(ref, s, e, rev) IN [i \in 1..Len(ks) |-> <<ks[i], ref[ks[i]]>>]

---------------------------------------------------------------------------
(* operations *)
BatchOps == UNION {[1..n -> [op : {"set"}, k : Keys, v : Vals] \cup [op : {"del"}, k : Keys, v : {Nil}]] : n \in 1..MaxBatch}

RECURSIVE ApplyOps(_, _)
ApplyOps(st, ops) == IF ops = <<>> THEN st
                     ELSE ApplyOps([st EXCEPT ![Head(ops).k] = Head(ops).v], Tail(ops))

Init == /\ base \in Store
        /\ base0 = base
        /\ inner = [k \in Keys |-> Nil]
        /\ touched = {}
        /\ ref = base
        /\ bopen = FALSE /\ bops = <<>>
        /\ hist = <<>>

Set(k, v) == /\ Len(hist) < MaxOps
             /\ inner' = [inner EXCEPT ![k] = v]
             /\ touched' = touched \cup {k}
             /\ ref' = [ref EXCEPT ![k] = v]
             /\ hist' = Append(hist, [ev |-> "Set", k |-> k, v |-> v])
             /\ UNCHANGED <<base, base0, bopen, bops>>

Delete(k) == /\ Len(hist) < MaxOps
             /\ inner' = [inner EXCEPT ![k] = Nil]
             /\ touched' = touched \cup {k}
             /\ ref' = [ref EXCEPT ![k] = Nil]
             /\ hist' = Append(hist, [ev |-> "Delete", k |-> k, v |-> Nil])
             /\ UNCHANGED <<base, base0, bopen, bops>>

\* backedMemBatch: Set/Delete are buffered, Write applies them to the inner store and touches the keys
Batch(ops) == /\ Len(hist) < MaxOps
              /\ inner' = ApplyOps(inner, ops)
              /\ touched' = touched \cup {ops[i].k : i \in 1..Len(ops)}
              /\ ref' = ApplyOps(ref, ops)
              /\ hist' = Append(hist, [ev |-> "Batch", ops |-> ops])
              /\ UNCHANGED <<base, base0, bopen, bops>>

(* the batch object step by step: NewBatch, queued Set / Delete (buffered in the batch: reads and iterations in between - and   *)
(* direct writes - see nothing of them), Write (what Batch does, with the queued operations), or Close without Write (the      *)
(* batch is abandoned: it never happened)                                                                                     *)
BOpen == /\ Len(hist) < MaxOps /\ ~bopen /\ bopen' = TRUE /\ bops' = <<>>
         /\ hist' = Append(hist, [ev |-> "BOpen"]) /\ UNCHANGED <<base, base0, inner, touched, ref>>
BQueue(o) == /\ Len(hist) < MaxOps /\ bopen /\ Len(bops) < MaxBatch /\ bops' = Append(bops, o)
             /\ hist' = Append(hist, [ev |-> IF o.op = "set" THEN "BSet" ELSE "BDel", k |-> o.k, v |-> o.v])
             /\ UNCHANGED <<base, base0, inner, touched, ref, bopen>>
BWrite == /\ Len(hist) < MaxOps /\ bopen
          /\ inner' = ApplyOps(inner, bops)
          /\ touched' = touched \cup {bops[i].k : i \in 1..Len(bops)}
          /\ ref' = ApplyOps(ref, bops)
          /\ bopen' = FALSE /\ bops' = <<>>
          /\ hist' = Append(hist, [ev |-> "BWrite"]) /\ UNCHANGED <<base, base0>>
BDiscard == /\ Len(hist) < MaxOps /\ bopen /\ bopen' = FALSE /\ bops' = <<>>
            /\ hist' = Append(hist, [ev |-> "BDiscard"]) /\ UNCHANGED <<base, base0, inner, touched, ref>>

Next == \/ \E k \in Keys, v \in Vals : Set(k, v)
        \/ \E k \in Keys : Delete(k)
        \/ \E ops \in BatchOps : Batch(ops)
        \/ BOpen \/ BWrite \/ BDiscard
        \/ \E k \in Keys, v \in Vals : BQueue([op |-> "set", k |-> k, v |-> v])
        \/ \E k \in Keys : BQueue([op |-> "del", k |-> k, v |-> Nil])

Spec == Init /\ [][Next]_vars

---------------------------------------------------------------------------
(* properties *)
Refines == /\ \A k \in Keys : ImplGet(k) = ref[k]
           /\ \A k \in Keys : ImplHas(k) = (ref[k] # Nil)
           /\ \A s \in Borders \cup {Nil}, e \in Borders \cup {Nil}, rev \in BOOLEAN :
                 ImplIter(s, e, rev) = RefIter(s, e, rev)

BaseUnchanged == base = base0

TypeOK == /\ base \in Store /\ inner \in Store /\ ref \in Store /\ touched \subseteq Keys

(* full observation of a store, as the conformance driver logs it after an operation *)
Ranges == (Borders \cup {Nil}) \X (Borders \cup {Nil}) \X BOOLEAN
=============================================================================
