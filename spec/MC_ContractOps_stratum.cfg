CONSTANTS
  Contracts = {"timelock", "multisig", "oraclelock", "refundlock", "voting", "inc", "sum", "erc20", "testcases", "sft", "payer"}
  ArgClasses = {"valid", "valid2", "over", "missing", "garbage", "short", "toself", "tosender"}
  AmtClasses = {"zero", "low", "some", "big"}
  GasClasses = {"zero", "small", "smallhalf", "smallrem", "exact", "enough"}
  Roles = {"owner", "other", "voter"}
  MaxDev = 1
  Deep = FALSE
  WalkLen = 24
  ExportOn = TRUE
INIT Init
NEXT Next
VIEW view
INVARIANTS TypeOK
ACTION_CONSTRAINT Export
CHECK_DEADLOCK FALSE
