CONSTANTS
  Keys = {2, 4, 6, 8, 10, 12, 14, 16, 18, 20, 22, 24}
  Vals = {1, 2, 3}
  Borders = {1}
  MaxOps = 1000000
  MaxBatch = 1000000
INIT TraceInit
NEXT TraceNext
INVARIANTS Refines BaseUnchanged
POSTCONDITION TraceAccepted
CHECK_DEADLOCK FALSE
