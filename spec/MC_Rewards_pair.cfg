CONSTANTS
  N = 2
  Upgs = {12}
  Gods = {"V"}
  Pools = {0, 1}
  PrevSet = {2, 3, 4, 6, 7}
  OutSet = {3, 4, 5, 6, 7, 8}
  GoodSet = {0, 1, 4}
  RepSet = {0, 1}
  NqSet = {0}
  StakeSet = {0, 2}
  DelegSet = {FALSE, TRUE}
  RelOn = TRUE
  PerPat = 2
  SampleMod = 40
INIT MCInit
NEXT MCNext
INVARIANTS Inv Export
CHECK_DEADLOCK FALSE
