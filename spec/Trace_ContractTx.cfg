CONSTANTS
  Names = {}
  Proposer = "k0"
  Sender = "S"
  Target = "C"
  Other = "K"
  Rcpt = "R"
  AmtVals = {}
  GasVals = {}
  MaxSteps = 0
  MaxDepth = 0
  MaxTx = 1
  Bug = "none"
INIT TraceInit
NEXT TraceNext
POSTCONDITION TraceAccepted
CHECK_DEADLOCK FALSE
