---------------------------- MODULE Trace_Offline ----------------------------
(* Trace validation for the growth module "OD" of C10 (offline detection, offline penalties, online status   *)
(* switching).  Each line is one step of a real multi-node world driven by harness/cmd/d_offline:            *)
(*   Genesis  a new world (configuration, initial state, detector start times)                               *)
(*   Wait     virtual time passed; the listed identities were heard by the listed nodes (real votes)         *)
(*   Restart  a node restarted (fresh detector)                                                              *)
(*   Tx       an OnlineStatusTx was offered to a real mempool (verdict class logged)                         *)
(*   Offer    a proposal (real ProposeBlock, or crafted by a malicious proposer) and the judgement of every   *)
(*            awake node on both paths (OfflineDetector.ValidateBlock / Blockchain.ValidateBlock)            *)
(*   Block    the block the round ended with, the final votes cast on it (TurnOffline flags decided by the    *)
(*            real VoteForOffline), the certificate, and the state OBSERVED on the reference node afterwards  *)
(*   Thr      a real detector above the 3634300 height switch answered whether a proposed address is voted   *)
(*            offline (validators of the round's steps pushed, real votes processed)                        *)
(*   Diverged a node refused to insert a block every awake node had validated                                *)
(* The observed chain state is installed after every block; what the detectors can know (who was heard when   *)
(* by whom, which TurnOffline votes reached whom, detector start times) is carried by the specification from  *)
(* the logged deliveries.  `bad` collects the property clauses some observed step breaks; the postcondition   *)
(* reports each with its first trace line (the verdict).                                                     *)
EXTENDS Offline, Json, IOUtils

BN == INSTANCE BigNat

Trace == ndJsonDeserialize(IOEnv.TRACE_FILE)
ASSUME TLCSet(3, <<>>)

U == 0..9          \* key indices of a world (identities, candidate, stranger, observer)
Margin == 90       \* seconds of slack in the "must act" clauses

VARIABLES l, c, bal, stake, prev, tov, seen, up, lastProp, cfgv, bad
tvars == <<l, c, bal, stake, prev, tov, seen, up, lastProp, cfgv, bad>>

SetOf(s) == {s[i] : i \in 1..Len(s)}
FnOf(pairs, dflt) == [a \in U |-> IF \E i \in 1..Len(pairs) : pairs[i][1] = a
                                  THEN pairs[CHOOSE i \in 1..Len(pairs) : pairs[i][1] = a][2] ELSE dflt]
StOf(st) == [online |-> SetOf(st.online), valid |-> SetOf(st.valid), pend |-> SetOf(st.pend), delayed |-> DSet(FnOf(st.delayed, 0)),
             dc |-> FnOf(st.delayed, 0), ps |-> FnOf(st.ps, 0), pts |-> FnOf(st.pts, 0), period |-> st.period, net |-> st.net]
OffOf(o) == [f |-> o[1], a |-> o[2]]
TxsOf(t) == [i \in 1..Len(t) |-> [from |-> t[i][1], on |-> t[i][2]]]
NoneSeen == [a \in U |-> -1]

\* bookkeeping of broken clauses: each clause name is reported once, with the first line that breaks it
Note(S) == /\ bad' = bad \cup S
           /\ \A x \in S \ bad : TLCSet(3, Append(TLCGet(3), <<l, x>>))
If(cond, name) == IF cond THEN {} ELSE {name}

TraceInit == /\ l = 1 /\ bad = {}
             /\ c = [online |-> {}, valid |-> {}, pend |-> {}, delayed |-> {}, dc |-> [a \in U |-> 0], ps |-> [a \in U |-> 0], pts |-> [a \in U |-> 0], period |-> 0, net |-> 0]
             /\ bal = [a \in U |-> <<>>] /\ stake = [a \in U |-> <<>>]
             /\ prev = NoOff /\ tov = [n \in U |-> {}] /\ seen = [n \in U |-> NoneSeen] /\ up = [n \in U |-> 0]
             /\ lastProp = [n \in U |-> NoneSeen]
             /\ cfgv = [R |-> 1, PD |-> 0, PI |-> 0, VI |-> 0, RI |-> 0, MaxC3 |-> 0]

\* the validators cache of every node (live, and freshly loaded from that node's committed identity state) shows exactly
\* the identity-state online flags, and the two agree on every getter (sizes, online set, next committee, threshold)
CacheOk(views, st) == \A i \in 1..Len(views) :
                          /\ views[i][2] = views[i][3]
                          /\ SetOf(views[i][4]) = st.online /\ SetOf(views[i][5]) = st.online

TGenesis ==
    /\ l <= Len(Trace) /\ Trace[l].ev = "Genesis" /\ l' = l + 1
    /\ LET e == Trace[l] IN
       /\ cfgv' = [R |-> e.R, PD |-> e.PD, PI |-> e.PI, VI |-> e.VI, RI |-> e.RI, MaxC3 |-> e.maxc3]
       /\ c' = StOf(e.st) /\ bal' = FnOf(e.st.bal, <<>>) /\ stake' = FnOf(e.st.stake, <<>>)
       /\ prev' = NoOff /\ tov' = [n \in U |-> {}] /\ seen' = [n \in U |-> NoneSeen] /\ up' = FnOf(e.ups, 0)
       /\ lastProp' = [n \in U |-> NoneSeen]
       /\ Note(If(CacheOk(e.views, StOf(e.st)), "CacheMatchesState"))

\* beat = <<identity, nodes that admitted the vote, time of the delivery>>
Heard(beats, n, k) == \E i \in 1..Len(beats) : beats[i][1] = k /\ n \in SetOf(beats[i][2])
HeardAt(beats, n, k) == beats[CHOOSE i \in 1..Len(beats) : beats[i][1] = k /\ n \in SetOf(beats[i][2])][3]

TWait ==
    /\ l <= Len(Trace) /\ Trace[l].ev = "Wait" /\ l' = l + 1
    /\ LET e == Trace[l] IN
       seen' = [n \in U |-> [a \in U |-> IF Heard(e.beats, n, a) THEN HeardAt(e.beats, n, a) ELSE seen[n][a]]]
    /\ UNCHANGED <<c, bal, stake, prev, tov, up, lastProp, cfgv, bad>>

TRestart ==
    /\ l <= Len(Trace) /\ Trace[l].ev = "Restart" /\ l' = l + 1
    /\ LET e == Trace[l] IN
       /\ up' = [up EXCEPT ![e.n] = e.up]
       /\ seen' = [seen EXCEPT ![e.n] = NoneSeen]
       /\ tov' = [tov EXCEPT ![e.n] = {}]
       /\ lastProp' = [lastProp EXCEPT ![e.n] = NoneSeen]
    /\ UNCHANGED <<c, bal, stake, prev, cfgv, bad>>

\* a status switch request is admitted exactly when the published rule says so (mempool verdicts that have nothing to do
\* with the rule - nonce, funds - are logged as "other:..." and not judged)
TTx ==
    /\ l <= Len(Trace) /\ Trace[l].ev = "Tx" /\ l' = l + 1
    /\ LET e == Trace[l] IN
       Note(If(e.pool \notin {"ok", "late", "sender", "on", "off"} \/ e.pool = TxClass(c, e.from, e.on = 1), "TxRule"))
    /\ UNCHANGED <<c, bal, stake, prev, tov, seen, up, lastProp, cfgv>>

Age(t, x) == IF x < 0 THEN -1 ELSE t - x

\* what an HONEST proposer may write (safety direction; knowledge carried by the specification)
ProposerHonest(e, off, p) ==
    CASE off.f = 0 -> TRUE
      [] off.f = 3 -> FALSE
      [] off.f = 1 -> /\ c.period = 0 /\ ~HasP(prev.f)
                      /\ off.a \in c.online /\ off.a \in c.valid /\ off.a # p
                      /\ off.a \notin c.pend /\ off.a \notin c.delayed
                      /\ e.t - up[p] >= cfgv.PI
                      /\ (seen[p][off.a] < 0 \/ e.t - seen[p][off.a] >= cfgv.PI)      \* never an identity heard within the interval
                      /\ (lastProp[p][off.a] < 0 \/ e.t - lastProp[p][off.a] >= cfgv.RI)
      [] off.f = 2 -> /\ c.period = 0 /\ HasP(prev.f) /\ prev.a = off.a
                      /\ Cardinality(tov[p]) >= Thr(cfgv, Cardinality(c.online))

\* what an honest proposer must write (with slack; its detector's OBSERVED books are the premise)
CommitWhenVoted(e, off, p) ==
    (c.period = 0 /\ HasP(prev.f) /\ prev.a # NoAddr /\ Cardinality(tov[p]) >= Thr(cfgv, Cardinality(c.online)))
        => (off.f = 2 /\ off.a = prev.a)
InactiveProposed(e, off, p) ==
    LET act == FnOf(e.det.act, -1)
        prp == FnOf(e.det.props, -1)
        due == {a \in c.online \ {p} : /\ a \notin c.delayed /\ a \notin c.pend
                                       /\ act[a] >= 0 /\ e.t - act[a] >= cfgv.PI + Margin
                                       /\ (prp[a] < 0 \/ e.t - prp[a] >= cfgv.RI + Margin)}
    IN (c.period = 0 /\ ~HasP(prev.f) /\ e.t - e.det.up >= cfgv.PI + Margin /\ due # {}) => off.f = 1

TOffer ==
    /\ l <= Len(Trace) /\ Trace[l].ev = "Offer" /\ l' = l + 1
    /\ LET e   == Trace[l]
           off == OffOf(e.off)
           p   == e.prop
           vd  == e.verd
           gap == Inconsistency(c, prev, off)
       IN /\ Note(If(\A i \in 1..Len(vd) : vd[i][2] # 2 /\ vd[i][3] # 2 /\ vd[i][6] # 2, "ValidatorNoPanic")
                  \* the validators' whole proposal path (pengings.Proposals.AddProposedBlock; 6th field, -1 = proposer without valid
                  \* sortition) admits a proposal exactly when the detector's rules hold
                  \cup If(\A i \in 1..Len(vd) : vd[i][6] \in {-1, 2} \/ ((vd[i][6] = 1) <=> DetAccepts(cfgv, c, prev, off, tov[vd[i][1]])), "ProposalPath")
                  \cup If(\A i \in 1..Len(vd) : vd[i][2] = 2 \/ ((vd[i][2] = 1) <=> DetAccepts(cfgv, c, prev, off, tov[vd[i][1]])), "ValidatorVerdict")
                  \cup If(ChainMustRefuse(off) => \A i \in 1..Len(vd) : vd[i][3] # 1, "ChainRefusesNoAddress")
                  \cup If(gap = "" \/ \A i \in 1..Len(vd) : vd[i][3] # 1, "ChainPathGap:" \o gap)
                  \cup If(e.honest => \A i \in 1..Len(vd) : vd[i][3] = 1, "HonestBlockValid")
                  \cup If(e.honest => ProposerHonest(e, off, p), "ProposerHonest")
                  \cup If(e.honest => CommitWhenVoted(e, off, p), "CommitWhenVoted")
                  \cup If(e.honest => InactiveProposed(e, off, p), "InactiveProposed"))
          /\ lastProp' = IF e.honest /\ off.f = 1 /\ off.a \in U THEN [lastProp EXCEPT ![p][off.a] = e.t] ELSE lastProp
    /\ UNCHANGED <<c, bal, stake, prev, tov, seen, up, cfgv>>

\* what voter v has heard of identity a when it decides: the carried knowledge plus this round's votes delivered to it earlier
seenV(vote, vs, v, a) ==
    LET earlier == {i \in 1..Len(vs) : vs[i][1] = a /\ vs[i][8] <= vote[7] /\ v \in SetOf(vs[i][4])}
    IN IF earlier = {} THEN seen[v][a] ELSE vs[CHOOSE i \in earlier : \A j \in earlier : vs[j][8] <= vs[i][8]][8]
\* vote = <<voter, TurnOffline, byzantine, nodes that admitted it, target's activity time in the voter's books (-1 none),
\*          voter's detector start, time of the decision, time of the delivery>>
\* TurnOffline flag of an HONEST vote (safety direction, carried knowledge) ...
VoterHonest(e, b, vote) ==
    LET v == vote[1] IN
    /\ HasP(b.off.f) /\ b.off.a # NoAddr /\ b.off.a # v
    /\ c.period = 0 /\ b.off.a \notin c.pend
    /\ vote[7] - up[v] >= cfgv.VI
    /\ (seenV(vote, e.votes, v, b.off.a) < 0 \/ vote[7] - seenV(vote, e.votes, v, b.off.a) >= cfgv.VI)
\* ... and when it must be set (with slack; the voter's observed books are the premise)
VotesWhenInactive(e, b, vote) ==
    (/\ b.off.f = 1 /\ b.off.a # NoAddr /\ b.off.a # vote[1]
     /\ c.period = 0 /\ b.off.a \notin c.pend
     /\ vote[7] - vote[6] >= cfgv.VI + Margin
     /\ vote[5] >= 0 /\ vote[7] - vote[5] >= cfgv.VI + Margin) => vote[2] = 1

TBlock ==
    /\ l <= Len(Trace) /\ Trace[l].ev = "Block" /\ l' = l + 1
    /\ LET e    == Trace[l]
           b    == [h |-> e.h, t |-> e.t, empty |-> e.empty, idupd |-> e.idupd, valfin |-> e.valfin, snap |-> e.snap,
                    off |-> OffOf(e.off), txs |-> TxsOf(e.txs), com |-> SetOf(e.rew), prop |-> e.prop]
           post == StOf(e.st)
           pbal == FnOf(e.st.bal, <<>>)
           pstk == FnOf(e.st.stake, <<>>)
           pred == ApplyBlock(cfgv, U, c, b, post.valid)
           vs   == e.votes
           snd  == {b.txs[i].from : i \in 1..Len(b.txs)}
           heardOff(n) == {vs[i][1] : i \in {j \in 1..Len(vs) : vs[j][2] = 1 /\ n \in SetOf(vs[j][4])}}
       IN /\ Note(If(b.idupd <=> (SwitchDue(cfgv, b, pred.pd) \/ b.valfin), "SwitchAtRange")
                  \cup If(post.online = pred.online, "OnlineByRule")
                  \cup If(post.pend = pred.pend, "PendingByRule")
                  \cup If(post.dc = pred.dc, "DelayedByRule")
                  \cup If(post.ps = pred.ps /\ post.pts = pred.pts, "PenaltyByRule")
                  \cup If(\A a \in U : ~BN!IsNeg(pbal[a]) /\ ~BN!IsNeg(pstk[a]), "NonNegative")
                  \cup If(b.valfin \/ \A a \in pred.earnless : pstk[a] = stake[a] /\ BN!Leq(pbal[a], bal[a]), "PenalisedEarnNothing")
                  \cup If(CacheOk(e.views, post), "CacheMatchesState")
                  \cup If((HasC(b.off.f) /\ ~e.forced) => (/\ HasP(prev.f) /\ prev.a = b.off.a /\ b.off.a \in c.online
                                                            /\ \E n \in U : Cardinality(tov[n]) >= Thr(cfgv, Cardinality(c.online))), "CommitJustified")
                  \cup If(e.certoff = e.nturnoff /\ (e.ncast >= e.certneed => e.certok), "CertCarriesVotes")
                  \cup If(\A i \in 1..Len(vs) : (vs[i][3] = 0 /\ vs[i][2] = 1) => VoterHonest(e, b, vs[i]), "VoterHonest")
                  \cup If(\A i \in 1..Len(vs) : vs[i][3] = 0 => VotesWhenInactive(e, b, vs[i]), "VotesWhenInactive"))
          /\ c' = post /\ bal' = pbal /\ stake' = pstk /\ prev' = b.off
          /\ tov' = [n \in U |-> IF b.valfin THEN {} ELSE heardOff(n)]
          /\ seen' = [n \in U |-> [a \in U |->
                         IF ~b.empty /\ (a = e.prop \/ a \in snd) THEN e.ta
                         ELSE IF b.valfin THEN -1
                         ELSE IF \E i \in 1..Len(vs) : vs[i][1] = a /\ n \in SetOf(vs[i][4])
                              THEN vs[CHOOSE i \in 1..Len(vs) : vs[i][1] = a /\ n \in SetOf(vs[i][4])][8]
                         ELSE seen[n][a]]]
          /\ up' = IF b.valfin THEN [n \in U |-> e.ta] ELSE up
          /\ lastProp' = IF b.valfin THEN [n \in U |-> NoneSeen] ELSE lastProp
    /\ UNCHANGED cfgv

\* a node could not insert a block that every awake node had validated: the replicas diverged (the driver ends the world)
TDiverged ==
    /\ l <= Len(Trace) /\ Trace[l].ev = "Diverged" /\ l' = l + 1
    /\ Note({"ReplicasFollow"})
    /\ UNCHANGED <<c, bal, stake, prev, tov, seen, up, lastProp, cfgv>>

\* a real detector whose head is above the 3634300 switch was asked whether a proposed address is voted offline
TThr ==
    /\ l <= Len(Trace) /\ Trace[l].ev = "Thr" /\ l' = l + 1
    /\ LET e == Trace[l] IN Note(If(e.res <=> CommitteeThr(e.n, e.k, e.steps, e.k + e.x > 0), "CommitteeThreshold"))
    /\ UNCHANGED <<c, bal, stake, prev, tov, seen, up, lastProp, cfgv>>

TraceNext == TThr \/ TGenesis \/ TWait \/ TRestart \/ TTx \/ TOffer \/ TBlock \/ TDiverged
TraceSpec == TraceInit /\ [][TraceNext]_tvars

TraceAccepted ==
    LET d == TLCGet("stats").diameter IN
    /\ IF d - 1 = Len(Trace) THEN TRUE ELSE Print(<<"TRACE_REJECTED_AT", d, Len(Trace)>>, FALSE)
    /\ \A i \in 1..Len(TLCGet(3)) : PrintT(<<"CLAUSE_BROKEN", TLCGet(3)[i][1], TLCGet(3)[i][2]>>)
    /\ TLCGet(3) = <<>>
=============================================================================
