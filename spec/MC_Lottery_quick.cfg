CONSTANTS
  MaxN = 5
  MaxK = 3
  Qs = {2, 8}
  Rots = {0, 3}
  ExportOn = TRUE
  MaxKL = 2
  KLFullN = 2
  KLSamples = 2
  KLMaxN = 4
INIT MInit
NEXT MNext
INVARIANTS RefAdmissible EndToEnd SkipRejected ExportInv
CHECK_DEADLOCK FALSE
