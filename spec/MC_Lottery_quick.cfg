CONSTANTS
  MaxN = 5
  MaxK = 3
  Qs = {2, 8}
  Rots = {0, 3}
  ExportOn = TRUE
INIT MInit
NEXT MNext
INVARIANTS RefAdmissible EndToEnd ExportInv
CHECK_DEADLOCK FALSE
