CONSTANTS
  MN = 4
  MT = 3
  MTF = 3
  MMaxSteps = 3
  ExportOn = TRUE
  SampleMod = 400
  TimeoutOdds = 1
  MByz = {}
  Ks = {2}
INIT MInit
NEXT MNext
VIEW view
INVARIANTS TypeOK Agreement CertifiedCommitV Validity
PROPERTIES StepProps
ACTION_CONSTRAINT Export
CHECK_DEADLOCK FALSE
