---------------------------- MODULE MC_OverlayDb ----------------------------
(* Exhaustive model run + export of an edge cover (every transition of the bounded model with one *)
(* concrete path reaching it) for replay on the real BackedMemDb.                               *)
EXTENDS OverlayDb, Json
CONSTANT ExportOn

Export == IF ExportOn
          THEN LET ks == SortAsc(Keys) IN
               PrintT(ToJson([base |-> [i \in 1..Len(ks) |-> <<ks[i], base[ks[i]]>>], path |-> hist']))
          ELSE TRUE
=============================================================================
