CONSTANTS
  MaxDepth = 6
  MaxEpochs = 1
  Inits = {"U", "I", "C", "S", "Z", "N0", "N3", "V0", "V3", "H0", "H3"}
  Per = 2
  Families = {"A", "D", "O", "P", "S", "F", "I", "X"}
INIT Init
NEXT Next
VIEW view
INVARIANTS TypeOK InvValidatedIffStatus InvOnlineOnlyValidatedOrPool InvDeadOwnsNothing InvStakeParts InvDelegatorQuiet
PROPERTIES PropOnlyNamedRelationships PropNoResurrection PropStatusOnlyByEpoch PropRefusedNoEffect
ACTION_CONSTRAINT Export
CHECK_DEADLOCK FALSE
