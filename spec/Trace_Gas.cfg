CONSTANTS
  Cap = 6
  R = 1
  Weights = {1, 2, 3}
  CWeights = {2, 3}
  MaxTx = 5
INIT TraceInit
NEXT TraceNext
POSTCONDITION TraceAccepted
CHECK_DEADLOCK FALSE
