--------------------------- MODULE MC_BlockCheck ---------------------------
(* Exhaustive run of the C03 case table + export of every case with the model's expectation,    *)
(* for replay on the real validator (harness/cmd/d_blockcheck).  One JSON line per case, printed *)
(* from the case's initial state.                                                               *)
EXTENDS BlockCheck, Json

Export == IF pc = 1 /\ verdict = "pending"
          THEN PrintT(ToJson([kind   |-> kind,
                              c      |-> cs,
                              expect |-> Expect(blk),
                              cond   |-> Conditional(blk),
                              fail   |-> SeqFilter(Stages(kind), MayFail(blk))]))
          ELSE TRUE
=============================================================================
