---------------------------- MODULE MC_ForkStore ----------------------------
(* Bounded model run of ForkStore + export of the fork shapes for replay on the real code.        *)
(* The shape is assembled step by step (the adopter's own branch grows, then the peer's answer    *)
(* grows block by block) so that TLC prunes while enumerating: behind the first block that fails  *)
(* ValidateSubChain only clean blocks (plain, valid, certified) follow, because what follows the  *)
(* first failing block cannot influence the verdict.                                              *)
(* Kinds are what the conformance driver can realise with real transactions:                      *)
(*   plain   proposed block without transactions                                                  *)
(*   empty   the deterministic empty block                                                        *)
(*   txs     proposed block with transfers                                                        *)
(*   kill    KillTx of an online validator (an identity-update block by itself)                   *)
(*   online  OnlineStatusTx of an offline validator; the switch happens in the next block of even *)
(*           height (StatusSwitchRange = 2 in the driver's world), which then carries the         *)
(*           identity-update flag                                                                 *)
EXTENDS ForkStore, Json

CONSTANTS MaxOwn, MaxFork,     \* bounds on the branch lengths
          OwnSpecial,          \* at most this many empty / kill / online blocks on the adopter's branch
          Valids, CertKinds,   \* validity / certificate classes to enumerate
          ExportOn, SampleMod  \* export 1/SampleMod of the shapes (all when 1)

VARIABLES anc,   \* parity of the ancestor height (0 = even)
          ko,    \* kinds of the adopter's blocks chosen so far
          kf     \* [k, v, c] of the peer's blocks chosen so far
mvars == <<vars, anc, ko, kf>>

Kinds == {"plain", "empty", "txs", "kill", "online"}

\* status switch pending after block i of a branch with kinds ks (cleared at even heights)
RECURSIVE Carried(_, _, _)
Carried(ks, a, i) == IF i = 0 THEN FALSE
                     ELSE LET p == Carried(ks, a, i - 1) \/ ks[i] = "online"
                          IN IF (a + i) % 2 = 0 THEN FALSE ELSE p
\* calculateFlags, as far as the scenario content goes
Flag(ks, a, i) == ks[i] = "kill" \/ ((a + i) % 2 = 0 /\ (Carried(ks, a, i - 1) \/ ks[i] = "online"))

HasTx(k) == k \in {"txs", "kill", "online"}
OwnBlocks(ks, a) == [i \in 1..Len(ks) |->
    [empty |-> ks[i] = "empty", idupd |-> Flag(ks, a, i), v |-> "valid", c |-> "valid",
     txs |-> IF HasTx(ks[i]) THEN << <<"o", i>> >> ELSE <<>>, hash |-> <<"o", i>>]]
ForkBlocks(fs, a) == LET ks == [j \in 1..Len(fs) |-> fs[j].k] IN [i \in 1..Len(fs) |->
    [empty |-> fs[i].k = "empty", idupd |-> (Flag(ks, a, i) # (fs[i].v = "badflags")), v |-> fs[i].v, c |-> fs[i].c,
     txs |-> IF HasTx(fs[i].k) THEN << <<"f", i>> >> ELSE <<>>, hash |-> <<"f", i>>]]

Count(ks, k) == Cardinality({i \in 1..Len(ks) : ks[i] = k})
OwnOk(ks) == /\ Count(ks, "kill") <= 1 /\ Count(ks, "online") <= 1
             /\ Cardinality({i \in 1..Len(ks) : ks[i] \notin {"plain", "txs"}}) <= OwnSpecial
ForkOk(fs) == LET ks == [j \in 1..Len(fs) |-> fs[j].k] IN
              /\ Count(ks, "kill") <= 1 /\ Count(ks, "online") <= 1
              /\ \A i \in 1..Len(fs) : fs[i].v = "badtx" => fs[i].k # "empty"
              \* an invalid block fails before its certificate is looked at: two certificate classes suffice
              /\ \A i \in 1..Len(fs) : fs[i].v # "valid" => fs[i].c \in {"valid", "nil"}

MInit == Init /\ anc \in {0, 1} /\ ko = <<>> /\ kf = <<>>

GrowOwn(k) == /\ pc = "idle" /\ kf = <<>> /\ Len(ko) < MaxOwn /\ OwnOk(Append(ko, k))
              /\ ko' = Append(ko, k) /\ UNCHANGED <<vars, anc, kf>>

Clean == [k |-> "plain", v |-> "valid", c |-> "valid"]
GrowFork(b) == /\ pc = "idle" /\ ko # <<>> /\ Len(kf) < MaxFork /\ ForkOk(Append(kf, b))
               /\ ((\A i \in 1..Len(kf) : BlockPasses(ForkBlocks(kf, anc)[i])) \/ b = Clean)
               /\ kf' = Append(kf, b) /\ UNCHANGED <<vars, anc, ko>>

\* dimensions that cannot influence anything are fixed: the seed relation when the fork is longer,
\* the ancestor parity when nobody goes online; two empty first blocks are the same block; a fork
\* that already fails the weight rule is offered in its clean form only (the rule is checked first)
Canon(s) == /\ (Len(kf) > Len(ko) => s = "better")
            /\ (~SizeOk(OwnBlocks(ko, anc), ForkBlocks(kf, anc), s) => \A i \in 1..Len(kf) : kf[i].v = "valid" /\ kf[i].c = "valid")
            /\ ((ko[1] = "empty" /\ kf[1].k = "empty") <=> s = "equal")
            /\ ((Count(ko, "online") = 0 /\ Count([j \in 1..Len(kf) |-> kf[j].k], "online") = 0) => anc = 0)

Offer(s) == /\ pc = "idle" /\ ko # <<>> /\ kf # <<>> /\ Canon(s)
            /\ OfferFork(OwnBlocks(ko, anc), ForkBlocks(kf, anc), s)
            /\ UNCHANGED <<anc, ko, kf>>

MNext == \/ \E k \in Kinds : GrowOwn(k)
         \/ \E k \in Kinds, v \in Valids, c \in CertKinds : GrowFork([k |-> k, v |-> v, c |-> c])
         \/ \E s \in {"better", "worse", "equal"} : Offer(s)
         \/ (Steps /\ UNCHANGED <<anc, ko, kf>>)

\* every shape is printed once, when its behaviour reaches its end, with the model's verdict
Final(p) == p \in {"refused", "done", "crashed"}
Export == IF ExportOn /\ Final(pc') /\ ~Final(pc) /\ (SampleMod = 1 \/ RandomElement(1..SampleMod) = 1)
          THEN PrintT(ToJson([own |-> [i \in 1..Len(ko) |-> [k |-> ko[i]]], fork |-> kf, seed |-> seed, anc |-> anc,
                              expect |-> IF pc' = "refused" THEN "refuse-" \o why' ELSE IF pc' = "done" THEN "adopt" ELSE "crash",
                              rel |-> IF Len(kf) > Len(ko) THEN "longer" ELSE IF Len(kf) = Len(ko) THEN "equal" ELSE "shorter"]))
          ELSE TRUE
=============================================================================
