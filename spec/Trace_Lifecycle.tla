--------------------------- MODULE Trace_Lifecycle ---------------------------
(* Trace validation of the identity-lifecycle histories recorded by harness/cmd/d_chain -life (growth module    *)
(* "LIFE", attached to C05).  Every "Block" line of such a history carries, besides the ordinary d_chain fields, *)
(*   life   the extended projection of the cast after the block (status, registry flags, pending switches,      *)
(*          delegation, penalty, stake parts, flips, ceremony transactions, invitations; validators-cache view) *)
(*   lstep  what the block stands for on the model's path: the attempt / block-level step, the admissibility   *)
(*          and the post-state the model (MC_Lifecycle) predicted along the path                               *)
(* and "Genesis" the projection the path starts from.                                                           *)
(*                                                                                                            *)
(* (a) VERDICTS: property-shaped clauses evaluated on every observed (pre, block, post); a broken one is        *)
(*     delivered by the postcondition as CLAUSE_BROKEN <line> <clause>.                                         *)
(* (b) DRIFT: the observed pre-state is abstracted into the state record of Lifecycle.tla, the module's own     *)
(*     operators (Adm, TxEff, Flush, EpochEff ...) give the admissibility and the successor the specification  *)
(*     allows, and both are compared with what the real node did; further the path's own prediction is         *)
(*     compared.  Disagreements are listed as DRIFT_AT lines and counted; they are not verdicts.                *)
EXTENDS Lifecycle, Json, IOUtils

Trace == ndJsonDeserialize(IOEnv.TRACE_FILE)
ASSUME TLCSet(3, <<>>)
ASSUME TLCSet(4, <<>>)

BN == INSTANCE BigNat

VARIABLES l, prev, roles, reward, bad
tvars == <<l, prev, roles, reward, bad>>

SetOf(q) == {q[i] : i \in 1..Len(q)}
HasFlag(flags, f) == (flags \div f) % 2 = 1
IdentityUpdateFlag == 1
ValidationFinishedFlag == 32

(* ---------------------------------------------------------------------------------------------------------- *)
(* abstraction of an observed projection into the state record of Lifecycle.tla                                 *)
StatusAbbr(n) == CASE n = 0 -> "U" [] n = 1 -> "I" [] n = 2 -> "C" [] n = 3 -> "V" [] n = 4 -> "S" [] n = 5 -> "K" [] n = 6 -> "Z" [] n = 7 -> "N" [] n = 8 -> "H"
Abs(o, r) ==
    LET x == o.cast.x  f == o.cast.f  d == o.cast.d  i == o.cast.i IN
    [st |-> StatusAbbr(x.status), per |-> o.per, rv |-> x.rv, on |-> x.on, psw |-> x.psw, dg |-> x.delegatee # "", sw |-> x.sw,
     dnew |-> x.dnew, und |-> x.undel, pen |-> IF x.pend THEN "delayed" ELSE IF x.pens THEN "active" ELSE "none",
     lnk |-> x.inviter # "" /\ x.inviter = r.i, stk |-> IF x.stake THEN "some" ELSE "none", lck |-> x.locked, rep |-> x.repl,
     nfl |-> Min(x.nfl, 5), req |-> x.req, vtx |-> SetOf(x.vtx), xinv |-> Min(x.invites, 2), xfz |-> FALSE, iinv |-> Min(i.invites, 2), ifz |-> FALSE,
     fst |-> IF f.status \in {1, 2} THEN StatusAbbr(f.status) ELSE "U", flnk |-> f.inviter # "" /\ f.inviter = r.x,
     dd |-> IF d.delegatee # "" /\ d.delegatee = r.x THEN "act" ELSE IF d.sw = "to" /\ d.swto = r.x THEN "pend" ELSE "none",
     dst |-> IF d.rv THEN "val" ELSE "dead",
     dq |-> d.swidx >= 0 /\ x.swidx >= 0 /\ d.swidx < x.swidx]
\* the record the model printed along the path (sets arrive as sequences)
OfPath(p) == [p EXCEPT !.vtx = SetOf(p.vtx)]
\* what predictions and observations are compared on: a terminated identity reads Undefined (Q6), "at least" flags and
\* exact invitation counts beyond "has one" are not predicted, the entry order matters only while both entries exist
Norm(s) == [s EXCEPT !.st = IF s.st = "K" THEN "U" ELSE s.st, !.xfz = FALSE, !.ifz = FALSE, !.xinv = Min(s.xinv, 1), !.iinv = Min(s.iinv, 1),
                     !.dq = s.dq /\ s.sw # "no" /\ s.dd = "pend"]
Fields == {"st", "per", "rv", "on", "psw", "dg", "sw", "dnew", "und", "pen", "lnk", "stk", "lck", "rep", "nfl", "req", "vtx", "xinv", "iinv",
           "fst", "flnk", "dd", "dst", "dq"}
Diff(a, b) == {f \in Fields : Norm(a)[f] # Norm(b)[f]}
\* the path's prediction p: invitation counts the model only knows a lower bound of are not compared
PathDiff(p, b) == (Diff(p, b) \ (IF p.xfz THEN {"xinv"} ELSE {})) \ (IF p.ifz THEN {"iinv"} ELSE {})

(* ---------------------------------------------------------------------------------------------------------- *)
(* bookkeeping                                                                                                 *)
Note(S) == /\ bad' = bad \cup S
           /\ \A c \in S : TLCSet(3, Append(TLCGet(3), <<l, c>>))
If(cond, name) == IF cond THEN {} ELSE {name}
Drift(kind, what) == TLCSet(4, Append(TLCGet(4), <<l, kind, what>>))
DriftIf(cond, kind, what) == IF cond THEN Drift(kind, what) ELSE TRUE

(* ---------------------------------------------------------------------------------------------------------- *)
(* (a) verdict clauses                                                                                         *)
Members(o) == DOMAIN o.cast
Alive(n) == n \notin {0, 5}
ValidatedNum == {3, 7, 8}
CeremonyCandidateNum == {2, 3, 4, 6, 7, 8}
HasMember(o, key) == \E m \in Members(o) : o.cast[m].k = key
MemberOf(o, key) == o.cast[CHOOSE m \in Members(o) : o.cast[m].k = key]

\* registered as validated iff the status is Newbie, Verified or Human
CValidatedIffStatus(o) == \A m \in Members(o) : o.cast[m].rv <=> o.cast[m].status \in ValidatedNum
\* only validated identities or pools are online
COnlineOnlyValidatedOrPool(o) == \A m \in Members(o) : o.cast[m].on => (o.cast[m].rv \/ o.cast[m].pool)
\* a terminated / undefined identity owns no stake
CDeadOwnsNothing(o) == \A m \in Members(o) : ~Alive(o.cast[m].status) => (~o.cast[m].stake /\ ~o.cast[m].locked /\ ~o.cast[m].repl)
\* the validators cache shows the registry
CCacheShowsRegistry(o) == \A m \in Members(o) : o.cast[m].vval = o.cast[m].rv /\ o.cast[m].von = o.cast[m].on

\* the successors of a status at an epoch end, numerically, whatever the identity did (a terminated identity reads 0)
NumOf(st) == CHOOSE n \in 0..8 : StatusAbbr(n) = st
EpochSucc(n) == LET st == StatusAbbr(n)
                    S == UNION {SuccTable[st][done][part] : done \in BOOLEAN, part \in BOOLEAN} IN
                {NumOf(t) : t \in S} \cup (IF "K" \in S THEN {0} ELSE {})

\* the lifecycle graph: every observed change of status is an edge of the published graph, with its named cause
\* (terminated identities do not come back except through a new invitation; nobody but the identity itself, its inviter
\* while it is not validated, its pool, or a validation terminates it; only a validation moves it between live statuses)
EdgeByTx(pre, a, b, key, t) ==
    \/ /\ ~Alive(a) /\ b = 1 /\ t.type = 2 /\ t.to = key                       \* invited: by a validated identity (or god) that holds an invitation
       /\ HasMember(pre, t.from) /\ LET sdr == MemberOf(pre, t.from) IN sdr.status \in ValidatedNum /\ sdr.invites > 0
    \/ /\ b = 2 /\ t.type = 1 /\ t.to = key                                     \* candidate: through an invitation, its own or one activated for it
       /\ HasMember(pre, t.from) /\ MemberOf(pre, t.from).status = 1
       /\ (IF t.from = key THEN a = 1 ELSE ~Alive(a))
    \/ /\ Alive(a) /\ ~Alive(b)
       /\ \/ (t.type = 3 /\ t.from = key /\ a \in {3, 8, 4, 6})                  \* by its own hand (not while its stake is locked: Candidate, Newbie)
          \/ (t.type = 1 /\ t.from = key /\ t.to # key /\ a = 1)                \* the invitation was activated for another address
          \/ (t.type = 10 /\ t.to = key /\ a \in {1, 2} /\ MemberOf(pre, key).inviter = t.from)    \* by its inviter, while not validated
          \/ (t.type = 20 /\ t.to = key /\ MemberOf(pre, key).delegatee = t.from)                  \* by its pool
CLifecycleGraph(pre, e) ==
    \A m \in Members(pre) :
        LET a == pre.cast[m].status  b == e.life.cast[m].status  key == pre.cast[m].k IN
        a = b \/ (~Alive(a) /\ ~Alive(b))
        \/ IF HasFlag(e.flags, ValidationFinishedFlag) THEN b \in EpochSucc(a)
           ELSE \E j \in 1..Len(e.txs) : EdgeByTx(pre, a, b, key, e.txs[j])

\* during a validation ceremony the identity ledger is frozen: no status, invitation, flip, stake replenishment or switch
\* request changes (pending switches may be applied)
CPeriodFreeze(pre, e) ==
    (pre.per >= 1 /\ ~HasFlag(e.flags, ValidationFinishedFlag)) =>
        \A m \in Members(pre) :
            LET p == pre.cast[m]  q == e.life.cast[m] IN
            /\ p.status = q.status /\ p.invites = q.invites /\ p.inviter = q.inviter /\ p.nfl = q.nfl /\ p.repl = q.repl
            /\ (p.sw # q.sw => (q.sw = "no" /\ HasFlag(e.flags, IdentityUpdateFlag)))
            /\ (p.psw # q.psw => (~q.psw /\ HasFlag(e.flags, IdentityUpdateFlag)))

\* ceremony transactions enter a block only in their window, once per identity and epoch, from a ceremony candidate
CeremonyBit(ty) == CASE ty = 5 -> "hash" [] ty = 6 -> "short" [] ty = 7 -> "long" [] ty = 8 -> "evid"
CeremonyFrom(ty) == CASE ty = 5 -> 2 [] ty = 6 -> 3 [] ty = 7 -> 2 [] ty = 8 -> 3
CCeremonyWindow(pre, e) ==
    \A j \in 1..Len(e.txs) :
        LET t == e.txs[j] IN
        (t.type \in {5, 6, 7, 8} /\ HasMember(pre, t.from)) =>
            LET p == MemberOf(pre, t.from) IN
            /\ pre.per >= CeremonyFrom(t.type)
            /\ p.status \in CeremonyCandidateNum /\ p.nfl >= p.req
            /\ CeremonyBit(t.type) \notin SetOf(p.vtx)
            /\ (HasFlag(e.flags, ValidationFinishedFlag) \/ CeremonyBit(t.type) \in SetOf(MemberOf(e.life, t.from).vtx))

\* the registry (and with it the validator set) changes in identity-update blocks only
CRegistryOnlyInIdentityUpdate(pre, e) ==
    \A m \in Members(pre) :
        (pre.cast[m].rv # e.life.cast[m].rv \/ pre.cast[m].on # e.life.cast[m].on) => HasFlag(e.flags, IdentityUpdateFlag)

\* a switch request (status / delegation) of an identity is written by that identity's own transaction only
CSwitchByOwnerOnly(pre, e) ==
    \A m \in Members(pre) :
        LET p == pre.cast[m]  q == e.life.cast[m] IN
        /\ (~p.psw /\ q.psw) => \E j \in 1..Len(e.txs) : e.txs[j].type = 9 /\ e.txs[j].from = p.k
        /\ ((p.sw # q.sw \/ p.swto # q.swto) /\ q.sw # "no") => \E j \in 1..Len(e.txs) : e.txs[j].type \in {18, 19} /\ e.txs[j].from = p.k

\* an included transaction did to the identities it names what its type stands for (a termination terminates, an invitation
\* is used up by its activation, a switch request is on record until an identity-update block applies it ...)
CNamedEffect(pre, e) ==
    \A j \in 1..Len(e.txs) :
        LET t == e.txs[j]
            upd == HasFlag(e.flags, IdentityUpdateFlag)
            HasF == HasMember(pre, t.from)
            HasT == t.to # "" /\ HasMember(pre, t.to)
            F0 == MemberOf(pre, t.from)  F1 == MemberOf(e.life, t.from)
            T0 == MemberOf(pre, t.to)    T1 == MemberOf(e.life, t.to) IN
        CASE t.type = 3  -> HasF => ~Alive(F1.status)
          [] t.type \in {10, 20} -> HasT => ~Alive(T1.status)
          [] t.type = 1  -> (HasT => T1.status = 2) /\ ((HasF /\ t.from # t.to) => ~Alive(F1.status))
          [] t.type = 2  -> HasT => (T1.status = 1 /\ T1.inviter = t.from)
          [] t.type = 9  -> (HasF /\ ~upd) => (IF F0.pend THEN ~F1.pend /\ F1.psw = F0.psw ELSE F1.psw # F0.psw)
          [] t.type \in {18, 19} -> (HasF /\ ~upd) => (F1.sw = (IF t.type = 18 THEN "to" ELSE "empty") /\ (t.type = 18 => F1.swto = t.to))
          [] t.type = 22 -> HasT => (T1.stake /\ T1.repl)
          [] t.type = 4  -> HasF => F1.nfl = F0.nfl + 1
          [] t.type = 14 -> HasF => F1.nfl = F0.nfl - 1
          [] OTHER -> TRUE

\* the outcome a validation assigned is the status the ledger shows (a terminated identity reads Undefined)
CEpochOutcomeApplied(e) ==
    ("lstep" \in DOMAIN e /\ e.lstep.kind = "epoch" /\ HasFlag(e.flags, ValidationFinishedFlag) /\ Alive(prev.cast.x.status)) =>
        LET want == NumOf(e.lstep.out) IN e.life.cast.x.status = (IF want = 5 THEN 0 ELSE want)

\* a termination pays out at most the stake that is not locked, and only where the protocol pays at all: to the identity that
\* terminates itself; to the pool when its delegator was Verified, Human, Suspended or Zombie (the stake of a delegator that
\* was not verified yet is burnt); an inviter gets nothing.  (`reward`: what the block may pay its proposer / committee.)
Gain(p0, p1, cap) == BN!Leq(p1.balL, BN!Add(BN!Add(p0.balL, cap), reward))
FreeStakeCap(p0, p1, victim) == BN!Leq(BN!Add(p1.balL, victim.lockedL), BN!Add(BN!Add(p0.balL, victim.stakeL), reward))
CTerminationPayout(pre, e) ==
    \A j \in 1..Len(e.txs) :
        LET t == e.txs[j] IN
        CASE t.type = 3 /\ HasMember(pre, t.from) ->
                 FreeStakeCap(MemberOf(pre, t.from), MemberOf(e.life, t.from), MemberOf(pre, t.from))
          [] t.type = 20 /\ HasMember(pre, t.from) /\ HasMember(pre, t.to) /\ t.from # t.to ->
                 IF MemberOf(pre, t.to).status \in {3, 8, 4, 6}
                 THEN FreeStakeCap(MemberOf(pre, t.from), MemberOf(e.life, t.from), MemberOf(pre, t.to))
                 ELSE Gain(MemberOf(pre, t.from), MemberOf(e.life, t.from), <<>>)
          [] t.type = 10 /\ HasMember(pre, t.from) /\ t.from # t.to ->
                 Gain(MemberOf(pre, t.from), MemberOf(e.life, t.from), <<>>)
          [] OTHER -> TRUE

\* a new epoch starts with a clean slate: no flips, no ceremony transactions on record, no penalty left
CEpochCleansSlate(e) ==
    HasFlag(e.flags, ValidationFinishedFlag) =>
        \A m \in Members(e.life) : e.life.cast[m].vtx = <<>> /\ e.life.cast[m].nfl = 0 /\ ~e.life.cast[m].pens /\ ~e.life.cast[m].pend

\* the identity-update block that applies an offline penalty turns the penalised identity offline
CPenaltyTurnsOffline(pre, e) ==
    \A m \in Members(pre) :
        (pre.cast[m].pend /\ ~e.life.cast[m].pend /\ e.life.cast[m].pens /\ ~pre.cast[m].pens) => ~e.life.cast[m].on

Clauses(pre, e) ==
    If(CValidatedIffStatus(e.life), "ValidatedIffStatus")
    \cup If(COnlineOnlyValidatedOrPool(e.life), "OnlineOnlyValidatedOrPool")
    \cup If(CDeadOwnsNothing(e.life), "DeadOwnsNothing")
    \cup If(CCacheShowsRegistry(e.life), "CacheShowsRegistry")
    \cup If(CLifecycleGraph(pre, e), "LifecycleGraph")
    \cup If(CPeriodFreeze(pre, e), "PeriodFreeze")
    \cup If(CCeremonyWindow(pre, e), "CeremonyWindow")
    \cup If(CRegistryOnlyInIdentityUpdate(pre, e), "RegistryOnlyInIdentityUpdate")
    \cup If(CSwitchByOwnerOnly(pre, e), "SwitchByOwnerOnly")
    \cup If(CEpochOutcomeApplied(e), "EpochOutcomeApplied")
    \cup If(CNamedEffect(pre, e), "NamedEffect")
    \cup If(CPenaltyTurnsOffline(pre, e), "PenaltyTurnsOffline")
    \cup If(CTerminationPayout(pre, e), "TerminationPayout")
    \cup If(CEpochCleansSlate(e), "EpochCleansSlate")

(* ---------------------------------------------------------------------------------------------------------- *)
(* (b) drift                                                                                                   *)
Flushers == {"Kill", "KillInviteeX", "KillDelegatorX", "KillInviteeF", "KillDelegatorD"}
FlushOf(s) == Flush(s, IsPool(s), FALSE, s.rv)
\* the successor the specification allows for the observed pre-state and the observed block
Predicted(s0, e, included) ==
    LET st == e.lstep
        upd == HasFlag(e.flags, IdentityUpdateFlag)
        o == [n |-> st.op, out |-> st.out, inv |-> st.inv, rw |-> st.rw] IN
    CASE st.kind = "attempt" ->
            IF included THEN (IF upd /\ st.op \notin Flushers THEN FlushOf(TxEff(s0, st.op)) ELSE TxEff(s0, st.op))
            ELSE (IF upd THEN FlushOf(s0) ELSE s0)
      [] st.kind = "epoch" /\ HasFlag(e.flags, ValidationFinishedFlag) -> EpochEff(s0, o)
      [] st.kind \in {"final", "period"} /\ st.op \in {"NextPeriod", "Ceremony"} -> (IF upd THEN FlushOf(StartPeriod(s0)) ELSE StartPeriod(s0))
      [] st.kind = "final" /\ st.op = "Penalty" -> [s0 EXCEPT !.pen = "delayed"]
      [] OTHER -> IF upd THEN FlushOf(s0) ELSE s0

\* is this block the one after which the path's own prediction for the step holds?
Final(e) == \/ e.lstep.kind \in {"attempt", "final"}
            \/ (e.lstep.kind = "switch" /\ HasFlag(e.flags, IdentityUpdateFlag))
            \/ (e.lstep.kind = "epoch" /\ HasFlag(e.flags, ValidationFinishedFlag))

StepDrift(pre, e) ==
    LET st == e.lstep
        s0 == Abs(pre, roles)
        s1 == Abs(e.life, roles) IN
    IF st.kind = "aux" THEN DriftIf(st.op = "Align" /\ Diff(s0, s1) # {}, "aux-block-changed", <<st.op, Diff(s0, s1)>>)
    ELSE
    LET isAtt == st.kind = "attempt"
        sub == IF isAtt THEN e.subs[1] ELSE [pool |-> "ok"]
        obsPool == sub.pool = "ok"
        included == isAtt /\ \E j \in 1..Len(e.txs) : e.txs[j].id = sub.id
        tested == obsPool \/ "injected" \in DOMAIN sub          \* was the block-level rule exercised at all?
        a == IF isAtt THEN Adm(s0, Op(st.op)) ELSE [pool |-> TRUE, block |-> TRUE]
        t == Predicted(s0, e, included)
        where == <<st.op, s0.st, s0.per>> IN
    /\ DriftIf(isAtt /\ a.pool # obsPool, "spec-pool", <<where, a.pool, sub.pool>>)
    /\ DriftIf(isAtt /\ tested /\ a.block # included, "spec-block", <<where, a.block, included>>)
    /\ DriftIf(Diff(t, s1) # {}, "spec-effect", <<where, Diff(t, s1)>>)
    /\ DriftIf(Disc(s1) # e.life.cast.x.disc \/ IsPool(s1) # e.life.cast.x.pool, "spec-view", <<where, Disc(s1), e.life.cast.x.disc, IsPool(s1), e.life.cast.x.pool>>)
    /\ DriftIf(isAtt /\ st.pool # obsPool, "path-pool", <<where, st.pool, sub.pool>>)
    /\ DriftIf(isAtt /\ tested /\ st.block # included, "path-block", <<where, st.block, included>>)
    /\ DriftIf(Final(e) /\ PathDiff(OfPath(st.post), s1) # {}, "path-state", <<where, PathDiff(OfPath(st.post), s1)>>)

(* ---------------------------------------------------------------------------------------------------------- *)
TraceInit == l = 1 /\ prev = <<>> /\ roles = <<>> /\ reward = <<>> /\ bad = {}

IsLife(e) == "life" \in DOMAIN e

TGenesis == /\ l <= Len(Trace) /\ Trace[l].ev = "Genesis" /\ IsLife(Trace[l]) /\ l' = l + 1
            /\ prev' = Trace[l].life /\ roles' = Trace[l].roles /\ reward' = Trace[l].blockReward
            /\ Note(If(CValidatedIffStatus(Trace[l].life), "ValidatedIffStatus")
                    \cup If(COnlineOnlyValidatedOrPool(Trace[l].life), "OnlineOnlyValidatedOrPool")
                    \cup If(CDeadOwnsNothing(Trace[l].life), "DeadOwnsNothing"))

TBlock == /\ l <= Len(Trace) /\ Trace[l].ev = "Block" /\ ~Trace[l].refused /\ IsLife(Trace[l]) /\ l' = l + 1
          /\ LET e == Trace[l] IN
             /\ Note(Clauses(prev, e))
             /\ ("lstep" \in DOMAIN e => StepDrift(prev, e))
             /\ prev' = e.life
          /\ UNCHANGED <<roles, reward>>

TOther == /\ l <= Len(Trace) /\ ~(Trace[l].ev \in {"Genesis", "Block"} /\ IsLife(Trace[l]) /\ (Trace[l].ev = "Block" => ~Trace[l].refused))
          /\ l' = l + 1 /\ UNCHANGED <<prev, roles, reward, bad>>

TraceNext == TGenesis \/ TBlock \/ TOther
TraceSpec == TraceInit /\ [][TraceNext]_tvars

TraceAccepted ==
    LET d == TLCGet("stats").diameter IN
    /\ IF d - 1 = Len(Trace) THEN TRUE ELSE Print(<<"TRACE_REJECTED_AT", d, Len(Trace)>>, FALSE)
    \* (one string per record: TLC breaks long tuples over several lines)
    /\ \A i \in 1..Len(TLCGet(4)) : PrintT("DRIFT_AT " \o ToString(TLCGet(4)[i][1]) \o " " \o TLCGet(4)[i][2] \o " " \o ToString(TLCGet(4)[i][3]))
    /\ PrintT(<<"DRIFT", Len(TLCGet(4))>>)
    /\ \A i \in 1..Len(TLCGet(3)) : PrintT(<<"CLAUSE_BROKEN", TLCGet(3)[i][1], TLCGet(3)[i][2]>>)
    /\ TLCGet(3) = <<>>
=============================================================================
