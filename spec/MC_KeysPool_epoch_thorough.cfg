CONSTANTS
  NN = 2
  Authors = {1, 2}
  ForgeFor = {1}
  FClasses = {1}
  MaxPos = 11
  MaxLag = 1
  MaxDlv = 2
  MaxRst = 1
  MaxSyn = 3
  MaxBatch = 0
  Acts = {}
  SyncCap = 1
  ExportOn = TRUE
  SampleMod = 100
  WalkEvery = 10
INIT Init
NEXT Next
VIEW view
INVARIANTS TypeOK Admission HonestAgreement OrderIndependent FirstWins ClearedAtEpoch OwnIsOwn PublishedBySession NoEarlyReveal PkgAfterLottery
PROPERTY OnePerAuthorEpoch
ACTION_CONSTRAINT Export
CHECK_DEADLOCK FALSE
