CONSTANTS
  MaxFollow = 2
  Bug = "rollover"
  ExportOn = FALSE
INIT Init
NEXT Next
INVARIANTS TypeOK FilterLeavesNoTrace IncludedValid
ACTION_CONSTRAINT Export
CHECK_DEADLOCK FALSE
