"""Stand-alone entry for the growth module "OD" of C10 (offline detection, offline penalties, online status switching):
   tools/check C10OD --tier quick|thorough
runs props.extra_offline.run exactly as the C10 check does when it includes the module, and writes evidence/C10OD.json.
Findings are matched against the known findings of C10."""
import vlib
from props import extra_offline


def main(ctx):
    ctx.prop = "C10"          # violations of this module are C10 findings (keys C10:OD:...)
    try:
        cov = extra_offline.run(ctx, ctx.tier == "quick")
    finally:
        ctx.prop = "C10OD"
    cov2 = {"states": cov["od_states"], "transitions": cov["od_transitions"],
            "traces_validated_against_impl": cov["od_traces_validated_against_impl"],
            "samples": cov["od_samples"], "rule": cov["od_rule"]}
    cov2.update(cov)
    return vlib.finish(ctx, "model_checking", cov2, assumptions=[
        "the chain-level worlds stay below the 3634300 height switch of verifyOfflineProposing (legacy rule: more than half of the online identities); "
        "the committee rule in force above it (three quarters of the round's step validators) is bound at detector level through the MC_OfflineThr case table",
        "no pools / delegations in the driven worlds (the validator registry under delegation is the subject of the C10 core check)",
        "a wait stands for a stretch of uneventful blocks: awake online identities are heard at its end through real votes",
    ])
