"""C03 - a block with any inconsistent derived field is rejected, side-effect free.

1. TLC explores spec/BlockCheck.tla: the whole tamper table (4 block kinds x every derived header
   field x {flip, +1, -1, zero, foreign}, body edits x {txHash recomputed, not}, timestamp window,
   ineligible proposers, every mix of two honest sibling blocks, two-part tampers, STRUCTURAL tampers
   that change which parts (empty / proposed) the header carries or attach a body to an empty block)
   run through the
   staged validator of the model; invariants AcceptedConsistent / VerdictMatchesTable / TableSound
   (the table never expects a rejection it cannot justify).  Every case is exported with the model's
   expectation.
2. harness/cmd/d_blockcheck builds a real chain; every block of it is an original; for every exported
   case the tampered block is re-encoded and offered to a FRESH real node through ValidateBlock and
   AddBlock, then the honest original is inserted on the same node.  Verdicts, the complete database
   digest, head, live roots and tree versions are logged.
3. TLC validates the recorded trace against spec/Trace_BlockCheck.tla: the model's expectation for the
   logged case is the oracle for the verdicts, the property clauses (AcceptedInconsistent,
   RejectedWithSideEffect, OriginalNotInsertable, InsertionDiffersFromClean, StoredDiffersFromHonest:
   an accepted block leaves exactly what the clean insertion of the honest block with its hash leaves)
   are evaluated on the observed states.
"""
import collections
import concurrent.futures
import json
import os
import threading
import time

import vlib

CLOCKS = ["blockchain/blockchain.go"]

# proposed entry for tools/manifest_data.py (the integrator's table); no repository hooks are needed
MANIFEST = dict(
    id="C03", category="model_checking",
    text="TLC explores the BlockCheck case table (block kinds x derived header fields x {flip,+1,-1,zero,foreign}, body edits x "
         "{txHash recomputed, not}, timestamp window, ineligible proposers, all mixes of two honest sibling blocks, two-part "
         "tampers, structural tampers of the header: both / neither part, a proposed part of the sibling, of another height or "
         "fabricated attached to the honest empty header and vice versa, each part tampered, a body on an empty block; REPLAYS: a coherent "
         "group of derived fields - seed + proof, roots, body commitments, flags, fee, all of them - taken from an earlier honest block of the "
         "same proposer and offered to a WARMED-UP validator that validated and inserted that block itself) through a staged model of the validator and checks that the table only expects what the property justifies; "
         "every case is replayed on fresh real nodes for every block of real chains (ValidateBlock, AddBlock as the engine and "
         "as the full-sync loader call it, then insertion of the honest original) and TLC validates the recorded trace: model "
         "verdict = real verdict, complete database digest / head / live roots / tree versions unchanged on reject, original "
         "still insertable with exactly the clean result; an accepted block must leave exactly what the clean insertion of the "
         "honest block with its hash leaves (canonical header bytes, tx index, every key).",
    note="chains of 14 (quick) / 60+30 (thorough) blocks in the V12 configuration: plain txs, contract deployment receipts, "
         "no txs, empty blocks, KillTx and status-switch identity updates, flip-lottery start; free choices (in-window time, "
         "offline-vote bits, upgrade bits, absent fee rate) carry no expectation; blocks without a header or body object (nil) "
         "are the wire layer's (C12); check state is the node's own",
    technique="TLA+ case-table model + TLC-exported cases replayed on real code + TLC trace validation",
    design_ref="DESIGN.md#c03")
SINGLE = ("none", "field", "body", "time", "key", "free", "struct")


BODY_DEP = ("txhash", "bloom", "flags", "root", "idroot", "ipfs", "rcid")


def case_class(c, diff=None):
    """Stable, seed-independent name of what a case REALLY tampers with (used in violation keys): rewrites
    that did not change the encoding (not in `diff`) are left out."""
    t = c["t"]
    if t == "field":
        return "field-" + c["f"]
    if t == "body":
        return "body-%s-%s" % (c["e"], "rehashed" if c.get("rehash") else "stale-txhash")
    if t in ("time", "key", "free"):
        return "%s-%s" % (t, c["c"])
    if t == "struct":
        return "struct-" + c["s"]
    if t == "mix":
        fs = sorted(k for k, v in c["src"].items() if v != c["body"] and (diff is None or k in diff))
        return "mix-" + ("+".join(fs) if fs else "pure-" + c["body"])
    if t == "multi":
        parts = [p for p in c["parts"] if not (p["t"] == "field" and diff is not None and p["f"] not in diff)]
        if len(parts) == 1:
            return case_class(parts[0], diff)
        return "multi(" + ",".join(case_class(p, diff) for p in parts) + ")"
    return t


def run_shard(ctx, drv, cases, i, of, heights, pairs, mixes, seed, batch):
    trace = ctx.path("trace_%d_%d.ndjson" % (seed, i))
    wd = ctx.path("wd_%d_%d" % (seed, i), "x")
    wd = os.path.dirname(wd)
    p = vlib.run([drv, "-cases", cases, "-out", trace, "-heights", str(heights), "-pairs", str(pairs), "-mixes", str(mixes),
                  "-shard", str(i), "-of", str(of), "-batch", str(batch)], cwd=wd, env={"VERIF_SEED": str(seed), "VERIF_TIER": ctx.tier},
                 timeout=3000, check=False)
    return trace, p


def summarize(rows):
    cnt = collections.Counter()
    offered = collections.Counter()
    cur = None
    for r in rows:
        ev = r["ev"]
        if ev == "Orig":
            cnt["orig"] += 1
            cnt["orig_" + r["kind"]] += 1
            if r["flags"] & 1:
                cnt["orig_identity_update"] += 1
            if r["flags"] & 2:
                cnt["orig_flip_lottery"] += 1
        elif ev == "Begin":
            cur = r
            cnt["offered"] += 1
            cnt["offered_" + r["c"]["t"]] += 1
            if r["c"]["t"] in SINGLE:
                offered[(r["kind"], json.dumps(r["c"], sort_keys=True))] += 1
        elif ev == "Skip":
            cnt["skipped_" + r["why"]] += 1
        elif ev in ("Validate", "Add"):
            cnt["%s_%s" % (ev.lower(), r["r"])] += 1
            if r.get("twin"):
                cnt["twins"] += 1
        elif ev == "Insert":
            cnt["insert_" + r["r"]] += 1
    return cnt, offered


def selftest(ctx, trace):
    """Binding self-test: a recorded prefix must be accepted, corrupted copies must be rejected with the
    right clause."""
    rows = vlib.read_ndjson(trace)[:500]
    while rows and rows[-1]["ev"] not in ("Insert", "Skip"):
        rows.pop()
    good = ctx.path("selftest", "good.ndjson")
    vlib.write_ndjson(good, rows)
    ok, info = vlib.trace_validate(ctx, "Trace_BlockCheck.tla", "Trace_BlockCheck.cfg", good)
    if not ok:
        return  # reported by the verdict run

    def verdict_flip(rs):
        for r in rs:
            if r["ev"] == "Validate" and r["r"] == "reject":
                r["r"], r["stage"] = "accept", ""
                return "AcceptedInconsistent:validate"

    def digest_change(rs):
        for r in rs:
            if r["ev"] == "Add" and r["r"] == "reject":
                r["post"][0] = "0" * len(r["post"][0])
                return "RejectedWithSideEffect:add"

    def insert_fail(rs):
        for r in rs:
            if r["ev"] == "Insert":
                r["r"] = "reject"
                return "OriginalNotInsertable"

    def drop_line(rs):
        for i, r in enumerate(rs):
            if r["ev"] == "Validate":
                del rs[i]
                return "*"

    for k, mut in enumerate((verdict_flip, digest_change, insert_fail, drop_line)):
        bad_rows = json.loads(json.dumps(rows))
        want = mut(bad_rows)
        if want is None:
            raise vlib.CheckError("self-test could not build a corrupted trace (%s)" % mut.__name__)
        bad = ctx.path("selftest", "bad%d.ndjson" % k)
        vlib.write_ndjson(bad, bad_rows)
        ok, info = vlib.trace_validate(ctx, "Trace_BlockCheck.tla", "Trace_BlockCheck.cfg", bad)
        clauses = [c for _, c in info.get("broken", [])]
        if ok or (want != "*" and want not in clauses):
            raise vlib.CheckError("binding self-test failed: trace corrupted by %s was %s (clauses %s)"
                                  % (mut.__name__, "accepted" if ok else "rejected for another reason", clauses))
    ctx.log("binding self-test: 4 corrupted traces rejected")


def main(ctx):
    quick = ctx.tier == "quick"
    drv = vlib.build_driver(ctx, "d_blockcheck", clocks=CLOCKS)

    # 1. the case table: exhaustive model run + export
    cfg = "MC_BlockCheck_quick.cfg" if quick else "MC_BlockCheck_thorough.cfg"
    r = vlib.tlc(ctx, "MC_BlockCheck.tla", cfg, workers=4, timeout=1500)
    if not r.ok:
        raise vlib.CheckError("design-level BlockCheck model violates %s (model-only, not a verdict):\n%s"
                              % (r.invariant, (r.error or "")[:2000]))
    table = r.exports
    by_class = collections.Counter((e["kind"], e["c"]["t"], e["expect"]) for e in table)
    ctx.log("model: %d generated / %d distinct states, %d cases exported" % (r.generated, r.distinct, len(table)))
    for kind in ("ptx", "prc", "pnotx", "empty"):
        if not by_class.get((kind, "field", "reject")) or not by_class.get((kind, "none", "accept")):
            raise vlib.CheckError("case table has no field/control cases for kind %s (vacuous model)" % kind)
    for kind in ("ptx", "prc", "pnotx"):
        for t in ("body", "time", "key", "mix"):
            if not by_class.get((kind, t, "reject")):
                raise vlib.CheckError("case table has no %s cases for kind %s (vacuous model)" % (t, kind))
    if any(e["expect"] == "unsound" for e in table):
        raise vlib.CheckError("case table contains an expectation it cannot justify")
    cases = ctx.path("cases.ndjson")
    vlib.write_ndjson(cases, table)

    # 2. the real validator on every case
    if quick:
        # (seed, heights, sampled pairs, mixes (0 = all), shards, cases per node before the original goes in)
        runs = [(ctx.seed, 14, 40, 0, 4, 1)]
    else:
        # short-lived shards: every node ever booted stays reachable from a goroutine InitializeChain starts
        runs = [(ctx.seed, 60, 100, 0, 10, 4), (ctx.seed + 7000, 30, 100, 0, 10, 1)]
    traces = []
    with concurrent.futures.ThreadPoolExecutor(max_workers=5) as ex:
        futs = []
        for seed, heights, pairs, mixes, shards, batch in runs:
            for i in range(shards):
                futs.append(ex.submit(run_shard, ctx, drv, cases, i, shards, heights, pairs, mixes, seed, batch))
        for f in futs:
            trace, p = f.result()
            if p.returncode != 0:
                raise vlib.CheckError("driver failed:\n" + (p.stdout or "")[-3000:])
            traces.append(trace)
    # concatenate the shard traces (each starts at an Orig line) into chunks of bounded size: one JVM each
    chunks, curc = [], []
    for t in traces:
        for row in vlib.read_ndjson(t):
            if row["ev"] == "Orig" and len(curc) > 30000:
                chunks.append(curc)
                curc = []
            curc.append(row)
    if curc:
        chunks.append(curc)
    traces = []
    for i, c in enumerate(chunks):
        t = ctx.path("trace_chunk_%d.ndjson" % i)
        vlib.write_ndjson(t, c)
        traces.append(t)
    rows_by_trace = dict(zip(traces, chunks))
    cnt = collections.Counter()
    offered = collections.Counter()
    for t in traces:
        c, o = summarize(rows_by_trace[t])
        cnt.update(c)
        offered.update(o)
    ctx.log("driver: %d originals, %d cases offered, %d skipped (unchanged encoding %d, not applicable %d)"
            % (cnt["orig"], cnt["offered"], cnt["skipped_same"] + cnt["skipped_na"], cnt["skipped_same"], cnt["skipped_na"]))

    # vacuity: the driver must have exercised every class of the table on real blocks
    for k in ("orig_ptx", "orig_prc", "orig_pnotx", "orig_empty", "orig_identity_update", "orig_flip_lottery",
              "offered_field", "offered_body", "offered_time", "offered_key", "offered_mix", "offered_multi", "offered_none",
              "offered_struct",
              "validate_reject", "add_reject", "insert_accept"):
        if not cnt.get(k):
            raise vlib.CheckError("dead driver: nothing counted for '%s'" % k)
    singles = {(e["kind"], json.dumps(e["c"], sort_keys=True)): e for e in table if e["c"]["t"] in SINGLE}
    missing = sorted(k for k in singles if k not in offered)
    fields_ops = collections.defaultdict(set)
    for (kind, cj) in offered:
        c = json.loads(cj)
        if c["t"] == "field":
            fields_ops[(kind, c["f"])].add(c["op"])
    for (kind, cj), e in singles.items():
        c = e["c"]
        if c["t"] == "field" and len(fields_ops[(kind, c["f"])]) < 3:
            raise vlib.CheckError("dead driver: field %s of kind %s was tampered by fewer than 3 operators" % (c["f"], kind))
        if c["t"] in ("body", "time", "key") and (kind, cj) not in offered:
            raise vlib.CheckError("dead driver: case %s never offered for kind %s" % (cj, kind))
    struct_offered = {json.loads(cj)["s"] for (kind, cj) in offered if json.loads(cj)["t"] == "struct"}
    struct_all = {e["c"]["s"] for e in table if e["c"]["t"] == "struct"}
    if struct_all - struct_offered:
        raise vlib.CheckError("dead driver: structural cases never offered: %s" % sorted(struct_all - struct_offered))
    if not cnt.get("twins"):
        raise vlib.CheckError("dead driver: no accepted block was compared with the clean insertion of its honest twin")
    if len(missing) > 0.08 * len(singles):
        raise vlib.CheckError("dead driver: %d of %d single cases never offered: %s" % (len(missing), len(singles), missing[:10]))

    # 3. TLC decides
    drift = 0
    lines = 0
    reported = collections.OrderedDict()
    gate = threading.Lock()

    def validate(t):
        with gate:          # vlib names its scratch directory by the millisecond: start the JVMs apart
            time.sleep(0.05)
        return vlib.trace_validate(ctx, "Trace_BlockCheck.tla", "Trace_BlockCheck.cfg", t, timeout=3000)

    with concurrent.futures.ThreadPoolExecutor(max_workers=4) as ex:
        futs = {t: ex.submit(validate, t) for t in traces}
        for t in traces:
            ok, info = futs[t].result()
            rows = rows_by_trace[t]
            lines += len(rows)
            drift += info.get("drift") or 0
            if ok:
                continue
            broken = info.get("broken")
            if not broken:
                raise vlib.CheckError("trace rejected without a broken clause: %s" % info)
            for line, clause in broken:
                if clause.startswith("Harness"):
                    raise vlib.CheckError("driver and case table disagree (%s) at trace line %d: %s"
                                          % (clause, line, json.dumps(rows[line - 1])[:600]))
                b = max(i for i in range(line) if rows[i]["ev"] == "Begin")
                o = max(i for i in range(b) if rows[i]["ev"] == "Orig")
                end = next((i for i in range(b + 1, len(rows)) if rows[i]["ev"] in ("Begin", "Skip", "Orig")), len(rows))
                begin = rows[b]
                if begin["c"]["t"] == "struct":
                    # which header parts a block carries does not depend on the kind of the honest block of that height
                    key = "C03:%s:%s" % (clause.split(":")[0], case_class(begin["c"]))
                else:
                    key = "C03:%s:%s:%s" % (clause.split(":")[0], begin["kind"], case_class(begin["c"], begin["diff"]))
                if key in reported:
                    reported[key]["n"] += 1
                    continue
                reported[key] = {"n": 1, "clause": clause, "rows": [rows[o]] + rows[b:end], "line": line, "bad": rows[line - 1]}
    for n, (key, v) in enumerate(reported.items()):
        if n >= 40:
            ctx.notes.append("%d further distinct violation signatures not listed" % (len(reported) - 40))
            break
        ex_path = ctx.path("replay_%d.ndjson" % n)
        vlib.write_ndjson(ex_path, v["rows"])
        o, begin = v["rows"][0], v["rows"][1]
        what = ("clause %s broken by the real validator: original #%d (height %d, kind %s, %d txs%s), case %s, fields really "
                "changed %s; observed %s (%d occurrence(s) of this signature)"
                % (v["clause"], o["id"], o["h"], o["kind"], o["txs"], (", " + o["note"]) if o.get("note") else "",
                   json.dumps(begin["c"]), begin["diff"], json.dumps({k: v["bad"].get(k) for k in ("ev", "r", "stage", "err", "mode", "twin_is", "stored_header_is_honest",
                                                              "tx_index_entries", "honest_txs") if k in v["bad"]}), v["n"]))
        vlib.report_violation(ctx, key, what, replay_src=ex_path, payload={"case": begin["c"], "seed": ctx.seed, "original": o})

    if not reported:
        selftest(ctx, traces[0])

    samples = []
    for t in traces[:1]:
        begins = [x for x in rows_by_trace[t] if x["ev"] == "Begin"]
        for x in (begins[0], begins[len(begins) // 2], begins[-1]):
            samples.append({"orig": x["orig"], "kind": x["kind"], "case": x["c"], "diff": x["diff"]})
    cov = {
        "states": r.distinct, "transitions": r.generated,
        "cases_in_table": len(table),
        "traces_validated_against_impl": cnt["offered"],
        "trace_lines_validated": lines,
        "originals": {k[5:]: v for k, v in cnt.items() if k.startswith("orig_")},
        "offered_by_type": {k[8:]: v for k, v in cnt.items() if k.startswith("offered_")},
        "skipped": {"unchanged_encoding": cnt["skipped_same"], "not_applicable": cnt["skipped_na"]},
        "verdicts": {k: v for k, v in cnt.items() if k.split("_")[0] in ("validate", "add", "insert")},
        "single_cases_never_offered": [list(k) for k in missing],
        "stage_drift_steps": drift,
        "samples": samples,
        "model_cfg": cfg,
        "exhaustive": True,
        "rule": "every case of the bounded table (4 block kinds x 12/7 derived fields x 5 operators, 10 body edits, 5 window and 3 proposer "
                "cases, 256 sibling mixes per kind, 13 structural cases, all single cases; a seeded sample of the two-part cases) offered to a fresh real "
                "node on every original of %s; expectation of the model = oracle"
                % ("a 14-block chain" if quick else "two chains of 60 (up to 4 rejected cases per node before the original is inserted) and 30 blocks"),
    }
    return vlib.finish(ctx, "model_checking", cov, assumptions=[
        "hash functions are collision free (an injective dependency of a field on a changed input is a certain mismatch)",
        "the proposer's free choices (timestamp inside the window, offline-vote bits and address, upgrade bits, an absent fee rate) "
        "carry no expectation; they are offered and only the no-side-effect clause is evaluated on them",
        "a well-formed header carries exactly one part (empty or proposed) and an empty block carries no transactions; the wire layer "
        "enforces the first (Header.IsValid) and rebuilds empty bodies locally, the validator is held to both on its own",
        "the validator's state is its own committed state (checkState = nil, as the consensus engine, proposals and fork paths call it)",
    ])
